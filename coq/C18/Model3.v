(* C18 - third part of the executable model: binary operators between instant vectors and scalars and between two
   instant vectors with one-to-one vector matching (on / ignoring), as upstream promql/engine.go defines them
   (VectorscalarBinop, VectorBinop, signatureFunc, resultMetric) at the version pinned by the repository's go.mod.

   Values are rationals. Division / modulo by zero have no rational value (the engines answer +-Inf / NaN): the model
   returns 0 there and the correspondence skips every case in which an engine returned a non-finite value.
   The power operator and atan2 are not modelled (differential only); group_left / group_right are not modelled. *)
From Coq Require Import String.
From Coq Require Import QArith Qround ZArith List Bool.
From OG Require Import C18.Model.
Import ListNotations.
Open Scope Q_scope.

Inductive binop := OAdd | OSub | OMul | ODiv | OMod | OEq | ONe | OGt | OLt | OGe | OLe.

Definition is_cmp (op : binop) : bool :=
  match op with OEq | ONe | OGt | OLt | OGe | OLe => true | _ => false end.

(* math.Mod: the result has the sign of x and magnitude below |y|:  x - y * trunc(x / y) *)
Definition qtrunc (q : Q) : Z := Z.quot (Qnum q) (Zpos (Qden q)).
Definition qmod (x y : Q) : Q := if Qeq_bool y 0 then 0 else x - y * inject_Z (qtrunc (x / y)).

Definition arith (op : binop) (a b : Q) : Q :=
  match op with
  | OAdd => a + b | OSub => a - b | OMul => a * b
  | ODiv => if Qeq_bool b 0 then 0 else a / b
  | OMod => qmod a b
  | _ => 0
  end.

Definition cmp (op : binop) (a b : Q) : bool :=
  match op with
  | OEq => Qeq_bool a b | ONe => negb (Qeq_bool a b)
  | OGt => Qltb b a | OLt => Qltb a b
  | OGe => Qle_bool b a | OLe => Qle_bool a b
  | _ => true
  end.

Definition drop_name (ls : labels) : labels := filter (fun kv => negb (String.eqb (fst kv) name_label)) ls.
Definition b2q (b : bool) : Q := if b then 1 else 0.

(* the value and label set upstream gives an element that survives:  shouldDropMetricName(op) || returnBool *)
Definition drops_name (op : binop) (retBool : bool) : bool := negb (is_cmp op) || retBool.

(* ---- vector <op> scalar  (swap: the scalar is the LEFT operand) ---- *)
Definition vs_elem (op : binop) (retBool swap : bool) (s : Q) (e : elem) : list elem :=
  let '(ls, x) := e in
  let l := if swap then s else x in
  let r := if swap then x else s in
  if is_cmp op then
    if retBool then [(drop_name ls, b2q (cmp op l r))]
    else if cmp op l r then [(ls, x)] else []      (* a filter keeps the VECTOR element's value and its metric name *)
  else [(drop_name ls, arith op l r)].

Definition vs_binop (op : binop) (retBool swap : bool) (s : Q) (v : list elem) : list elem :=
  flat_map (vs_elem op retBool swap s) v.

(* ---- vector <op> vector, one-to-one ---- *)
Record vmatch := { vm_on : bool; vm_labels : list string }.

(* signatureFunc: on(L) keeps exactly the labels L; ignoring(L) (also the default, L = []) drops L and the metric name *)
Definition sig (m : vmatch) (ls : labels) : labels := group_key (negb (vm_on m)) (vm_labels m) ls.

(* resultMetric for CardOneToOne *)
Definition result_metric (op : binop) (retBool : bool) (m : vmatch) (ls : labels) : labels :=
  let l1 := if drops_name op retBool then drop_name ls else ls in
  if vm_on m then key_by (vm_labels m) l1
  else filter (fun kv => negb (mem_str (fst kv) (vm_labels m))) l1.

Fixpoint lookup_sig (m : vmatch) (sg : labels) (v : list elem) : option elem :=
  match v with
  | [] => None
  | e :: r => if labels_eqb sg (sig m (fst e)) then Some e else lookup_sig m sg r
  end.

Definition mem_labels (k : labels) (l : list labels) : bool := existsb (labels_eqb k) l.

Fixpoint nodup_sigs (l : list labels) : bool :=
  match l with [] => true | x :: r => negb (mem_labels x r) && nodup_sigs r end.

(* the loop of VectorBinop over the left-hand side; matched = signatures that already produced an output element.
   None = "multiple matches for labels: many-to-one matching must be explicit" *)
Fixpoint vv_loop (op : binop) (retBool : bool) (m : vmatch) (rhs lhs : list elem) (matched : list labels) : option (list elem) :=
  match lhs with
  | [] => Some []
  | (ls, x) :: rest =>
      let sg := sig m ls in
      match lookup_sig m sg rhs with
      | None => vv_loop op retBool m rhs rest matched
      | Some (_, y) =>
          let keep := cmp op x y in
          if is_cmp op && negb retBool && negb keep then vv_loop op retBool m rhs rest matched
          else if mem_labels sg matched then None
          else
            let v := if is_cmp op then (if retBool then b2q keep else x) else arith op x y in
            option_map (cons (result_metric op retBool m ls, v)) (vv_loop op retBool m rhs rest (sg :: matched))
      end
  end.

Definition is_nil {A} (l : list A) : bool := match l with [] => true | _ => false end.

(* upstream short-circuits when one side is empty ("nothing is going to match", before any duplicate check); otherwise
   None also for duplicate signatures on the right-hand side ("found duplicate series for the match group") *)
Definition vv_binop (op : binop) (retBool : bool) (m : vmatch) (lhs rhs : list elem) : option (list elem) :=
  if is_nil lhs || is_nil rhs then Some []
  else if nodup_sigs (map (fun e => sig m (fst e)) rhs) then vv_loop op retBool m rhs lhs [] else None.

(* ---------------------------------------------------------------------------------------------------- *)
(* range queries: the operator walks the rows of the two matched series step by step                      *)
(* (engine/executor/prom_binop_transform.go computeMatchResult).  A chunk of the primary side holds the rows  *)
(* (step, value) of consecutive series (tag groups); the secondary series is merged with the rows of its    *)
(* match group g.  Today's code leaves the group only at the end of the CHUNK (primaryGroups.add(pChunk.Len())): *)
(* the cursor runs on into the rows of the following series.  The repaired code stops at the end of the group. *)

Fixpoint join_walk (f : Q -> Q -> Q) (fuel : nat) (s p : list sample) : list sample :=
  match fuel with
  | O => []
  | S k =>
      match s, p with
      | (ts, vs) :: s', (tp, vp) :: p' =>
          if (tp <? ts)%Z then join_walk f k s p'
          else if (ts <? tp)%Z then join_walk f k s' p
          else (tp, f vs vp) :: join_walk f k s' p'
      | _, _ => []
      end
  end.

Definition walk_rows (f : Q -> Q -> Q) (s p : list sample) : list sample := join_walk f (length s + length p) s p.
Definition walk_current (f : Q -> Q -> Q) (s : list sample) (chunk : list (list sample)) (g : nat) : list sample :=
  walk_rows f s (concat (skipn g chunk)).
Definition walk_repaired (f : Q -> Q -> Q) (s : list sample) (chunk : list (list sample)) (g : nat) : list sample :=
  walk_rows f s (nth g chunk []).

(* what the sequence of instant queries gives: a point at every step at which BOTH series have a value *)
Definition value_at (t : Z) (p : list sample) : option Q := option_map snd (find (fun r => (fst r =? t)%Z) p).
Definition join_spec (f : Q -> Q -> Q) (s p : list sample) : list sample :=
  flat_map (fun r => match value_at (fst r) p with Some vp => [(fst r, f (snd r) vp)] | None => [] end) s.
