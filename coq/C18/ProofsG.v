(* C18 proofs, part G: binary operators - vector/scalar label and value rules, one-to-one vector matching is a partial
   bijection on signatures, the result label set follows upstream's resultMetric rule and never repeats. *)
From Coq Require Import String.
From Coq Require Import QArith ZArith List Bool Lia Permutation.
From OG Require Import C18.Model C18.Model3 C18.ProofsA C18.ProofsC C18.ProofsD.
Import ListNotations.

(* ---- filters ---- *)
Lemma filter_filter_ext {A} (f g h : A -> bool) l :
  (forall x, In x l -> f x && g x = h x) -> filter f (filter g l) = filter h l.
Proof.
  induction l as [|x l IH]; simpl; intros H; [reflexivity|].
  assert (Hx := H x (or_introl eq_refl)). assert (Hl : forall y, In y l -> f y && g y = h y) by (intros; apply H; right; assumption).
  destruct (g x) eqn:Eg; simpl.
  - rewrite andb_true_r in Hx. rewrite Hx. destruct (h x); rewrite IH; auto.
  - rewrite andb_false_r in Hx. rewrite <- Hx. apply IH. exact Hl.
Qed.

Lemma mem_str_In s l : mem_str s l = true <-> In s l.
Proof.
  unfold mem_str. rewrite existsb_exists. split.
  - intros [x [Hin E]]. apply String.eqb_eq in E. subst. exact Hin.
  - intros H. exists s. split; auto. apply String.eqb_refl.
Qed.

Lemma drop_name_no_name ls : ~ In name_label (map fst (drop_name ls)).
Proof.
  unfold drop_name. intros H. apply in_map_iff in H. destruct H as [kv [E Hin]]. apply filter_In in Hin.
  destruct Hin as [_ Hn]. rewrite E, String.eqb_refl in Hn. discriminate.
Qed.

Lemma in_filter_fst {A B} (f : A * B -> bool) (l : list (A * B)) k : In k (map fst (filter f l)) -> In k (map fst l).
Proof.
  intros H. apply in_map_iff in H. destruct H as [kv [E Hin]]. apply filter_In in Hin. apply in_map_iff. exists kv. tauto.
Qed.

(* arithmetic and bool-comparison results never carry the metric name *)
Theorem result_metric_no_name op rb m ls :
  drops_name op rb = true -> ~ In name_label (map fst (result_metric op rb m ls)).
Proof.
  intros H. unfold result_metric. rewrite H. destruct (vm_on m); unfold key_by; intros Hin; apply in_filter_fst in Hin;
    exact (drop_name_no_name ls Hin).
Qed.

(* a comparison filter without on/ignoring labels keeps the whole left-hand label set, metric name included *)
Theorem result_metric_filter_keeps_labels op ls :
  is_cmp op = true -> result_metric op false {| vm_on := false; vm_labels := [] |} ls = ls.
Proof.
  intros H. unfold result_metric, drops_name. rewrite H. simpl.
  induction ls as [|kv ls IH]; simpl; [reflexivity|]. rewrite IH. reflexivity.
Qed.

Lemma in_drop_name kv ls : In kv (drop_name ls) <-> In kv ls /\ fst kv <> name_label.
Proof.
  unfold drop_name. rewrite filter_In, negb_true_iff. split; intros [H1 H2]; split; auto.
  - apply String.eqb_neq. exact H2. - apply String.eqb_neq. exact H2.
Qed.

(* on(L) keeps exactly L; ignoring(L) removes exactly L (and the name when it is dropped) *)
Theorem result_metric_labels op rb m ls kv :
  In kv (result_metric op rb m ls) <->
  In kv ls /\ (drops_name op rb = true -> fst kv <> name_label) /\
  (if vm_on m then In (fst kv) (vm_labels m) else ~ In (fst kv) (vm_labels m)).
Proof.
  unfold result_metric, key_by.
  assert (Hneg : negb (mem_str (fst kv) (vm_labels m)) = true <-> ~ In (fst kv) (vm_labels m)).
  { rewrite negb_true_iff, <- not_true_iff_false, mem_str_In. tauto. }
  destruct (drops_name op rb), (vm_on m); rewrite filter_In; rewrite ?in_drop_name, ?mem_str_In, ?Hneg; intuition congruence.
Qed.

(* the signature of the result is the signature of the left-hand element *)
Theorem sig_result_metric op rb m ls :
  (vm_on m = true -> ~ In name_label (vm_labels m)) ->
  sig m (result_metric op rb m ls) = sig m ls.
Proof.
  intros Hon. unfold sig, result_metric, group_key, key_by, key_without, drop_name.
  set (A := fun kv : string * string => mem_str (fst kv) (vm_labels m)).
  set (N := fun kv : string * string => negb (String.eqb (fst kv) name_label)).
  set (I := fun kv : string * string => negb (mem_str (fst kv) (vm_labels m))).
  set (W := fun kv : string * string => negb (mem_str (fst kv) (vm_labels m)) && negb (String.eqb (fst kv) name_label)).
  destruct (vm_on m) eqn:Eon; simpl negb; cbv iota.
  - specialize (Hon eq_refl).
    assert (E1 : filter A (filter N ls) = filter A ls).
    { apply filter_filter_ext. intros x _. unfold A, N. destruct (mem_str (fst x) (vm_labels m)) eqn:E; [|reflexivity].
      destruct (String.eqb (fst x) name_label) eqn:E2; [|reflexivity]. apply String.eqb_eq in E2. apply mem_str_In in E.
      rewrite E2 in E. contradiction. }
    destruct (drops_name op rb); [rewrite E1|]; apply filter_filter_ext; intros x _; apply andb_diag.
  - assert (E1 : filter I (filter N ls) = filter W ls) by (apply filter_filter_ext; intros x _; reflexivity).
    destruct (drops_name op rb); [rewrite E1|]; apply filter_filter_ext; intros x _; unfold W, I;
      destruct (mem_str (fst x) (vm_labels m)), (String.eqb (fst x) name_label); reflexivity.
Qed.

(* ---- vector <op> scalar ---- *)
Theorem vs_arith_labels op rb swap s v :
  is_cmp op = false -> map fst (vs_binop op rb swap s v) = map (fun e => drop_name (fst e)) v.
Proof.
  intros H. unfold vs_binop. induction v as [|[ls x] v IH]; simpl; [reflexivity|]. rewrite H. simpl. rewrite IH. reflexivity.
Qed.
Theorem vs_bool_labels_values op swap s v :
  is_cmp op = true ->
  vs_binop op true swap s v = map (fun e => (drop_name (fst e), b2q (cmp op (if swap then s else snd e) (if swap then snd e else s)))) v.
Proof.
  intros H. unfold vs_binop. induction v as [|[ls x] v IH]; simpl; [reflexivity|]. rewrite H. simpl. rewrite IH. reflexivity.
Qed.
(* a filter returns a sub-vector: label sets (metric name included) and the VECTOR's values are untouched *)
Theorem vs_filter_is_subvector op swap s v :
  is_cmp op = true ->
  vs_binop op false swap s v = filter (fun e => cmp op (if swap then s else snd e) (if swap then snd e else s)) v.
Proof.
  intros H. unfold vs_binop. induction v as [|[ls x] v IH]; simpl; [reflexivity|]. rewrite H. simpl.
  destruct (cmp op _ _); simpl; rewrite IH; reflexivity.
Qed.

(* ---- one-to-one matching ---- *)
Lemma mem_labels_In k l : mem_labels k l = true <-> In k l.
Proof.
  unfold mem_labels. rewrite existsb_exists. split.
  - intros [x [Hin E]]. apply labels_eqb_eq in E. subst. exact Hin.
  - intros H. exists k. split; auto. apply labels_eqb_eq. reflexivity.
Qed.
Lemma mem_labels_false k l : mem_labels k l = false <-> ~ In k l.
Proof. rewrite <- mem_labels_In. destruct (mem_labels k l); intuition congruence. Qed.

Lemma nodup_sigs_NoDup l : nodup_sigs l = true <-> NoDup l.
Proof.
  induction l as [|x l IH]; simpl.
  - split; [constructor|reflexivity].
  - rewrite andb_true_iff, negb_true_iff, mem_labels_false, IH. split.
    + intros [H1 H2]. constructor; assumption.
    + intros H. inversion H; subst. split; assumption.
Qed.

Lemma NoDup_map_inj {A B} (f : A -> B) l a b : NoDup (map f l) -> In a l -> In b l -> f a = f b -> a = b.
Proof.
  induction l as [|x l IH]; simpl; intros Hn Ha Hb E; [contradiction|].
  inversion Hn as [|? ? Hx Hl]; subst.
  destruct Ha as [->|Ha], Hb as [->|Hb]; auto.
  - exfalso. apply Hx. rewrite E. apply in_map. exact Hb.
  - exfalso. apply Hx. rewrite <- E. apply in_map. exact Ha.
Qed.

Definition sigf (m : vmatch) (e : elem) : labels := sig m (fst e).

Lemma lookup_sig_some m sg rhs r : lookup_sig m sg rhs = Some r -> In r rhs /\ sigf m r = sg.
Proof.
  induction rhs as [|e rhs IH]; simpl; [discriminate|]. destruct (labels_eqb sg (sig m (fst e))) eqn:E.
  - intros H. injection H as <-. split; [left; reflexivity|]. symmetry. apply labels_eqb_eq. exact E.
  - intros H. destruct (IH H). split; [right|]; assumption.
Qed.
Lemma lookup_sig_none m sg rhs : lookup_sig m sg rhs = None -> forall r, In r rhs -> sigf m r <> sg.
Proof.
  induction rhs as [|e rhs IH]; simpl; intros H r Hin; [contradiction|].
  destruct (labels_eqb sg (sig m (fst e))) eqn:E; [discriminate|]. destruct Hin as [<-|Hin].
  - intros E'. unfold sigf in E'. rewrite E' in E. assert (labels_eqb sg sg = true) by (apply labels_eqb_eq; reflexivity). congruence.
  - apply IH; assumption.
Qed.
Lemma lookup_sig_complete m rhs r : NoDup (map (sigf m) rhs) -> In r rhs -> lookup_sig m (sigf m r) rhs = Some r.
Proof.
  intros Hn Hin. destruct (lookup_sig m (sigf m r) rhs) as [r'|] eqn:E.
  - destruct (lookup_sig_some _ _ _ _ E) as [Hin' Hs]. f_equal. eapply NoDup_map_inj; eauto.
  - exfalso. exact (lookup_sig_none _ _ _ E r Hin eq_refl).
Qed.

(* the right-hand partner of a left-hand element is unique (signatures on the right are pairwise different) *)
Theorem match_right_unique m rhs l r r' :
  nodup_sigs (map (sigf m) rhs) = true -> In r rhs -> In r' rhs -> sigf m l = sigf m r -> sigf m l = sigf m r' -> r = r'.
Proof.
  intros Hn Hr Hr' E E'. apply nodup_sigs_NoDup in Hn. eapply NoDup_map_inj; eauto. congruence.
Qed.

(* every run of the loop that succeeds gives output elements with pairwise different signatures, none of them matched before *)
Lemma vv_loop_sigs op rb m rhs : (vm_on m = true -> ~ In name_label (vm_labels m)) ->
  forall lhs matched out, vv_loop op rb m rhs lhs matched = Some out ->
  NoDup (map (sigf m) out) /\ (forall k, In k (map (sigf m) out) -> ~ In k matched).
Proof.
  intros Hon. induction lhs as [|[ls x] lhs IH]; intros matched out H.
  - simpl in H. injection H as <-. split; [constructor|intros k []].
  - cbn [vv_loop] in H. destruct (lookup_sig m (sig m ls) rhs) as [[lr y]|]; [|apply IH; exact H].
    destruct (is_cmp op && negb rb && negb (cmp op x y)); [apply IH; exact H|].
    destruct (mem_labels (sig m ls) matched) eqn:Em; [discriminate|].
    destruct (vv_loop op rb m rhs lhs (sig m ls :: matched)) as [out'|] eqn:E; [|discriminate].
    simpl in H. injection H as <-. destruct (IH _ _ E) as [Hn Hk].
    assert (Es : sigf m (result_metric op rb m ls, if is_cmp op then if rb then b2q (cmp op x y) else x else arith op x y) = sig m ls).
    { unfold sigf. cbn [fst]. apply sig_result_metric. exact Hon. }
    cbn [map]. rewrite Es. split.
    + constructor; [|exact Hn]. intros Hin. apply (Hk _ Hin). left. reflexivity.
    + intros k [<-|Hin]; [apply mem_labels_false; exact Em|]. intros Hm. apply (Hk _ Hin). right. exact Hm.
Qed.

Lemma NoDup_map_NoDup {A B} (f : A -> B) l : NoDup (map f l) -> NoDup l.
Proof.
  induction l as [|x l IH]; simpl; intros H; [constructor|]. inversion H; subst. constructor; auto.
  intros Hin. apply H2. apply in_map. exact Hin.
Qed.

(* the answer of a one-to-one vector operation never contains the same label set twice *)
Theorem vv_binop_no_duplicate_series op rb m lhs rhs out :
  (vm_on m = true -> ~ In name_label (vm_labels m)) ->
  vv_binop op rb m lhs rhs = Some out -> NoDup (map fst out).
Proof.
  intros Hon H. unfold vv_binop in H.
  destruct (is_nil lhs || is_nil rhs); [injection H as <-; constructor|].
  destruct (nodup_sigs _); [|discriminate].
  destruct (vv_loop_sigs op rb m rhs Hon _ _ _ H) as [Hn _].
  apply (NoDup_map_NoDup (sig m)). rewrite map_map. exact Hn.
Qed.

(* arithmetic and bool comparisons (nothing is filtered): the left-hand elements that have a partner, in order *)
Definition partnered (m : vmatch) (rhs lhs : list elem) : list elem :=
  filter (fun l => match lookup_sig m (sigf m l) rhs with Some _ => true | None => false end) lhs.

Definition pair_out (op : binop) (rb : bool) (m : vmatch) (rhs : list elem) (l : elem) : elem :=
  match lookup_sig m (sigf m l) rhs with
  | Some r => (result_metric op rb m (fst l),
               if is_cmp op then (if rb then b2q (cmp op (snd l) (snd r)) else snd l) else arith op (snd l) (snd r))
  | None => l
  end.

Lemma partnered_cons m rhs ls x lhs :
  partnered m rhs ((ls, x) :: lhs) =
  match lookup_sig m (sig m ls) rhs with Some _ => (ls, x) :: partnered m rhs lhs | None => partnered m rhs lhs end.
Proof. unfold partnered. cbn [filter]. unfold sigf at 1. cbn [fst]. destruct (lookup_sig m (sig m ls) rhs); reflexivity. Qed.

Lemma vv_loop_total op rb m rhs : is_cmp op && negb rb = false ->
  forall lhs matched out, vv_loop op rb m rhs lhs matched = Some out ->
  out = map (pair_out op rb m rhs) (partnered m rhs lhs) /\
  NoDup (map (sigf m) (partnered m rhs lhs)) /\ (forall l, In l (partnered m rhs lhs) -> ~ In (sigf m l) matched).
Proof.
  intros Hf. induction lhs as [|[ls x] lhs IH]; intros matched out H.
  - simpl in H. injection H as <-. repeat split; [constructor|intros l []].
  - cbn [vv_loop] in H. rewrite partnered_cons.
    destruct (lookup_sig m (sig m ls) rhs) as [[lr y]|] eqn:El; [|apply IH; exact H].
    rewrite Hf in H. cbn [andb] in H.
    destruct (mem_labels (sig m ls) matched) eqn:Em; [discriminate|].
    destruct (vv_loop op rb m rhs lhs (sig m ls :: matched)) as [out'|] eqn:E; [|discriminate].
    simpl in H. injection H as <-. destruct (IH _ _ E) as [Ho [Hn Hk]].
    repeat split.
    + cbn [map]. unfold pair_out at 1. unfold sigf. cbn [fst snd]. rewrite El. cbn [snd]. rewrite Ho. reflexivity.
    + cbn [map]. constructor; [|exact Hn]. unfold sigf at 1. cbn [fst]. intros Hin. apply in_map_iff in Hin.
      destruct Hin as [l' [E' Hin']]. apply (Hk _ Hin'). left. symmetry. exact E'.
    + intros l [<-|Hin]; [unfold sigf; cbn [fst]; apply mem_labels_false; exact Em|].
      intros Hm. apply (Hk _ Hin). right. exact Hm.
Qed.

(* ONE-TO-ONE MATCHING IS A PARTIAL BIJECTION.  If the operation succeeds (no many-to-many error) and filters nothing
   (arithmetic, or a comparison with bool), then with  P l r := l in lhs, r in rhs, same signature:
   every l has at most one r, every r has at most one l, and the answer is exactly one element per pair of P, carrying
   upstream's resultMetric label set and the operator applied to the two values. *)
Lemma partnered_nil_r m lhs : partnered m [] lhs = [].
Proof. unfold partnered. induction lhs as [|l lhs IH]; simpl; auto. Qed.

Theorem vv_one_to_one_partial_bijection op rb m lhs rhs out :
  is_cmp op && negb rb = false ->
  vv_binop op rb m lhs rhs = Some out ->
  (forall l r r', In l lhs -> In r rhs -> In r' rhs -> sigf m l = sigf m r -> sigf m l = sigf m r' -> r = r') /\
  (forall l l' r, In l lhs -> In l' lhs -> In r rhs -> sigf m l = sigf m r -> sigf m l' = sigf m r -> l = l') /\
  out = map (pair_out op rb m rhs) (partnered m rhs lhs) /\
  (forall l, In l (partnered m rhs lhs) <-> In l lhs /\ exists r, In r rhs /\ sigf m l = sigf m r).
Proof.
  intros Hf H. unfold vv_binop in H.
  destruct (is_nil lhs || is_nil rhs) eqn:Es.
  { injection H as <-. apply orb_true_iff in Es. destruct Es as [Es|Es].
    - destruct lhs; [|discriminate]. cbn [partnered filter map].
      split; [intros l r r' []|]. split; [intros l l' r []|]. split; [reflexivity|].
      intros l. split; [intros []|intros [[] _]].
    - destruct rhs; [|discriminate]. rewrite partnered_nil_r. cbn [map].
      split; [intros l r r' _ []|]. split; [intros l l' r _ _ []|]. split; [reflexivity|].
      intros l. split; [intros []|intros [_ [r [[] _]]]]. }
  destruct (nodup_sigs (map (fun e => sig m (fst e)) rhs)) eqn:En; [|discriminate].
  change (map (fun e => sig m (fst e)) rhs) with (map (sigf m) rhs) in En.
  destruct (vv_loop_total op rb m rhs Hf _ _ _ H) as [Ho [Hn _]].
  assert (Hp : forall l, In l (partnered m rhs lhs) <-> In l lhs /\ exists r, In r rhs /\ sigf m l = sigf m r).
  { intros l. unfold partnered. rewrite filter_In. split.
    - intros [Hin Hs]. split; auto. destruct (lookup_sig m (sigf m l) rhs) as [r|] eqn:E; [|discriminate].
      destruct (lookup_sig_some _ _ _ _ E). exists r. split; auto.
    - intros [Hin [r [Hr E]]]. split; auto. rewrite E. rewrite lookup_sig_complete; auto. apply nodup_sigs_NoDup. exact En. }
  split; [|split; [|split]].
  - intros l r r' _. apply match_right_unique. exact En.
  - intros l l' r Hin Hin' Hr E E'. apply (NoDup_map_inj (sigf m) (partnered m rhs lhs)); [exact Hn| | |congruence].
    + apply Hp. split; auto. exists r. auto.
    + apply Hp. split; auto. exists r. auto.
  - exact Ho.
  - exact Hp.
Qed.
