From Coq Require Import String.
From Coq Require Import QArith ZArith List Bool Lia Lqa Setoid Morphisms Sorted Permutation.
From OG Require Import C18.Model.
From OG Require Import C18.ProofsA C18.ProofsB.
Import ListNotations.
Open Scope Q_scope.

(* ---- windows ---- *)
Lemma window_membership t range offset l s :
  In s (window t range offset l) <-> In s l /\ (t - offset - range <= fst s <= t - offset)%Z.
Proof.
  unfold window, in_win, win_lo, win_hi. rewrite filter_In, andb_true_iff, !Z.leb_le. tauto.
Qed.

Lemma window_left_boundary_included t range offset v :
  (0 <= range)%Z -> window t range offset [((t - offset - range)%Z, v)] = [((t - offset - range)%Z, v)].
Proof.
  intros H. unfold window, in_win, win_lo, win_hi. simpl.
  replace ((t - offset - range <=? t - offset - range)%Z) with true by (symmetry; apply Z.leb_le; lia).
  replace ((t - offset - range <=? t - offset)%Z) with true by (symmetry; apply Z.leb_le; lia). reflexivity.
Qed.
Lemma window_before_left_excluded t range offset v :
  window t range offset [((t - offset - range - 1)%Z, v)] = [].
Proof.
  unfold window, in_win, win_lo, win_hi. simpl.
  replace ((t - offset - range <=? t - offset - range - 1)%Z) with false by (symmetry; apply Z.leb_gt; lia). reflexivity.
Qed.
Lemma window_right_boundary_included t range offset v :
  (0 <= range)%Z -> window t range offset [((t - offset)%Z, v)] = [((t - offset)%Z, v)].
Proof.
  intros H. unfold window, in_win, win_lo, win_hi. simpl.
  replace ((t - offset - range <=? t - offset)%Z) with true by (symmetry; apply Z.leb_le; lia).
  replace ((t - offset <=? t - offset)%Z) with true by (symmetry; apply Z.leb_le; lia). reflexivity.
Qed.
Lemma window_after_right_excluded t range offset v :
  window t range offset [((t - offset + 1)%Z, v)] = [].
Proof.
  unfold window, in_win, win_lo, win_hi. simpl.
  replace ((t - offset + 1 <=? t - offset)%Z) with false by (symmetry; apply Z.leb_gt; lia).
  rewrite andb_false_r. reflexivity.
Qed.

Lemma filter_concat {A} (f : A -> bool) (ls : list (list A)) : filter f (concat ls) = concat (map (filter f) ls).
Proof. induction ls as [|x ls IH]; simpl; [reflexivity|]. rewrite filter_app, IH. reflexivity. Qed.

Lemma window_of_records t range offset recs :
  window t range offset (concat recs) = concat (map (window t range offset) recs).
Proof. apply filter_concat. Qed.

Lemma sorted_filter (f : sample -> bool) l : times_increasing l -> times_increasing (filter f l).
Proof.
  unfold times_increasing. induction l as [|x l IH]; simpl; intros H; [constructor|].
  apply StronglySorted_inv in H. destruct H as [H1 H2]. destruct (f x); simpl; auto.
  constructor; auto. rewrite Forall_forall in *. intros y Hy. apply H2.
  apply in_map_iff in Hy. destruct Hy as [z [Hz Hin]]. apply filter_In in Hin. apply in_map_iff. exists z. tauto.
Qed.

Lemma window_sorted t range offset l : times_increasing l -> times_increasing (window t range offset l).
Proof. apply sorted_filter. Qed.

Lemma instant_select_spec t offset l s :
  instant_select t offset l = Some s ->
  In s l /\ (t - offset - lookback <= fst s <= t - offset)%Z.
Proof.
  unfold instant_select, last_opt. destruct (window t lookback offset l) as [|x r] eqn:E; [discriminate|].
  intros H. injection H as H. apply window_membership. rewrite E. rewrite <- H.
  destruct r; [left; reflexivity|]. right. destruct (exists_last (l:=s0 :: r)) as [l' [a Ha]]; [congruence|].
  rewrite Ha. rewrite last_last. apply in_or_app. right. left. reflexivity.
Qed.

(* ---- rate over any cut of the series into records ---- *)
Theorem rate_records_equal_whole ic ir t range offset recs :
  times_increasing (concat recs) -> (0 < range)%Z ->
  oQeq (impl_extrap_split range_div_repaired ic ir t range offset (map (window t range offset) recs))
       (spec_extrap ic ir t range offset (window t range offset (concat recs))).
Proof.
  intros Hs Hr. rewrite window_of_records. apply extrap_split_equals_whole; auto.
  rewrite <- window_of_records. apply window_sorted. exact Hs.
Qed.

(* ---- whole seconds: today's integer division is harmless; otherwise refuted ---- *)
Lemma range_div_whole_seconds range : (range mod 1000 = 0)%Z -> range_div_current range == range_div_repaired range.
Proof.
  intros H. unfold range_div_current, range_div_repaired, ms_to_s.
  rewrite (Z.div_mod range 1000) at 2 by lia. rewrite H, Z.add_0_r, inject_Z_mult. field.
Qed.

Lemma impl_merge_div_ext rd1 rd2 ic ir t range offset p c :
  rd1 range == rd2 range ->
  oQeq (impl_extrap_merge rd1 ic ir t range offset p c) (impl_extrap_merge rd2 ic ir t range offset p c).
Proof.
  intros H. unfold impl_extrap_merge. destruct (_ <=? _)%Z; [exact I|].
  destruct (calc_first_last p c) as [[[t0 v0] [tl vl]]|]; [|exact I].
  destruct (_ || _); [exact I|]. destruct ir; simpl; [rewrite H|]; reflexivity.
Qed.

Theorem impl_rate_whole_seconds t range offset cut :
  times_increasing (concat cut) -> (0 < range)%Z -> (range mod 1000 = 0)%Z ->
  oQeq (impl_rate_current t range offset cut) (spec_rate t range offset (concat cut)).
Proof.
  intros Hs Hr Hm. eapply oQeq_trans; [|apply extrap_split_equals_whole; auto].
  unfold impl_rate_current, impl_extrap_split. apply impl_merge_div_ext. apply range_div_whole_seconds. exact Hm.
Qed.

(* ---- changes / resets ---- *)
Theorem count_pairs_split_equals_whole differs cut :
  impl_count_pairs_split differs cut = spec_count_pairs differs (concat cut).
Proof.
  unfold impl_count_pairs_split. rewrite <- (concat_removelast_last cut) at 1.
  generalize (concat (removelast cut)) (last cut []). intros p c.
  unfold impl_count_pairs_merge, spec_count_pairs. rewrite vals_app.
  destruct (vals p) as [|x r]; simpl.
  - destruct (vals c); reflexivity.
  - rewrite fold_left_app. reflexivity.
Qed.

(* ---- irate / idelta ---- *)
Lemma ss_app_l (l1 l2 : list Z) : StronglySorted Z.lt (l1 ++ l2) -> StronglySorted Z.lt l1.
Proof.
  induction l1 as [|x l IH]; simpl; intros H; [constructor|].
  apply StronglySorted_inv in H. destruct H as [H1 H2]. constructor; auto.
  rewrite Forall_forall in *. intros y Hy. apply H2. apply in_or_app. tauto.
Qed.
Lemma ss_last_two (m : list Z) a b : StronglySorted Z.lt (m ++ [a; b]) -> (a < b)%Z.
Proof.
  induction m as [|x m IH]; simpl; intros H.
  - apply StronglySorted_inv in H. destruct H as [_ H]. inversion H; auto.
  - apply StronglySorted_inv in H. tauto.
Qed.
Lemma sorted_app_l (a b : list sample) : times_increasing (a ++ b) -> times_increasing a.
Proof. unfold times_increasing. rewrite map_app. apply ss_app_l. Qed.
Lemma sorted_last_two (l : list sample) a b : times_increasing (l ++ [a; b]) -> (fst a < fst b)%Z.
Proof. unfold times_increasing. rewrite map_app. apply ss_last_two. Qed.

Lemma irate_step d x :
  times_increasing (d ++ x) ->
  omerge irate_update (irate_reduce d) (irate_reduce x) = irate_reduce (d ++ x).
Proof.
  intros Hs. unfold irate_reduce at 2 3. rewrite rev_app_distr.
  destruct (rev x) as [|b [|a r]] eqn:E.
  - simpl. unfold irate_reduce. destruct (rev d) as [|? [|? ?]]; reflexivity.
  - simpl. unfold irate_reduce. destruct (rev d) as [|b' [|a' r']]; simpl; unfold irate_update; simpl; rewrite ?Z.ltb_irrefl; reflexivity.
  - simpl.
    assert (Hx : x = rev r ++ [a; b]).
    { rewrite <- (rev_involutive x), E. simpl. rewrite <- app_assoc. reflexivity. }
    assert (Hlt : (fst a < fst b)%Z).
    { subst x. rewrite app_assoc in Hs. eapply sorted_last_two. exact Hs. }
    destruct (irate_reduce d); simpl; [|reflexivity].
    unfold irate_update. simpl. apply Z.ltb_lt in Hlt. rewrite Hlt. reflexivity.
Qed.

Lemma irate_fold cut : forall acc d, times_increasing (d ++ concat cut) -> acc = irate_reduce d ->
  fold_left (omerge irate_update) (map irate_reduce cut) acc = irate_reduce (d ++ concat cut).
Proof.
  induction cut as [|x cut IH]; simpl; intros acc d Hs Hacc.
  - rewrite app_nil_r. exact Hacc.
  - rewrite app_assoc in *. apply IH; auto. subst acc. apply irate_step. eapply sorted_app_l. exact Hs.
Qed.

Theorem instant_split_equals_whole isRate cut :
  times_increasing (concat cut) -> impl_instant_split isRate cut = spec_instant isRate (concat cut).
Proof.
  intros Hs. unfold impl_instant_split, spec_instant.
  rewrite (irate_fold cut None []); auto. simpl app.
  unfold last_two, irate_reduce. rewrite <- (rev_length (concat cut)).
  destruct (rev (concat cut)) as [|b [|a r]]; cbn [Datatypes.length]; try reflexivity.
  match goal with |- context [(?x <? 2)%Z] => replace (x <? 2)%Z with false by (symmetry; apply Z.ltb_ge; lia) end.
  reflexivity.
Qed.

(* ---- range query = the instant queries at its steps ---- *)
Lemma steps_spec start stop step t :
  In t (steps start stop step) <-> (0 < step)%Z /\ exists k, (0 <= k)%Z /\ t = (start + k * step)%Z /\ (t <= stop)%Z.
Proof.
  unfold steps. destruct (step <=? 0)%Z eqn:E1; simpl.
  - apply Z.leb_le in E1. split; [tauto|]. intros [H _]. lia.
  - apply Z.leb_gt in E1. destruct (stop <? start)%Z eqn:E2.
    + apply Z.ltb_lt in E2. split; [simpl; tauto|]. intros [_ [k [H1 [H2 H3]]]]. nia.
    + apply Z.ltb_ge in E2. rewrite in_map_iff. split.
      * intros [k [Hk Hin]]. apply in_seq in Hin. split; auto. exists (Z.of_nat k). split; [lia|]. split; [lia|].
        assert (Z.of_nat k <= (stop - start) / step)%Z.
        { assert (0 <= (stop - start) / step)%Z by (apply Z.div_pos; lia). lia. }
        pose proof (Z.mul_div_le (stop - start) step E1). nia.
      * intros [_ [k [H1 [H2 H3]]]]. exists (Z.to_nat k). split; [lia|]. apply in_seq.
        assert (k <= (stop - start) / step)%Z by (apply Z.div_le_lower_bound; lia). lia.
Qed.

Section RangeInstants.
  Variable L : Type.
  Variable eval : list sample -> Z -> option Q.

  Theorem range_is_instants (db : list (series L)) start stop step ls t v :
    (exists pts, In (ls, pts) (range_query L eval db start stop step) /\ In (t, v) pts) <->
    (In t (steps start stop step) /\ In (ls, v) (instant_query L eval db t)).
  Proof.
    unfold range_query, instant_query. split.
    - intros [pts [H1 H2]]. apply in_map_iff in H1. destruct H1 as [s [Hs Hin]]. injection Hs as Hl Hp. subst pts.
      apply in_flat_map in H2. destruct H2 as [t' [Ht' H2]].
      destruct (eval (snd s) t') as [v'|] eqn:Ev; simpl in H2; [|tauto]. destruct H2 as [H2|[]]. injection H2 as -> ->.
      split; auto. apply in_flat_map. exists s. split; auto. rewrite Ev. left. congruence.
    - intros [Ht H]. apply in_flat_map in H. destruct H as [s [Hin H]].
      destruct (eval (snd s) t) as [v'|] eqn:Ev; simpl in H; [|tauto]. destruct H as [H|[]]. injection H as <- <-.
      eexists. split. + apply in_map_iff. exists s. split; [reflexivity|exact Hin].
      + apply in_flat_map. exists t. split; auto. rewrite Ev. left. reflexivity.
  Qed.

  (* the points of one series in the range answer are exactly its instant values, in step order *)
  Theorem range_series_points (s : series L) start stop step :
    snd (List.hd (fst s, []) (range_query L eval [s] start stop step)) =
    flat_map (fun t => match eval (snd s) t with Some v => [(t, v)] | None => [] end) (steps start stop step).
  Proof. reflexivity. Qed.
End RangeInstants.
