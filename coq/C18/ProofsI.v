(* C18 proofs, part I: staleness markers - filtering record by record = filtering the whole window, for every cut (also
   when a record becomes empty); selector rules. *)
From Coq Require Import String.
From Coq Require Import QArith ZArith List Bool Lia.
From OG Require Import C18.Model C18.Model2 C18.Model4 C18.ProofsA C18.ProofsB C18.ProofsC C18.ProofsE C18.ProofsF.
Import ListNotations.
Open Scope Q_scope.

Lemma drop_stale_app a b : drop_stale (a ++ b) = drop_stale a ++ drop_stale b.
Proof. unfold drop_stale. apply flat_map_app. Qed.

Lemma drop_stale_concat cut : concat (filter_records cut) = drop_stale (concat cut).
Proof.
  unfold filter_records. induction cut as [|r cut IH]; simpl; [reflexivity|]. rewrite IH, drop_stale_app. reflexivity.
Qed.

(* dropping the markers commutes with taking the window *)
Lemma window_drop_stale t range offset l : window t range offset (drop_stale l) = range_select t range offset l.
Proof.
  unfold range_select, window, owindow. set (lo := win_lo t range offset). set (hi := win_hi t offset).
  induction l as [|[ts o] l IH]; [reflexivity|].
  change (drop_stale ((ts, o) :: l)) with ((match o with Some v => [(ts, v)] | None => [] end) ++ drop_stale l).
  rewrite filter_app.
  assert (E : forall v, in_win lo hi (ts, v) = oin_win lo hi (ts, o)) by reflexivity.
  destruct o as [v|]; cbn [filter app].
  - rewrite (E v). destruct (oin_win lo hi (ts, Some v)).
    + change (drop_stale ((ts, Some v) :: filter (oin_win lo hi) l)) with ((ts, v) :: drop_stale (filter (oin_win lo hi) l)).
      cbn [app]. f_equal. exact IH.
    + exact IH.
  - destruct (oin_win lo hi (ts, None)); exact IH.
Qed.

(* GENERIC: any reducer whose split form equals its whole-window form for every cut keeps doing so when the records are
   filtered one by one - in particular when a record holds nothing but markers and becomes empty *)
Theorem stale_repaired_split {A} (R : option A -> option A -> Prop) (split : list (list sample) -> option A) (spec : list sample -> option A) :
  (forall cut, R (split cut) (spec (concat cut))) ->
  forall cut, R (stale_protocol_repaired split cut) (spec (drop_stale (concat cut))).
Proof. intros H cut. unfold stale_protocol_repaired. rewrite <- drop_stale_concat. apply H. Qed.

(* instances *)
Theorem stale_count_over_time cut :
  oQeq (stale_protocol_repaired impl_count_over_time cut) (spec_count_over_time (drop_stale (concat cut))).
Proof. apply (stale_repaired_split oQeq). exact count_split_equals_whole. Qed.
Theorem stale_sum_over_time cut :
  oQeq (stale_protocol_repaired impl_sum_over_time cut) (spec_sum_over_time (drop_stale (concat cut))).
Proof. apply (stale_repaired_split oQeq). exact sum_split_equals_whole. Qed.
Theorem stale_avg_over_time cut :
  oQeq (stale_protocol_repaired impl_avg_over_time cut) (spec_avg_over_time (drop_stale (concat cut))).
Proof. apply (stale_repaired_split oQeq). exact avg_split_equals_whole. Qed.
Theorem stale_last_over_time cut :
  oQeq (stale_protocol_repaired impl_last_over_time cut) (spec_last_over_time (drop_stale (concat cut))).
Proof. apply (stale_repaired_split oQeq). exact last_split_equals_whole. Qed.
Theorem stale_stdvar_over_time cut :
  stale_protocol_repaired impl_stdvar_split cut = spec_stdvar_over_time (drop_stale (concat cut)).
Proof. apply (stale_repaired_split eq). exact stdvar_split_equals_whole. Qed.
Theorem stale_quantile_over_time q cut :
  stale_protocol_repaired (impl_quantile_split q) cut = spec_quantile_over_time q (drop_stale (concat cut)).
Proof. apply (stale_repaired_split eq). exact (quantile_split_equals_whole q). Qed.
Theorem stale_changes_resets differs cut :
  stale_protocol_repaired (impl_count_pairs_split differs) cut = spec_count_pairs differs (drop_stale (concat cut)).
Proof. apply (stale_repaired_split eq). exact (count_pairs_split_equals_whole differs). Qed.

(* dropping markers keeps the time order, so the hypotheses of the extrapolation theorems survive the filter *)
Lemma drop_stale_in s l : In s (drop_stale l) -> In (fst s, Some (snd s)) l.
Proof.
  unfold drop_stale. rewrite in_flat_map. intros [[ts [v|]] [Hin H]]; simpl in H; [|contradiction].
  destruct H as [<-|[]]. exact Hin.
Qed.

(* ---- instant selector ---- *)
Theorem instant_select_stale_spec t offset l s :
  instant_select_stale t offset l = Some s ->
  In (fst s, Some (snd s)) l /\ (t - offset - lookback <= fst s <= t - offset)%Z.
Proof.
  unfold instant_select_stale. destruct (last_opt (owindow t lookback offset l)) as [[ts [v|]]|] eqn:E; try discriminate.
  intros H. injection H as <-. cbn [fst snd].
  assert (Hin : In (ts, Some v) (owindow t lookback offset l)).
  { unfold last_opt in E. destruct (owindow t lookback offset l) as [|x r]; [discriminate|]. injection E as E.
    rewrite <- E. destruct r; [left; reflexivity|]. right.
    destruct (exists_last (l:=o :: r)) as [l' [a Ha]]; [congruence|]. rewrite Ha, last_last. apply in_or_app. right. left. reflexivity. }
  unfold owindow in Hin. apply filter_In in Hin. destruct Hin as [Hl Hw]. split; [exact Hl|].
  unfold oin_win, win_lo, win_hi in Hw. cbn [fst] in Hw. apply andb_true_iff in Hw. destruct Hw as [H1 H2].
  apply Z.leb_le in H1, H2. lia.
Qed.

Lemma last_opt_snoc {A} (l : list A) x : last_opt (l ++ [x]) = Some x.
Proof.
  unfold last_opt. destruct (l ++ [x]) as [|a r] eqn:E; [apply app_eq_nil in E; destruct E; discriminate|].
  rewrite <- (last_cons_self r a), <- E, last_last. reflexivity.
Qed.

(* a marker as newest sample hides the series, whatever came before *)
Theorem instant_select_marker_hides t offset l tm :
  (t - offset - lookback <= tm <= t - offset)%Z ->
  instant_select_stale t offset (l ++ [(tm, None)]) = None.
Proof.
  intros H. unfold instant_select_stale, owindow. rewrite filter_app. cbn [filter].
  replace (oin_win (win_lo t lookback offset) (win_hi t offset) (tm, None)) with true.
  - rewrite last_opt_snoc. reflexivity.
  - symmetry. unfold oin_win, win_lo, win_hi. cbn [fst]. apply andb_true_iff. split; apply Z.leb_le; lia.
Qed.

(* ... and a real sample after the marker brings it back *)
Theorem instant_select_after_marker t offset l tm v :
  (t - offset - lookback <= tm <= t - offset)%Z ->
  instant_select_stale t offset (l ++ [(tm, Some v)]) = Some (tm, v).
Proof.
  intros H. unfold instant_select_stale, owindow. rewrite filter_app. cbn [filter].
  replace (oin_win (win_lo t lookback offset) (win_hi t offset) (tm, Some v)) with true.
  - rewrite last_opt_snoc. reflexivity.
  - symmetry. unfold oin_win, win_lo, win_hi. cbn [fst]. apply andb_true_iff. split; apply Z.leb_le; lia.
Qed.

(* today's protocol is refuted by a record that holds only a marker *)
Definition wit_stale_cut : list (list osample) := [[(0%Z, Some 1); (30%Z, Some 2)]; [(60%Z, None)]].
