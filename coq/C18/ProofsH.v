(* C18 proofs, part H: the step-by-step walk of a vector-vector operator in a range query, bounded by the tag group
   (repaired), returns exactly the steps at which both matched series have a value. *)
From Coq Require Import String.
From Coq Require Import QArith ZArith List Bool Lia Sorted.
From OG Require Import C18.Model C18.Model3 C18.ProofsA.
Import ListNotations.

Lemma join_spec_nil_r f s : join_spec f s [] = [].
Proof. unfold join_spec. induction s as [|r s IH]; simpl; auto. Qed.

Lemma value_at_skip t x p : fst x <> t -> value_at t (x :: p) = value_at t p.
Proof. intros H. unfold value_at. simpl. destruct (fst x =? t)%Z eqn:E; [apply Z.eqb_eq in E; contradiction|reflexivity]. Qed.

Lemma join_spec_skip f s x p : (forall r, In r s -> fst r <> fst x) -> join_spec f s (x :: p) = join_spec f s p.
Proof.
  intros H. unfold join_spec. induction s as [|r s IH]; simpl; [reflexivity|].
  rewrite value_at_skip; [|intro E; apply (H r (or_introl eq_refl)); symmetry; exact E].
  rewrite IH; [reflexivity|]. intros r' Hin. apply H. right. exact Hin.
Qed.

Lemma sorted_head_lt (x : sample) l r : times_increasing (x :: l) -> In r l -> (fst x < fst r)%Z.
Proof.
  unfold times_increasing. simpl. intros H Hin. apply StronglySorted_inv in H. destruct H as [_ H].
  rewrite Forall_forall in H. apply H. apply in_map. exact Hin.
Qed.
Lemma sorted_tail (x : sample) l : times_increasing (x :: l) -> times_increasing l.
Proof. unfold times_increasing. simpl. intros H. apply StronglySorted_inv in H. tauto. Qed.

Lemma value_at_none_later t p : (forall r, In r p -> (t < fst r)%Z) -> value_at t p = None.
Proof.
  induction p as [|x p IH]; intros H; [reflexivity|]. rewrite value_at_skip.
  - apply IH. intros r Hin. apply H. right. exact Hin.
  - specialize (H x (or_introl eq_refl)). lia.
Qed.

Lemma join_walk_spec f : forall fuel s p, (length s + length p <= fuel)%nat ->
  times_increasing s -> times_increasing p -> join_walk f fuel s p = join_spec f s p.
Proof.
  induction fuel as [|k IH]; intros s p Hf Hs Hp.
  - destruct s; [reflexivity|simpl in Hf; lia].
  - destruct s as [|[ts vs] s']; [reflexivity|]. destruct p as [|[tp vp] p']; [rewrite join_spec_nil_r; reflexivity|].
    cbn [join_walk]. simpl in Hf.
    destruct (tp <? ts)%Z eqn:E1; [|destruct (ts <? tp)%Z eqn:E2].
    + apply Z.ltb_lt in E1. rewrite IH; [|simpl; lia|exact Hs|eapply sorted_tail; exact Hp].
      symmetry. apply join_spec_skip. intros r [<-|Hin]; simpl; [lia|].
      pose proof (sorted_head_lt _ _ _ Hs Hin) as H. simpl in H. lia.
    + apply Z.ltb_lt in E2. rewrite IH; [|simpl; lia|eapply sorted_tail; exact Hs|exact Hp].
      unfold join_spec at 2. cbn [flat_map fst snd]. rewrite value_at_none_later; [reflexivity|].
      intros r [<-|Hin]; simpl; [lia|]. pose proof (sorted_head_lt _ _ _ Hp Hin) as H. simpl in H. lia.
    + apply Z.ltb_ge in E1, E2. assert (ts = tp) by lia. subst tp.
      rewrite IH; [|simpl; lia|eapply sorted_tail; exact Hs|eapply sorted_tail; exact Hp].
      unfold join_spec at 2. cbn [flat_map fst snd]. unfold value_at at 1. cbn [find fst]. rewrite Z.eqb_refl. cbn [option_map snd app].
      f_equal. fold (join_spec f s' ((ts, vp) :: p')). symmetry. apply join_spec_skip.
      intros r Hin. simpl. pose proof (sorted_head_lt _ _ _ Hs Hin) as H. simpl in H. lia.
Qed.

(* the repaired walk (cursor bounded by the tag group) = the sequence of instant evaluations at the steps *)
Theorem walk_repaired_is_stepwise_join f s chunk g :
  times_increasing s -> times_increasing (nth g chunk []) ->
  walk_repaired f s chunk g = join_spec f s (nth g chunk []).
Proof. intros Hs Hp. unfold walk_repaired, walk_rows. apply join_walk_spec; auto. Qed.

(* every point of the step-wise join sits on a step of the secondary series at which the primary has a value *)
Theorem join_spec_points f s p t v :
  In (t, v) (join_spec f s p) <-> exists vs vp, In (t, vs) s /\ value_at t p = Some vp /\ v = f vs vp.
Proof.
  unfold join_spec. rewrite in_flat_map. split.
  - intros [[ts vs] [Hin H]]. cbn [fst snd] in H. destruct (value_at ts p) as [vp|] eqn:E; [|contradiction].
    destruct H as [H|[]]. injection H as <- <-. exists vs, vp. auto.
  - intros [vs [vp [Hin [E ->]]]]. exists (t, vs). split; auto. cbn [fst snd]. rewrite E. left. reflexivity.
Qed.
