(* C18 - staleness markers. A stored sample is a value or a staleness marker (None).  Upstream semantics (v0.50.1):
   * range vectors: the markers are dropped from the window (matrixIterSlice skips value.IsStaleNaN), every range function
     sees only the real samples;
   * instant vector selector: the newest sample of the look-back window decides - a marker means "no element".
   Implementation: engine/prom_range_vector_cursor.go filters the markers out of every RECORD (FilterRangeNANPoint) before
   the reducers run, so a record may become empty.  Repaired protocol: an empty record contributes nothing and the state
   deferred from earlier records is still emitted (that is what the split functions of Model.v / Model2.v do for empty
   records).  Today's protocol: an empty LAST record resets the reducer without emitting the deferred window. *)
From Coq Require Import String.
From Coq Require Import QArith ZArith List Bool.
From OG Require Import C18.Model.
Import ListNotations.
Open Scope Q_scope.

Definition osample := (Z * option Q)%type.

Definition drop_stale (l : list osample) : list sample :=
  flat_map (fun s => match snd s with Some v => [(fst s, v)] | None => [] end) l.

Definition oin_win (lo hi : Z) (s : osample) : bool := ((lo <=? fst s) && (fst s <=? hi))%Z.
Definition owindow (t range offset : Z) (l : list osample) : list osample :=
  filter (oin_win (win_lo t range offset) (win_hi t offset)) l.

(* range-vector selector: the window without its markers *)
Definition range_select (t range offset : Z) (l : list osample) : list sample := drop_stale (owindow t range offset l).

(* instant-vector selector: newest sample of the look-back window; a marker hides the series *)
Definition instant_select_stale (t offset : Z) (l : list osample) : option sample :=
  match last_opt (owindow t lookback offset l) with
  | Some (ts, Some v) => Some (ts, v)
  | _ => None
  end.

(* the reducers' view: every record is filtered on its own *)
Definition filter_records (cut : list (list osample)) : list (list sample) := map drop_stale cut.

(* today's protocol on top of any split function: if the LAST record holds nothing but markers the deferred window is
   dropped (engine/prom_function_reducers.go Aggregate with numStep = 0 and lastRec: reset without emitting) *)
Definition all_stale (r : list osample) : bool := match r with [] => false | _ => forallb (fun s => match snd s with None => true | Some _ => false end) r end.
Definition stale_protocol_current {A} (split : list (list sample) -> option A) (cut : list (list osample)) : option A :=
  if all_stale (last cut []) then None else split (filter_records cut).
Definition stale_protocol_repaired {A} (split : list (list sample) -> option A) (cut : list (list osample)) : option A :=
  split (filter_records cut).
