(* C18 property theorems: statements closed by `exact lemma` and Print Assumptions, plus non-vacuity Examples.
   PARTIAL claim: the theorems cover the modelled reducers (rate increase delta irate idelta sum/count/avg/min/max/
   last_over_time changes resets), window selection incl. the look-back boundary, range-vs-instant evaluation and by/without
   grouping (partition). Functions
   outside this list, binary operators and label matchers are covered by the differential harness only. *)
From Coq Require Import String.
From Coq Require Import QArith ZArith List Bool Sorted Permutation.
From OG Require Import C18.Model C18.Model2 C18.Model3 C18.Model4 C18.ProofsA C18.ProofsB C18.ProofsC C18.ProofsD C18.ProofsE C18.ProofsF C18.ProofsG C18.ProofsH C18.ProofsI.
Import ListNotations.
Open Scope Q_scope.

(* window membership: closed on both sides, as in the upstream engine pinned by go.mod (v0.50.1) *)
Theorem C18_window_membership : forall t range offset l s,
  In s (window t range offset l) <-> In s l /\ (t - offset - range <= fst s <= t - offset)%Z.
Proof. exact window_membership. Qed.
Print Assumptions C18_window_membership.

Theorem C18_window_left_boundary_included : forall t range offset v, (0 <= range)%Z ->
  window t range offset [((t - offset - range)%Z, v)] = [((t - offset - range)%Z, v)].
Proof. exact window_left_boundary_included. Qed.
Theorem C18_window_before_left_excluded : forall t range offset v,
  window t range offset [((t - offset - range - 1)%Z, v)] = [].
Proof. exact window_before_left_excluded. Qed.
Theorem C18_window_right_boundary_included : forall t range offset v, (0 <= range)%Z ->
  window t range offset [((t - offset)%Z, v)] = [((t - offset)%Z, v)].
Proof. exact window_right_boundary_included. Qed.
Theorem C18_window_after_right_excluded : forall t range offset v,
  window t range offset [((t - offset + 1)%Z, v)] = [].
Proof. exact window_after_right_excluded. Qed.
Print Assumptions C18_window_after_right_excluded.

Theorem C18_instant_select_in_lookback : forall t offset l s,
  instant_select t offset l = Some s -> In s l /\ (t - offset - lookback <= fst s <= t - offset)%Z.
Proof. exact instant_select_spec. Qed.
Print Assumptions C18_instant_select_in_lookback.

(* look-back boundary: a sample exactly look-back-delta old is still selected (upstream v0.50.1 rejects only
   t < refTime - lookbackDelta); one millisecond older, or newer than the evaluation time, is not *)
Theorem C18_instant_select_lookback_boundary_included : forall t offset v,
  instant_select t offset [((t - offset - lookback)%Z, v)] = Some ((t - offset - lookback)%Z, v).
Proof. exact instant_select_lookback_boundary_included. Qed.
Theorem C18_instant_select_older_than_lookback_excluded : forall t offset v,
  instant_select t offset [((t - offset - lookback - 1)%Z, v)] = None.
Proof. exact instant_select_older_than_lookback_excluded. Qed.
Theorem C18_instant_select_newer_excluded : forall t offset v,
  instant_select t offset [((t - offset + 1)%Z, v)] = None.
Proof. exact instant_select_newer_excluded. Qed.
Print Assumptions C18_instant_select_lookback_boundary_included.

(* split_merge_equals_whole, for EVERY cut of the window into records *)
Theorem C18_extrapolated_split_merge_equals_whole : forall isCounter isRate t range offset cut,
  times_increasing (concat cut) -> (0 < range)%Z ->
  oQeq (impl_extrap_split range_div_repaired isCounter isRate t range offset cut)
       (spec_extrap isCounter isRate t range offset (concat cut)).
Proof. exact extrap_split_equals_whole. Qed.
Print Assumptions C18_extrapolated_split_merge_equals_whole.

(* ... and for every cut of the SERIES into records (each record contributes its part of the window) *)
Theorem C18_extrapolated_any_record_layout : forall isCounter isRate t range offset recs,
  times_increasing (concat recs) -> (0 < range)%Z ->
  oQeq (impl_extrap_split range_div_repaired isCounter isRate t range offset (map (window t range offset) recs))
       (spec_extrap isCounter isRate t range offset (window t range offset (concat recs))).
Proof. exact rate_records_equal_whole. Qed.
Print Assumptions C18_extrapolated_any_record_layout.

(* impl_rate = spec_rate for whole-second ranges, with today's integer division *)
Theorem C18_impl_rate_equals_spec_whole_seconds : forall t range offset cut,
  times_increasing (concat cut) -> (0 < range)%Z -> (range mod 1000 = 0)%Z ->
  oQeq (impl_rate_current t range offset cut) (spec_rate t range offset (concat cut)).
Proof. exact impl_rate_whole_seconds. Qed.
Print Assumptions C18_impl_rate_equals_spec_whole_seconds.

Theorem C18_irate_idelta_split_merge_equals_whole : forall isRate cut,
  times_increasing (concat cut) -> impl_instant_split isRate cut = spec_instant isRate (concat cut).
Proof. exact instant_split_equals_whole. Qed.
Print Assumptions C18_irate_idelta_split_merge_equals_whole.

Theorem C18_sum_over_time_split : forall cut, oQeq (impl_sum_over_time cut) (spec_sum_over_time (concat cut)).
Proof. exact sum_split_equals_whole. Qed.
Theorem C18_count_over_time_split : forall cut, oQeq (impl_count_over_time cut) (spec_count_over_time (concat cut)).
Proof. exact count_split_equals_whole. Qed.
Theorem C18_avg_over_time_split : forall cut, oQeq (impl_avg_over_time cut) (spec_avg_over_time (concat cut)).
Proof. exact avg_split_equals_whole. Qed.
Theorem C18_min_over_time_split : forall cut, oQeq (impl_min_over_time cut) (spec_min_over_time (concat cut)).
Proof. exact min_split_equals_whole. Qed.
Theorem C18_max_over_time_split : forall cut, oQeq (impl_max_over_time cut) (spec_max_over_time (concat cut)).
Proof. exact max_split_equals_whole. Qed.
Theorem C18_last_over_time_split : forall cut, oQeq (impl_last_over_time cut) (spec_last_over_time (concat cut)).
Proof. exact last_split_equals_whole. Qed.
Print Assumptions C18_avg_over_time_split.

Theorem C18_changes_resets_split : forall differs cut,
  impl_count_pairs_split differs cut = spec_count_pairs differs (concat cut).
Proof. exact count_pairs_split_equals_whole. Qed.
Print Assumptions C18_changes_resets_split.

(* ---- slice reducers of engine/prom_functions.go: stdvar/stddev, present/absent, quantile, deriv, predict_linear ---- *)

(* stdvar_over_time (stddev = its square root): Welford over (prev, curr) = upstream's Welford pass over the window,
   for every cut *)
Theorem C18_stdvar_over_time_split : forall cut, impl_stdvar_split cut = spec_stdvar_over_time (concat cut).
Proof. exact stdvar_split_equals_whole. Qed.
(* upstream's Welford recurrence is exactly the population variance (sum x^2 - (sum x)^2/n)/n over the rationals *)
Theorem C18_stdvar_is_population_variance : forall w, w <> [] ->
  oQeq (spec_stdvar_over_time w) (Some (var_of_moments (moments (vals w)))).
Proof. exact stdvar_is_population_variance. Qed.
(* the merge law: per-record moment vectors (n, sum x, sum x^2) added component-wise give the whole window's stdvar *)
Theorem C18_stdvar_moment_merge_equals_whole : forall cut, concat cut <> [] ->
  oQeq (spec_stdvar_over_time (concat cut))
       (Some (var_of_moments (fold_right mplus (0, 0, 0) (map (fun r => moments (vals r)) cut)))).
Proof. exact stdvar_moment_merge_equals_whole. Qed.
Print Assumptions C18_stdvar_moment_merge_equals_whole.

Theorem C18_present_over_time_split : forall cut, impl_present_split cut = spec_present_over_time (concat cut).
Proof. exact present_split_equals_whole. Qed.
Theorem C18_absent_over_time_split : forall cuts,
  impl_absent_over_time cuts = spec_absent_over_time (map (@concat sample) cuts).
Proof. exact absent_split_equals_whole. Qed.
Theorem C18_absent_over_time_spec : forall ws, spec_absent_over_time ws = Some 1 <-> (forall w, In w ws -> w = []).
Proof. exact absent_spec. Qed.
Print Assumptions C18_absent_over_time_split.

(* quantile_over_time: (prev, curr) = whole window for every cut; the answer depends only on the MULTISET of the
   samples (records merged in any order = multiset union); the model's sort is a sorted permutation of its input *)
Theorem C18_quantile_over_time_split : forall q cut, impl_quantile_split q cut = spec_quantile_over_time q (concat cut).
Proof. exact quantile_split_equals_whole. Qed.
Theorem C18_quantile_multiset_invariant : forall q (w w' : list sample),
  Permutation w w' -> oxeq (spec_quantile_over_time q w) (spec_quantile_over_time q w').
Proof. exact quantile_any_arrangement. Qed.
Theorem C18_quantile_records_any_order : forall q cut cut',
  Permutation cut cut' -> oxeq (impl_quantile_split q cut) (spec_quantile_over_time q (concat cut')).
Proof. exact quantile_records_any_order. Qed.
Theorem C18_qsort_sorted_permutation : forall l, StronglySorted Qle (qsort l) /\ Permutation (qsort l) l.
Proof. exact qsort_sorted_permutation. Qed.
Print Assumptions C18_quantile_records_any_order.

(* deriv / predict_linear: least squares over (prev, curr) = upstream's linearRegression on the window for every cut.
   deriv: upstream anchors x at the first sample, the implementation at the evaluation time - the slope is the same;
   predict_linear: both anchor at the evaluation time t (the offset only moves the window) *)
Theorem C18_deriv_split : forall t offset cut, oQeq (impl_deriv t offset cut) (spec_deriv (concat cut)).
Proof. exact deriv_split_equals_whole. Qed.
Theorem C18_predict_linear_split : forall dur t offset cut,
  oQeq (impl_predict_linear dur t offset cut) (spec_predict_linear t dur (concat cut)).
Proof. exact predict_linear_split_equals_whole. Qed.
Theorem C18_regression_slope_anchor_independent : forall t1 t2 l, fst (lin_regress t2 l) == fst (lin_regress t1 l).
Proof. exact regress_slope_anchor_independent. Qed.
(* the merge law of the regression state (n, sum x, sum y, sum xy, sum x^2): component-wise sum, for every cut *)
Theorem C18_regression_moments_merge : forall tref (cut : list (list sample)),
  lin_eq (lin_sums tref (concat cut)) (fold_right lin_plus lin0 (map (lin_sums tref) cut)).
Proof. exact lin_sums_concat. Qed.
Print Assumptions C18_deriv_split.
Print Assumptions C18_regression_moments_merge.

(* the upstream mean (incremental) is the arithmetic mean *)
Theorem C18_mean_is_sum_over_count : forall l, mean_inc l * qlen l == qsum l.
Proof. exact mean_inc_sum. Qed.

(* a range query is the sequence of instant queries at its steps *)
Theorem C18_steps : forall start stop step t,
  In t (steps start stop step) <-> (0 < step)%Z /\ exists k, (0 <= k)%Z /\ t = (start + k * step)%Z /\ (t <= stop)%Z.
Proof. exact steps_spec. Qed.
Theorem C18_range_is_instants : forall (L : Type) (eval : list sample -> Z -> option Q) (db : list (series L)) start stop step ls t v,
  (exists pts, In (ls, pts) (range_query L eval db start stop step) /\ In (t, v) pts) <->
  (In t (steps start stop step) /\ In (ls, v) (instant_query L eval db t)).
Proof. exact range_is_instants. Qed.
Print Assumptions C18_range_is_instants.

(* by / without: the groups are a partition of the input vector - every element lands in exactly one group (the
   concatenated members are a permutation of the input), group keys are pairwise different, and each member's key is
   the group's key; the aggregated vector carries exactly the group keys as label sets (a comparison or arithmetic
   with a scalar does not touch them: the harness ties the transpiled grouping of `agg op scalar` to that of `agg`) *)
Theorem C18_by_without_partition : forall (without : bool) (G : list string) (vec : list elem),
  let gs := groups without G vec in
  Permutation (concat (map snd gs)) vec /\ NoDup (map fst gs) /\
  (forall g x, In g gs -> In x (snd g) -> fst g = group_key without G (fst x)).
Proof. exact by_without_partition. Qed.
Print Assumptions C18_by_without_partition.
Theorem C18_aggregate_labels : forall op without G vec,
  map fst (aggregate op without G vec) = map fst (groups without G vec).
Proof. exact aggregate_labels. Qed.
Theorem C18_by_without_dual : forall G (ls : labels) kv, In kv ls -> fst kv <> name_label ->
  (In kv (key_by G ls) <-> ~ In kv (key_without G ls)).
Proof. exact by_without_dual. Qed.
Print Assumptions C18_by_without_dual.
Example C18_example_groups :
  map fst (aggregate AggSum true ["instance"%string]
    [([("__name__", "m"); ("instance", "a"); ("job", "x")]%string, 1); ([("__name__", "m"); ("instance", "b"); ("job", "x")]%string, 2);
     ([("__name__", "m"); ("instance", "a"); ("job", "y")]%string, 4)])
  = [[("job", "x")]; [("job", "y")]]%string.
Proof. reflexivity. Qed.

(* ---- staleness markers (samples are option-valued; None = marker) ---- *)

(* the range-vector selector drops the markers; dropping commutes with taking the window *)
Theorem C18_stale_window_commutes : forall t range offset l,
  window t range offset (drop_stale l) = range_select t range offset l.
Proof. exact window_drop_stale. Qed.
(* REPAIRED REDUCER PROTOCOL, generic: a reducer whose split form equals its whole-window form for every cut keeps doing
   so when the records are filtered one by one - also when a record holds nothing but markers and becomes EMPTY *)
Theorem C18_stale_repaired_protocol : forall (A : Type) (R : option A -> option A -> Prop)
  (split : list (list sample) -> option A) (spec : list sample -> option A),
  (forall cut, R (split cut) (spec (concat cut))) ->
  forall cut, R (stale_protocol_repaired split cut) (spec (drop_stale (concat cut))).
Proof. exact @stale_repaired_split. Qed.
Theorem C18_stale_count_over_time : forall cut,
  oQeq (stale_protocol_repaired impl_count_over_time cut) (spec_count_over_time (drop_stale (concat cut))).
Proof. exact stale_count_over_time. Qed.
Theorem C18_stale_avg_over_time : forall cut,
  oQeq (stale_protocol_repaired impl_avg_over_time cut) (spec_avg_over_time (drop_stale (concat cut))).
Proof. exact stale_avg_over_time. Qed.
Theorem C18_stale_quantile_over_time : forall q cut,
  stale_protocol_repaired (impl_quantile_split q) cut = spec_quantile_over_time q (drop_stale (concat cut)).
Proof. exact stale_quantile_over_time. Qed.
Theorem C18_stale_changes_resets : forall differs cut,
  stale_protocol_repaired (impl_count_pairs_split differs) cut = spec_count_pairs differs (drop_stale (concat cut)).
Proof. exact stale_changes_resets. Qed.
(* instant selector: the answer is a real sample of the look-back window; a marker as newest sample hides the series; a
   real sample after the marker brings it back *)
Theorem C18_instant_select_stale_in_lookback : forall t offset l s,
  instant_select_stale t offset l = Some s ->
  In (fst s, Some (snd s)) l /\ (t - offset - lookback <= fst s <= t - offset)%Z.
Proof. exact instant_select_stale_spec. Qed.
Theorem C18_instant_select_marker_hides : forall t offset l tm,
  (t - offset - lookback <= tm <= t - offset)%Z -> instant_select_stale t offset (l ++ [(tm, None)]) = None.
Proof. exact instant_select_marker_hides. Qed.
Theorem C18_instant_select_after_marker : forall t offset l tm v,
  (t - offset - lookback <= tm <= t - offset)%Z -> instant_select_stale t offset (l ++ [(tm, Some v)]) = Some (tm, v).
Proof. exact instant_select_after_marker. Qed.
Print Assumptions C18_stale_repaired_protocol.
Print Assumptions C18_instant_select_marker_hides.
Example C18_example_stale :
  stale_protocol_repaired impl_count_over_time wit_stale_cut = Some 2 /\
  spec_count_over_time (drop_stale (concat wit_stale_cut)) = Some 2 /\
  instant_select_stale 100 0 (concat wit_stale_cut) = None /\
  instant_select_stale 50 0 (concat wit_stale_cut) = Some (30%Z, 2).
Proof. vm_compute. repeat split. Qed.

(* ---- binary operators and one-to-one vector matching ---- *)

(* vector <op> scalar: arithmetic keeps every element and drops the metric name; a comparison filter returns a
   sub-vector (labels incl. the name and the VECTOR's values untouched, also when the scalar is on the left); with
   bool every element survives with value 0/1 and without the name *)
Theorem C18_vector_scalar_arith_labels : forall op rb swap s v,
  is_cmp op = false -> map fst (vs_binop op rb swap s v) = map (fun e => drop_name (fst e)) v.
Proof. exact vs_arith_labels. Qed.
Theorem C18_vector_scalar_filter_is_subvector : forall op swap s v, is_cmp op = true ->
  vs_binop op false swap s v = filter (fun e => cmp op (if swap then s else snd e) (if swap then snd e else s)) v.
Proof. exact vs_filter_is_subvector. Qed.
Theorem C18_vector_scalar_bool : forall op swap s v, is_cmp op = true ->
  vs_binop op true swap s v = map (fun e => (drop_name (fst e), b2q (cmp op (if swap then s else snd e) (if swap then snd e else s)))) v.
Proof. exact vs_bool_labels_values. Qed.
Print Assumptions C18_vector_scalar_filter_is_subvector.

(* the result label set of a one-to-one vector operation (upstream resultMetric) *)
Theorem C18_result_metric_labels : forall op rb m ls kv,
  In kv (result_metric op rb m ls) <->
  In kv ls /\ (drops_name op rb = true -> fst kv <> name_label) /\
  (if vm_on m then In (fst kv) (vm_labels m) else ~ In (fst kv) (vm_labels m)).
Proof. exact result_metric_labels. Qed.
Theorem C18_result_metric_no_name : forall op rb m ls,
  drops_name op rb = true -> ~ In name_label (map fst (result_metric op rb m ls)).
Proof. exact result_metric_no_name. Qed.
Theorem C18_result_metric_filter_keeps_labels : forall op ls,
  is_cmp op = true -> result_metric op false {| vm_on := false; vm_labels := [] |} ls = ls.
Proof. exact result_metric_filter_keeps_labels. Qed.
Print Assumptions C18_result_metric_labels.

(* one-to-one matching is a partial bijection on signatures, and the answer is one element per matched pair *)
Theorem C18_one_to_one_partial_bijection : forall op rb m lhs rhs out,
  is_cmp op && negb rb = false ->
  vv_binop op rb m lhs rhs = Some out ->
  (forall l r r', In l lhs -> In r rhs -> In r' rhs -> sigf m l = sigf m r -> sigf m l = sigf m r' -> r = r') /\
  (forall l l' r, In l lhs -> In l' lhs -> In r rhs -> sigf m l = sigf m r -> sigf m l' = sigf m r -> l = l') /\
  out = map (pair_out op rb m rhs) (partnered m rhs lhs) /\
  (forall l, In l (partnered m rhs lhs) <-> In l lhs /\ exists r, In r rhs /\ sigf m l = sigf m r).
Proof. exact vv_one_to_one_partial_bijection. Qed.
(* ... and never contains the same label set twice (filters included) *)
Theorem C18_vector_binop_no_duplicate_series : forall op rb m lhs rhs out,
  (vm_on m = true -> ~ In name_label (vm_labels m)) ->
  vv_binop op rb m lhs rhs = Some out -> NoDup (map fst out).
Proof. exact vv_binop_no_duplicate_series. Qed.
Print Assumptions C18_one_to_one_partial_bijection.
Print Assumptions C18_vector_binop_no_duplicate_series.

(* range queries: the repaired step-by-step walk of the operator (cursor bounded by the tag group of the matched
   series) returns exactly the steps at which both matched series have a value - the instant evaluations at the steps *)
Theorem C18_binop_walk_repaired_is_stepwise_join : forall f s chunk g,
  times_increasing s -> times_increasing (nth g chunk []) ->
  walk_repaired f s chunk g = join_spec f s (nth g chunk []).
Proof. exact walk_repaired_is_stepwise_join. Qed.
Theorem C18_binop_stepwise_join_points : forall f s p t v,
  In (t, v) (join_spec f s p) <-> exists vs vp, In (t, vs) s /\ value_at t p = Some vp /\ v = f vs vp.
Proof. exact join_spec_points. Qed.
Print Assumptions C18_binop_walk_repaired_is_stepwise_join.

Example C18_example_binops :
  let a := [([("__name__", "m"); ("instance", "a"); ("job", "x")]%string, 6); ([("__name__", "m"); ("instance", "b"); ("job", "x")]%string, 2)] in
  let b := [([("__name__", "n"); ("instance", "b"); ("job", "y")]%string, 4); ([("__name__", "n"); ("instance", "c"); ("job", "y")]%string, 5)] in
  vs_binop OGt false true 3 a = [([("__name__", "m"); ("instance", "b"); ("job", "x")]%string, 2)] /\
  vs_binop ODiv false false 4 a = [([("instance", "a"); ("job", "x")]%string, 6 / 4); ([("instance", "b"); ("job", "x")]%string, 2 / 4)] /\
  vv_binop OSub false {| vm_on := true; vm_labels := ["instance"%string] |} a b = Some [([("instance", "b")]%string, 2 - 4)] /\
  vv_binop OLt false {| vm_on := false; vm_labels := ["job"%string] |} a b = Some [([("__name__", "m"); ("instance", "b")]%string, 2)] /\
  vv_binop OAdd false {| vm_on := true; vm_labels := ["job"%string] |} a a = None.
Proof. vm_compute. repeat split. Qed.

(* non-vacuity: the hypotheses are satisfiable and the functions compute the upstream values on a small counter
   with a reset (window [0, 60000], samples every 15 s: 10 20 5 15 25) *)
Definition ex_w : list sample := [(0%Z, 10); (15000%Z, 20); (30000%Z, 5); (45000%Z, 15); (60000%Z, 25)].
Example C18_example_sorted : times_increasing ex_w.
Proof. unfold times_increasing, ex_w. simpl. repeat (constructor; [|repeat constructor; reflexivity]). constructor. Qed.
Example C18_example_increase :
  oQeq (spec_increase 60000 60000 0 ex_w) (Some 35) /\
  oQeq (impl_increase 60000 60000 0 [[(0%Z, 10); (15000%Z, 20)]; []; [(30000%Z, 5)]; [(45000%Z, 15); (60000%Z, 25)]]) (Some 35) /\
  oQeq (spec_rate 60000 60000 0 ex_w) (Some (7 # 12)) /\
  spec_resets ex_w = Some 1 /\ spec_changes ex_w = Some 4 /\
  oQeq (spec_irate ex_w) (Some (2 # 3)) /\ oQeq (spec_avg_over_time ex_w) (Some 15).
Proof. vm_compute. repeat split. Qed.
Example C18_example_steps : steps 100 200 30 = [100; 130; 160; 190]%Z.
Proof. reflexivity. Qed.

(* values 2 4 4 4 5 5 7 9: mean 5, variance 4 (stddev 2); median 4.5; 0.9-quantile 7.6; a line y = 3 + 2 x (x in s) *)
Definition ex_v : list sample :=
  [(0%Z, 2); (1000%Z, 4); (2000%Z, 4); (3000%Z, 4); (4000%Z, 5); (5000%Z, 5); (6000%Z, 7); (7000%Z, 9)].
Definition ex_line : list sample := [(1000%Z, 5); (2000%Z, 7); (4000%Z, 11); (7000%Z, 17)].
Example C18_example_slice_functions :
  oQeq (spec_stdvar_over_time ex_v) (Some 4) /\
  oQeq (impl_stdvar_split [[(0%Z, 2); (1000%Z, 4)]; []; [(2000%Z, 4); (3000%Z, 4); (4000%Z, 5)]; [(5000%Z, 5); (6000%Z, 7); (7000%Z, 9)]]) (Some 4) /\
  oxeq (spec_quantile_over_time (1 # 2) ex_v) (Some (XFin (9 # 2))) /\
  oxeq (spec_quantile_over_time (9 # 10) ex_v) (Some (XFin (76 # 10))) /\
  oxeq (spec_quantile_over_time (3 # 2) ex_v) (Some XPosInf) /\
  oQeq (spec_deriv ex_line) (Some 2) /\
  oQeq (impl_deriv 10000 3000 [[(1000%Z, 5)]; [(2000%Z, 7); (4000%Z, 11)]; [(7000%Z, 17)]]) (Some 2) /\
  oQeq (spec_predict_linear 10000 60 ex_line) (Some 143) /\
  oQeq (impl_predict_linear 60 10000 3000 [[(1000%Z, 5); (2000%Z, 7)]; [(4000%Z, 11); (7000%Z, 17)]]) (Some 143) /\
  spec_absent_over_time [[]; []] = Some 1 /\ spec_absent_over_time [[]; ex_line] = None.
Proof. vm_compute. repeat split. Qed.
