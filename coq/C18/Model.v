(* C18 - PromQL compatibility. Executable model over the rationals.

   Time stamps are integers (milliseconds, as in the Prometheus data model and in remote write); values are
   rationals. A binary64 float is a rational, so every stored sample is represented exactly; the arithmetic of
   the model is exact where the engines round (correspondence compares with relative tolerance 1e-9).

   The reference semantics (spec_...) follow the upstream engine pinned by the repository's go.mod
   (github.com/prometheus/prometheus v0.50.1 = Prometheus 2.50): range windows and the look-back window are
   CLOSED on both sides, [t - offset - range, t - offset]  (matrixIterSlice drops samples with T < mint only,
   vectorSelectorSingle rejects t < refTime - lookbackDelta only).  The left-open window of Prometheus 3.x does
   not apply to this version.

   The implementation semantics (impl_...) mirror engine/prom_functions.go: every reducer is a per-record
   `reduce` plus a cross-record `merge`; the window of one evaluation step may be cut into records anywhere. *)
From Coq Require Import String.
From Coq Require Import QArith ZArith List Bool.
Import ListNotations.
Open Scope Q_scope.

Definition sample := (Z * Q)%type.

Definition Qltb (a b : Q) : bool := negb (Qle_bool b a).

(* ---------------------------------------------------------------------------------------------------- *)
(* windows, instant selection                                                                            *)

Definition in_win (lo hi : Z) (s : sample) : bool := ((lo <=? fst s) && (fst s <=? hi))%Z.
Definition win_lo (t range offset : Z) : Z := (t - offset - range)%Z.
Definition win_hi (t offset : Z) : Z := (t - offset)%Z.
Definition window (t range offset : Z) (l : list sample) : list sample :=
  filter (in_win (win_lo t range offset) (win_hi t offset)) l.

Definition last_opt {A} (l : list A) : option A :=
  match l with [] => None | x :: r => Some (last r x) end.

Definition lookback : Z := 300000%Z.

(* newest sample not newer than t - offset and not older than the look-back delta (staleness markers are not
   modelled: the generated sample sets of the model cases carry none) *)
Definition instant_select (t offset : Z) (l : list sample) : option sample :=
  last_opt (window t lookback offset l).

(* ---------------------------------------------------------------------------------------------------- *)
(* extrapolatedRate (rate / increase / delta)                                                            *)

Definition ms_to_s (z : Z) : Q := inject_Z z / 1000.

(* one step of the counter-reset correction: state = (previous value, accumulated result) *)
Definition rstep (st : Q * Q) (cur : Q) : Q * Q :=
  (cur, if Qltb cur (fst st) then snd st + fst st else snd st).

(* extrapolation factor extrapolateToInterval / sampledInterval, from the first and last sample, the number
   of samples minus one and the raw (reset-corrected) increase *)
Definition extrap_factor (isCounter : bool) (rangeStart rangeEnd : Z) (t0 : Z) (v0 : Q) (tl : Z) (n1 : Z) (res : Q) : Q :=
  let dStart := ms_to_s (t0 - rangeStart) in
  let dEnd := ms_to_s (rangeEnd - tl) in
  let sampled := ms_to_s (tl - t0) in
  let avgd := sampled / inject_Z n1 in
  let dStart1 :=
    if isCounter && Qltb 0 res && Qle_bool 0 v0 then
      let dz := sampled * (v0 / res) in if Qltb dz dStart then dz else dStart
    else dStart in
  let thr := avgd * (11 # 10) in
  let ext := sampled + (if Qltb dStart1 thr then dStart1 else avgd / 2)
                     + (if Qltb dEnd thr then dEnd else avgd / 2) in
  ext / sampled.

(* upstream promql/functions.go extrapolatedRate on the samples w of one window *)
Definition spec_extrap (isCounter isRate : bool) (t range offset : Z) (w : list sample) : option Q :=
  match w with
  | [] => None
  | (t0, v0) :: rest =>
      match rest with
      | [] => None
      | _ :: _ =>
          let '(tl, vl) := last rest (t0, v0) in
          let n1 := Z.of_nat (length rest) in
          let res0 := vl - v0 in
          let res := if isCounter then snd (fold_left rstep (map snd rest) (v0, res0)) else res0 in
          let f := extrap_factor isCounter (win_lo t range offset) (win_hi t offset) t0 v0 tl n1 res in
          Some (res * (if isRate then f / ms_to_s range else f))
      end
  end.

Definition spec_rate := spec_extrap true true.
Definition spec_increase := spec_extrap true false.
Definition spec_delta := spec_extrap false false.

(* executor.CalcReduceResult on the two slices handed to the merge function *)
Definition calc_first_last (p c : list sample) : option (sample * sample) :=
  match p with
  | pf :: _ => Some (pf, match c with [] => last p pf | cf :: _ => last c cf end)
  | [] => match c with cf :: _ => Some (cf, last c cf) | [] => None end
  end.

(* the divisor applied by rate: today's code computes float64(rangeDuration/1e9), an INTEGER division of the
   nanosecond range; the repaired code divides the float *)
Definition range_div_current (range : Z) : Q := inject_Z (range / 1000).
Definition range_div_repaired (range : Z) : Q := ms_to_s range.

(* engine/prom_functions.go floatPromRateMerge(isRate, isCounter) on (prev, curr) *)
Definition impl_extrap_merge (range_div : Z -> Q) (isCounter isRate : bool) (t range offset : Z) (p c : list sample) : option Q :=
  if (Z.of_nat (length p + length c) <=? 1)%Z then None else
  match calc_first_last p c with
  | None => None
  | Some ((t0, v0), (tl, vl)) =>
      if (tl =? t0)%Z || (range =? 0)%Z then None else
      let res0 := vl - v0 in
      let res := if isCounter
                 then snd (fold_left rstep (map snd c) (fold_left rstep (map snd p) (v0, res0)))
                 else res0 in
      let n1 := (Z.of_nat (length p + length c) - 1)%Z in
      let f := extrap_factor isCounter (win_lo t range offset) (win_hi t offset) t0 v0 tl n1 res in
      let r := res * f in
      Some (if isRate then r / range_div range else r)
  end.

(* a window cut into records r1 .. rn: the slice reducer keeps r1 ++ .. ++ r(n-1) in its buffer and merges it
   with the current record rn *)
Definition impl_extrap_split (range_div : Z -> Q) (isCounter isRate : bool) (t range offset : Z) (cut : list (list sample)) : option Q :=
  impl_extrap_merge range_div isCounter isRate t range offset (concat (removelast cut)) (last cut []).

Definition impl_rate_current := impl_extrap_split range_div_current true true.
Definition impl_rate_repaired := impl_extrap_split range_div_repaired true true.
Definition impl_increase := impl_extrap_split range_div_repaired true false.
Definition impl_delta := impl_extrap_split range_div_repaired false false.

(* ---------------------------------------------------------------------------------------------------- *)
(* irate / idelta                                                                                        *)

Definition last_two (w : list sample) : option (sample * sample) :=
  match rev w with
  | b :: a :: _ => Some (a, b)
  | _ => None
  end.

Definition instant_value (isRate : bool) (ab : sample * sample) : option Q :=
  let '((ta, va), (tb, vb)) := ab in
  if (tb =? ta)%Z then None else
  let d := if isRate && Qltb vb va then vb else vb - va in
  Some (if isRate then d / ms_to_s (tb - ta) else d).

Definition spec_instant (isRate : bool) (w : list sample) : option Q :=
  match last_two w with None => None | Some ab => instant_value isRate ab end.
Definition spec_irate := spec_instant true.
Definition spec_idelta := spec_instant false.

(* floatIRateReduce: the last two samples of a record (a single sample is duplicated), None for an empty one *)
Definition irate_reduce (r : list sample) : option (sample * sample) :=
  match rev r with
  | [] => None
  | [b] => Some (b, b)
  | b :: a :: _ => Some (a, b)
  end.

(* floatIRateUpdate: combine the state of the earlier records with the reduction of the next one *)
Definition irate_update (s1 s2 : sample * sample) : sample * sample :=
  if (fst (fst s2) <? fst (snd s2))%Z then s2 else (snd s1, snd s2).

Definition omerge {A} (m : A -> A -> A) (a b : option A) : option A :=
  match a, b with
  | None, x => x
  | x, None => x
  | Some x, Some y => Some (m x y)
  end.

Definition impl_instant_split (isRate : bool) (cut : list (list sample)) : option Q :=
  if (Z.of_nat (length (concat cut)) <? 2)%Z then None else
  match fold_left (omerge irate_update) (map irate_reduce cut) None with
  | None => None
  | Some ab => instant_value isRate ab
  end.

(* ---------------------------------------------------------------------------------------------------- *)
(* the *_over_time family: reduce per record, merge across records                                       *)

Definition vals (w : list sample) : list Q := map snd w.
Definition qsum (l : list Q) : Q := fold_left Qplus l 0.
Definition qmin2 (a b : Q) : Q := if Qltb b a then b else a.
Definition qmax2 (a b : Q) : Q := if Qltb a b then b else a.
Definition qlen (l : list Q) : Q := inject_Z (Z.of_nat (length l)).

(* upstream avg_over_time: incremental mean  mean += v/count - mean/count *)
Definition mean_step (st : Q * Q) (v : Q) : Q * Q :=
  let count := Qred (snd st + 1) in (Qred (fst st + (v / count - fst st / count)), count).
(* Qred only normalises the representation (Qred x == x); without it the denominators square at every step *)
Definition mean_inc (l : list Q) : Q := fst (fold_left mean_step l (0, 0)).

Definition nonempty {A B} (f : list A -> B) (l : list A) : option B :=
  match l with [] => None | _ :: _ => Some (f l) end.

Definition spec_sum_over_time (w : list sample) : option Q := nonempty qsum (vals w).
Definition spec_count_over_time (w : list sample) : option Q := nonempty qlen (vals w).
Definition spec_avg_over_time (w : list sample) : option Q := nonempty mean_inc (vals w).
Definition spec_min_over_time (w : list sample) : option Q :=
  match vals w with [] => None | x :: r => Some (fold_left qmin2 r x) end.
Definition spec_max_over_time (w : list sample) : option Q :=
  match vals w with [] => None | x :: r => Some (fold_left qmax2 r x) end.
Definition spec_last_over_time (w : list sample) : option Q := last_opt (vals w).

(* incremental reducers: state (value, count); empty records are skipped (isNil) *)
Definition inc_split {A} (reduce : list sample -> option A) (merge : A -> A -> A) (cut : list (list sample)) : option A :=
  fold_left (omerge merge) (map reduce cut) None.

Definition impl_sum_over_time := inc_split spec_sum_over_time Qplus.
Definition impl_count_over_time := inc_split spec_count_over_time Qplus.
Definition impl_min_over_time := inc_split spec_min_over_time qmin2.
Definition impl_max_over_time := inc_split spec_max_over_time qmax2.
Definition impl_last_over_time := inc_split spec_last_over_time (fun _ b : Q => b).

Definition avg_reduce (r : list sample) : option (Q * Q) :=
  match vals r with [] => None | l => Some (mean_inc l, qlen l) end.
Definition avg_merge (a b : Q * Q) : Q * Q :=
  ((fst a * snd a + fst b * snd b) / (snd a + snd b), snd a + snd b).
Definition impl_avg_over_time (cut : list (list sample)) : option Q :=
  option_map fst (inc_split avg_reduce avg_merge cut).

(* ---------------------------------------------------------------------------------------------------- *)
(* changes / resets                                                                                      *)

Definition count_step (differs : Q -> Q -> bool) (st : Q * Z) (cur : Q) : Q * Z :=
  (cur, if differs (fst st) cur then (snd st + 1)%Z else snd st).
Definition changed (prev cur : Q) : bool := negb (Qeq_bool cur prev).
Definition dropped (prev cur : Q) : bool := Qltb cur prev.

Definition spec_count_pairs (differs : Q -> Q -> bool) (w : list sample) : option Q :=
  match vals w with
  | [] => None
  | x :: r => Some (inject_Z (snd (fold_left (count_step differs) r (x, 0%Z))))
  end.
Definition spec_changes := spec_count_pairs changed.
Definition spec_resets := spec_count_pairs dropped.

(* executor.CalcChange / CalcResets on (prev, curr) *)
Definition impl_count_pairs_merge (differs : Q -> Q -> bool) (p c : list sample) : option Q :=
  match vals p, vals c with
  | [], [] => None
  | x :: r, cv => Some (inject_Z (snd (fold_left (count_step differs) cv (fold_left (count_step differs) r (x, 0%Z)))))
  | [], x :: r => Some (inject_Z (snd (fold_left (count_step differs) r (x, 0%Z))))
  end.
Definition impl_count_pairs_split (differs : Q -> Q -> bool) (cut : list (list sample)) : option Q :=
  impl_count_pairs_merge differs (concat (removelast cut)) (last cut []).
Definition impl_changes := impl_count_pairs_split changed.
Definition impl_resets := impl_count_pairs_split dropped.

(* ---------------------------------------------------------------------------------------------------- *)
(* range queries                                                                                         *)

(* evaluation steps start, start+step, ... <= end  (fuel-free: n = (end-start)/step + 1 steps) *)
Definition steps (start stop step : Z) : list Z :=
  if (step <=? 0)%Z || (stop <? start)%Z then []
  else map (fun k => (start + Z.of_nat k * step)%Z) (seq 0 (Z.to_nat ((stop - start) / step) + 1)).

Section Queries.
  Variable L : Type.                                   (* label sets *)
  Variable eval : list sample -> Z -> option Q.        (* an instant-vector expression on one series at time t *)

  Definition series := (L * list sample)%type.

  (* instant query: one element per series that has a value at t *)
  Definition instant_query (db : list series) (t : Z) : list (L * Q) :=
    flat_map (fun s => match eval (snd s) t with Some v => [(fst s, v)] | None => [] end) db.

  (* range query as the engines return it: per series the list of (step, value) *)
  Definition range_query (db : list series) (start stop step : Z) : list (L * list (Z * Q)) :=
    map (fun s => (fst s, flat_map (fun t => match eval (snd s) t with Some v => [(t, v)] | None => [] end)
                                   (steps start stop step))) db.
End Queries.

(* ---------------------------------------------------------------------------------------------------- *)
(* aggregation by / without                                                                              *)

Definition labels := list (string * string).
Definition name_label : string := "__name__".

Definition mem_str (s : string) (l : list string) : bool := existsb (String.eqb s) l.
Definition key_by (G : list string) (ls : labels) : labels := filter (fun kv => mem_str (fst kv) G) ls.
Definition key_without (G : list string) (ls : labels) : labels :=
  filter (fun kv => negb (mem_str (fst kv) G) && negb (String.eqb (fst kv) name_label)) ls.
Definition group_key (without : bool) (G : list string) (ls : labels) : labels :=
  if without then key_without G ls else key_by G ls.

Definition label_eqb (a b : string * string) : bool := String.eqb (fst a) (fst b) && String.eqb (snd a) (snd b).
Fixpoint labels_eqb (a b : labels) : bool :=
  match a, b with
  | [], [] => true
  | x :: a', y :: b' => label_eqb x y && labels_eqb a' b'
  | _, _ => false
  end.

Definition elem := (labels * Q)%type.

Fixpoint insert_group (k : labels) (e : elem) (gs : list (labels * list elem)) : list (labels * list elem) :=
  match gs with
  | [] => [(k, [e])]
  | (k', es) :: r => if labels_eqb k k' then (k', es ++ [e]) :: r else (k', es) :: insert_group k e r
  end.

Definition groups (without : bool) (G : list string) (vec : list elem) : list (labels * list elem) :=
  fold_left (fun gs e => insert_group (group_key without G (fst e)) e gs) vec [].

Inductive aggop := AggSum | AggAvg | AggMin | AggMax | AggCount.

Definition agg_values (op : aggop) (vs : list Q) : Q :=
  match op with
  | AggSum => qsum vs
  | AggAvg => mean_inc vs
  | AggMin => match vs with [] => 0 | x :: r => fold_left qmin2 r x end
  | AggMax => match vs with [] => 0 | x :: r => fold_left qmax2 r x end
  | AggCount => qlen vs
  end.

Definition aggregate (op : aggop) (without : bool) (G : list string) (vec : list elem) : list elem :=
  map (fun g => (fst g, agg_values op (map snd (snd g)))) (groups without G vec).
