From Coq Require Import String.
From Coq Require Import QArith ZArith List Bool Lia Setoid Morphisms Sorted Permutation.
From OG Require Import C18.Model.
Import ListNotations.
Open Scope Q_scope.

Definition oQeq (a b : option Q) : Prop :=
  match a, b with Some x, Some y => x == y | None, None => True | _, _ => False end.

Lemma oQeq_refl a : oQeq a a.
Proof. destruct a; simpl; auto. reflexivity. Qed.
Lemma oQeq_sym a b : oQeq a b -> oQeq b a.
Proof. destruct a, b; simpl; auto. intros; symmetry; auto. Qed.
Lemma oQeq_trans a b c : oQeq a b -> oQeq b c -> oQeq a c.
Proof. destruct a, b, c; simpl; auto; try tauto. intros; etransitivity; eauto. Qed.

Lemma Qltb_irrefl x : Qltb x x = false.
Proof. unfold Qltb. rewrite (proj2 (Qle_bool_iff x x)); [reflexivity | apply Qle_refl]. Qed.

Lemma Qltb_lt a b : Qltb a b = true <-> a < b.
Proof.
  unfold Qltb. rewrite negb_true_iff. split; intro H.
  - apply Qnot_le_lt. intro Hle. apply Qle_bool_iff in Hle. congruence.
  - destruct (Qle_bool b a) eqn:E; auto. apply Qle_bool_iff in E. exfalso. eapply Qlt_not_le; eauto.
Qed.

Global Instance Qltb_comp : Proper (Qeq ==> Qeq ==> eq) Qltb.
Proof. intros a b H c d H'. unfold Qltb. rewrite H, H'. reflexivity. Qed.

Definition times_increasing (w : list sample) : Prop := StronglySorted Z.lt (map fst w).

(* ---- lists ---- *)
Lemma last_indep {A} (l : list A) d d' : l <> [] -> last l d = last l d'.
Proof. induction l as [|x l IH]; [congruence|]. intros _. destruct l; [reflexivity|]. simpl in *. apply IH. congruence. Qed.

Lemma last_app_ne {A} (l m : list A) d : m <> [] -> last (l ++ m) d = last m d.
Proof.
  intros Hm. induction l as [|x l IH]; [reflexivity|]. simpl app.
  assert (Hn : l ++ m <> []) by (intro E; apply app_eq_nil in E; tauto).
  destruct (l ++ m) eqn:E; [congruence|]. exact IH.
Qed.

Lemma last_cons_self {A} (l : list A) x : last (x :: l) x = last l x.
Proof. destruct l; reflexivity. Qed.

Lemma concat_removelast_last {A} (cut : list (list A)) :
  concat (removelast cut) ++ last cut [] = concat cut.
Proof.
  destruct cut as [|x cut]; [reflexivity|].
  assert (H : x :: cut <> []) by congruence.
  rewrite (app_removelast_last [] H) at 3. rewrite concat_app. simpl. rewrite app_nil_r. reflexivity.
Qed.

(* ---- extrapolatedRate ---- *)
Lemma calc_first_last_whole p c :
  calc_first_last p c = match p ++ c with [] => None | x :: r => Some (x, last r x) end.
Proof.
  destruct p as [|pf p]; destruct c as [|cf c]; unfold calc_first_last; try reflexivity.
  - rewrite last_cons_self. reflexivity.
  - rewrite app_nil_r. rewrite last_cons_self. reflexivity.
  - change ((pf :: p) ++ cf :: c) with (pf :: (p ++ cf :: c)). cbv iota.
    f_equal. f_equal. rewrite last_app_ne by congruence. apply last_indep. congruence.
Qed.

Lemma rstep_self v a : rstep (v, a) v = (v, a).
Proof. unfold rstep. simpl. rewrite Qltb_irrefl. reflexivity. Qed.

Lemma sorted_last_gt t0 v0 rest d tl vl :
  times_increasing ((t0, v0) :: rest) -> rest <> [] -> last rest d = (tl, vl) -> (t0 < tl)%Z.
Proof.
  intros Hs Hne El. unfold times_increasing in Hs. simpl in Hs. apply StronglySorted_inv in Hs. destruct Hs as [_ Hall].
  rewrite Forall_forall in Hall. change tl with (fst (tl, vl)). rewrite <- El. apply Hall. apply in_map.
  destruct rest; [congruence|]. apply exists_last in Hne. destruct Hne as [l' [a Ha]]. rewrite Ha.
  rewrite last_last. apply in_or_app. right. left. reflexivity.
Qed.

Lemma merge_equals_whole ic ir t range offset p c :
  times_increasing (p ++ c) -> (0 < range)%Z ->
  oQeq (impl_extrap_merge range_div_repaired ic ir t range offset p c) (spec_extrap ic ir t range offset (p ++ c)).
Proof.
  intros Hs Hr. unfold impl_extrap_merge. rewrite calc_first_last_whole.
  rewrite <- app_length.
  assert (Hf : forall st, fold_left rstep (map snd c) (fold_left rstep (map snd p) st) = fold_left rstep (map snd (p ++ c)) st).
  { intros. rewrite map_app, fold_left_app. reflexivity. }
  destruct (p ++ c) as [|[t0 v0] rest] eqn:E; [destruct (_ <=? _)%Z; reflexivity|].
  unfold spec_extrap. destruct rest as [|s1 rest']; [reflexivity|].
  assert (Hne : s1 :: rest' <> []) by congruence.
  remember (s1 :: rest') as rest eqn:Erest.
  match goal with |- context [(?a <=? 1)%Z] => replace (a <=? 1)%Z with false
    by (symmetry; apply Z.leb_gt; subst rest; cbn [Datatypes.length]; lia) end.
  match goal with |- context [last rest ?d] => destruct (last rest d) as [tl vl] eqn:El end.
  assert (Hgt : (t0 < tl)%Z) by (eapply sorted_last_gt; eauto).
  replace ((tl =? t0)%Z) with false by (symmetry; apply Z.eqb_neq; lia).
  replace ((range =? 0)%Z) with false by (symmetry; apply Z.eqb_neq; lia).
  simpl orb. cbv iota. rewrite Hf. clear Hf.
  match goal with |- context [(Z.of_nat ?a - 1)%Z] => replace (Z.of_nat a - 1)%Z with (Z.of_nat (Datatypes.length rest)) by (cbn [Datatypes.length]; lia) end.
  change (map snd ((t0, v0) :: rest)) with (v0 :: map snd rest).
  change (fold_left rstep (v0 :: map snd rest) (v0, vl - v0)) with (fold_left rstep (map snd rest) (rstep (v0, vl - v0) v0)).
  rewrite rstep_self.
  simpl. destruct ir; unfold range_div_repaired, Qdiv; ring.
Qed.

Theorem extrap_split_equals_whole ic ir t range offset cut :
  times_increasing (concat cut) -> (0 < range)%Z ->
  oQeq (impl_extrap_split range_div_repaired ic ir t range offset cut) (spec_extrap ic ir t range offset (concat cut)).
Proof.
  intros Hs Hr. unfold impl_extrap_split. pose proof (concat_removelast_last cut) as E.
  rewrite <- E in Hs. rewrite <- E. apply merge_equals_whole; auto.
Qed.
