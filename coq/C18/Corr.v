(* C18 correspondence evaluator: runs the model on harness cases and reports, per case, a bit mask
     1  the reference semantics (spec_...) disagrees with the upstream engine's value
     2  the implementation model in its REPAIRED variant disagrees with the server's value
     4  the implementation model in its CURRENT variant disagrees with the server's value
     8  the case sits on an extrapolation-threshold tie (exact rationals vs floats may legitimately pick different
        branches); such cases are not used for a verdict
   Values are compared with relative tolerance 1e-9 (absolute floor 1e-12). *)
From Coq Require Import String.
From Coq Require Import QArith ZArith List Bool.
From OG Require Import C18.Model C18.Model2 C18.Model3 C18.Model4.
Import ListNotations.
Open Scope Q_scope.

Definition qabs (a : Q) : Q := if Qltb a 0 then - a else a.
Definition qmaxq (a b : Q) : Q := if Qltb a b then b else a.
Definition approx (a b : Q) : bool :=
  Qle_bool (qabs (a - b)) (qmaxq (qabs a) (qabs b) * (1 # 1000000000) + (1 # 1000000000000)).
Definition oapprox (a b : option Q) : bool :=
  match a, b with
  | Some x, Some y => approx (Qred x) (Qred y)
  | None, None => true
  | _, _ => false
  end.

(* model value vs engine value; sqr: the engine's value is the non-negative square root of the model's (stddev) *)
Definition xapprox (sqr : bool) (m e : option xval) : bool :=
  match m, e with
  | Some (XFin x), Some (XFin y) =>
      if sqr then Qle_bool 0 y && approx (Qred x) (Qred (y * y)) else approx (Qred x) (Qred y)
  | Some XPosInf, Some XPosInf => true
  | Some XNegInf, Some XNegInf => true
  | None, None => true
  | _, _ => false
  end.
Definition xfin (o : option Q) : option xval := option_map XFin o.

Fixpoint cut_by (lens : list nat) (l : list sample) : list (list sample) :=
  match lens with
  | [] => match l with [] => [] | _ => [l] end
  | n :: r => firstn n l :: cut_by r (skipn n l)
  end.

Inductive fnid := FRate | FIncrease | FDelta | FIrate | FIdelta | FSum | FCount | FAvg | FMin | FMax | FLast
                | FChanges | FResets | FSelect
                | FStdvar | FStddev | FPresent | FQuantile | FDeriv | FPredict.

Definition is_sqrt_fn (f : fnid) : bool := match f with FStddev => true | _ => false end.

(* param: the scalar argument of quantile_over_time / predict_linear (unused otherwise) *)
Definition spec_fn (f : fnid) (param : Q) (t range offset : Z) (samples : list sample) : option xval :=
  let w := window t range offset samples in
  match f with
  | FQuantile => spec_quantile_over_time param w
  | _ => xfin match f with
  | FRate => spec_rate t range offset w
  | FIncrease => spec_increase t range offset w
  | FDelta => spec_delta t range offset w
  | FIrate => spec_irate w
  | FIdelta => spec_idelta w
  | FSum => spec_sum_over_time w
  | FCount => spec_count_over_time w
  | FAvg => spec_avg_over_time w
  | FMin => spec_min_over_time w
  | FMax => spec_max_over_time w
  | FLast => spec_last_over_time w
  | FChanges => spec_changes w
  | FResets => spec_resets w
  | FSelect => option_map snd (instant_select t offset samples)
  | FStdvar | FStddev => spec_stdvar_over_time w
  | FPresent => spec_present_over_time w
  | FDeriv => spec_deriv w
  | FPredict => spec_predict_linear t param w
  | FQuantile => None
  end end.

Definition impl_fn (current : bool) (f : fnid) (param : Q) (t range offset : Z) (samples : list sample) (lens : list nat) : option xval :=
  let cut := cut_by lens (window t range offset samples) in
  match f with
  | FQuantile => impl_quantile_split param cut
  | _ => xfin match f with
  | FRate => if current then impl_rate_current t range offset cut else impl_rate_repaired t range offset cut
  | FIncrease => impl_increase t range offset cut
  | FDelta => impl_delta t range offset cut
  | FIrate => impl_instant_split true cut
  | FIdelta => impl_instant_split false cut
  | FSum => impl_sum_over_time cut
  | FCount => impl_count_over_time cut
  | FAvg => impl_avg_over_time cut
  | FMin => impl_min_over_time cut
  | FMax => impl_max_over_time cut
  | FLast => impl_last_over_time cut
  | FChanges => impl_changes cut
  | FResets => impl_resets cut
  | FSelect => option_map snd (instant_select t offset samples)
  | FStdvar | FStddev => impl_stdvar_split cut
  | FPresent => impl_present_split cut
  | FDeriv => impl_deriv t offset cut
  | FPredict => impl_predict_linear param t offset cut
  | FQuantile => None
  end end.

(* threshold tie of extrapolatedRate: |duration - threshold| within 1e-9 relative *)
Definition near (a b : Q) : bool := approx (Qred a) (Qred b).
Definition extrap_tie (isCounter : bool) (t range offset : Z) (w : list sample) : bool :=
  match w with
  | [] => false
  | (t0, v0) :: rest =>
      match rest with
      | [] => false
      | _ :: _ =>
          let '(tl_, vl) := last rest (t0, v0) in
          let n1 := Z.of_nat (length rest) in
          let res0 := vl - v0 in
          let res := if isCounter then snd (fold_left rstep (map snd rest) (v0, res0)) else res0 in
          let dStart := ms_to_s (t0 - win_lo t range offset) in
          let dEnd := ms_to_s (win_hi t offset - tl_) in
          let sampled := ms_to_s (tl_ - t0) in
          let avgd := sampled / inject_Z n1 in
          let thr := avgd * (11 # 10) in
          let dz := if isCounter && Qltb 0 res && Qle_bool 0 v0 then sampled * (v0 / res) else dStart in
          near dStart thr || near dEnd thr || near dz thr || near dz dStart
      end
  end.

Definition fn_tie (f : fnid) (t range offset : Z) (samples : list sample) : bool :=
  let w := window t range offset samples in
  match f with
  | FRate | FIncrease => extrap_tie true t range offset w
  | FDelta => extrap_tie false t range offset w
  | _ => false
  end.

Definition rcase := (fnid * Q * Z * Z * Z * list sample * list nat * option xval * option xval)%type.

Definition check_rcase (c : rcase) : N :=
  let '(f, param, t, range, offset, samples, lens, up, sv) := c in
  let s := spec_fn f param t range offset samples in
  let ir := impl_fn false f param t range offset samples lens in
  let ic := impl_fn true f param t range offset samples lens in
  let sq := is_sqrt_fn f in
  ((if xapprox sq s up then 0 else 1) + (if xapprox sq ir sv then 0 else 2) + (if xapprox sq ic sv then 0 else 4)
   + (if fn_tie f t range offset samples then 8 else 0))%N.

Fixpoint mism_from {A} (chk : A -> N) (k : nat) (cs : list A) : list (nat * N) :=
  match cs with
  | [] => []
  | c :: r => let m := chk c in
              if (m =? 0)%N then mism_from chk (S k) r else (k, m) :: mism_from chk (S k) r
  end.
Definition rmismatches := mism_from check_rcase 0.

(* aggregation cases: input vector, grouping, both engines' output vectors *)
Definition acase := (aggop * bool * list string * list elem * list elem * list elem)%type.

Fixpoint lookup (k : labels) (v : list elem) : option Q :=
  match v with
  | [] => None
  | (k', x) :: r => if labels_eqb k k' then Some x else lookup k r
  end.

Definition vec_agree (a b : list elem) : bool :=
  Nat.eqb (length a) (length b) && forallb (fun e => oapprox (Some (snd e)) (lookup (fst e) b)) a.

Definition check_acase (c : acase) : N :=
  let '(op, wo, G, vin, up, sv) := c in
  let m := aggregate op wo G vin in
  ((if vec_agree m up then 0 else 1) + (if vec_agree m sv then 0 else 2))%N.

Definition amismatches := mism_from check_acase 0.

(* absent_over_time cases: the samples of every selected series, a generated cut per series, and whether the engines
   returned the (single) element *)
Definition bcase := (Z * Z * Z * list (list sample) * list (list nat) * bool * bool)%type.

Fixpoint zip_cuts (ws : list (list sample)) (lens : list (list nat)) : list (list (list sample)) :=
  match ws with
  | [] => []
  | w :: r => cut_by (hd [] lens) w :: zip_cuts r (tl lens)
  end.

Definition check_bcase (c : bcase) : N :=
  let '(t, range, offset, sers, lens, up, sv) := c in
  let ws := map (window t range offset) sers in
  let s := negb (is_none (spec_absent_over_time ws)) in
  let i := negb (is_none (impl_absent_over_time (zip_cuts ws lens))) in
  ((if Bool.eqb s up then 0 else 1) + (if Bool.eqb i sv then 0 else 2))%N.

Definition bmismatches := mism_from check_bcase 0.

(* binary operator cases. vector-scalar: operator, bool modifier, scalar on the left?, scalar, operand vector (upstream's
   evaluation of the operand), both engines' answers. vector-vector (one-to-one): operator, bool, on?, labels, both
   operand vectors, both answers. *)
Definition vscase := (binop * bool * bool * Q * list elem * list elem * list elem)%type.
Definition check_vscase (c : vscase) : N :=
  let '(op, rb, swap, s, vin, up, sv) := c in
  let m := vs_binop op rb swap s vin in
  ((if vec_agree m up then 0 else 1) + (if vec_agree m sv then 0 else 2))%N.
Definition vsmismatches := mism_from check_vscase 0.

Definition vvcase := (binop * bool * bool * list string * list elem * list elem * list elem * list elem)%type.
Definition check_vvcase (c : vvcase) : N :=
  let '(op, rb, on, ls, lhs, rhs, up, sv) := c in
  match vv_binop op rb {| vm_on := on; vm_labels := ls |} lhs rhs with
  | Some m => ((if vec_agree m up then 0 else 1) + (if vec_agree m sv then 0 else 2))%N
  | None => 3%N     (* the model reports a many-to-many error although upstream answered *)
  end.
Definition vvmismatches := mism_from check_vvcase 0.

(* cases whose samples carry staleness markers (option-valued samples): the reference semantics drops the markers from
   range windows and lets a newest marker hide the series for the instant selector.  Only bit 1 (model vs upstream) and
   bit 2 (repaired protocol vs server) are produced; the record layout of the server is not known to the harness, so the
   `current` protocol is not evaluated here (the staleness finding's signature classifies the server side). *)
Definition scase := (fnid * Q * Z * Z * Z * list osample * list nat * option xval * option xval)%type.

Fixpoint ocut_by (lens : list nat) (l : list osample) : list (list osample) :=
  match lens with
  | [] => match l with [] => [] | _ => [l] end
  | n :: r => firstn n l :: ocut_by r (skipn n l)
  end.

Definition check_scase (c : scase) : N :=
  let '(f, param, t, range, offset, osamples, lens, up, sv) := c in
  let sq := is_sqrt_fn f in
  match f with
  | FSelect =>
      let m := xfin (option_map snd (instant_select_stale t offset osamples)) in
      ((if xapprox false m up then 0 else 1) + (if xapprox false m sv then 0 else 2))%N
  | _ =>
      (* the filtered series: windows commute with the filter (C18_stale_window_commutes) *)
      let samples := drop_stale osamples in
      let s := spec_fn f param t range offset samples in
      let recs := filter_records (ocut_by lens (owindow t range offset osamples)) in
      let ir := impl_fn false f param t range offset (concat recs) (map (@length sample) recs) in
      ((if xapprox sq s up then 0 else 1) + (if xapprox sq ir sv then 0 else 2)
       + (if fn_tie f t range offset samples then 8 else 0))%N
  end.
Definition smismatches := mism_from check_scase 0.
