(* C18: today's floatPromRateMerge divides by float64(rangeDuration/1e9) - the integer number of seconds - so a rate over
   a range that is not a whole number of seconds is scaled by range/trunc(range). Witness: rate(m[1500ms]). *)
From Coq Require Import String.
From Coq Require Import QArith ZArith List Bool Sorted.
From OG Require Import C18.Model C18.ProofsA.
Import ListNotations.
Open Scope Q_scope.

Definition wit_cut : list (list sample) := [[(0%Z, 0); (500%Z, 5)]; [(1000%Z, 10); (1500%Z, 15)]].

Theorem C18_subsecond_range_refuted :
  exists t range offset cut,
    times_increasing (concat cut) /\ (0 < range)%Z /\
    ~ oQeq (impl_rate_current t range offset cut) (spec_rate t range offset (concat cut)).
Proof.
  exists 1500%Z, 1500%Z, 0%Z, wit_cut. split; [|split].
  - unfold times_increasing, wit_cut. simpl. repeat (constructor; [|repeat constructor; reflexivity]). constructor.
  - reflexivity.
  - vm_compute. discriminate.
Qed.
Print Assumptions C18_subsecond_range_refuted.

(* the same input with the repaired divisor agrees with upstream (10 per second) *)
Example C18_subsecond_repaired_agrees :
  oQeq (impl_rate_repaired 1500 1500 0 wit_cut) (Some 10) /\ oQeq (spec_rate 1500 1500 0 (concat wit_cut)) (Some 10) /\
  oQeq (impl_rate_current 1500 1500 0 wit_cut) (Some 15).
Proof. vm_compute. repeat split. Qed.
