(* C18: today's floatPromRateMerge divides by float64(rangeDuration/1e9) - the integer number of seconds - so a rate over
   a range that is not a whole number of seconds is scaled by range/trunc(range). Witness: rate(m[1500ms]). *)
From Coq Require Import String.
From Coq Require Import QArith ZArith List Bool Sorted.
From OG Require Import C18.Model4 C18.ProofsI C18.Model3 C18.Model C18.ProofsA.
Import ListNotations.
Open Scope Q_scope.

Definition wit_cut : list (list sample) := [[(0%Z, 0); (500%Z, 5)]; [(1000%Z, 10); (1500%Z, 15)]].

Theorem C18_subsecond_range_refuted :
  exists t range offset cut,
    times_increasing (concat cut) /\ (0 < range)%Z /\
    ~ oQeq (impl_rate_current t range offset cut) (spec_rate t range offset (concat cut)).
Proof.
  exists 1500%Z, 1500%Z, 0%Z, wit_cut. split; [|split].
  - unfold times_increasing, wit_cut. simpl. repeat (constructor; [|repeat constructor; reflexivity]). constructor.
  - reflexivity.
  - vm_compute. discriminate.
Qed.
Print Assumptions C18_subsecond_range_refuted.

(* the same input with the repaired divisor agrees with upstream (10 per second) *)
Example C18_subsecond_repaired_agrees :
  oQeq (impl_rate_repaired 1500 1500 0 wit_cut) (Some 10) /\ oQeq (spec_rate 1500 1500 0 (concat wit_cut)) (Some 10) /\
  oQeq (impl_rate_current 1500 1500 0 wit_cut) (Some 15).
Proof. vm_compute. repeat split. Qed.

(* C18-range-binop-pairs-next-series-after-end: today's walk leaves the matched series only at the end of the chunk.
   Witness: left series 10 11 12 at steps 0 60 120 (s); the chunk of the right side holds the matched series with a
   single point at step 0 followed by ANOTHER series with points at 0 60 120.  Step-wise (upstream) answer: one point;
   today's code adds two points that pair the left series with the other series. *)
Definition wit_s : list sample := [(0%Z, 10); (60%Z, 11); (120%Z, 12)].
Definition wit_chunk : list (list sample) := [[(0%Z, 20)]; [(0%Z, 50); (60%Z, 51); (120%Z, 52)]].
Theorem C18_binop_walk_current_refuted :
  exists s chunk g, walk_current Qplus s chunk g <> join_spec Qplus s (nth g chunk []).
Proof. exists wit_s, wit_chunk, 0%nat. vm_compute. discriminate. Qed.
Print Assumptions C18_binop_walk_current_refuted.
Example C18_binop_walk_witness_values :
  walk_current Qplus wit_s wit_chunk 0 = [(0%Z, 10 + 20); (60%Z, 11 + 51); (120%Z, 12 + 52)] /\
  walk_repaired Qplus wit_s wit_chunk 0 = [(0%Z, 10 + 20)] /\ join_spec Qplus wit_s (nth 0 wit_chunk []) = [(0%Z, 10 + 20)].
Proof. vm_compute. repeat split. Qed.

(* C18-instant-range-function-drops-series-ending-stale: today's reducer protocol drops the deferred window when the LAST
   record holds nothing but staleness markers.  Witness: records [(0,1) (30,2)] and [(60, marker)]: upstream counts 2. *)
Theorem C18_stale_protocol_current_refuted :
  exists cut, stale_protocol_current impl_count_over_time cut <> spec_count_over_time (drop_stale (concat cut)).
Proof. exists wit_stale_cut. vm_compute. discriminate. Qed.
Print Assumptions C18_stale_protocol_current_refuted.
