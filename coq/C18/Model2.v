(* C18 - second part of the executable model: the range functions that engine/prom_functions.go implements with
   slice reducers (buffer of the earlier records + current record, merged by one function of (prev, curr)):

     stdvar_over_time / stddev_over_time   upstream funcStdvarOverTime (Welford's incremental mean / M2)
     present_over_time                     1 for a non-empty window
     absent_over_time                      1 iff NO selected series has a sample in its window (vector level)
     quantile_over_time                    upstream quantile(): linear interpolation between order statistics
     deriv / predict_linear                upstream linearRegression (least squares from the four moment sums)

   Over the rationals the Kahan compensation term of upstream's kahanSumInc is identically 0
   (c += (sum - t) + inc with t = sum + inc), so plain sums are the exact counterpart.  stddev is the non-negative
   square root of stdvar: the model computes stdvar and the correspondence checks r >= 0 /\ r * r = stdvar. *)
From Coq Require Import String.
From Coq Require Import QArith Qround ZArith List Bool.
From OG Require Import C18.Model.
Import ListNotations.
Open Scope Q_scope.

(* ---------------------------------------------------------------------------------------------------- *)
(* stdvar_over_time                                                                                      *)

(* state (count, mean, aux): count++ ; delta = v - mean ; mean += delta/count ; aux += delta * (v - mean) *)
Definition welford_step (st : Q * Q * Q) (v : Q) : Q * Q * Q :=
  let '(count, mean, aux) := st in
  let count' := Qred (count + 1) in
  let delta := v - mean in
  let mean' := Qred (mean + delta / count') in
  (count', mean', Qred (aux + delta * (v - mean'))).

Definition welford (l : list Q) : Q * Q * Q := fold_left welford_step l (0, 0, 0).
Definition welford_var (st : Q * Q * Q) : Q := let '(count, _, aux) := st in aux / count.

Definition spec_stdvar_over_time (w : list sample) : option Q :=
  match vals w with [] => None | l => Some (welford_var (welford l)) end.

(* floatStdVarOverTimeMerger on (prev, curr): one Welford pass over prev, continued over curr *)
Definition impl_stdvar_merge (p c : list sample) : option Q :=
  if (Z.of_nat (length p + length c) <? 1)%Z then None
  else Some (welford_var (fold_left welford_step (vals c) (fold_left welford_step (vals p) (0, 0, 0)))).
Definition impl_stdvar_split (cut : list (list sample)) : option Q :=
  impl_stdvar_merge (concat (removelast cut)) (last cut []).

(* the moment vector (n, sum x, sum x^2): the state whose component-wise sum merges two pieces exactly *)
Definition moments (l : list Q) : Q * Q * Q := (qlen l, qsum l, qsum (map (fun x => x * x) l)).
Definition mplus (a b : Q * Q * Q) : Q * Q * Q :=
  let '(n1, s1, q1) := a in let '(n2, s2, q2) := b in (n1 + n2, s1 + s2, q1 + q2).
Definition var_of_moments (m : Q * Q * Q) : Q := let '(n, s, q) := m in (q - s * s / n) / n.

(* ---------------------------------------------------------------------------------------------------- *)
(* present_over_time / absent_over_time                                                                  *)

Definition spec_present_over_time (w : list sample) : option Q :=
  match w with [] => None | _ :: _ => Some 1 end.
Definition impl_present_merge (p c : list sample) : option Q :=
  if (Z.of_nat (length p + length c) <? 1)%Z then None else Some 1.
Definition impl_present_split (cut : list (list sample)) : option Q :=
  impl_present_merge (concat (removelast cut)) (last cut []).

(* absent_over_time over the windows of all selected series: one element (value 1) iff every window is empty *)
Definition is_none {A} (o : option A) : bool := match o with None => true | Some _ => false end.
Definition spec_absent_over_time (ws : list (list sample)) : option Q :=
  if forallb (fun w => is_none (spec_present_over_time w)) ws then Some 1 else None.
Definition impl_absent_over_time (cuts : list (list (list sample))) : option Q :=
  if forallb (fun cut => is_none (impl_present_split cut)) cuts then Some 1 else None.

(* ---------------------------------------------------------------------------------------------------- *)
(* quantile_over_time                                                                                    *)

Fixpoint qinsert (x : Q) (l : list Q) : list Q :=
  match l with
  | [] => [x]
  | y :: r => if Qle_bool x y then x :: l else y :: qinsert x r
  end.
Definition qsort (l : list Q) : list Q := fold_right qinsert [] l.

(* results that may be infinite: quantile with q outside [0,1] *)
Inductive xval := XFin (v : Q) | XPosInf | XNegInf.

(* upstream quantile(q, values) on a non-empty list *)
Definition quantile_fin (q : Q) (l : list Q) : Q :=
  let s := qsort l in
  let n := Z.of_nat (length l) in
  let rank := q * inject_Z (n - 1) in
  let fl := Qfloor rank in
  let lower := Z.max 0 fl in
  let upper := Z.min (n - 1) (lower + 1) in
  let weight := rank - inject_Z fl in
  nth (Z.to_nat lower) s 0 * (1 - weight) + nth (Z.to_nat upper) s 0 * weight.

Definition quantile (q : Q) (l : list Q) : xval :=
  if Qltb q 0 then XNegInf else if Qltb 1 q then XPosInf else XFin (quantile_fin q l).

Definition spec_quantile_over_time (q : Q) (w : list sample) : option xval :=
  match vals w with [] => None | l => Some (quantile q l) end.

(* floatQuantileOverTimeMerger + executor.CalcQuantile2: tmp = prev ++ curr, sorted *)
Definition impl_quantile_merge (q : Q) (p c : list sample) : option xval :=
  if (Z.of_nat (length p + length c) =? 0)%Z then None else Some (quantile q (vals p ++ vals c)).
Definition impl_quantile_split (q : Q) (cut : list (list sample)) : option xval :=
  impl_quantile_merge q (concat (removelast cut)) (last cut []).

(* ---------------------------------------------------------------------------------------------------- *)
(* deriv / predict_linear                                                                                *)

Definition lin5 := (Q * Q * Q * Q * Q)%type.          (* n, sum x, sum y, sum xy, sum x^2 *)
Definition xsec (tref : Z) (s : sample) : Q := ms_to_s (fst s - tref).
Definition lin_step (tref : Z) (st : lin5) (s : sample) : lin5 :=
  let '(n, sx, sy, sxy, sx2) := st in
  let x := xsec tref s in
  (n + 1, Qred (sx + x), Qred (sy + snd s), Qred (sxy + x * snd s), Qred (sx2 + x * x)).
Definition lin0 : lin5 := (0, 0, 0, 0, 0).
Definition lin_sums (tref : Z) (l : list sample) : lin5 := fold_left (lin_step tref) l lin0.
Definition lin_plus (a b : lin5) : lin5 :=
  let '(n1, a1, b1, c1, d1) := a in let '(n2, a2, b2, c2, d2) := b in (n1 + n2, a1 + a2, b1 + b2, c1 + c2, d1 + d2).

(* all values equal to the first one *)
Definition const_from (v0 : Q) (l : list sample) : bool := forallb (fun s => Qeq_bool (snd s) v0) l.

Definition lin_finish (st : lin5) : Q * Q :=
  let '(n, sx, sy, sxy, sx2) := st in
  let cov := sxy - sx * sy / n in
  let var := sx2 - sx * sx / n in
  let slope := cov / var in
  (slope, sy / n - slope * sx / n).

(* upstream linearRegression(samples, interceptTime): (slope, intercept) *)
Definition lin_regress (tref : Z) (l : list sample) : Q * Q :=
  match l with
  | [] => (0, 0)
  | (_, v0) :: _ => if const_from v0 l then (0, v0) else lin_finish (lin_sums tref l)
  end.

(* upstream funcDeriv: slope of the regression anchored at the FIRST sample's time *)
Definition spec_deriv (w : list sample) : option Q :=
  match w with
  | [] => None
  | [_] => None
  | (t0, _) :: _ => Some (fst (lin_regress t0 w))
  end.

(* upstream funcPredictLinear: regression anchored at the evaluation time t (not shifted by the offset) *)
Definition spec_predict_linear (t : Z) (dur : Q) (w : list sample) : option Q :=
  match w with
  | [] => None
  | [_] => None
  | _ => let '(slope, icpt) := lin_regress t w in Some (slope * dur + icpt)
  end.

(* engine/prom_functions.go linearMergeFunc(isDeriv, scalar) on (prev, curr); ts is the end of the window in sample
   time (t - offset), interceptTime = ts + param.offset *)
Definition impl_linear_merge (isDeriv : bool) (dur : Q) (t offset : Z) (p c : list sample) : option Q :=
  if (Z.of_nat (length p + length c) <=? 1)%Z then None else
  match (match p with s :: _ => Some (snd s) | [] => match c with s :: _ => Some (snd s) | [] => None end end) with
  | None => None
  | Some fv =>
      let icptTime := (win_hi t offset + offset)%Z in
      if const_from fv p && const_from fv c then Some (if isDeriv then 0 else fv)
      else
        let '(slope, icpt) := lin_finish (fold_left (lin_step icptTime) c (fold_left (lin_step icptTime) p lin0)) in
        Some (if isDeriv then slope else slope * dur + icpt)
  end.
Definition impl_linear_split (isDeriv : bool) (dur : Q) (t offset : Z) (cut : list (list sample)) : option Q :=
  impl_linear_merge isDeriv dur t offset (concat (removelast cut)) (last cut []).
Definition impl_deriv := impl_linear_split true 0.
Definition impl_predict_linear (dur : Q) := impl_linear_split false dur.
