(* C18 proofs, part E: stdvar/stddev_over_time (Welford = moment sums), present/absent_over_time,
   deriv / predict_linear (least squares from moment sums; the slope does not depend on the anchor time). *)
From Coq Require Import String.
From Coq Require Import QArith ZArith List Bool Lia Lqa Setoid Morphisms Sorted Permutation.
From OG Require Import C18.Model C18.Model2.
From OG Require Import C18.ProofsA C18.ProofsB.
Import ListNotations.
Open Scope Q_scope.

Definition sq (x : Q) : Q := x * x.

(* ---- slice reducers: (prev, curr) = the whole window ---- *)
Lemma len_vals_app (p c : list sample) : (length p + length c)%nat = length (vals p ++ vals c).
Proof. unfold vals. rewrite app_length, !map_length. reflexivity. Qed.

Theorem stdvar_merge_equals_whole p c : impl_stdvar_merge p c = spec_stdvar_over_time (p ++ c).
Proof.
  unfold impl_stdvar_merge, spec_stdvar_over_time, welford. rewrite vals_app, <- fold_left_app, len_vals_app.
  destruct (vals p ++ vals c) as [|x r]; [reflexivity|].
  replace (Z.of_nat (length (x :: r)) <? 1)%Z with false by (symmetry; apply Z.ltb_ge; cbn [length]; lia).
  reflexivity.
Qed.

Theorem stdvar_split_equals_whole cut : impl_stdvar_split cut = spec_stdvar_over_time (concat cut).
Proof. unfold impl_stdvar_split. rewrite stdvar_merge_equals_whole, concat_removelast_last. reflexivity. Qed.

Theorem present_split_equals_whole cut : impl_present_split cut = spec_present_over_time (concat cut).
Proof.
  unfold impl_present_split, impl_present_merge. rewrite <- app_length, concat_removelast_last.
  destruct (concat cut) as [|x r]; [reflexivity|].
  replace (Z.of_nat (length (x :: r)) <? 1)%Z with false by (symmetry; apply Z.ltb_ge; cbn [length]; lia).
  reflexivity.
Qed.

Theorem absent_split_equals_whole cuts :
  impl_absent_over_time cuts = spec_absent_over_time (map (@concat sample) cuts).
Proof.
  unfold impl_absent_over_time, spec_absent_over_time.
  assert (E : forallb (fun cut => is_none (impl_present_split cut)) cuts =
              forallb (fun w => is_none (spec_present_over_time w)) (map (@concat sample) cuts)).
  { induction cuts as [|x cuts IH]; [reflexivity|]. cbn [map forallb]. rewrite IH, present_split_equals_whole. reflexivity. }
  rewrite E. reflexivity.
Qed.

(* absent_over_time answers 1 exactly when no window holds a sample *)
Theorem absent_spec ws : spec_absent_over_time ws = Some 1 <-> (forall w, In w ws -> w = []).
Proof.
  unfold spec_absent_over_time. destruct (forallb _ ws) eqn:E.
  - split; [|reflexivity]. intros _ w Hin. rewrite forallb_forall in E. specialize (E w Hin). destruct w; [reflexivity|discriminate].
  - split; [discriminate|]. intros H. exfalso. assert (forallb (fun w => is_none (spec_present_over_time w)) ws = true).
    { apply forallb_forall. intros w Hin. rewrite (H w Hin). reflexivity. }
    congruence.
Qed.

(* ---- Welford's recurrence computes the moment sums ---- *)
Lemma welford_inv l : forall n m a S1 S2,
  0 <= n -> (n == 0 -> m == 0 /\ a == 0 /\ S2 == 0) -> m * n == S1 -> a * n == S2 * n - S1 * S1 ->
  let st := fold_left welford_step l (n, m, a) in
  fst (fst st) == n + qlen l /\
  snd (fst st) * fst (fst st) == S1 + qsum l /\
  snd st * fst (fst st) == (S2 + qsum (map sq l)) * fst (fst st) - (S1 + qsum l) * (S1 + qsum l).
Proof.
  induction l as [|v l IH]; intros n m a S1 S2 Hn H0 Hm Ha.
  - simpl. unfold qlen, qsum. simpl. repeat split; try ring.
    + rewrite Hm. ring.
    + rewrite Ha. ring.
  - cbn [fold_left welford_step].
    set (n1 := Qred (n + 1)). set (m1 := Qred (m + (v - m) / n1)). set (a1 := Qred (a + (v - m) * (v - m1))).
    assert (En1 : n1 == n + 1) by (unfold n1; apply Qred_correct).
    assert (Em1 : m1 == m + (v - m) / (n + 1)) by (unfold m1; rewrite Qred_correct, En1; reflexivity).
    assert (Ea1 : a1 == a + (v - m) * (v - (m + (v - m) / (n + 1)))) by (unfold a1; rewrite Qred_correct, Em1; reflexivity).
    assert (Hn1 : ~ n + 1 == 0) by lra.
    assert (Hm1 : m1 * n1 == S1 + v).
    { rewrite Em1, En1, <- Hm. field. exact Hn1. }
    assert (Ha1 : a1 * n1 == (S2 + sq v) * n1 - (S1 + v) * (S1 + v)).
    { rewrite Ea1, En1. unfold sq. destruct (Qeq_dec n 0) as [Z|NZ].
      - destruct (H0 Z) as [Zm [Za Z2]]. assert (Z1 : S1 == 0) by (rewrite <- Hm, Z; ring).
        rewrite Zm, Za, Z2, Z1, Z. field.
      - assert (E2 : S2 == a + m * m * n).
        { apply (Qmult_inj_r _ _ n NZ). rewrite <- Hm in Ha.
          assert (Hx : S2 * n == a * n + m * n * (m * n)) by (rewrite Ha; ring).
          rewrite Hx. ring. }
        rewrite E2, <- Hm. field. exact Hn1. }
    assert (Hn1' : 0 <= n1) by (rewrite En1; lra).
    assert (H01 : n1 == 0 -> m1 == 0 /\ a1 == 0 /\ S2 + sq v == 0) by (intros Z; rewrite En1 in Z; lra).
    destruct (IH n1 m1 a1 (S1 + v) (S2 + sq v) Hn1' H01 Hm1 Ha1) as [I1 [I2 I3]].
    repeat split.
    + rewrite I1, En1, qlen_cons. ring.
    + rewrite I2, qsum_cons. ring.
    + rewrite I3. cbn [map]. rewrite !qsum_cons. ring.
Qed.

Lemma welford_var_moments x l :
  welford_var (welford (x :: l)) == var_of_moments (moments (x :: l)).
Proof.
  assert (P1 : 0 <= 0) by lra.
  assert (P2 : 0 == 0 -> 0 == 0 /\ 0 == 0 /\ 0 == 0) by (intros _; repeat split; reflexivity).
  assert (P3 : 0 * 0 == 0) by ring.
  assert (P4 : 0 * 0 == 0 * 0 - 0 * 0) by ring.
  pose proof (welford_inv (x :: l) 0 0 0 0 0 P1 P2 P3 P4) as H. cbv zeta in H. destruct H as [I1 [I2 I3]].
  unfold welford. destruct (fold_left welford_step (x :: l) (0, 0, 0)) as [[n m] a]. cbn [fst snd] in *.
  unfold welford_var, var_of_moments, moments.
  assert (Hp : 0 < qlen (x :: l)) by apply qlen_pos.
  assert (En : n == qlen (x :: l)) by (rewrite I1; ring).
  assert (E3 : a * qlen (x :: l) == qsum (map sq (x :: l)) * qlen (x :: l) - qsum (x :: l) * qsum (x :: l)).
  { rewrite <- En, I3. ring. }
  rewrite En. change (fun x0 : Q => x0 * x0) with sq.
  apply (Qmult_inj_r _ _ (qlen (x :: l))); [lra|].
  transitivity a; [field; lra|].
  apply (Qmult_inj_r _ _ (qlen (x :: l))); [lra|]. rewrite E3. field. lra.
Qed.

(* stdvar_over_time is the population variance  (sum x^2 - (sum x)^2 / n) / n  of the window *)
Theorem stdvar_is_population_variance w : w <> [] ->
  oQeq (spec_stdvar_over_time w) (Some (var_of_moments (moments (vals w)))).
Proof.
  intros Hne. unfold spec_stdvar_over_time. destruct w as [|s w]; [congruence|].
  cbn [vals map]. cbn [oQeq]. apply welford_var_moments.
Qed.

Definition m3eq (a b : Q * Q * Q) : Prop :=
  fst (fst a) == fst (fst b) /\ snd (fst a) == snd (fst b) /\ snd a == snd b.

(* the merge law: the moment vector of two pieces is the component-wise sum *)
Lemma moments_app a b : m3eq (moments (a ++ b)) (mplus (moments a) (moments b)).
Proof.
  unfold moments, mplus, m3eq. cbn [fst snd]. rewrite map_app, qlen_app, !qsum_app. repeat split; reflexivity.
Qed.

Lemma var_of_moments_proper a b : m3eq a b -> var_of_moments a == var_of_moments b.
Proof.
  destruct a as [[n s] q], b as [[n' s'] q']. unfold m3eq, var_of_moments. cbn [fst snd]. intros [H1 [H2 H3]].
  rewrite H1, H2, H3. reflexivity.
Qed.

Lemma moments_concat_fold (cut : list (list Q)) :
  m3eq (moments (concat cut)) (fold_right mplus (0, 0, 0) (map moments cut)).
Proof.
  induction cut as [|x cut IH]; cbn [concat map fold_right].
  - unfold moments, m3eq, qlen, qsum. simpl. repeat split; reflexivity.
  - destruct (moments_app x (concat cut)) as [A1 [A2 A3]]. destruct IH as [B1 [B2 B3]].
    destruct (moments x) as [[n s] q] eqn:Ex.
    destruct (moments (concat cut)) as [[n1 s1] q1].
    destruct (fold_right mplus (0, 0, 0) (map moments cut)) as [[n2 s2] q2].
    unfold m3eq, mplus in *. cbn [fst snd] in *. rewrite A1, A2, A3, B1, B2, B3. repeat split; reflexivity.
Qed.

(* per-record moment vectors merged by component-wise sums give upstream's stdvar of the whole window, for every cut *)
Theorem stdvar_moment_merge_equals_whole cut : concat cut <> [] ->
  oQeq (spec_stdvar_over_time (concat cut))
       (Some (var_of_moments (fold_right mplus (0, 0, 0) (map (fun r => moments (vals r)) cut)))).
Proof.
  intros Hne. eapply oQeq_trans; [apply stdvar_is_population_variance; exact Hne|].
  cbn [oQeq]. apply var_of_moments_proper.
  unfold vals. rewrite concat_map.
  replace (map (fun r : list sample => moments (map snd r)) cut) with (map moments (map (map snd) cut)) by (rewrite map_map; reflexivity).
  apply moments_concat_fold.
Qed.

(* ---- least squares ---- *)
Definition lin_eq (a b : lin5) : Prop :=
  let '(n1, a1, b1, c1, d1) := a in let '(n2, a2, b2, c2, d2) := b in
  n1 == n2 /\ a1 == a2 /\ b1 == b2 /\ c1 == c2 /\ d1 == d2.

Definition slen (l : list sample) : Q := qlen (vals l).
Lemma slen_cons s l : slen (s :: l) == 1 + slen l.
Proof. unfold slen. cbn [vals map]. apply qlen_cons. Qed.
Lemma slen_app a b : slen (a ++ b) == slen a + slen b.
Proof. unfold slen. rewrite vals_app. apply qlen_app. Qed.
Lemma slen_pos s l : 0 < slen (s :: l).
Proof. unfold slen. cbn [vals map]. apply qlen_pos. Qed.

Definition raw_sums (tref : Z) (l : list sample) : lin5 :=
  (slen l, qsum (map (xsec tref) l), qsum (map snd l),
   qsum (map (fun s => xsec tref s * snd s) l), qsum (map (fun s => xsec tref s * xsec tref s) l)).

Lemma lin_fold_raw tref l : forall n sx sy sxy sx2,
  lin_eq (fold_left (lin_step tref) l (n, sx, sy, sxy, sx2)) (lin_plus (n, sx, sy, sxy, sx2) (raw_sums tref l)).
Proof.
  induction l as [|s l IH]; intros n sx sy sxy sx2.
  - unfold raw_sums, lin_plus, lin_eq, slen, qlen, qsum. simpl. repeat split; ring.
  - cbn [fold_left lin_step].
    specialize (IH (n + 1) (Qred (sx + xsec tref s)) (Qred (sy + snd s)) (Qred (sxy + xsec tref s * snd s)) (Qred (sx2 + xsec tref s * xsec tref s))).
    destruct (fold_left (lin_step tref) l _) as [[[[n' a'] b'] c'] d'].
    unfold raw_sums, lin_plus, lin_eq in *. cbn [map]. destruct IH as [I1 [I2 [I3 [I4 I5]]]].
    rewrite I1, I2, I3, I4, I5, !Qred_correct, slen_cons, !qsum_cons. repeat split; ring.
Qed.

Lemma lin_sums_raw tref l : lin_eq (lin_sums tref l) (raw_sums tref l).
Proof.
  unfold lin_sums, lin0. pose proof (lin_fold_raw tref l 0 0 0 0 0) as H.
  destruct (fold_left (lin_step tref) l _) as [[[[n' a'] b'] c'] d'].
  unfold raw_sums, lin_plus, lin_eq in *. destruct H as [I1 [I2 [I3 [I4 I5]]]].
  rewrite I1, I2, I3, I4, I5. repeat split; ring.
Qed.

Lemma raw_sums_app tref a b : lin_eq (raw_sums tref (a ++ b)) (lin_plus (raw_sums tref a) (raw_sums tref b)).
Proof.
  unfold raw_sums, lin_plus, lin_eq. rewrite !map_app, slen_app, !qsum_app. repeat split; reflexivity.
Qed.

Lemma lin_eq_trans a b c : lin_eq a b -> lin_eq b c -> lin_eq a c.
Proof.
  destruct a as [[[[? ?] ?] ?] ?], b as [[[[? ?] ?] ?] ?], c as [[[[? ?] ?] ?] ?]. unfold lin_eq.
  intros [A1 [A2 [A3 [A4 A5]]]] [B1 [B2 [B3 [B4 B5]]]]. rewrite A1, A2, A3, A4, A5. auto.
Qed.
Lemma lin_eq_sym a b : lin_eq a b -> lin_eq b a.
Proof.
  destruct a as [[[[? ?] ?] ?] ?], b as [[[[? ?] ?] ?] ?]. unfold lin_eq.
  intros [A1 [A2 [A3 [A4 A5]]]]. rewrite A1, A2, A3, A4, A5. repeat split; reflexivity.
Qed.
Lemma lin_plus_proper a a' b b' : lin_eq a a' -> lin_eq b b' -> lin_eq (lin_plus a b) (lin_plus a' b').
Proof.
  destruct a as [[[[? ?] ?] ?] ?], b as [[[[? ?] ?] ?] ?], a' as [[[[? ?] ?] ?] ?], b' as [[[[? ?] ?] ?] ?]. unfold lin_eq, lin_plus.
  intros [A1 [A2 [A3 [A4 A5]]]] [B1 [B2 [B3 [B4 B5]]]]. rewrite A1, A2, A3, A4, A5, B1, B2, B3, B4, B5. repeat split; reflexivity.
Qed.

(* the merge law of the regression state: the moment vector of two pieces is the component-wise sum *)
Theorem lin_sums_app tref a b : lin_eq (lin_sums tref (a ++ b)) (lin_plus (lin_sums tref a) (lin_sums tref b)).
Proof.
  eapply lin_eq_trans; [apply lin_sums_raw|]. eapply lin_eq_trans; [apply raw_sums_app|].
  apply lin_plus_proper; apply lin_eq_sym, lin_sums_raw.
Qed.

Lemma lin_finish_proper a b : lin_eq a b -> fst (lin_finish a) == fst (lin_finish b) /\ snd (lin_finish a) == snd (lin_finish b).
Proof.
  destruct a as [[[[? ?] ?] ?] ?], b as [[[[? ?] ?] ?] ?]. unfold lin_eq, lin_finish. cbn [fst snd].
  intros [A1 [A2 [A3 [A4 A5]]]]. rewrite A1, A2, A3, A4, A5. split; reflexivity.
Qed.

(* moving the anchor time by d seconds: x' = x - d *)
Lemma xsec_shift t1 t2 s : xsec t2 s == xsec t1 s - ms_to_s (t2 - t1).
Proof.
  unfold xsec, ms_to_s. unfold Zminus. rewrite !inject_Z_plus, !inject_Z_opp. field.
Qed.

Lemma raw_shift t1 t2 l :
  let d := ms_to_s (t2 - t1) in
  let '(n, sx, sy, sxy, sx2) := raw_sums t1 l in
  lin_eq (raw_sums t2 l) (n, sx - n * d, sy, sxy - d * sy, sx2 - 2 * d * sx + n * d * d).
Proof.
  cbv zeta. unfold raw_sums, lin_eq. induction l as [|s l IH].
  - unfold slen, qlen, qsum. simpl. repeat split; ring.
  - destruct IH as [I1 [I2 [I3 [I4 I5]]]]. cbn [map]. rewrite !qsum_cons, slen_cons, I2, I4, I5, (xsec_shift t1 t2 s).
    repeat split; ring.
Qed.

Lemma slope_shift_raw t1 t2 l : l <> [] -> fst (lin_finish (raw_sums t2 l)) == fst (lin_finish (raw_sums t1 l)).
Proof.
  intros Hne. pose proof (raw_shift t1 t2 l) as H. cbv zeta in H.
  assert (Hn : 0 < slen l) by (destruct l; [congruence|apply slen_pos]).
  unfold raw_sums in *. set (d := ms_to_s (t2 - t1)) in *.
  destruct (lin_finish_proper _ _ H) as [E _]. rewrite E. clear E H.
  unfold lin_finish. cbn [fst].
  set (n := slen l) in *. set (sx := qsum (map (xsec t1) l)). set (sy := qsum (map snd l)).
  set (sxy := qsum (map (fun s => xsec t1 s * snd s) l)). set (sx2 := qsum (map (fun s => xsec t1 s * xsec t1 s) l)).
  assert (E1 : sxy - d * sy - (sx - n * d) * sy / n == sxy - sx * sy / n) by (field; lra).
  assert (E2 : sx2 - 2 * d * sx + n * d * d - (sx - n * d) * (sx - n * d) / n == sx2 - sx * sx / n) by (field; lra).
  rewrite E1, E2. reflexivity.
Qed.

Lemma slope_shift t1 t2 l : l <> [] -> fst (lin_finish (lin_sums t2 l)) == fst (lin_finish (lin_sums t1 l)).
Proof.
  intros Hne.
  destruct (lin_finish_proper _ _ (lin_sums_raw t2 l)) as [E2 _]. destruct (lin_finish_proper _ _ (lin_sums_raw t1 l)) as [E1 _].
  rewrite E2, E1. apply slope_shift_raw. exact Hne.
Qed.

(* the slope of the regression does not depend on the anchor time (deriv: upstream anchors at the first sample, the
   implementation at the evaluation time) *)
Theorem regress_slope_anchor_independent t1 t2 l : fst (lin_regress t2 l) == fst (lin_regress t1 l).
Proof.
  unfold lin_regress. destruct l as [|[t0 v0] r]; [reflexivity|].
  destruct (const_from v0 _); [reflexivity|]. apply slope_shift. congruence.
Qed.

Lemma const_from_app v a b : const_from v (a ++ b) = const_from v a && const_from v b.
Proof. apply forallb_app. Qed.

Lemma first_value_app (p c : list sample) :
  match p with s :: _ => Some (snd s) | [] => match c with s :: _ => Some (snd s) | [] => None end end =
  match p ++ c with s :: _ => Some (snd s) | [] => None end.
Proof. destruct p; reflexivity. Qed.

Lemma linear_merge_whole isDeriv dur t offset p c :
  impl_linear_merge isDeriv dur t offset p c =
  match p ++ c with
  | [] => None
  | [_] => None
  | (_, fv) :: _ =>
      if const_from fv (p ++ c) then Some (if isDeriv then 0 else fv)
      else let '(slope, icpt) := lin_finish (lin_sums t (p ++ c)) in Some (if isDeriv then slope else slope * dur + icpt)
  end.
Proof.
  unfold impl_linear_merge. rewrite first_value_app, <- app_length.
  replace (win_hi t offset + offset)%Z with t by (unfold win_hi; lia).
  rewrite <- fold_left_app. fold (lin_sums t (p ++ c)).
  destruct (p ++ c) as [|[t0 v0] [|s r]] eqn:E; try reflexivity.
  cbn [snd]. rewrite <- const_from_app, E.
  destruct (Z.of_nat _ <=? 1)%Z eqn:EL; [apply Z.leb_le in EL; cbn [length] in EL; lia|].
  reflexivity.
Qed.

Theorem predict_linear_merge_equals_whole dur t offset p c :
  oQeq (impl_linear_merge false dur t offset p c) (spec_predict_linear t dur (p ++ c)).
Proof.
  rewrite linear_merge_whole. unfold spec_predict_linear, lin_regress.
  destruct (p ++ c) as [|[t0 v0] [|s r]]; try exact I.
  destruct (const_from v0 _).
  - cbn [oQeq]. ring.
  - destruct (lin_finish _). cbn [oQeq]. reflexivity.
Qed.

Theorem deriv_merge_equals_whole t offset p c :
  oQeq (impl_linear_merge true 0 t offset p c) (spec_deriv (p ++ c)).
Proof.
  rewrite linear_merge_whole. unfold spec_deriv.
  destruct (p ++ c) as [|[t0 v0] [|s r]] eqn:E; try exact I.
  pose proof (regress_slope_anchor_independent t0 t ((t0, v0) :: s :: r)) as H.
  unfold lin_regress in *. destruct (const_from v0 _).
  - cbn [oQeq fst]. reflexivity.
  - destruct (lin_finish (lin_sums t _)) as [sl ic]. cbn [oQeq fst] in *. exact H.
Qed.

Theorem deriv_split_equals_whole t offset cut : oQeq (impl_deriv t offset cut) (spec_deriv (concat cut)).
Proof.
  unfold impl_deriv, impl_linear_split. eapply oQeq_trans; [apply deriv_merge_equals_whole|].
  rewrite concat_removelast_last. apply oQeq_refl.
Qed.

Theorem predict_linear_split_equals_whole dur t offset cut :
  oQeq (impl_predict_linear dur t offset cut) (spec_predict_linear t dur (concat cut)).
Proof.
  unfold impl_predict_linear, impl_linear_split. eapply oQeq_trans; [apply predict_linear_merge_equals_whole|].
  rewrite concat_removelast_last. apply oQeq_refl.
Qed.

(* per-record regression states merged by component-wise sums give the state of the whole window, for every cut *)
Theorem lin_sums_concat tref (cut : list (list sample)) :
  lin_eq (lin_sums tref (concat cut)) (fold_right lin_plus lin0 (map (lin_sums tref) cut)).
Proof.
  induction cut as [|x cut IH]; cbn [concat map fold_right].
  - unfold lin_sums, lin0, lin_eq. simpl. repeat split; reflexivity.
  - eapply lin_eq_trans; [apply lin_sums_app|]. apply lin_plus_proper; [|exact IH].
    destruct (lin_sums tref x) as [[[[? ?] ?] ?] ?]. unfold lin_eq. repeat split; reflexivity.
Qed.
