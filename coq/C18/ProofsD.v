(* C18: by / without grouping forms a partition of the input vector; look-back boundary of instant selection. *)
From Coq Require Import String.
From Coq Require Import QArith ZArith List Bool Lia Permutation.
From OG Require Import C18.Model C18.ProofsA C18.ProofsC.
Import ListNotations.

Lemma label_eqb_eq a b : label_eqb a b = true <-> a = b.
Proof.
  destruct a as [a1 a2], b as [b1 b2]. unfold label_eqb. simpl. rewrite andb_true_iff, !String.eqb_eq.
  split; [intros [-> ->]; reflexivity | intros H; injection H; auto].
Qed.

Lemma labels_eqb_eq a : forall b, labels_eqb a b = true <-> a = b.
Proof.
  induction a as [|x a IH]; destruct b as [|y b]; simpl; try (split; [discriminate|discriminate]); try tauto.
  rewrite andb_true_iff, label_eqb_eq, IH. split; [intros [-> ->]; reflexivity | intros H; injection H; auto].
Qed.

Lemma insert_group_perm k e gs :
  Permutation (concat (map snd (insert_group k e gs))) (e :: concat (map snd gs)).
Proof.
  induction gs as [|[k' es] r IH]; simpl.
  - apply Permutation_refl.
  - destruct (labels_eqb k k'); simpl.
    + rewrite <- app_assoc. simpl. apply Permutation_sym, Permutation_middle.
    + eapply Permutation_trans; [apply Permutation_app_head, IH|]. apply Permutation_sym, Permutation_middle.
Qed.

Lemma insert_group_keys k e gs :
  map fst (insert_group k e gs) =
  if existsb (labels_eqb k) (map fst gs) then map fst gs else map fst gs ++ [k].
Proof.
  induction gs as [|[k' es] r IH]; simpl; [reflexivity|].
  destruct (labels_eqb k k'); simpl; [reflexivity|]. rewrite IH. destruct (existsb _ _); reflexivity.
Qed.

Lemma insert_group_members k e gs g x :
  In g (insert_group k e gs) -> In x (snd g) ->
  (exists g', In g' gs /\ fst g' = fst g /\ In x (snd g')) \/ (x = e /\ fst g = k).
Proof.
  induction gs as [|[k' es] r IH]; simpl; intros Hg Hx.
  - destruct Hg as [<-|[]]. simpl in Hx. destruct Hx as [<-|[]]. right. auto.
  - destruct (labels_eqb k k') eqn:E.
    + destruct Hg as [<-|Hg].
      * simpl in Hx. apply in_app_or in Hx. destruct Hx as [Hx|[<-|[]]].
        -- left. exists (k', es). auto.
        -- right. split; auto. simpl. symmetry. apply labels_eqb_eq. exact E.
      * left. exists g. auto.
    + destruct Hg as [<-|Hg].
      * left. exists (k', es). auto.
      * destruct (IH Hg Hx) as [[g' [H1 [H2 H3]]]|H]; [left; exists g'; auto | right; exact H].
Qed.

Lemma NoDup_snoc {A} (l : list A) k : NoDup l -> ~ In k l -> NoDup (l ++ [k]).
Proof.
  induction l as [|x l IH]; simpl; intros Hn Hk.
  - constructor; [intros []|constructor].
  - inversion Hn as [|? ? Hx Hl]; subst. constructor.
    + intro Hin. apply in_app_or in Hin. destruct Hin as [Hin|[<-|[]]]; [contradiction|]. apply Hk. left. reflexivity.
    + apply IH; auto.
Qed.

Section Partition.
  Variable wo : bool.
  Variable G : list string.
  Let key (e : elem) := group_key wo G (fst e).
  Let step (gs : list (labels * list elem)) (e : elem) := insert_group (key e) e gs.

  Definition part_inv (gs : list (labels * list elem)) (done : list elem) : Prop :=
    Permutation (concat (map snd gs)) done /\ NoDup (map fst gs) /\
    (forall g x, In g gs -> In x (snd g) -> fst g = key x).

  Lemma part_step gs done e : part_inv gs done -> part_inv (step gs e) (e :: done).
  Proof.
    intros [Hp [Hn Hk]]. unfold step. split; [|split].
    - eapply Permutation_trans; [apply insert_group_perm|]. constructor. exact Hp.
    - rewrite insert_group_keys. destruct (existsb (labels_eqb (key e)) (map fst gs)) eqn:E; [exact Hn|].
      apply NoDup_snoc; auto. intro Hin.
      assert (existsb (labels_eqb (key e)) (map fst gs) = true); [|congruence].
      apply existsb_exists. exists (key e). split; auto. apply labels_eqb_eq. reflexivity.
    - intros g x Hg Hx. destruct (insert_group_members _ _ _ _ _ Hg Hx) as [[g' [H1 [H2 H3]]]|[-> H]].
      + rewrite <- H2. apply Hk; auto.
      + exact H.
  Qed.

  Lemma part_fold vec : forall gs done, part_inv gs done -> part_inv (fold_left step vec gs) (vec ++ done).
  Proof.
    induction vec as [|e vec IH]; simpl; intros gs done H; [exact H|].
    destruct (IH _ _ (part_step _ _ e H)) as [Hp [Hn Hk]]. split; [|split]; auto.
    eapply Permutation_trans; [exact Hp|]. apply Permutation_sym, Permutation_middle.
  Qed.

  Theorem by_without_partition vec :
    let gs := groups wo G vec in
    Permutation (concat (map snd gs)) vec /\ NoDup (map fst gs) /\
    (forall g x, In g gs -> In x (snd g) -> fst g = group_key wo G (fst x)).
  Proof.
    pose proof (part_fold vec [] []) as H. rewrite app_nil_r in H. apply H.
    split; [apply Permutation_refl|]. split; [constructor|]. intros g x [].
  Qed.
End Partition.

(* by and without split the non-name labels of a series between them *)
Theorem by_without_dual G (ls : labels) kv :
  In kv ls -> fst kv <> name_label ->
  (In kv (key_by G ls) <-> ~ In kv (key_without G ls)).
Proof.
  intros Hin Hn. unfold key_by, key_without. rewrite !filter_In.
  assert (E : String.eqb (fst kv) name_label = false) by (apply String.eqb_neq; exact Hn).
  rewrite E. simpl. rewrite andb_true_r. destruct (mem_str (fst kv) G); simpl; split.
  - intros _ [_ H']. discriminate.
  - intros _. split; auto.
  - intros [_ H]. discriminate.
  - intros H. exfalso. apply H. auto.
Qed.

(* the aggregated vector has one element per group, labelled with the group key *)
Theorem aggregate_labels op wo G vec :
  map fst (aggregate op wo G vec) = map fst (groups wo G vec).
Proof. unfold aggregate. rewrite map_map. reflexivity. Qed.

(* look-back window of the instant selector: closed on the old side (upstream v0.50.1 rejects only
   t < refTime - lookbackDelta) *)
Lemma instant_select_lookback_boundary_included t offset v :
  instant_select t offset [((t - offset - lookback)%Z, v)] = Some ((t - offset - lookback)%Z, v).
Proof. unfold instant_select. rewrite window_left_boundary_included; [reflexivity|unfold lookback; lia]. Qed.
Lemma instant_select_older_than_lookback_excluded t offset v :
  instant_select t offset [((t - offset - lookback - 1)%Z, v)] = None.
Proof. unfold instant_select. rewrite window_before_left_excluded. reflexivity. Qed.
Lemma instant_select_newer_excluded t offset v :
  instant_select t offset [((t - offset + 1)%Z, v)] = None.
Proof. unfold instant_select. rewrite window_after_right_excluded. reflexivity. Qed.
