From Coq Require Import String.
From Coq Require Import QArith ZArith List Bool Lia Lqa Setoid Morphisms Sorted Permutation.
From OG Require Import C18.Model.
From OG Require Import C18.ProofsA.
Import ListNotations.
Open Scope Q_scope.

Lemma Qltb_nlt a b : Qltb a b = false <-> b <= a.
Proof.
  unfold Qltb. rewrite negb_false_iff. apply Qle_bool_iff.
Qed.

(* ---- generic: reduce per record + merge across records = reduce of the whole ---- *)
Section IncFold.
  Variable A : Type.
  Variable eqA : A -> A -> Prop.
  Hypothesis eqA_equiv : Equivalence eqA.
  Variable reduce : list sample -> option A.
  Variable merge : A -> A -> A.
  Hypothesis merge_proper : forall a a' b b', eqA a a' -> eqA b b' -> eqA (merge a b) (merge a' b').

  Definition oeq (x y : option A) : Prop :=
    match x, y with Some a, Some b => eqA a b | None, None => True | _, _ => False end.

  Hypothesis reduce_nil : reduce [] = None.
  Hypothesis hom : forall x y, oeq (reduce (x ++ y)) (omerge merge (reduce x) (reduce y)).

  Lemma oeq_refl x : oeq x x.
  Proof. destruct x; simpl; auto. reflexivity. Qed.
  Lemma oeq_sym x y : oeq x y -> oeq y x.
  Proof. destruct x, y; simpl; auto. intros; symmetry; auto. Qed.
  Lemma oeq_trans x y z : oeq x y -> oeq y z -> oeq x z.
  Proof. destruct x, y, z; simpl; auto; try tauto. intros; etransitivity; eauto. Qed.
  Lemma omerge_proper a a' b b' : oeq a a' -> oeq b b' -> oeq (omerge merge a b) (omerge merge a' b').
  Proof. destruct a, a', b, b'; simpl; auto; try tauto. Qed.

  Lemma inc_fold_gen cut : forall acc d, oeq acc (reduce d) ->
    oeq (fold_left (omerge merge) (map reduce cut) acc) (reduce (d ++ concat cut)).
  Proof.
    induction cut as [|x cut IH]; simpl; intros acc d H.
    - rewrite app_nil_r. exact H.
    - rewrite app_assoc. apply IH. eapply oeq_trans; [|apply oeq_sym, hom].
      apply omerge_proper; [exact H|apply oeq_refl].
  Qed.

  Theorem inc_split_whole cut : oeq (inc_split reduce merge cut) (reduce (concat cut)).
  Proof. apply (inc_fold_gen cut None []). rewrite reduce_nil. exact I. Qed.
End IncFold.

(* ---- sums ---- *)
Lemma fold_plus_acc l : forall a, fold_left Qplus l a == a + qsum l.
Proof.
  unfold qsum. induction l as [|x l IH]; simpl; intros a.
  - ring.
  - rewrite IH. rewrite (IH (0 + x)). ring.
Qed.
Lemma qsum_cons x l : qsum (x :: l) == x + qsum l.
Proof. unfold qsum at 1. simpl. rewrite fold_plus_acc. ring. Qed.
Lemma qsum_app l1 l2 : qsum (l1 ++ l2) == qsum l1 + qsum l2.
Proof. induction l1 as [|x l1 IH]; simpl. - unfold qsum at 2. simpl. ring. - rewrite !qsum_cons, IH. ring. Qed.
Lemma qlen_app l1 l2 : qlen (l1 ++ l2) == qlen l1 + qlen l2.
Proof. unfold qlen. rewrite app_length, Nat2Z.inj_add, inject_Z_plus. reflexivity. Qed.
Lemma qlen_cons x l : qlen (x :: l) == 1 + qlen l.
Proof. change (x :: l) with ([x] ++ l). rewrite qlen_app. reflexivity. Qed.
Lemma qlen_nonneg l : 0 <= qlen l.
Proof. unfold qlen. change 0 with (inject_Z 0). rewrite <- Zle_Qle. lia. Qed.

Lemma vals_app x y : vals (x ++ y) = vals x ++ vals y.
Proof. apply map_app. Qed.

Lemma sum_hom x y : oeq Q Qeq (spec_sum_over_time (x ++ y)) (omerge Qplus (spec_sum_over_time x) (spec_sum_over_time y)).
Proof.
  unfold spec_sum_over_time. rewrite vals_app.
  destruct (vals x) as [|a l1] eqn:E1; destruct (vals y) as [|b l2] eqn:E2; simpl; try reflexivity.
  - rewrite app_nil_r. reflexivity.
  - change (a :: l1 ++ b :: l2) with ((a :: l1) ++ (b :: l2)). apply qsum_app.
Qed.

Theorem sum_split_equals_whole cut : oQeq (impl_sum_over_time cut) (spec_sum_over_time (concat cut)).
Proof.
  apply (inc_split_whole Q Qeq Q_Setoid spec_sum_over_time Qplus).
  - intros a a' b b' H1 H2. rewrite H1, H2. reflexivity.
  - reflexivity.
  - apply sum_hom.
Qed.

Lemma count_hom x y : oeq Q Qeq (spec_count_over_time (x ++ y)) (omerge Qplus (spec_count_over_time x) (spec_count_over_time y)).
Proof.
  unfold spec_count_over_time. rewrite vals_app.
  destruct (vals x) as [|a l1] eqn:E1; destruct (vals y) as [|b l2] eqn:E2; simpl; try reflexivity.
  - rewrite app_nil_r. reflexivity.
  - change (a :: l1 ++ b :: l2) with ((a :: l1) ++ (b :: l2)). apply qlen_app.
Qed.

Theorem count_split_equals_whole cut : oQeq (impl_count_over_time cut) (spec_count_over_time (concat cut)).
Proof.
  apply (inc_split_whole Q Qeq Q_Setoid spec_count_over_time Qplus).
  - intros a a' b b' H1 H2. rewrite H1, H2. reflexivity.
  - reflexivity.
  - apply count_hom.
Qed.

(* ---- min / max ---- *)
Ltac qcases :=
  repeat match goal with
  | |- context [Qltb ?a ?b] => let E := fresh "E" in destruct (Qltb a b) eqn:E; [apply Qltb_lt in E | apply Qltb_nlt in E]
  | H : context [Qltb ?a ?b] |- _ => let E := fresh "E" in destruct (Qltb a b) eqn:E; [apply Qltb_lt in E | apply Qltb_nlt in E]
  end.

Lemma qmin2_assoc a b c : qmin2 (qmin2 a b) c == qmin2 a (qmin2 b c).
Proof. unfold qmin2. qcases; try reflexivity; lra. Qed.
Lemma qmax2_assoc a b c : qmax2 (qmax2 a b) c == qmax2 a (qmax2 b c).
Proof. unfold qmax2. qcases; try reflexivity; lra. Qed.
Global Instance qmin2_comp : Proper (Qeq ==> Qeq ==> Qeq) qmin2.
Proof. intros a b H c d H'. unfold qmin2. rewrite H, H'. destruct (Qltb d b); auto. Qed.
Global Instance qmax2_comp : Proper (Qeq ==> Qeq ==> Qeq) qmax2.
Proof. intros a b H c d H'. unfold qmax2. rewrite H, H'. destruct (Qltb b d); auto. Qed.

Section FoldAssoc.
  Variable f : Q -> Q -> Q.
  Hypothesis f_comp : Proper (Qeq ==> Qeq ==> Qeq) f.
  Hypothesis f_assoc : forall a b c, f (f a b) c == f a (f b c).
  Lemma fold_comp l : forall a b, a == b -> fold_left f l a == fold_left f l b.
  Proof. induction l; simpl; intros; auto. apply IHl. rewrite H. reflexivity. Qed.
  Lemma fold_assoc l : forall a b, fold_left f l (f a b) == f a (fold_left f l b).
  Proof. induction l as [|x l IH]; simpl; intros. reflexivity. rewrite <- IH. apply fold_comp. apply f_assoc. Qed.
  Lemma fold_app_assoc l1 l2 a b : fold_left f (l1 ++ b :: l2) a == f (fold_left f l1 a) (fold_left f l2 b).
  Proof. rewrite fold_left_app. simpl. apply fold_assoc. Qed.
End FoldAssoc.

Lemma min_hom x y : oeq Q Qeq (spec_min_over_time (x ++ y)) (omerge qmin2 (spec_min_over_time x) (spec_min_over_time y)).
Proof.
  unfold spec_min_over_time. rewrite vals_app.
  destruct (vals x) as [|a l1] eqn:E1; destruct (vals y) as [|b l2] eqn:E2; simpl; try reflexivity.
  - rewrite app_nil_r. reflexivity.
  - apply fold_app_assoc. apply qmin2_comp. apply qmin2_assoc.
Qed.
Lemma max_hom x y : oeq Q Qeq (spec_max_over_time (x ++ y)) (omerge qmax2 (spec_max_over_time x) (spec_max_over_time y)).
Proof.
  unfold spec_max_over_time. rewrite vals_app.
  destruct (vals x) as [|a l1] eqn:E1; destruct (vals y) as [|b l2] eqn:E2; simpl; try reflexivity.
  - rewrite app_nil_r. reflexivity.
  - apply fold_app_assoc. apply qmax2_comp. apply qmax2_assoc.
Qed.

Theorem min_split_equals_whole cut : oQeq (impl_min_over_time cut) (spec_min_over_time (concat cut)).
Proof.
  apply (inc_split_whole Q Qeq Q_Setoid spec_min_over_time qmin2).
  - intros a a' b b' H1 H2. rewrite H1, H2. reflexivity.
  - reflexivity.
  - apply min_hom.
Qed.
Theorem max_split_equals_whole cut : oQeq (impl_max_over_time cut) (spec_max_over_time (concat cut)).
Proof.
  apply (inc_split_whole Q Qeq Q_Setoid spec_max_over_time qmax2).
  - intros a a' b b' H1 H2. rewrite H1, H2. reflexivity.
  - reflexivity.
  - apply max_hom.
Qed.

(* ---- last ---- *)
Lemma last_opt_app {A} (l1 l2 : list A) :
  last_opt (l1 ++ l2) = match last_opt l2 with Some v => Some v | None => last_opt l1 end.
Proof.
  destruct l2 as [|b l2]. - rewrite app_nil_r. reflexivity.
  - destruct l1 as [|a l1]; [reflexivity|]. simpl. f_equal. rewrite last_app_ne by congruence.
    destruct l2 as [|b' l2]; [reflexivity|]. change (last (b :: b' :: l2) a) with (last (b' :: l2) a).
    apply last_indep. congruence.
Qed.

Lemma last_hom x y : oeq Q Qeq (spec_last_over_time (x ++ y)) (omerge (fun _ b : Q => b) (spec_last_over_time x) (spec_last_over_time y)).
Proof.
  unfold spec_last_over_time. rewrite vals_app, last_opt_app.
  destruct (last_opt (vals y)), (last_opt (vals x)); simpl; auto; reflexivity.
Qed.
Theorem last_split_equals_whole cut : oQeq (impl_last_over_time cut) (spec_last_over_time (concat cut)).
Proof.
  apply (inc_split_whole Q Qeq Q_Setoid spec_last_over_time (fun _ b : Q => b)).
  - intros a a' b b' H1 H2. exact H2.
  - reflexivity.
  - apply last_hom.
Qed.

(* ---- avg ---- *)
Lemma mean_fold l : forall m c, 0 <= c ->
  snd (fold_left mean_step l (m, c)) == c + qlen l /\
  fst (fold_left mean_step l (m, c)) * snd (fold_left mean_step l (m, c)) == m * c + qsum l.
Proof.
  induction l as [|v l IH]; intros m c Hc.
  - simpl. unfold qlen, qsum. simpl. split; ring.
  - simpl fold_left. unfold mean_step at 2 4 6. simpl fst. simpl snd.
    assert (Hc1 : 0 <= Qred (c + 1)) by (rewrite Qred_correct; lra).
    destruct (IH (Qred (m + (v / Qred (c + 1) - m / Qred (c + 1)))) (Qred (c + 1)) Hc1) as [H1 H2].
    split.
    + rewrite H1, qlen_cons, Qred_correct. ring.
    + rewrite H2, qsum_cons, !Qred_correct. field. lra.
Qed.

Lemma mean_inc_sum l : mean_inc l * qlen l == qsum l.
Proof.
  unfold mean_inc. destruct (mean_fold l 0 0 (Qle_refl 0)) as [H1 H2].
  assert (H1' : snd (fold_left mean_step l (0, 0)) == qlen l) by (rewrite H1; ring).
  rewrite <- H1'. rewrite H2. ring.
Qed.

Definition pair_eq (a b : Q * Q) : Prop := fst a == fst b /\ snd a == snd b.
Lemma pair_eq_equiv : Equivalence pair_eq.
Proof.
  split.
  - intros a; split; reflexivity.
  - intros a b [H1 H2]; split; symmetry; auto.
  - intros a b c [H1 H2] [H3 H4]; split; etransitivity; eauto.
Qed.

Lemma qlen_pos x l : 0 < qlen (x :: l).
Proof. rewrite qlen_cons. pose proof (qlen_nonneg l). lra. Qed.

Lemma avg_hom x y : oeq (Q * Q) pair_eq (avg_reduce (x ++ y)) (omerge avg_merge (avg_reduce x) (avg_reduce y)).
Proof.
  unfold avg_reduce. rewrite vals_app.
  destruct (vals x) as [|a l1] eqn:E1; destruct (vals y) as [|b l2] eqn:E2; simpl app.
  - exact I.
  - split; reflexivity.
  - rewrite app_nil_r. split; reflexivity.
  - change (a :: l1 ++ b :: l2) with ((a :: l1) ++ (b :: l2)).
    assert (Hu : 0 < qlen (a :: l1)) by apply qlen_pos. assert (Hw : 0 < qlen (b :: l2)) by apply qlen_pos.
    remember (a :: l1) as u eqn:Eu. remember (b :: l2) as w eqn:Ew.
    assert (Hne : u ++ w <> []) by (subst u; discriminate).
    destruct (u ++ w) as [|z zs] eqn:Ez; [congruence|]. rewrite <- Ez. clear Ez z zs Hne.
    destruct u as [|u0 u']; [discriminate|]. destruct w as [|w0 w']; [discriminate|].
    remember (u0 :: u') as u eqn:Eu'. remember (w0 :: w') as w eqn:Ew'.
    unfold oeq, omerge, pair_eq, avg_merge. cbn [fst snd]. split; [|apply qlen_app].
    apply (Qmult_inj_r _ _ (qlen u + qlen w)); [lra|].
    rewrite <- qlen_app at 1. rewrite mean_inc_sum, qsum_app, <- !mean_inc_sum. field. lra.
Qed.

Theorem avg_split_equals_whole cut : oQeq (impl_avg_over_time cut) (spec_avg_over_time (concat cut)).
Proof.
  unfold impl_avg_over_time.
  pose proof (inc_split_whole (Q * Q) pair_eq pair_eq_equiv avg_reduce avg_merge) as H.
  assert (Hm : forall a a' b b', pair_eq a a' -> pair_eq b b' -> pair_eq (avg_merge a b) (avg_merge a' b')).
  { intros a a' b b' [H1 H2] [H3 H4]. unfold pair_eq, avg_merge. cbn [fst snd]. rewrite H1, H2, H3, H4. split; reflexivity. }
  specialize (H Hm eq_refl avg_hom cut).
  unfold spec_avg_over_time, avg_reduce in *.
  destruct (inc_split _ avg_merge cut) as [[m n]|]; destruct (vals (concat cut)); simpl in *; try tauto.
  destruct H; auto.
Qed.
