(* C18 proofs, part F: quantile_over_time. The result depends only on the MULTISET of the window's values: any two
   arrangements of the same samples (any cut of the window into records, records merged in any order) give the same
   quantile; the model's sort is a sort (sorted permutation of its input). *)
From Coq Require Import String.
From Coq Require Import QArith Qround ZArith List Bool Lia Lqa Setoid Morphisms Sorted Permutation.
From OG Require Import C18.Model C18.Model2.
From OG Require Import C18.ProofsA C18.ProofsB.
Import ListNotations.
Open Scope Q_scope.

Definition leq (l1 l2 : list Q) : Prop := Forall2 Qeq l1 l2.

Lemma leq_refl l : leq l l.
Proof. induction l; constructor; auto. reflexivity. Qed.
Lemma leq_trans a b c : leq a b -> leq b c -> leq a c.
Proof.
  intros H. revert c. induction H; intros c' H'; inversion H'; subst; constructor.
  - etransitivity; eauto. - apply IHForall2. assumption.
Qed.
Lemma leq_length a b : leq a b -> length a = length b.
Proof. induction 1; simpl; congruence. Qed.

Lemma qinsert_leq x a b : leq a b -> leq (qinsert x a) (qinsert x b).
Proof.
  induction 1 as [|y z a b Hyz Hab IH]; simpl.
  - apply leq_refl.
  - rewrite Hyz. destruct (Qle_bool x z).
    + constructor; [reflexivity|]. constructor; assumption.
    + constructor; assumption.
Qed.

Lemma Qle_bool_false x y : Qle_bool x y = false -> y < x.
Proof. intros H. apply Qnot_le_lt. intro Hle. apply Qle_bool_iff in Hle. congruence. Qed.

Lemma qinsert_swap x y s : leq (qinsert x (qinsert y s)) (qinsert y (qinsert x s)).
Proof.
  induction s as [|z s IH]; simpl.
  - destruct (Qle_bool x y) eqn:E1, (Qle_bool y x) eqn:E2; try apply leq_refl.
    + apply Qle_bool_iff in E1, E2. assert (x == y) by (apply Qle_antisym; assumption).
      constructor; [assumption|]. constructor; [symmetry; assumption|constructor].
    + apply Qle_bool_false in E1, E2. exfalso. lra.
  - destruct (Qle_bool y z) eqn:Eyz, (Qle_bool x z) eqn:Exz; simpl; rewrite ?Eyz, ?Exz.
    + destruct (Qle_bool x y) eqn:E1, (Qle_bool y x) eqn:E2; simpl; rewrite ?Eyz, ?Exz; try apply leq_refl.
      * apply Qle_bool_iff in E1, E2. assert (x == y) by (apply Qle_antisym; assumption).
        constructor; [assumption|]. constructor; [symmetry; assumption|apply leq_refl].
      * apply Qle_bool_false in E1, E2. exfalso. lra.
    + destruct (Qle_bool x y) eqn:E1.
      * apply Qle_bool_iff in E1, Eyz. apply Qle_bool_false in Exz. exfalso. lra.
      * simpl; rewrite ?Exz, ?Eyz; apply leq_refl.
    + destruct (Qle_bool y x) eqn:E2.
      * apply Qle_bool_iff in E2, Exz. apply Qle_bool_false in Eyz. exfalso. lra.
      * simpl; rewrite ?Exz, ?Eyz; apply leq_refl.
    + constructor; [reflexivity|exact IH].
Qed.

(* sorting forgets the arrangement: permutations sort to point-wise equal lists *)
Theorem qsort_perm l l' : Permutation l l' -> leq (qsort l) (qsort l').
Proof.
  induction 1; simpl.
  - constructor.
  - apply qinsert_leq. assumption.
  - apply qinsert_swap.
  - eapply leq_trans; eauto.
Qed.

Lemma qinsert_perm x l : Permutation (qinsert x l) (x :: l).
Proof.
  induction l as [|y l IH]; simpl; [reflexivity|]. destruct (Qle_bool x y); [reflexivity|].
  rewrite IH. apply perm_swap.
Qed.
Theorem qsort_is_permutation l : Permutation (qsort l) l.
Proof. induction l as [|x l IH]; simpl; [reflexivity|]. rewrite qinsert_perm, IH. reflexivity. Qed.

Lemma qinsert_sorted x l : StronglySorted Qle l -> StronglySorted Qle (qinsert x l).
Proof.
  induction l as [|y l IH]; simpl; intros H.
  - repeat constructor.
  - apply StronglySorted_inv in H. destruct H as [Hs Hall]. destruct (Qle_bool x y) eqn:E.
    + apply Qle_bool_iff in E. constructor; [constructor; assumption|].
      constructor; [assumption|]. rewrite Forall_forall in *. intros z Hz. eapply Qle_trans; [exact E|]. apply Hall. exact Hz.
    + apply Qle_bool_false in E. constructor; [apply IH; assumption|].
      rewrite Forall_forall in *. intros z Hz. apply (Permutation_in _ (qinsert_perm x l)) in Hz.
      destruct Hz as [<-|Hz]; [lra|apply Hall; exact Hz].
Qed.
Theorem qsort_sorted l : StronglySorted Qle (qsort l).
Proof. induction l as [|x l IH]; simpl; [constructor|]. apply qinsert_sorted. exact IH. Qed.

Lemma qsort_sorted_permutation l : StronglySorted Qle (qsort l) /\ Permutation (qsort l) l.
Proof. split; [apply qsort_sorted|apply qsort_is_permutation]. Qed.

Lemma nth_leq a b : leq a b -> forall k, nth k a 0 == nth k b 0.
Proof. induction 1; intros [|k]; simpl; auto; reflexivity. Qed.

Theorem quantile_fin_perm q l l' : Permutation l l' -> quantile_fin q l == quantile_fin q l'.
Proof.
  intros H. unfold quantile_fin. rewrite (Permutation_length H).
  pose proof (nth_leq _ _ (qsort_perm _ _ H)) as Hn. rewrite !Hn. reflexivity.
Qed.

Definition xeq (a b : xval) : Prop :=
  match a, b with XFin x, XFin y => x == y | XPosInf, XPosInf => True | XNegInf, XNegInf => True | _, _ => False end.
Definition oxeq (a b : option xval) : Prop :=
  match a, b with Some x, Some y => xeq x y | None, None => True | _, _ => False end.

(* the quantile depends only on the multiset of the values *)
Theorem quantile_perm q l l' : Permutation l l' -> xeq (quantile q l) (quantile q l').
Proof.
  intros H. unfold quantile. destruct (Qltb q 0); [exact I|]. destruct (Qltb 1 q); [exact I|].
  cbn [xeq]. apply quantile_fin_perm. exact H.
Qed.

Theorem quantile_merge_equals_whole q p c : impl_quantile_merge q p c = spec_quantile_over_time q (p ++ c).
Proof.
  unfold impl_quantile_merge, spec_quantile_over_time. rewrite vals_app.
  assert (E : (length p + length c)%nat = length (vals p ++ vals c)) by (unfold vals; rewrite app_length, !map_length; reflexivity).
  rewrite E. destruct (vals p ++ vals c) as [|x r]; [reflexivity|].
  destruct (Z.of_nat _ =? 0)%Z eqn:EL; [apply Z.eqb_eq in EL; cbn [length] in EL; lia|]. reflexivity.
Qed.

Theorem quantile_split_equals_whole q cut : impl_quantile_split q cut = spec_quantile_over_time q (concat cut).
Proof. unfold impl_quantile_split. rewrite quantile_merge_equals_whole, concat_removelast_last. reflexivity. Qed.

(* merge = multiset union: the records of a window may be concatenated in ANY order (any permutation of the cut, or of
   the samples) without changing the answer *)
Theorem quantile_any_arrangement q (w w' : list sample) :
  Permutation w w' -> oxeq (spec_quantile_over_time q w) (spec_quantile_over_time q w').
Proof.
  intros H. unfold spec_quantile_over_time. assert (Hv : Permutation (vals w) (vals w')) by (apply Permutation_map; exact H).
  destruct (vals w) as [|x r] eqn:E1; destruct (vals w') as [|x' r'] eqn:E2.
  - exact I.
  - apply Permutation_nil in Hv. discriminate.
  - symmetry in Hv. apply Permutation_nil in Hv. discriminate.
  - cbn [oxeq]. apply quantile_perm. exact Hv.
Qed.

Lemma concat_perm {A} (c c' : list (list A)) : Permutation c c' -> Permutation (concat c) (concat c').
Proof.
  induction 1; simpl.
  - reflexivity.
  - apply Permutation_app_head. assumption.
  - rewrite !app_assoc. apply Permutation_app_tail. apply Permutation_app_comm.
  - etransitivity; eauto.
Qed.

Theorem quantile_records_any_order q cut cut' :
  Permutation cut cut' -> oxeq (impl_quantile_split q cut) (spec_quantile_over_time q (concat cut')).
Proof.
  intros H. rewrite quantile_split_equals_whole. apply quantile_any_arrangement. apply concat_perm. exact H.
Qed.

(* the boundary quantiles are the extreme order statistics *)
Lemma quantile_zero_is_head l x r : qsort l = x :: r -> quantile_fin 0 l == x.
Proof.
  intros E. unfold quantile_fin. rewrite E.
  assert (R : 0 * inject_Z (Z.of_nat (length l) - 1) == 0) by ring.
  assert (F : Qfloor (0 * inject_Z (Z.of_nat (length l) - 1)) = 0%Z).
  { rewrite R. reflexivity. }
  rewrite F. change (Z.max 0 0) with 0%Z. cbn [Z.to_nat nth]. rewrite R. change (inject_Z 0) with 0. ring.
Qed.
