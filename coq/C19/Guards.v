(* C19: guard formulas. For every handler with the authenticated signature the translator evaluates the handler (and the
   functions it hands its user to) symbolically and emits the condition under which the handler goes on instead of
   refusing, as a formula over authorization atoms (harness/translate/c19/gexpr.go). Here: the formulas, their meaning
   over the user model, the reference formulas of the handler kinds of Model.inner, and the (sound) finite procedures
   that decide "is equivalent to" / "implies" a reference formula, so that the per-route model kind is DERIVED from the
   source. *)
From Coq Require Import String List Bool NArith.
From OG Require Import C19.Model.
Import ListNotations.
Open Scope string_scope.
Open Scope N_scope.

Inductive gexpr :=
| GTrue | GFalse
| GAuthOff      (* !h.Config.AuthEnabled *)
| GNil          (* user == nil *)
| GAdmin        (* user.AuthorizeUnrestricted() *)
| GDbRead       (* user.AuthorizeDatabase(ReadPrivilege, ..) *)
| GDbWrite      (* user.AuthorizeDatabase(WritePrivilege, ..) *)
| GWrite        (* WriteAuthorizer.AuthorizeWrite(user.ID(), ..) == nil *)
| GQuery        (* AuthorizeQuery(.., user, ..) == nil *)
| GOpaque (n : N)   (* a condition the evaluator does not understand: free *)
| GAnd (a b : gexpr) | GOr (a b : gexpr) | GNot (a : gexpr).

Record gbase := mk_gbase {
  gb_authoff : bool; gb_nil : bool; gb_admin : bool; gb_read : bool; gb_dbwrite : bool; gb_write : bool; gb_query : bool }.
Record genv := mk_genv { ge_base : gbase; ge_opq : N -> bool }.

Fixpoint geval (v : genv) (e : gexpr) : bool :=
  match e with
  | GTrue => true | GFalse => false
  | GAuthOff => gb_authoff (ge_base v) | GNil => gb_nil (ge_base v) | GAdmin => gb_admin (ge_base v)
  | GDbRead => gb_read (ge_base v) | GDbWrite => gb_dbwrite (ge_base v) | GWrite => gb_write (ge_base v)
  | GQuery => gb_query (ge_base v)
  | GOpaque n => ge_opq v n
  | GAnd a b => geval v a && geval v b
  | GOr a b => geval v a || geval v b
  | GNot a => negb (geval v a)
  end.

(* the atoms over the user model: what the Go calls answer for this configuration, user, database and statement list *)
Definition base_of (cfg : config) (u : option user) (db : string) (q : list stmt) : gbase :=
  match u with
  | None => mk_gbase (negb (auth_enabled cfg)) true false false false false false
  | Some usr => mk_gbase (negb (auth_enabled cfg)) false (u_admin usr) (authorize_database usr ReadPriv db)
                         (authorize_database usr WritePriv db) (authorize_database usr WritePriv db) (authorize_query usr db q)
  end.

(* reference formulas of the handler kinds: requireAdmin / checkAuth / serveSysCtrl; requireRepositoryRead; serveWrite and
   checkWriteAuthorization; checkAuthorization; requireRepositoryDataRead *)
Definition F_admin : gexpr := GOr GAuthOff (GAnd (GNot GNil) GAdmin).
Definition F_see : gexpr := GOr GAuthOff (GAnd (GNot GNil) (GOr GDbRead GDbWrite)).
Definition F_write : gexpr := GOr GAuthOff (GAnd (GNot GNil) GWrite).
Definition F_query : gexpr := GOr GAuthOff GQuery.
Definition F_dbread : gexpr := GOr GAuthOff (GAnd (GNot GNil) GDbRead).

Definition acts (r : N * list effect) : bool := match snd r with [] => false | _ => true end.

(* the reference formulas ARE the decisions of Model.inner *)
Lemma F_admin_is_inner : forall cfg u rq q o,
  geval (mk_genv (base_of cfg u (rq_db rq) q) o) F_admin = acts (inner cfg KAdminOnly rq u).
Proof.
  intros cfg u rq q o. unfold acts. cbn [inner]. destruct u as [usr|]; cbn; destruct (auth_enabled cfg); cbn; try reflexivity.
  destruct (u_admin usr); reflexivity.
Qed.

Lemma F_see_is_inner : forall cfg u rq q o,
  geval (mk_genv (base_of cfg u (rq_db rq) q) o) F_see = acts (inner cfg KRepoSee rq u).
Proof.
  intros cfg u rq q o. unfold acts. cbn [inner]. destruct u as [usr|]; cbn; destruct (auth_enabled cfg); cbn; try reflexivity.
  unfold can_see. destruct (authorize_database usr ReadPriv (rq_db rq) || authorize_database usr WritePriv (rq_db rq)); reflexivity.
Qed.

Lemma F_write_is_inner : forall cfg u rq q o,
  geval (mk_genv (base_of cfg u (rq_db rq) q) o) F_write = acts (inner cfg KWrite rq u).
Proof.
  intros cfg u rq q o. unfold acts. cbn [inner]. destruct u as [usr|]; cbn; destruct (auth_enabled cfg); cbn; try reflexivity.
  destruct (authorize_database usr WritePriv (rq_db rq)); reflexivity.
Qed.

Lemma F_query_is_inner : forall cfg u rq q o,
  geval (mk_genv (base_of cfg u (rq_db rq) q) o) F_query = acts (inner cfg (KQuery q) rq u).
Proof.
  intros cfg u rq q o. unfold acts. cbn [inner]. destruct u as [usr|]; cbn; destruct (auth_enabled cfg); cbn; try reflexivity.
  destruct (authorize_query usr (rq_db rq) q); reflexivity.
Qed.

Lemma read_statement_is_dbread : forall usr db,
  authorize_query usr db [[RDb "" ReadPriv]] = authorize_database usr ReadPriv db.
Proof.
  intros usr db. unfold authorize_query, authorize_stmt, authorize_stmt_rw, authorize_stmt_plain. cbn.
  unfold authorize_database. destruct (u_admin usr); cbn; [reflexivity|]. destruct (u_rw usr); cbn; [reflexivity|].
  rewrite !andb_true_r. reflexivity.
Qed.

Lemma F_dbread_is_inner : forall cfg u rq q o,
  geval (mk_genv (base_of cfg u (rq_db rq) q) o) F_dbread = acts (inner cfg (KQuery [[RDb "" ReadPriv]]) rq u).
Proof.
  intros cfg u rq q o. unfold acts. cbn [inner]. destruct u as [usr|]; cbn; destruct (auth_enabled cfg); cbn; try reflexivity.
  rewrite read_statement_is_dbread. destruct (authorize_database usr ReadPriv (rq_db rq)); reflexivity.
Qed.

(* ---- deciding equivalence / implication by enumeration ---- *)
Fixpoint gatoms (e : gexpr) : list N :=
  match e with
  | GOpaque n => [n]
  | GAnd a b | GOr a b => gatoms a ++ gatoms b
  | GNot a => gatoms a
  | _ => []
  end.
Definition memN (n : N) (l : list N) : bool := existsb (N.eqb n) l.

Definition bools : list bool := [true; false].
Definition all_bases : list gbase :=
  flat_map (fun a => flat_map (fun b => flat_map (fun c => flat_map (fun d => flat_map (fun e => flat_map (fun f =>
    map (fun g => mk_gbase a b c d e f g) bools) bools) bools) bools) bools) bools) bools.
Fixpoint sublists (l : list N) : list (list N) :=
  match l with
  | [] => [[]]
  | x :: r => map (cons x) (sublists r) ++ sublists r
  end.
Definition env_of_set (b : gbase) (s : list N) : genv := mk_genv b (fun n => memN n s).
Definition all_envs (atoms : list N) : list genv :=
  flat_map (fun s => map (fun b => env_of_set b s) all_bases) (sublists atoms).

(* g implies ref / g equals ref under every valuation of the atoms and of g's opaque conditions *)
Definition gimplies (g ref : gexpr) : bool :=
  forallb (fun v => implb (geval v g) (geval v ref)) (all_envs (gatoms g ++ gatoms ref)).
Definition gequiv (g ref : gexpr) : bool :=
  forallb (fun v => Bool.eqb (geval v g) (geval v ref)) (all_envs (gatoms g ++ gatoms ref)).

Lemma all_bases_complete : forall b, In b all_bases.
Proof.
  intros [a b c d e f g].
  destruct a, b, c, d, e, f, g; vm_compute; repeat (first [left; reflexivity | right]).
Qed.

Lemma filter_in_sublists : forall (p : N -> bool) l, In (filter p l) (sublists l).
Proof.
  induction l as [|x l IH]; cbn [filter sublists]; [left; reflexivity|].
  apply in_or_app. destruct (p x).
  - left. apply in_map. exact IH.
  - right. exact IH.
Qed.

Lemma memN_filter : forall (p : N -> bool) l n, In n l -> memN n (filter p l) = p n.
Proof.
  intros p l n Hin. unfold memN. destruct (p n) eqn:E.
  - apply existsb_exists. exists n. split; [apply filter_In; split; assumption|apply N.eqb_refl].
  - destruct (existsb (N.eqb n) (filter p l)) eqn:X; [|reflexivity].
    apply existsb_exists in X. destruct X as (m & Hm & Heq). apply N.eqb_eq in Heq. subst m.
    apply filter_In in Hm. destruct Hm as [_ Hm]. congruence.
Qed.

(* evaluation looks at the opaque conditions only at the atoms of the formula *)
Lemma geval_canon : forall e v l, incl (gatoms e) l ->
  geval v e = geval (env_of_set (ge_base v) (filter (ge_opq v) l)) e.
Proof.
  induction e; intros v l Hincl; cbn [geval env_of_set ge_base ge_opq]; try reflexivity.
  - symmetry. apply memN_filter. apply Hincl. left. reflexivity.
  - cbn [gatoms] in Hincl. rewrite (IHe1 v l), (IHe2 v l); [reflexivity| |]; intros x Hx; apply Hincl; apply in_or_app; auto.
  - cbn [gatoms] in Hincl. rewrite (IHe1 v l), (IHe2 v l); [reflexivity| |]; intros x Hx; apply Hincl; apply in_or_app; auto.
  - cbn [gatoms] in Hincl. rewrite (IHe v l); [reflexivity|exact Hincl].
Qed.

Lemma canon_in_all_envs : forall v l, In (env_of_set (ge_base v) (filter (ge_opq v) l)) (all_envs l).
Proof.
  intros v l. unfold all_envs. apply in_flat_map. exists (filter (ge_opq v) l). split; [apply filter_in_sublists|].
  apply (in_map (fun b => env_of_set b (filter (ge_opq v) l))). apply all_bases_complete.
Qed.

Lemma gimplies_sound : forall g ref, gimplies g ref = true -> forall v, geval v g = true -> geval v ref = true.
Proof.
  intros g ref H v Hg. unfold gimplies in H. rewrite forallb_forall in H.
  set (l := (gatoms g ++ gatoms ref)%list) in *.
  specialize (H _ (canon_in_all_envs v l)).
  rewrite <- (geval_canon g v l), <- (geval_canon ref v l) in H; try (intros x Hx; apply in_or_app; auto).
  rewrite Hg in H. cbn [implb] in H. exact H.
Qed.

Lemma gequiv_sound : forall g ref, gequiv g ref = true -> forall v, geval v g = geval v ref.
Proof.
  intros g ref H v. unfold gequiv in H. rewrite forallb_forall in H.
  set (l := (gatoms g ++ gatoms ref)%list) in *.
  specialize (H _ (canon_in_all_envs v l)).
  rewrite <- (geval_canon g v l), <- (geval_canon ref v l) in H; try (intros x Hx; apply in_or_app; auto).
  apply Bool.eqb_prop in H. exact H.
Qed.

(* ---- the kind derived from a handler's formula ---- *)
Inductive dkind := DAdmin | DSee | DWrite | DQuery | DDbRead | DEveryone | DAtLeastRead | DAtLeastQuery | DUnknown.
Definition derive (g : gexpr) : dkind :=
  if gequiv g F_admin then DAdmin
  else if gequiv g F_see then DSee
  else if gequiv g F_write then DWrite
  else if gequiv g F_query then DQuery
  else if gequiv g F_dbread then DDbRead
  else if gequiv g GTrue then DEveryone
  else if gimplies g F_dbread then DAtLeastRead
  else if gimplies g F_query then DAtLeastQuery
  else DUnknown.
Definition dkind_name (d : dkind) : string :=
  match d with
  | DAdmin => "admin" | DSee => "see" | DWrite => "write" | DQuery => "query" | DDbRead => "dbread" | DEveryone => "everyone"
  | DAtLeastRead => "atleast-read" | DAtLeastQuery => "atleast-query" | DUnknown => "unknown"
  end.

(* what a derived kind guarantees, for ALL configurations, users, requests and opaque conditions: the handler goes on
   exactly when (resp. only when) the model's handler kind acts *)
Definition dkind_spec (d : dkind) (g : gexpr) : Prop :=
  forall cfg u rq q o,
    let v := mk_genv (base_of cfg u (rq_db rq) q) o in
    match d with
    | DAdmin => geval v g = acts (inner cfg KAdminOnly rq u)
    | DSee => geval v g = acts (inner cfg KRepoSee rq u)
    | DWrite => geval v g = acts (inner cfg KWrite rq u)
    | DQuery => geval v g = acts (inner cfg (KQuery q) rq u)
    | DDbRead => geval v g = acts (inner cfg (KQuery [[RDb "" ReadPriv]]) rq u)
    | DEveryone => geval v g = true
    | DAtLeastRead => geval v g = true -> acts (inner cfg (KQuery [[RDb "" ReadPriv]]) rq u) = true
    | DAtLeastQuery => geval v g = true -> acts (inner cfg (KQuery q) rq u) = true
    | DUnknown => True
    end.

Lemma derive_sound : forall g, dkind_spec (derive g) g.
Proof.
  intros g. unfold derive.
  destruct (gequiv g F_admin) eqn:E1; [intros cfg u rq q o; cbn zeta; rewrite (gequiv_sound _ _ E1); apply F_admin_is_inner|].
  destruct (gequiv g F_see) eqn:E2; [intros cfg u rq q o; cbn zeta; rewrite (gequiv_sound _ _ E2); apply F_see_is_inner|].
  destruct (gequiv g F_write) eqn:E3; [intros cfg u rq q o; cbn zeta; rewrite (gequiv_sound _ _ E3); apply F_write_is_inner|].
  destruct (gequiv g F_query) eqn:E4; [intros cfg u rq q o; cbn zeta; rewrite (gequiv_sound _ _ E4); apply F_query_is_inner|].
  destruct (gequiv g F_dbread) eqn:E5; [intros cfg u rq q o; cbn zeta; rewrite (gequiv_sound _ _ E5); apply F_dbread_is_inner|].
  destruct (gequiv g GTrue) eqn:E6; [intros cfg u rq q o; cbn zeta; rewrite (gequiv_sound _ _ E6); reflexivity|].
  destruct (gimplies g F_dbread) eqn:E7.
  { intros cfg u rq q o. cbn zeta. intro H. rewrite <- (F_dbread_is_inner cfg u rq q o). exact (gimplies_sound _ _ E7 _ H). }
  destruct (gimplies g F_query) eqn:E8.
  { intros cfg u rq q o. cbn zeta. intro H. rewrite <- (F_query_is_inner cfg u rq q o). exact (gimplies_sound _ _ E8 _ H). }
  exact (fun _ _ _ _ _ => I).
Qed.

(* one row per route with the authenticated signature (Gen_Routes.handler_formulas) *)
Record hformula := mk_hformula { f_method : string; f_pattern : string; f_formula : gexpr }.
Fixpoint find_formula (fs : list hformula) (m p : string) : option gexpr :=
  match fs with
  | [] => None
  | f :: r => if String.eqb (f_method f) m && String.eqb (f_pattern f) p then Some (f_formula f) else find_formula r m p
  end.

(* what the statement asks of the routes it names by function, as derived kinds *)
Definition expected_dkinds : list (string * string * dkind) := [
  ("POST", "/debug/ctrl", DAdmin); ("POST", "/backup/run", DAdmin); ("POST", "/backup/abort", DAdmin); ("POST", "/backup/status", DAdmin);
  ("POST", "/failpoint", DAdmin); ("POST", "/api/v1/tsdb/{tsdb}", DAdmin);
  ("POST", "/api/v1/repository/{repository}", DAdmin); ("PUT", "/api/v1/repository/{repository}", DAdmin);
  ("DELETE", "/api/v1/repository/{repository}", DAdmin);
  ("POST", "/api/v1/logstream/{repository}/{logStream}", DAdmin); ("PUT", "/api/v1/logstream/{repository}/{logStream}", DAdmin);
  ("DELETE", "/api/v1/logstream/{repository}/{logStream}", DAdmin);
  ("POST", "/repo/{repository}/logstreams/{logStream}/recalldata", DAdmin);
  ("POST", "/repo/{repository}/logstreams/{logStream}/stream-task", DAdmin);
  ("DELETE", "/repo/{repository}/logstreams/{logStream}/stream-task/{taskId}", DAdmin);
  ("GET", "/api/v1/repository/{repository}", DSee); ("GET", "/api/v1/logstream/{repository}", DSee);
  ("GET", "/api/v1/logstream/{repository}/{logStream}", DSee);
  ("POST", "/write", DWrite); ("POST", "/api/v2/write", DWrite); ("POST", "/api/v1/write", DWrite);
  ("POST", "/prometheus/{metric_store}/api/v1/write", DWrite);
  ("POST", "/api/v1/otlp/traces", DWrite); ("POST", "/api/v1/otlp/metrics", DWrite); ("POST", "/api/v1/otlp/logs", DWrite);
  ("GET", "/fence/match_batch", DWrite); ("POST", "/fence/delete_fence", DWrite);
  ("POST", "/repo/{repository}/logstreams/{logStream}/records", DWrite); ("POST", "/repo/{repository}/logstreams/{logStream}/upload", DWrite);
  ("GET", "/query", DQuery); ("POST", "/query", DQuery);
  ("GET", "/repo/{repository}/logstreams/{logStream}/logbycursor", DDbRead); ("GET", "/repo/{repository}/logstreams/{logStream}/consume/logs", DDbRead);
  ("GET", "/repo/{repository}/logstreams/{logStream}/consume/cursor-time", DDbRead);
  ("GET", "/repo/{repository}/logstreams/{logStream}/consume/cursors", DDbRead);
  ("GET", "/repo/{repository}/logstreams/{logStream}/cursor", DDbRead); ("GET", "/repo/{repository}/logstreams/{logStream}/cursor/{cursor}", DDbRead);
  ("GET", "/repo/{repository}/logstreams/{logStream}/logs", DAtLeastRead); ("GET", "/repo/{repository}/logstreams/{logStream}/context", DAtLeastRead);
  ("GET", "/repo/{repository}/logstreams/{logStream}/histogram", DAtLeastRead);
  ("GET", "/repo/{repository}/logstreams/{logStream}/analytics", DAtLeastRead) ].
Definition dkind_eqb (a b : dkind) : bool := String.eqb (dkind_name a) (dkind_name b).
(* a named route that is registered derives exactly the expected kind *)
Definition expected_dkind_ok (fs : list hformula) (e : string * string * dkind) : bool :=
  let '(m, p, d) := e in
  match find_formula fs m p with
  | Some g => dkind_eqb (derive g) d
              || (dkind_eqb d DAtLeastRead && dkind_eqb (derive g) DDbRead)   (* exactly read is at least read *)
  | None => true
  end.
