(* C19: the client-side password cache (lib/metaclient/auth.go, meta_client_impl.go). Client.Authenticate looks the user up in
   the node's copy of the catalogue and then asks Auth.authenticate, which first consults a per-user cache of the last
   password that authenticated and only then compares with the stored hash. The cache must follow the catalogue on EVERY
   path by which the copy is replaced: incremental commands, full snapshot (AllClear), SetData command, version-1 snapshot. *)
From Coq Require Import String List Bool.
Import ListNotations.
Open Scope string_scope.

Record cuser := mk_cuser { cu_name : string; cu_hash : string; cu_admin : bool; cu_read_db1 : bool }.
(* UserAuthCache: the stored hash the entry was created against (base) and the password that authenticated *)
Record centry := mk_centry { ce_name : string; ce_base : string; ce_pwd : string }.

Fixpoint find_cuser (us : list cuser) (n : string) : option cuser :=
  match us with
  | [] => None
  | u :: r => if String.eqb (cu_name u) n then Some u else find_cuser r n
  end.

Inductive upath := PIncr | PFull | PSetData | PV1.

Section AuthCache.
  Variable verify : string -> string -> bool.     (* CompareHashAndPlainPwd stored-hash password *)

  Definition cache_hit (c : list centry) (n p : string) : bool :=
    existsb (fun e => String.eqb (ce_name e) n && String.eqb (ce_pwd e) p) c.
  (* AuthCache.Create: one entry per user *)
  Definition cache_add (c : list centry) (e : centry) : list centry :=
    e :: filter (fun x => negb (String.eqb (ce_name x) (ce_name e))) c.

  (* Client.Authenticate + Auth.authenticate: answer and the cache afterwards *)
  Definition authenticate_c (c : list centry) (us : list cuser) (n p : string) : bool * list centry :=
    match find_cuser us n with
    | None => (false, c)
    | Some u => if cache_hit c n p then (true, c)
                else if verify (cu_hash u) p then (true, cache_add c (mk_centry n (cu_hash u) p))
                else (false, c)
    end.

  (* AuthCache.CleanIfNeeded over the new user list: entries of dropped users and of users whose hash changed go *)
  Definition clean (c : list centry) (us : list cuser) : list centry :=
    filter (fun e => match find_cuser us (ce_name e) with Some u => String.eqb (cu_hash u) (ce_base e) | None => false end) c.

  (* the catalogue copy is replaced through `path`; `refresh path` says whether the loop refreshes the cache then *)
  Definition apply_update (refresh : upath -> bool) (c : list centry) (path : upath) (us' : list cuser) : list centry :=
    if refresh path then clean c us' else c.
  Definition refresh_always (_ : upath) : bool := true.
  Definition refresh_on_user_commands_only (p : upath) : bool := match p with PIncr => true | _ => false end.

  (* every entry belongs to a present user, was made against that user's present hash, and its password verifies *)
  Definition consistent (c : list centry) (us : list cuser) : Prop :=
    forall e, In e c -> exists u, find_cuser us (ce_name e) = Some u /\ cu_hash u = ce_base e /\ verify (ce_base e) (ce_pwd e) = true.

  Lemma consistent_nil : forall us, consistent [] us.
  Proof. intros us e []. Qed.

  Lemma authenticate_keeps_consistent : forall c us n p, consistent c us -> consistent (snd (authenticate_c c us n p)) us.
  Proof.
    intros c us n p H. unfold authenticate_c. destruct (find_cuser us n) as [u|] eqn:F; [|exact H].
    destruct (cache_hit c n p); [exact H|]. destruct (verify (cu_hash u) p) eqn:V; [|exact H].
    cbn [snd]. intros e [<-|Hin].
    - exists u. cbn. repeat split; assumption.
    - apply filter_In in Hin. destruct Hin as [Hin _]. exact (H e Hin).
  Qed.

  (* a refresh makes the cache consistent with the NEW user list, whatever changed and by which path *)
  Lemma refresh_consistent : forall c us us', consistent c us -> consistent (clean c us') us'.
  Proof.
    intros c us us' H e Hin. unfold clean in Hin. apply filter_In in Hin. destruct Hin as [Hin Hf].
    destruct (find_cuser us' (ce_name e)) as [u'|] eqn:F; [|discriminate]. apply String.eqb_eq in Hf.
    exists u'. repeat split; [exact Hf|]. destruct (H e Hin) as (u & _ & _ & V). exact V.
  Qed.

  Lemma update_consistent_when_always_refreshed : forall c us path us',
    consistent c us -> consistent (apply_update refresh_always c path us') us'.
  Proof. intros. unfold apply_update, refresh_always. eapply refresh_consistent. eassumption. Qed.

  (* with a consistent cache a password is accepted only if it verifies against the user's PRESENT hash: a superseded
     password, a dropped user, a password that never was right are refused *)
  Lemma consistent_no_stale_acceptance : forall c us n p,
    consistent c us -> fst (authenticate_c c us n p) = true ->
    exists u, find_cuser us n = Some u /\ verify (cu_hash u) p = true.
  Proof.
    intros c us n p H A. unfold authenticate_c in A. destruct (find_cuser us n) as [u|] eqn:F; [|discriminate].
    exists u. split; [reflexivity|]. destruct (cache_hit c n p) eqn:Hit.
    - unfold cache_hit in Hit. apply existsb_exists in Hit. destruct Hit as (e & Hin & He).
      apply andb_true_iff in He. destruct He as [E1 E2]. apply String.eqb_eq in E1. apply String.eqb_eq in E2.
      destruct (H e Hin) as (u' & F' & Hh & V). rewrite E1, F in F'. inversion F'; subst u'. rewrite Hh, <- E2. exact V.
    - destruct (verify (cu_hash u) p) eqn:V; [reflexivity|discriminate].
  Qed.

  (* the whole history: start empty, any sequence of authentications and of updates through any path *)
  Inductive event := EvAuth (n p : string) | EvUpdate (path : upath) (us' : list cuser).
  Fixpoint run (refresh : upath -> bool) (c : list centry) (us : list cuser) (evs : list event) : list centry * list cuser :=
    match evs with
    | [] => (c, us)
    | EvAuth n p :: r => run refresh (snd (authenticate_c c us n p)) us r
    | EvUpdate path us' :: r => run refresh (apply_update refresh c path us') us' r
    end.

  Lemma run_consistent : forall evs c us, consistent c us ->
    consistent (fst (run refresh_always c us evs)) (snd (run refresh_always c us evs)).
  Proof.
    induction evs as [|ev evs IH]; intros c us H; [exact H|]. destruct ev as [n p|path us']; cbn [run].
    - apply IH. apply authenticate_keeps_consistent. exact H.
    - apply IH. eapply update_consistent_when_always_refreshed. exact H.
  Qed.

  Lemma credentials_follow_the_catalogue_lemma : forall evs us0 n p,
    let st := run refresh_always [] us0 evs in
    fst (authenticate_c (fst st) (snd st) n p) = true ->
    exists u, find_cuser (snd st) n = Some u /\ verify (cu_hash u) p = true.
  Proof.
    intros evs us0 n p st A. apply (consistent_no_stale_acceptance (fst st) (snd st) n p); [|exact A].
    apply run_consistent. apply consistent_nil.
  Qed.
End AuthCache.

(* the hash of the correspondence cases: "H:" followed by the password *)
Definition verify_plain (h p : string) : bool := String.eqb h ("H:" ++ p).

(* refreshing only after user commands (the seeded change C19-m6): a password that was replaced by a full snapshot still
   authenticates *)
Lemma refresh_on_user_commands_only_is_stale :
  exists evs us0 n p,
    let st := run verify_plain refresh_on_user_commands_only [] us0 evs in
    fst (authenticate_c verify_plain (fst st) (snd st) n p) = true /\
    forall u, find_cuser (snd st) n = Some u -> verify_plain (cu_hash u) p = false.
Proof.
  exists [EvAuth "alice" "old"; EvUpdate PFull [mk_cuser "alice" "H:new" false true]], [mk_cuser "alice" "H:old" false true], "alice", "old".
  cbn zeta. split; [vm_compute; reflexivity|]. intros u F. vm_compute in F. inversion F; subst u. reflexivity.
Qed.

(* ---- correspondence cases: what the real client answered (harness/cmd/c19 authcache) ---- *)
Record probe := mk_probe { pr_name : string; pr_pwd : string; pr_observed : bool }.
Record accase := mk_accase { ac_before : list cuser; ac_warm : list (string * string); ac_path : upath; ac_after : list cuser;
                             ac_probes : list probe; ac_read_db1_observed : bool }.
Fixpoint run_probes (c : list centry) (us : list cuser) (ps : list probe) : bool :=
  match ps with
  | [] => true
  | p :: r => let '(ok, c') := authenticate_c verify_plain c us (pr_name p) (pr_pwd p) in
              Bool.eqb ok (pr_observed p) && run_probes c' us r
  end.
Definition accase_ok (a : accase) : bool :=
  let st := run verify_plain refresh_always [] (ac_before a) (map (fun np => EvAuth (fst np) (snd np)) (ac_warm a) ++ [EvUpdate (ac_path a) (ac_after a)]) in
  run_probes (fst st) (snd st) (ac_probes a) &&
  (* the user a successful authentication returns carries the privileges of the NEW catalogue *)
  Bool.eqb (ac_read_db1_observed a)
           (existsb (fun p => pr_observed p && match find_cuser (snd st) (pr_name p) with Some u => cu_read_db1 u | None => false end) (ac_probes a)).
Fixpoint acmismatches_from (k : nat) (cs : list accase) : list nat :=
  match cs with
  | [] => []
  | c :: r => if accase_ok c then acmismatches_from (S k) r else k :: acmismatches_from (S k) r
  end.
Definition acmismatches := acmismatches_from 0.
