(* C19 property theorems. Nothing but statements closed by `exact lemma` and Print Assumptions. *)
From Coq Require Import String List Bool NArith.
From OG Require Import C19.Model C19.Guards C19.AuthCache C19.Gen_Routes C19.Privileges C19.Gen_Privileges C19.Proofs.
Import ListNotations.
Open Scope string_scope.
Open Scope N_scope.

(* (T) Over the route table translated from the repository in this run: every route is on the statement's whitelist
   (pre-flight, liveness/status), or is wrapped by `authenticate`, or is a literal that only rejects. No route is exempt:
   the defects C19-failpoint-public and C19-runtime-config-public are repaired; a re-appearance breaks this theorem. *)
Theorem all_nonpublic_authenticated :
  forallb (fun r => public r || authenticated shape_now r || always_rejects r) routes = true.
Proof. exact routes_check. Qed.
Print Assumptions all_nonpublic_authenticated.

Theorem all_nonpublic_authenticated_forall :
  forall r, In r routes -> public r = false -> authenticated shape_now r = true \/ always_rejects r = true.
Proof. exact all_nonpublic_authenticated_lemma. Qed.
Print Assumptions all_nonpublic_authenticated_forall.

Theorem no_open_route : open_routes shape_now routes = [].
Proof. exact no_open_routes_check. Qed.
Print Assumptions no_open_route.

(* (T) handler facts. Every handler with the authenticated signature reaches an authorization decision on its user
   argument (AuthorizeUnrestricted / AuthorizeDatabase / AuthorizeWrite / AuthorizeQuery whose negative outcome leaves
   the handler), except the two routes for which authentication alone is asked and the routes named by a finding that
   is OPEN in this run (today: the log-store data plane, C19-logstore-data-unprivileged). *)
Theorem every_handler_decides : unguarded open_findings handler_guards = [].
Proof. exact guards_check. Qed.
Print Assumptions every_handler_decides.

Theorem every_handler_decides_forall :
  forall g, In g handler_guards -> decides g = true \/ guard_exempt open_findings g = true.
Proof. exact guards_forall. Qed.
Print Assumptions every_handler_decides_forall.

(* (T) the routes the statement names by what they do make exactly the decision it asks for: catalogue changes and server
   control ask for the administrator (/debug/ctrl, /backup/..., /failpoint, tsdb creation, log-store repository and
   logstream management: repairs 8b29366 21eba35 e8b49bf), log-store listings for read-or-write on the repository
   (3986ddb), writes for the write authorizer, /query for the statement authorizer. *)
Theorem named_routes_decide_as_expected : forallb (expected_ok handler_guards) expected_guards = true.
Proof. exact expected_guards_check. Qed.
Print Assumptions named_routes_decide_as_expected.

Theorem handler_facts_cover_table : forallb has_guard_row routes = true.
Proof. exact guards_cover_routes_check. Qed.

(* (T) AddRoutes wraps the meta.User signature with authenticate(.., h.Config.AuthEnabled), replaces no handler
   afterwards, registers by (pattern, method); nothing registers on the mux elsewhere; ServeHTTP ends in the mux. *)
Theorem addroutes_shape : shape_ok shape_now = true.
Proof. exact shape_check. Qed.
Print Assumptions addroutes_shape.

(* (T) no path prefix is dispatched around the mux except those named by the finding C19-debug-public while it is open *)
Theorem no_prefix_bypass : unexempt_prefixes open_findings prefixes = [].
Proof. exact no_prefix_skips_the_mux_check. Qed.
Print Assumptions no_prefix_bypass.

Theorem no_prefix_bypass_forall : forall guards path p, dispatch guards prefixes path = Some p ->
  prefix_admin p = true \/ (mem "C19-debug-public" open_findings = true /\ known_prefix p = true).
Proof. exact prefix_bypass_only_open_finding. Qed.
Print Assumptions no_prefix_bypass_forall.

(* a dispatched prefix that runs behind authenticate and asks for the administrator (fix6.patch) acts for nobody else *)
Theorem authenticated_prefix_refuses : forall sh cfg g ps us path r k rq p,
  dispatch g ps path = Some p -> prefix_admin p = true ->
  auth_enabled cfg = true -> admin_exists us = true ->
  ((forall u, ~ valid_creds cfg us (rq_creds rq) u) -> serve_path sh cfg g ps us path r k rq = (401, [])) /\
  (forall u, valid_creds cfg us (rq_creds rq) u -> u_admin u = false -> serve_path sh cfg g ps us path r k rq = (403, [])).
Proof. exact authenticated_prefix_refuses_lemma. Qed.
Print Assumptions authenticated_prefix_refuses.

Theorem repaired_dispatch_reaches_mux : forall guards path, dispatch guards (unexempt_prefixes open_findings prefixes) path = None.
Proof. exact repaired_dispatch_is_mux. Qed.
Print Assumptions repaired_dispatch_reaches_mux.

(* The default arm of the credential-method switch in `authenticate` writes 401 and falls through to the handler
   with a nil user. It cannot be reached: ParseCredentials yields only the two handled methods ... *)
Theorem unsupported_method_unreachable : forall cfg us c st, authenticate cfg us c <> RejectAndPass st.
Proof. exact unsupported_method_unreachable_lemma. Qed.
Print Assumptions unsupported_method_unreachable.

Theorem parse_credentials_methods : forall c cr, parse_credentials c = Some cr ->
  cr_method cr = UserAuthentication \/ cr_method cr = BearerAuthentication.
Proof. exact parse_methods. Qed.
Print Assumptions parse_credentials_methods.

(* ... and (T) in the code of this run the methods produced by `credentials{..}` literals are exactly the model's two
   and each has its own arm (or the default arm returns) *)
Theorem unsupported_method_unreachable_code :
  cred_facts_ok cred_facts_now = true /\ cred_facts_match_model cred_facts_now = true.
Proof. exact cred_facts_check. Qed.
Print Assumptions unsupported_method_unreachable_code.

(* With authentication on and an administrator present, on a route wrapped by `authenticate`: any effect implies
   valid credentials of a user with sufficient privilege for what the handler does on the target database. *)
Theorem handler_runs_only_if_authorized : forall sh cfg us r k rq,
  auth_enabled cfg = true -> admin_exists us = true -> authenticated sh r = true ->
  snd (serve sh cfg us r k rq) <> [] ->
  exists u, valid_creds cfg us (rq_creds rq) u /\ sufficient u k rq.
Proof. exact handler_runs_only_if_authorized_lemma. Qed.
Print Assumptions handler_runs_only_if_authorized.

Theorem invalid_creds_rejected : forall sh cfg us r k rq,
  auth_enabled cfg = true -> admin_exists us = true -> authenticated sh r = true -> always_rejects r = false ->
  (forall u, ~ valid_creds cfg us (rq_creds rq) u) ->
  serve sh cfg us r k rq = (401, []).
Proof. exact invalid_creds_rejected_lemma. Qed.
Print Assumptions invalid_creds_rejected.

Theorem insufficient_privilege_rejected : forall sh cfg us r k rq u,
  auth_enabled cfg = true -> admin_exists us = true -> authenticated sh r = true -> always_rejects r = false ->
  valid_creds cfg us (rq_creds rq) u -> ~ sufficient u k rq ->
  serve sh cfg us r k rq = (403, []).
Proof. exact insufficient_privilege_rejected_lemma. Qed.
Print Assumptions insufficient_privilege_rejected.

Theorem sufficient_accepted : forall sh cfg us r k rq u,
  auth_enabled cfg = true -> admin_exists us = true -> authenticated sh r = true -> always_rejects r = false ->
  valid_creds cfg us (rq_creds rq) u -> sufficient u k rq -> k <> KPublic ->
  snd (serve sh cfg us r k rq) <> [] /\ fst (serve sh cfg us r k rq) <> 401 /\ fst (serve sh cfg us r k rq) <> 403.
Proof. exact sufficient_accepted_lemma. Qed.
Print Assumptions sufficient_accepted.

(* the specification predicates are exactly what the executable checks compute *)
Theorem valid_creds_iff_authenticate : forall cfg us c u,
  auth_enabled cfg = true -> admin_exists us = true ->
  (authenticate cfg us c = Pass (Some u) <-> valid_creds cfg us c u).
Proof. intros; split; [apply authenticate_pass_sound|apply authenticate_pass_complete]; assumption. Qed.
Print Assumptions valid_creds_iff_authenticate.

Theorem has_priv_iff_authorize_database : forall u p d, authorize_database u p d = true <-> has_priv u p d.
Proof. exact authorize_database_spec. Qed.

(* GRANT / REVOKE of a privilege to user n on database d changes the answer for exactly that user and database *)
Theorem grant_revoke_exact : forall us n d p n' d' q,
  n' <> n \/ d' <> d ->
  authorize_by_name (grant us n d p) n' q d' = authorize_by_name us n' q d' /\
  authorize_by_name (revoke us n d p) n' q d' = authorize_by_name us n' q d'.
Proof. exact grant_revoke_exact_lemma. Qed.
Print Assumptions grant_revoke_exact.

Theorem grant_effect : forall us n d p u q,
  find_user us n = Some u -> u_admin u = false -> u_rw u = false ->
  authorize_by_name (grant us n d p) n q d = priv_eqb q NoPriv || (priv_eqb p q || priv_eqb p AllPriv).
Proof. exact set_privilege_effect. Qed.
Print Assumptions grant_effect.

Theorem revoke_effect : forall us n d p u,
  find_user us n = Some u -> u_admin u = false -> u_rw u = false -> p <> NoPriv ->
  authorize_by_name (revoke us n d p) n p d = false.
Proof. exact revoke_effect_lemma. Qed.
Print Assumptions revoke_effect.

Theorem grant_revoke_keep_admin : forall us n d p,
  admin_exists (grant us n d p) = admin_exists us /\ admin_exists (revoke us n d p) = admin_exists us.
Proof. intros; split; apply set_privilege_admin_exists. Qed.

(* serve level: GRANT / REVOKE on (n, d) changes the answer of no request made by somebody else, and of no request of
   n whose handling does not consult the privilege on d *)
Theorem serve_grant_revoke_exact : forall sh cfg us r k rq n d p,
  (forall u, authenticate cfg us (rq_creds rq) = Pass (Some u) -> u_name u <> n) \/ mentionsb k rq d = false ->
  serve sh cfg (grant us n d p) r k rq = serve sh cfg us r k rq /\
  serve sh cfg (revoke us n d p) r k rq = serve sh cfg us r k rq.
Proof. exact serve_grant_revoke_exact_lemma. Qed.
Print Assumptions serve_grant_revoke_exact.

(* ... and for n on d it becomes exactly what the granted privilege says *)
Theorem serve_after_grant_is_the_grant : forall sh cfg us r n d p u c want,
  auth_enabled cfg = true -> admin_exists us = true -> authenticated sh r = true -> always_rejects r = false ->
  authenticate cfg us c = Pass (Some u) -> u_name u = n -> u_admin u = false -> u_rw u = false -> want <> NoPriv ->
  fst (serve sh cfg (grant us n d p) r (KQuery [[RDb "" want]]) (mk_request c d)) =
    if priv_eqb p want || priv_eqb p AllPriv then 200 else 403.
Proof. exact serve_after_grant. Qed.
Print Assumptions serve_after_grant_is_the_grant.

(* (T) the RequiredPrivileges methods of the source (every statement type: Admin flag, database expression, privilege,
   conditions, delegations) are exactly the table the model and the statement matrix use *)
Theorem required_privileges_match :
  list_eqb stmt_priv_eqb gen_privs model_privs || list_eqb stmt_priv_eqb gen_privs model_privs_repaired = true.
Proof. exact required_privileges_match_check. Qed.
Print Assumptions required_privileges_match.

(* the cardinality statements after the repair of C19-cardinality-no-source-unprivileged (fix5.patch): without a FROM
   clause each of them - estimated or exact - asks for read on its database, and a user without it is refused *)
Theorem cardinality_without_source_asks_read : forall ty exact d, In ty cardinality_types ->
  card_rule model_privs_repaired ty exact d [] = Some [RDb d ReadPriv].
Proof. exact card_repaired_no_source. Qed.
Print Assumptions cardinality_without_source_asks_read.

Theorem cardinality_without_source_refused : forall ty exact d dflt u, In ty cardinality_types ->
  u_admin u = false -> authorize_database u ReadPriv (target_db d dflt) = false ->
  match card_rule model_privs_repaired ty exact d [] with
  | Some s => authorize_query u dflt [s] = false
  | None => False
  end.
Proof. exact card_repaired_refuses. Qed.
Print Assumptions cardinality_without_source_refused.

Theorem admin_only_statement_types :
  forallb admin_only_type ["CreateDatabaseStatement"; "DropDatabaseStatement"; "CreateUserStatement"; "DropUserStatement";
    "GrantStatement"; "GrantAdminStatement"; "RevokeStatement"; "RevokeAdminStatement"; "SetPasswordUserStatement";
    "ShowUsersStatement"; "ShowGrantsForUserStatement"; "CreateRetentionPolicyStatement"; "AlterRetentionPolicyStatement";
    "DropMeasurementStatement"; "DropShardStatement"; "KillQueryStatement"; "ShowShardsStatement"; "ShowStatsStatement";
    "ShowDiagnosticsStatement"; "CreateMeasurementStatement"; "SetConfigStatement"; "ShowConfigsStatement"] = true.
Proof. exact admin_only_types_check. Qed.

Theorem admin_requirement_refuses_non_admin : forall u dflt s,
  In RAdmin s -> u_admin u = false -> u_rw u = false -> authorize_query u dflt [s] = false.
Proof. exact admin_requirement_refuses. Qed.
Print Assumptions admin_requirement_refuses_non_admin.

Theorem every_required_privilege_must_hold : forall u dflt s d p,
  In (RDb d p) s -> u_admin u = false -> authorize_database u p (target_db d dflt) = false ->
  authorize_query u dflt [s] = false.
Proof. exact every_requirement_must_hold. Qed.
Print Assumptions every_required_privilege_must_hold.

(* ---- from the translated table to the behaviour ---- *)
(* EVERY route of the table translated in this run that is not on the statement's whitelist, whatever its handler does
   (any kind k): a request without valid credentials has no effect and is answered 401 (or 403 by a rejecting literal) *)
Theorem anonymous_refused_everywhere : forall r k cfg us rq,
  In r routes -> public r = false ->
  auth_enabled cfg = true -> admin_exists us = true -> (forall u, ~ valid_creds cfg us (rq_creds rq) u) ->
  snd (serve shape_now cfg us r k rq) = [] /\ (fst (serve shape_now cfg us r k rq) = 401 \/ fst (serve shape_now cfg us r k rq) = 403).
Proof. exact anonymous_refused_everywhere_lemma. Qed.
Print Assumptions anonymous_refused_everywhere.

(* a route of the table with the authenticated signature whose handler decides by AuthorizeUnrestricted (the kind the
   correspondence accepts only when the translated handler facts say so) refuses every valid non-administrator *)
Theorem admin_routes_refuse_non_administrators : forall r cfg us rq u,
  In r routes -> r_sig r = SigUser ->
  auth_enabled cfg = true -> admin_exists us = true -> valid_creds cfg us (rq_creds rq) u -> u_admin u = false ->
  serve shape_now cfg us r KAdminOnly rq = (403, []).
Proof. exact admin_routes_refuse_lemma. Qed.
Print Assumptions admin_routes_refuse_non_administrators.

Theorem repository_reads_refuse_without_privilege : forall r cfg us rq u,
  In r routes -> r_sig r = SigUser ->
  auth_enabled cfg = true -> admin_exists us = true -> valid_creds cfg us (rq_creds rq) u ->
  ~ has_priv u ReadPriv (rq_db rq) -> ~ has_priv u WritePriv (rq_db rq) ->
  serve shape_now cfg us r KRepoSee rq = (403, []).
Proof. exact see_routes_refuse_lemma. Qed.
Print Assumptions repository_reads_refuse_without_privilege.

(* ---- credential validity follows the catalogue on every update path of the node's catalogue copy ---- *)
(* For every hash function, every initial user list and EVERY history of authentications and catalogue updates - through
   incremental commands, full snapshot, SetData or the version-1 snapshot, carrying whatever change - : when the password
   cache is refreshed with every update, a (name, password) is accepted only if the user exists in the PRESENT catalogue
   and the password verifies against its PRESENT hash. A superseded password, a dropped user, a wrong password are refused. *)
Theorem credentials_follow_the_catalogue : forall verify evs us0 n p,
  let st := run verify refresh_always [] us0 evs in
  fst (authenticate_c verify (fst st) (snd st) n p) = true ->
  exists u, find_cuser (snd st) n = Some u /\ verify (cu_hash u) p = true.
Proof. exact credentials_follow_the_catalogue_lemma. Qed.
Print Assumptions credentials_follow_the_catalogue.

(* the invariant behind it: after every update kind the cache is consistent with the new user list *)
Theorem auth_cache_consistent_after_every_update : forall verify c us path us',
  consistent verify c us -> consistent verify (apply_update refresh_always c path us') us'.
Proof. exact update_consistent_when_always_refreshed. Qed.
Print Assumptions auth_cache_consistent_after_every_update.

(* (T) in the source every update loop of the catalogue copy refreshes the cache under exactly the conditions under which
   it publishes the new copy *)
Theorem auth_cache_refreshed_with_every_update : auth_refresh_with_every_update_now = true.
Proof. exact auth_refresh_check. Qed.
Print Assumptions auth_cache_refreshed_with_every_update.

(* ---- guard formulas: the handler kind DERIVED from the source ---- *)
(* For ALL formulas, configurations, users, requests and values of the conditions the evaluator does not understand: the
   kind `derive` assigns means what it says - the handler goes on exactly when (DAdmin, DSee, DWrite, DQuery, DDbRead,
   DEveryone), resp. only when (DAtLeastRead, DAtLeastQuery), the model's handler kind acts. The decision procedures
   gequiv / gimplies behind it are proved sound over every valuation (Guards.gequiv_sound, gimplies_sound). *)
Theorem derived_kinds_are_sound : forall g, dkind_spec (derive g) g.
Proof. exact derive_sound. Qed.
Print Assumptions derived_kinds_are_sound.

(* (T) every route the statement names by function derives exactly the kind it asks for, from the formulas the translator
   obtained by symbolic evaluation of this run's handlers (incl. the and/or structure: read OR write for the catalogue
   reads, the upfront read check AND the per-shard-group statement check for the log-store queries) *)
Theorem named_routes_derive_expected_kinds : forallb (expected_dkind_ok handler_formulas) expected_dkinds = true.
Proof. exact expected_dkinds_check. Qed.
Print Assumptions named_routes_derive_expected_kinds.

Theorem formulas_cover_table : forallb has_formula_row routes = true.
Proof. exact formulas_cover_routes_check. Qed.

(* the reference formulas are the decisions of the model's handler kinds *)
Theorem admin_formula_is_the_admin_kind : forall cfg u rq q o,
  geval (mk_genv (base_of cfg u (rq_db rq) q) o) F_admin = acts (inner cfg KAdminOnly rq u).
Proof. exact F_admin_is_inner. Qed.
Theorem see_formula_is_the_repository_read_kind : forall cfg u rq q o,
  geval (mk_genv (base_of cfg u (rq_db rq) q) o) F_see = acts (inner cfg KRepoSee rq u).
Proof. exact F_see_is_inner. Qed.
Theorem write_formula_is_the_write_kind : forall cfg u rq q o,
  geval (mk_genv (base_of cfg u (rq_db rq) q) o) F_write = acts (inner cfg KWrite rq u).
Proof. exact F_write_is_inner. Qed.
Theorem query_formula_is_the_query_kind : forall cfg u rq q o,
  geval (mk_genv (base_of cfg u (rq_db rq) q) o) F_query = acts (inner cfg (KQuery q) rq u).
Proof. exact F_query_is_inner. Qed.

(* ---- AuthorizeUnrestricted and checkAuthorization (translated) ---- *)
(* (T) UserInfo.AuthorizeUnrestricted - the only administrator test of serveSysCtrl, checkAuth (/backup/...), requireAdmin
   (tsdb creation, repository / logstream management, recall, stream tasks) - is the administrator flag and nothing else *)
Theorem authorize_unrestricted_is_the_admin_flag : uexpr_is_admin unrestricted_now = true.
Proof. exact unrestricted_check. Qed.
Print Assumptions authorize_unrestricted_is_the_admin_flag.

Theorem authorize_unrestricted_code : forall u, eval_uexpr unrestricted_now (u_admin u) (u_rw u) = Some (u_admin u).
Proof. exact unrestricted_code_is_admin. Qed.

(* so an account with partition privileges is refused, with no effect, on every route of this run's table whose handler
   asks for the administrator *)
Theorem rwuser_refused_on_admin_routes : forall r cfg us rq u,
  In r routes -> r_sig r = SigUser ->
  auth_enabled cfg = true -> admin_exists us = true -> valid_creds cfg us (rq_creds rq) u -> u_rw u = true -> u_admin u = false ->
  eval_uexpr unrestricted_now (u_admin u) (u_rw u) = Some false /\
  serve shape_now cfg us r KAdminOnly rq = (403, []).
Proof. exact rwuser_refused_on_admin_routes_lemma. Qed.
Print Assumptions rwuser_refused_on_admin_routes.

(* (T) Handler.checkAuthorization leaves with a non-nil error for EVERY error of QueryAuthorizer.AuthorizeQuery *)
Theorem check_authorization_hands_on_every_error : check_authz_returns_all_now = true.
Proof. exact check_authz_check. Qed.
Print Assumptions check_authorization_hands_on_every_error.

(* its contract in the model: the handler goes on iff the authorizer answered nil ... *)
Theorem check_authorization_contract : forall u db q, check_authorization (query_result u db q) = authorize_query u db q.
Proof. exact check_authorization_spec. Qed.

(* ... so an authorizer error of ANY kind (refusal or other) gives 403 and no effect *)
Theorem any_authorizer_error_refuses : forall sh cfg us r q rq u,
  auth_enabled cfg = true -> admin_exists us = true -> authenticated sh r = true -> always_rejects r = false ->
  valid_creds cfg us (rq_creds rq) u -> query_result u (rq_db rq) q <> AuthzOk ->
  serve sh cfg us r (KQuery q) rq = (403, []).
Proof. exact any_authorizer_error_refuses_lemma. Qed.
Print Assumptions any_authorizer_error_refuses.

(* the error that is not an authorization error exists: RequiredPrivileges fails for the statement (invalid source) *)
Theorem invalid_source_is_an_other_error : forall u db s q,
  In RInvalid s -> u_admin u = false -> ~ In RRwAllow s -> query_result u db (s :: q) = AuthzOtherError.
Proof. exact invalid_source_is_other_error. Qed.

(* ---- log-store listings (GET /api/v1/repository, repair 3986ddb) ---- *)
(* a listing returns exactly the repositories of the catalogue the user may read or write ... *)
Theorem listing_exact : forall u dbs d,
  In d (visible_repositories u dbs) <-> In d dbs /\ (has_priv u ReadPriv d \/ has_priv u WritePriv d).
Proof. exact listing_exact_lemma. Qed.
Print Assumptions listing_exact.

(* ... each once, in the catalogue's order ... *)
Theorem listing_no_duplicates : forall u dbs, NoDup dbs -> NoDup (visible_repositories u dbs).
Proof. exact listing_nodup_lemma. Qed.

(* ... and that is what the endpoint answers for valid credentials (invalid ones: invalid_creds_rejected) *)
Theorem listing_served : forall sh cfg us r dbs rq u,
  auth_enabled cfg = true -> admin_exists us = true -> authenticated sh r = true -> always_rejects r = false ->
  valid_creds cfg us (rq_creds rq) u ->
  serve sh cfg us r (KListRepos dbs) rq = (200, [EffList (visible_repositories u dbs)]).
Proof. exact listing_served_lemma. Qed.
Print Assumptions listing_served.

Theorem listing_admin_sees_all : forall u dbs, u_admin u = true -> visible_repositories u dbs = dbs.
Proof. exact admin_sees_all_lemma. Qed.

Theorem listing_without_privileges_is_empty : forall u dbs,
  u_admin u = false -> u_rw u = false -> u_privs u = [] -> visible_repositories u dbs = [].
Proof. exact nobody_sees_nothing_lemma. Qed.

(* GRANT p ON d TO n changes n's listing at exactly d: d is listed iff p is a privilege, everything else as before;
   nobody else's listing changes (serve_grant_revoke_exact covers KListRepos) *)
Theorem listing_after_grant : forall sh cfg us r n d p u c x dbs,
  auth_enabled cfg = true -> admin_exists us = true -> authenticated sh r = true -> always_rejects r = false ->
  authenticate cfg us c = Pass (Some u) -> u_name u = n -> u_admin u = false -> u_rw u = false ->
  serve sh cfg (grant us n d p) r (KListRepos dbs) (mk_request c x) = (200, [EffList (filter (see_after u d p) dbs)]).
Proof. exact listing_after_grant_lemma. Qed.
Print Assumptions listing_after_grant.

(* ---- accounts with partition privileges (UserInfo.Rwuser) ---- *)
(* they pass every per-database check and see every repository; GRANT / REVOKE never changes what they may do; they are
   not administrators for the control endpoints; a statement entry without the Rwuser flag, or the statement's own
   refusing case, stops them unless the statement's own case lets them through *)
Theorem rwuser_bypasses_database_privileges : forall u p d, u_rw u = true -> authorize_database u p d = true.
Proof. exact rw_authorize_database. Qed.

Theorem rwuser_privileges_irrelevant : forall cfg k rq u d p, u_rw u = true ->
  inner cfg k rq (Some (set_priv_user u d p)) = inner cfg k rq (Some u).
Proof. exact rw_privileges_irrelevant. Qed.
Print Assumptions rwuser_privileges_irrelevant.

Theorem rwuser_is_not_administrator : forall cfg rq u, auth_enabled cfg = true -> u_admin u = false ->
  inner cfg KAdminOnly rq (Some u) = (403, []).
Proof. exact rw_not_unrestricted. Qed.

Theorem rwuser_refused_by_unflagged_entry : forall u db s, u_rw u = true -> u_admin u = false ->
  In RAdmin s -> ~ In RRwAllow s -> authorize_query u db [s] = false.
Proof. exact rw_refused_by_unflagged_entry. Qed.
Print Assumptions rwuser_refused_by_unflagged_entry.

Theorem rwuser_refused_by_statement_case : forall u db s, u_rw u = true -> u_admin u = false ->
  In RRwDeny s -> ~ In RRwAllow s -> authorize_query u db [s] = false.
Proof. exact rw_refused_by_case. Qed.

Theorem rwuser_database_statements_allowed : forall u db s, u_rw u = true ->
  (forall rp, In rp s -> exists d p, rp = RDb d p) -> authorize_query u db [s] = true.
Proof. exact rw_database_statements_allowed. Qed.

Theorem rwuser_markers_ignored_by_ordinary_users : forall u db s m, u_rw u = false -> (m = RRwAllow \/ m = RRwDeny) ->
  authorize_stmt u db (s ++ [m])%list = authorize_stmt u db s.
Proof. exact markers_ignored_by_plain. Qed.

(* (T) the statement cases of AuthorizeQueryForRwUser in the source are the ones the model gives a meaning to *)
Theorem rwuser_rules_match : list_eqb rwrule_eqb gen_rw_rules model_rw_rules = true /\
  find_rwrule model_rw_rules "<tail>" = Some rw_tail_expected.
Proof. exact rwuser_rules_match_check. Qed.
Print Assumptions rwuser_rules_match.

(* non-vacuity: hypotheses are satisfiable and the interesting outcomes all occur *)
Definition ex_users : list user :=
  [mk_user "root" "rootpw" true false []; mk_user "ro" "ropw" false false [("db1", ReadPriv)];
   mk_user "wo" "wopw" false false [("db1", WritePriv)]; mk_user "rw" "rwpw" false true []].
Definition ex_cfg : config := mk_config true true [].
Definition ex_sel : rkind := KQuery [[RDb "" ReadPriv]].
Definition ex_rq (u p : string) : request := mk_request (mk_creds_in u p HNone) "db1".
Definition ex_route : route := mk_route "query" "GET" "/query" "h.serveQuery" SigUser "".

Example C19_example_outcomes :
  authenticated shape_now ex_route = true /\ admin_exists ex_users = true /\
  serve shape_now ex_cfg ex_users ex_route ex_sel (ex_rq "" "") = (401, []) /\
  serve shape_now ex_cfg ex_users ex_route ex_sel (ex_rq "ro" "bad") = (401, []) /\
  serve shape_now ex_cfg ex_users ex_route ex_sel (ex_rq "wo" "wopw") = (403, []) /\
  serve shape_now ex_cfg ex_users ex_route ex_sel (ex_rq "ro" "ropw") = (200, [EffQuery "db1" [[RDb "" ReadPriv]]]) /\
  serve shape_now ex_cfg ex_users ex_route KWrite (ex_rq "ro" "ropw") = (403, []) /\
  serve shape_now ex_cfg ex_users ex_route KWrite (ex_rq "wo" "wopw") = (204, [EffWrite "db1"]) /\
  serve shape_now ex_cfg ex_users ex_route KAdminOnly (ex_rq "wo" "wopw") = (403, []) /\
  serve shape_now ex_cfg ex_users ex_route KAdminOnly (ex_rq "root" "rootpw") = (200, [EffControl]) /\
  serve shape_now ex_cfg (grant ex_users "wo" "db1" AllPriv) ex_route ex_sel (ex_rq "wo" "wopw") = (200, [EffQuery "db1" [[RDb "" ReadPriv]]]) /\
  serve shape_now ex_cfg (revoke ex_users "ro" "db1" ReadPriv) ex_route ex_sel (ex_rq "ro" "ropw") = (403, []).
Proof. vm_compute. repeat split. Qed.

Example C19_example_valid_creds : valid_creds ex_cfg ex_users (mk_creds_in "ro" "ropw" HNone) (mk_user "ro" "ropw" false false [("db1", ReadPriv)]).
Proof. apply authenticate_pass_sound; reflexivity. Qed.

Example C19_example_table_nonempty : (10 <? N.of_nat (length routes)) = true /\ existsb (authenticated shape_now) routes = true.
Proof. vm_compute. split; reflexivity. Qed.

Example C19_example_listing :
  serve shape_now ex_cfg ex_users ex_route (KListRepos ["db1"; "db2"]) (ex_rq "ro" "ropw") = (200, [EffList ["db1"]]) /\
  serve shape_now ex_cfg ex_users ex_route (KListRepos ["db1"; "db2"]) (ex_rq "root" "rootpw") = (200, [EffList ["db1"; "db2"]]) /\
  serve shape_now ex_cfg ex_users ex_route (KListRepos ["db1"; "db2"]) (ex_rq "rw" "rwpw") = (200, [EffList ["db1"; "db2"]]) /\
  serve shape_now ex_cfg (grant ex_users "ro" "db2" WritePriv) ex_route (KListRepos ["db1"; "db2"]) (ex_rq "ro" "ropw") = (200, [EffList ["db1"; "db2"]]) /\
  serve shape_now ex_cfg (revoke ex_users "ro" "db1" AllPriv) ex_route (KListRepos ["db1"; "db2"]) (ex_rq "ro" "ropw") = (200, [EffList []]) /\
  serve shape_now ex_cfg ex_users ex_route KRepoSee (ex_rq "wo" "wopw") = (200, [EffHandler]) /\
  serve shape_now ex_cfg ex_users ex_route KRepoSee (mk_request (mk_creds_in "wo" "wopw" HNone) "db2") = (403, []) /\
  serve shape_now ex_cfg ex_users ex_route (KListRepos ["db1"]) (ex_rq "ro" "bad") = (401, []).
Proof. vm_compute. repeat split. Qed.

Example C19_example_rwuser :
  serve shape_now ex_cfg ex_users ex_route KWrite (ex_rq "rw" "rwpw") = (204, [EffWrite "db1"]) /\
  serve shape_now ex_cfg ex_users ex_route KAdminOnly (ex_rq "rw" "rwpw") = (403, []) /\
  serve shape_now ex_cfg ex_users ex_route (KQuery [[RAdminRw]]) (ex_rq "rw" "rwpw") = (200, [EffQuery "db1" [[RAdminRw]]]) /\
  serve shape_now ex_cfg ex_users ex_route (KQuery [[RAdminRw]]) (ex_rq "wo" "wopw") = (403, []) /\
  serve shape_now ex_cfg ex_users ex_route (KQuery [[RAdmin]]) (ex_rq "rw" "rwpw") = (403, []) /\
  serve shape_now ex_cfg ex_users ex_route (KQuery [[RAdmin; RRwAllow]]) (ex_rq "rw" "rwpw") = (200, [EffQuery "db1" [[RAdmin; RRwAllow]]]) /\
  serve shape_now ex_cfg ex_users ex_route (KQuery [[RAdminRw; RRwDeny]]) (ex_rq "rw" "rwpw") = (403, []) /\
  rw_marker model_rw_rules "GrantStatement" false = [RRwAllow] /\ rw_marker model_rw_rules "DropUserStatement" true = [] /\
  rw_marker model_rw_rules "DropDatabaseStatement" true = [RRwDeny] /\ rw_marker model_rw_rules "KillQueryStatement" false = [].
Proof. vm_compute. repeat split. Qed.

Example C19_example_handler_facts :
  decides (mk_hguard "POST" "/write" ["write"]) = true /\ decides (mk_hguard "GET" "/x" []) = false /\
  guard_ok [] (mk_hguard "POST" "/repo/{repository}/logstreams/{logStream}/records" []) = false /\
  guard_ok ["C19-logstore-data-unprivileged"] (mk_hguard "POST" "/repo/{repository}/logstreams/{logStream}/records" []) = true /\
  (5 <? N.of_nat (length handler_guards)) = true.
Proof. vm_compute. repeat split. Qed.

Example C19_example_other_error :
  query_result (mk_user "wo" "wopw" false false [("db1", WritePriv)]) "db1" [[RInvalid]] = AuthzOtherError /\
  query_result (mk_user "wo" "wopw" false false [("db1", WritePriv)]) "db1" [[RDb "" ReadPriv]] = AuthzDenied /\
  serve shape_now ex_cfg ex_users ex_route (KQuery [[RInvalid]]) (ex_rq "ro" "ropw") = (403, []) /\
  serve shape_now ex_cfg ex_users ex_route (KQuery [[RInvalid]]) (ex_rq "rw" "rwpw") = (403, []) /\
  serve shape_now ex_cfg ex_users ex_route (KQuery [[RInvalid]]) (ex_rq "root" "rootpw") = (200, [EffQuery "db1" [[RInvalid]]]) /\
  eval_uexpr (UOr UAdmin URw) false true = Some true /\ uexpr_is_admin (UOr UAdmin URw) = false /\ uexpr_is_admin UAdmin = true.
Proof. vm_compute. repeat split. Qed.

Example C19_example_guard_formulas :
  derive (GOr GAuthOff (GAnd (GNot GAuthOff) (GAnd (GNot GNil) (GOr GDbRead GDbWrite)))) = DSee /\
  derive (GOr GAuthOff (GAnd (GNot GAuthOff) (GAnd (GNot GNil) GDbRead))) = DDbRead /\
  derive (GOr GAuthOff (GAnd (GNot GAuthOff) (GAnd (GNot GNil) (GAnd GDbRead GDbWrite)))) = DAtLeastRead /\
  derive (GAnd F_dbread (GOr (GNot (GOpaque 5)) (GAnd (GOpaque 5) F_query))) = DAtLeastRead /\
  derive (GOr (GNot (GOpaque 5)) (GAnd (GOpaque 5) F_query)) = DUnknown /\
  derive (GOr GAuthOff (GAnd (GNot GNil) (GOr GAdmin GDbWrite))) = DUnknown /\ derive GTrue = DEveryone.
Proof. vm_compute. repeat split. Qed.

Example C19_example_auth_cache :
  let us0 := [mk_cuser "alice" "H:old" false true] in
  let us1 := [mk_cuser "alice" "H:new" false true] in
  let st := run verify_plain refresh_always [] us0 [EvAuth "alice" "old"; EvUpdate PFull us1] in
  fst (authenticate_c verify_plain (fst st) (snd st) "alice" "old") = false /\
  fst (authenticate_c verify_plain (fst st) (snd st) "alice" "new") = true /\
  fst (run verify_plain refresh_always [] us0 [EvAuth "alice" "old"]) = [mk_centry "alice" "H:old" "old"].
Proof. vm_compute. repeat split. Qed.
