(* C19 property theorems. Nothing but statements closed by `exact lemma` and Print Assumptions. *)
From Coq Require Import String List Bool NArith.
From OG Require Import C19.Model C19.Gen_Routes C19.Privileges C19.Gen_Privileges C19.Proofs.
Import ListNotations.
Open Scope string_scope.
Open Scope N_scope.

(* (T) Over the route table translated from the repository in this run, with the exactly named known-open routes
   (POST /failpoint, GET /runtime_config) given the authenticated signature: every route is on the statement's
   whitelist (pre-flight, liveness/status), or is wrapped by `authenticate`, or is a literal that only rejects. *)
Theorem all_nonpublic_authenticated :
  forallb (fun r => public r || authenticated shape_now r || always_rejects r) (repair_routes routes) = true.
Proof. exact repaired_routes_check. Qed.
Print Assumptions all_nonpublic_authenticated.

Theorem all_nonpublic_authenticated_forall :
  forall r, In r (repair_routes routes) -> public r = false ->
            authenticated shape_now r = true \/ always_rejects r = true.
Proof. exact all_nonpublic_authenticated_lemma. Qed.
Print Assumptions all_nonpublic_authenticated_forall.

(* today's table: an entry that is not fine is one of the exactly named known ones *)
Theorem open_routes_only_known : forall r, In r routes -> route_ok shape_now r = false -> known_open_route r = true.
Proof. exact open_routes_are_known. Qed.
Print Assumptions open_routes_only_known.

(* (T) every handler with the authenticated signature uses its user argument, except the exactly named known ones *)
Theorem user_ignored_only_known : forallb known_ignoring handlers_ignoring_user = true.
Proof. exact user_ignored_only_known_check. Qed.
Print Assumptions user_ignored_only_known.

(* (T) AddRoutes wraps the meta.User signature with authenticate(.., h.Config.AuthEnabled), replaces no handler
   afterwards, registers by (pattern, method); nothing registers on the mux elsewhere; ServeHTTP ends in the mux. *)
Theorem addroutes_shape : shape_ok shape_now = true.
Proof. exact shape_check. Qed.
Print Assumptions addroutes_shape.

(* (T) no path prefix is dispatched around the mux except the three exactly named known ones *)
Theorem no_prefix_bypass : repair_prefixes prefixes = [].
Proof. exact no_prefix_bypass_check. Qed.
Print Assumptions no_prefix_bypass.

Theorem no_prefix_bypass_forall : forall guards path p, dispatch guards prefixes path = Some p -> known_prefix p = true.
Proof. exact prefix_bypass_only_known. Qed.
Print Assumptions no_prefix_bypass_forall.

Theorem repaired_dispatch_reaches_mux : forall guards path, dispatch guards (repair_prefixes prefixes) path = None.
Proof. exact repaired_dispatch_is_mux. Qed.
Print Assumptions repaired_dispatch_reaches_mux.

(* The default arm of the credential-method switch in `authenticate` writes 401 and falls through to the handler
   with a nil user. It cannot be reached: ParseCredentials yields only the two handled methods ... *)
Theorem unsupported_method_unreachable : forall cfg us c st, authenticate cfg us c <> RejectAndPass st.
Proof. exact unsupported_method_unreachable_lemma. Qed.
Print Assumptions unsupported_method_unreachable.

Theorem parse_credentials_methods : forall c cr, parse_credentials c = Some cr ->
  cr_method cr = UserAuthentication \/ cr_method cr = BearerAuthentication.
Proof. exact parse_methods. Qed.
Print Assumptions parse_credentials_methods.

(* ... and (T) in the code of this run the methods produced by `credentials{..}` literals are exactly the model's two
   and each has its own arm (or the default arm returns) *)
Theorem unsupported_method_unreachable_code :
  cred_facts_ok cred_facts_now = true /\ cred_facts_match_model cred_facts_now = true.
Proof. exact cred_facts_check. Qed.
Print Assumptions unsupported_method_unreachable_code.

(* With authentication on and an administrator present, on a route wrapped by `authenticate`: any effect implies
   valid credentials of a user with sufficient privilege for what the handler does on the target database. *)
Theorem handler_runs_only_if_authorized : forall sh cfg us r k rq,
  auth_enabled cfg = true -> admin_exists us = true -> authenticated sh r = true ->
  snd (serve sh cfg us r k rq) <> [] ->
  exists u, valid_creds cfg us (rq_creds rq) u /\ sufficient u k rq.
Proof. exact handler_runs_only_if_authorized_lemma. Qed.
Print Assumptions handler_runs_only_if_authorized.

Theorem invalid_creds_rejected : forall sh cfg us r k rq,
  auth_enabled cfg = true -> admin_exists us = true -> authenticated sh r = true -> always_rejects r = false ->
  (forall u, ~ valid_creds cfg us (rq_creds rq) u) ->
  serve sh cfg us r k rq = (401, []).
Proof. exact invalid_creds_rejected_lemma. Qed.
Print Assumptions invalid_creds_rejected.

Theorem insufficient_privilege_rejected : forall sh cfg us r k rq u,
  auth_enabled cfg = true -> admin_exists us = true -> authenticated sh r = true -> always_rejects r = false ->
  valid_creds cfg us (rq_creds rq) u -> ~ sufficient u k rq ->
  serve sh cfg us r k rq = (403, []).
Proof. exact insufficient_privilege_rejected_lemma. Qed.
Print Assumptions insufficient_privilege_rejected.

Theorem sufficient_accepted : forall sh cfg us r k rq u,
  auth_enabled cfg = true -> admin_exists us = true -> authenticated sh r = true -> always_rejects r = false ->
  valid_creds cfg us (rq_creds rq) u -> sufficient u k rq -> k <> KPublic ->
  snd (serve sh cfg us r k rq) <> [] /\ fst (serve sh cfg us r k rq) <> 401 /\ fst (serve sh cfg us r k rq) <> 403.
Proof. exact sufficient_accepted_lemma. Qed.
Print Assumptions sufficient_accepted.

(* the specification predicates are exactly what the executable checks compute *)
Theorem valid_creds_iff_authenticate : forall cfg us c u,
  auth_enabled cfg = true -> admin_exists us = true ->
  (authenticate cfg us c = Pass (Some u) <-> valid_creds cfg us c u).
Proof. intros; split; [apply authenticate_pass_sound|apply authenticate_pass_complete]; assumption. Qed.
Print Assumptions valid_creds_iff_authenticate.

Theorem has_priv_iff_authorize_database : forall u p d, authorize_database u p d = true <-> has_priv u p d.
Proof. exact authorize_database_spec. Qed.

(* GRANT / REVOKE of a privilege to user n on database d changes the answer for exactly that user and database *)
Theorem grant_revoke_exact : forall us n d p n' d' q,
  n' <> n \/ d' <> d ->
  authorize_by_name (grant us n d p) n' q d' = authorize_by_name us n' q d' /\
  authorize_by_name (revoke us n d p) n' q d' = authorize_by_name us n' q d'.
Proof. exact grant_revoke_exact_lemma. Qed.
Print Assumptions grant_revoke_exact.

Theorem grant_effect : forall us n d p u q,
  find_user us n = Some u -> u_admin u = false ->
  authorize_by_name (grant us n d p) n q d = priv_eqb q NoPriv || (priv_eqb p q || priv_eqb p AllPriv).
Proof. exact set_privilege_effect. Qed.
Print Assumptions grant_effect.

Theorem revoke_effect : forall us n d p u,
  find_user us n = Some u -> u_admin u = false -> p <> NoPriv ->
  authorize_by_name (revoke us n d p) n p d = false.
Proof. exact revoke_effect_lemma. Qed.
Print Assumptions revoke_effect.

Theorem grant_revoke_keep_admin : forall us n d p,
  admin_exists (grant us n d p) = admin_exists us /\ admin_exists (revoke us n d p) = admin_exists us.
Proof. intros; split; apply set_privilege_admin_exists. Qed.

(* serve level: GRANT / REVOKE on (n, d) changes the answer of no request made by somebody else, and of no request of
   n whose handling does not consult the privilege on d *)
Theorem serve_grant_revoke_exact : forall sh cfg us r k rq n d p,
  (forall u, authenticate cfg us (rq_creds rq) = Pass (Some u) -> u_name u <> n) \/ mentionsb k rq d = false ->
  serve sh cfg (grant us n d p) r k rq = serve sh cfg us r k rq /\
  serve sh cfg (revoke us n d p) r k rq = serve sh cfg us r k rq.
Proof. exact serve_grant_revoke_exact_lemma. Qed.
Print Assumptions serve_grant_revoke_exact.

(* ... and for n on d it becomes exactly what the granted privilege says *)
Theorem serve_after_grant_is_the_grant : forall sh cfg us r n d p u c want,
  auth_enabled cfg = true -> admin_exists us = true -> authenticated sh r = true -> always_rejects r = false ->
  authenticate cfg us c = Pass (Some u) -> u_name u = n -> u_admin u = false -> want <> NoPriv ->
  fst (serve sh cfg (grant us n d p) r (KQuery [[RDb "" want]]) (mk_request c d)) =
    if priv_eqb p want || priv_eqb p AllPriv then 200 else 403.
Proof. exact serve_after_grant. Qed.
Print Assumptions serve_after_grant_is_the_grant.

(* (T) the RequiredPrivileges methods of the source (every statement type: Admin flag, database expression, privilege,
   conditions, delegations) are exactly the table the model and the statement matrix use *)
Theorem required_privileges_match : list_eqb stmt_priv_eqb gen_privs model_privs = true.
Proof. exact required_privileges_match_check. Qed.
Print Assumptions required_privileges_match.

Theorem admin_only_statement_types :
  forallb admin_only_type ["CreateDatabaseStatement"; "DropDatabaseStatement"; "CreateUserStatement"; "DropUserStatement";
    "GrantStatement"; "GrantAdminStatement"; "RevokeStatement"; "RevokeAdminStatement"; "SetPasswordUserStatement";
    "ShowUsersStatement"; "ShowGrantsForUserStatement"; "CreateRetentionPolicyStatement"; "AlterRetentionPolicyStatement";
    "DropMeasurementStatement"; "DropShardStatement"; "KillQueryStatement"; "ShowShardsStatement"; "ShowStatsStatement";
    "ShowDiagnosticsStatement"; "CreateMeasurementStatement"; "SetConfigStatement"; "ShowConfigsStatement"] = true.
Proof. exact admin_only_types_check. Qed.

Theorem admin_requirement_refuses_non_admin : forall u dflt s,
  In RAdmin s -> u_admin u = false -> authorize_query u dflt [s] = false.
Proof. exact admin_requirement_refuses. Qed.
Print Assumptions admin_requirement_refuses_non_admin.

Theorem every_required_privilege_must_hold : forall u dflt s d p,
  In (RDb d p) s -> u_admin u = false -> authorize_database u p (target_db d dflt) = false ->
  authorize_query u dflt [s] = false.
Proof. exact every_requirement_must_hold. Qed.
Print Assumptions every_required_privilege_must_hold.

(* non-vacuity: hypotheses are satisfiable and the interesting outcomes all occur *)
Definition ex_users : list user :=
  [mk_user "root" "rootpw" true []; mk_user "ro" "ropw" false [("db1", ReadPriv)]; mk_user "wo" "wopw" false [("db1", WritePriv)]].
Definition ex_cfg : config := mk_config true true [].
Definition ex_sel : rkind := KQuery [[RDb "" ReadPriv]].
Definition ex_rq (u p : string) : request := mk_request (mk_creds_in u p HNone) "db1".
Definition ex_route : route := mk_route "query" "GET" "/query" "h.serveQuery" SigUser "".

Example C19_example_outcomes :
  authenticated shape_now ex_route = true /\ admin_exists ex_users = true /\
  serve shape_now ex_cfg ex_users ex_route ex_sel (ex_rq "" "") = (401, []) /\
  serve shape_now ex_cfg ex_users ex_route ex_sel (ex_rq "ro" "bad") = (401, []) /\
  serve shape_now ex_cfg ex_users ex_route ex_sel (ex_rq "wo" "wopw") = (403, []) /\
  serve shape_now ex_cfg ex_users ex_route ex_sel (ex_rq "ro" "ropw") = (200, [EffQuery "db1" [[RDb "" ReadPriv]]]) /\
  serve shape_now ex_cfg ex_users ex_route KWrite (ex_rq "ro" "ropw") = (403, []) /\
  serve shape_now ex_cfg ex_users ex_route KWrite (ex_rq "wo" "wopw") = (204, [EffWrite "db1"]) /\
  serve shape_now ex_cfg ex_users ex_route KAdminOnly (ex_rq "wo" "wopw") = (403, []) /\
  serve shape_now ex_cfg ex_users ex_route KAdminOnly (ex_rq "root" "rootpw") = (200, [EffControl]) /\
  serve shape_now ex_cfg (grant ex_users "wo" "db1" AllPriv) ex_route ex_sel (ex_rq "wo" "wopw") = (200, [EffQuery "db1" [[RDb "" ReadPriv]]]) /\
  serve shape_now ex_cfg (revoke ex_users "ro" "db1" ReadPriv) ex_route ex_sel (ex_rq "ro" "ropw") = (403, []).
Proof. vm_compute. repeat split. Qed.

Example C19_example_valid_creds : valid_creds ex_cfg ex_users (mk_creds_in "ro" "ropw" HNone) (mk_user "ro" "ropw" false [("db1", ReadPriv)]).
Proof. apply authenticate_pass_sound; reflexivity. Qed.

Example C19_example_table_nonempty : (10 <? N.of_nat (length routes)) = true /\ existsb (authenticated shape_now) routes = true.
Proof. vm_compute. split; reflexivity. Qed.
