(* C19: the statement-type -> required-privileges table and the rwuser statement cases the model and the black-box matrix
   rely on. Hand-frozen copy (one row per RequiredPrivileges method of lib/util/lifted/influx/influxql: Admin flag, Rwuser flag,
   database expression, privilege, conditions, delegations; one row per arm of AuthorizeQueryForRwUser);
   Props.required_privileges_match / rwuser_rules_match prove them equal to the tables translated from the source in
   every run, so a requirement weakened in the source breaks that obligation. *)
From Coq Require Import String List Bool.
From OG Require Import C19.Model.
Import ListNotations.
Open Scope string_scope.

Definition model_privs : list stmt_priv := [
  mk_stmt_priv "AlterRetentionPolicyStatement" true [mk_pentry true true "" "AllPrivileges" ""] [];
  mk_stmt_priv "AlterShardKeyStatement" true [mk_pentry true true "" "AllPrivileges" ""] [];
  mk_stmt_priv "CreateContinuousQueryStatement" false [mk_pentry false true "s.Database" "ReadPrivilege" ""; mk_pentry false false "assign ep[0].Privilege" "ReadPrivilege" "s.Source.Target.Measurement.Database != """""; mk_pentry false true "s.Source.Target.Measurement.Database" "WritePrivilege" "s.Source.Target.Measurement.Database != """""] [];
  mk_stmt_priv "CreateDatabaseStatement" true [mk_pentry true true "" "AllPrivileges" ""] [];
  mk_stmt_priv "CreateDownSampleStatement" true [mk_pentry true true "" "AllPrivileges" ""] [];
  mk_stmt_priv "CreateMeasurementStatement" true [mk_pentry true true "" "AllPrivileges" ""] [];
  mk_stmt_priv "CreateRetentionPolicyStatement" true [mk_pentry true true "" "AllPrivileges" ""] [];
  mk_stmt_priv "CreateStreamStatement" true [mk_pentry true true "" "AllPrivileges" ""] [];
  mk_stmt_priv "CreateSubscriptionStatement" true [mk_pentry true true "" "AllPrivileges" ""] [];
  mk_stmt_priv "CreateUserStatement" true [mk_pentry true false "" "AllPrivileges" ""] [];
  mk_stmt_priv "DeleteSeriesStatement" true [mk_pentry false true "" "WritePrivilege" ""] [];
  mk_stmt_priv "DeleteStatement" true [mk_pentry false true "" "WritePrivilege" ""] [];
  mk_stmt_priv "DropContinuousQueryStatement" true [mk_pentry false true "s.Database" "WritePrivilege" ""] [];
  mk_stmt_priv "DropDatabaseStatement" true [mk_pentry true true "" "AllPrivileges" ""] [];
  mk_stmt_priv "DropDownSampleStatement" true [mk_pentry true true "" "AllPrivileges" ""] [];
  mk_stmt_priv "DropMeasurementStatement" true [mk_pentry true true "" "AllPrivileges" ""] [];
  mk_stmt_priv "DropRetentionPolicyStatement" true [mk_pentry false true "s.Database" "WritePrivilege" ""] [];
  mk_stmt_priv "DropSeriesStatement" true [mk_pentry false true "" "WritePrivilege" ""] [];
  mk_stmt_priv "DropShardStatement" true [mk_pentry true true "" "AllPrivileges" ""] [];
  mk_stmt_priv "DropStreamsStatement" true [mk_pentry true true "" "AllPrivileges" ""] [];
  mk_stmt_priv "DropSubscriptionStatement" true [mk_pentry true true "" "AllPrivileges" ""] [];
  mk_stmt_priv "DropUserStatement" true [mk_pentry true false "" "AllPrivileges" ""] [];
  mk_stmt_priv "EndPrepareSnapshotStatement" true [mk_pentry false true "" "NoPrivileges" ""] [];
  mk_stmt_priv "ExplainStatement" false [] ["e.Statement.RequiredPrivileges"];
  mk_stmt_priv "GetRuntimeInfoStatement" true [mk_pentry false true "" "NoPrivileges" ""] [];
  mk_stmt_priv "GrantAdminStatement" true [mk_pentry true false "" "AllPrivileges" ""] [];
  mk_stmt_priv "GrantStatement" true [mk_pentry true false "" "AllPrivileges" ""] [];
  mk_stmt_priv "GraphStatement" true [mk_pentry true true "" "AllPrivileges" ""] [];
  mk_stmt_priv "KillQueryStatement" true [mk_pentry true false "" "AllPrivileges" ""] [];
  mk_stmt_priv "LogPipeStatement" true [mk_pentry true true "" "AllPrivileges" ""] [];
  mk_stmt_priv "PrepareSnapshotStatement" true [mk_pentry false true "" "NoPrivileges" ""] [];
  mk_stmt_priv "RevokeAdminStatement" true [mk_pentry true false "" "AllPrivileges" ""] [];
  mk_stmt_priv "RevokeStatement" true [mk_pentry true false "" "AllPrivileges" ""] [];
  mk_stmt_priv "SelectStatement" false [mk_pentry false true "s.Target.Measurement.Database" "WritePrivilege" "s.Target != nil"] ["s.Sources.RequiredPrivileges"];
  mk_stmt_priv "SetConfigStatement" true [mk_pentry true true "" "AllPrivileges" ""] [];
  mk_stmt_priv "SetPasswordUserStatement" true [mk_pentry true false "" "AllPrivileges" ""] [];
  mk_stmt_priv "ShowClusterStatement" true [mk_pentry true true "" "AllPrivileges" ""] [];
  mk_stmt_priv "ShowConfigsStatement" true [mk_pentry true true "" "AllPrivileges" ""] [];
  mk_stmt_priv "ShowContinuousQueriesStatement" true [mk_pentry false true "" "ReadPrivilege" ""] [];
  mk_stmt_priv "ShowDatabasesStatement" true [mk_pentry false true "" "NoPrivileges" ""] [];
  mk_stmt_priv "ShowDiagnosticsStatement" true [mk_pentry true false "" "AllPrivileges" ""] [];
  mk_stmt_priv "ShowDownSampleStatement" true [mk_pentry true true "" "AllPrivileges" ""] [];
  mk_stmt_priv "ShowFieldKeyCardinalityStatement" false [] ["s.Sources.RequiredPrivileges"];
  mk_stmt_priv "ShowFieldKeysStatement" true [mk_pentry false true "s.Database" "ReadPrivilege" ""] [];
  mk_stmt_priv "ShowGrantsForUserStatement" true [mk_pentry true false "" "AllPrivileges" ""] [];
  mk_stmt_priv "ShowMeasurementCardinalityStatement" false [mk_pentry false true "s.Database" "ReadPrivilege" "!s.Exact"] ["s.Sources.RequiredPrivileges"];
  mk_stmt_priv "ShowMeasurementKeysStatement" true [mk_pentry true true "" "AllPrivileges" ""] [];
  mk_stmt_priv "ShowMeasurementsDetailStatement" true [mk_pentry false true "s.Database" "ReadPrivilege" ""] [];
  mk_stmt_priv "ShowMeasurementsStatement" true [mk_pentry false true "s.Database" "ReadPrivilege" ""] [];
  mk_stmt_priv "ShowQueriesStatement" true [mk_pentry false true "" "ReadPrivilege" ""] [];
  mk_stmt_priv "ShowRetentionPoliciesStatement" true [mk_pentry false true "s.Database" "ReadPrivilege" ""] [];
  mk_stmt_priv "ShowSeriesCardinalityStatement" false [mk_pentry false true "s.Database" "ReadPrivilege" "!s.Exact"] ["s.Sources.RequiredPrivileges"];
  mk_stmt_priv "ShowSeriesStatement" true [mk_pentry false true "s.Database" "ReadPrivilege" ""] [];
  mk_stmt_priv "ShowShardGroupsStatement" true [mk_pentry true true "" "AllPrivileges" ""] [];
  mk_stmt_priv "ShowShardsStatement" true [mk_pentry true true "" "AllPrivileges" ""] [];
  mk_stmt_priv "ShowStatsStatement" true [mk_pentry true true "" "AllPrivileges" ""] [];
  mk_stmt_priv "ShowStreamsStatement" true [mk_pentry true true "" "AllPrivileges" ""] [];
  mk_stmt_priv "ShowSubscriptionsStatement" true [mk_pentry true true "" "AllPrivileges" ""] [];
  mk_stmt_priv "ShowTagKeyCardinalityStatement" false [] ["s.Sources.RequiredPrivileges"];
  mk_stmt_priv "ShowTagKeysStatement" true [mk_pentry false true "s.Database" "ReadPrivilege" ""] [];
  mk_stmt_priv "ShowTagValuesCardinalityStatement" false [mk_pentry false false "assign p.Name" "s.Database" "p.Name == """""] ["s.Sources.RequiredPrivileges"];
  mk_stmt_priv "ShowTagValuesStatement" true [mk_pentry false true "s.Database" "ReadPrivilege" ""] [];
  mk_stmt_priv "ShowUsersStatement" true [mk_pentry true false "" "AllPrivileges" ""] [];
  mk_stmt_priv "Sources" false [mk_pentry false true "source.Database" "ReadPrivilege" ""] ["source.Statement.RequiredPrivileges"; "sources.RequiredPrivileges"; "sources.RequiredPrivileges"];
  mk_stmt_priv "WithSelectStatement" true [mk_pentry true true "" "AllPrivileges" ""] []
].

(* the statement cases of AuthorizeQueryForRwUser (lib/util/lifted/influx/meta/authorizer.go) *)
Definition model_rw_rules : list rwrule := [
  mk_rwrule "<default>" "";
  mk_rwrule "CreateUserStatement" "if stmtType.Admin == true { set stmtType.Admin = false }; continue";
  mk_rwrule "DropDatabaseStatement" "if stmtType.Name == ""_internal"" { refuse }";
  mk_rwrule "DropUserStatement" "if stmtType.Name != ""rwuser"" { continue }";
  mk_rwrule "GrantStatement" "continue";
  mk_rwrule "RevokeStatement" "continue";
  mk_rwrule "SetPasswordUserStatement" "if u.Name != ""rwuser"" && stmtType.Name == ""rwuser"" { refuse }; continue";
  mk_rwrule "ShowGrantsForUserStatement" "continue";
  mk_rwrule "ShowUsersStatement" "continue";
  mk_rwrule "<tail>" "set privs, err := stmt.RequiredPrivileges(); if err != nil { return return err }; range privs { if !p.Rwuser { refuse } }"
].

(* the table after fix5.patch (cardinality statements without a FROM clause ask for read on the statement's database) *)
Definition model_privs_repaired : list stmt_priv := map repair_card_row model_privs.
