(* C19: the statement-type -> required-privileges table the model and the black-box matrix rely on. Hand-frozen copy
   (one row per RequiredPrivileges method of lib/util/lifted/influx/influxql); Props.required_privileges_match proves it equal to
   the table translated from the source in every run, so a requirement weakened in the source breaks that obligation. *)
From Coq Require Import String List Bool.
From OG Require Import C19.Model.
Import ListNotations.
Open Scope string_scope.

Definition model_privs : list stmt_priv := [
  mk_stmt_priv "AlterRetentionPolicyStatement" true [mk_pentry true "" "AllPrivileges" ""] [];
  mk_stmt_priv "AlterShardKeyStatement" true [mk_pentry true "" "AllPrivileges" ""] [];
  mk_stmt_priv "CreateContinuousQueryStatement" false [mk_pentry false "s.Database" "ReadPrivilege" ""; mk_pentry false "assign ep[0].Privilege" "ReadPrivilege" "s.Source.Target.Measurement.Database != """""; mk_pentry false "s.Source.Target.Measurement.Database" "WritePrivilege" "s.Source.Target.Measurement.Database != """""] [];
  mk_stmt_priv "CreateDatabaseStatement" true [mk_pentry true "" "AllPrivileges" ""] [];
  mk_stmt_priv "CreateDownSampleStatement" true [mk_pentry true "" "AllPrivileges" ""] [];
  mk_stmt_priv "CreateMeasurementStatement" true [mk_pentry true "" "AllPrivileges" ""] [];
  mk_stmt_priv "CreateRetentionPolicyStatement" true [mk_pentry true "" "AllPrivileges" ""] [];
  mk_stmt_priv "CreateStreamStatement" true [mk_pentry true "" "AllPrivileges" ""] [];
  mk_stmt_priv "CreateSubscriptionStatement" true [mk_pentry true "" "AllPrivileges" ""] [];
  mk_stmt_priv "CreateUserStatement" true [mk_pentry true "" "AllPrivileges" ""] [];
  mk_stmt_priv "DeleteSeriesStatement" true [mk_pentry false "" "WritePrivilege" ""] [];
  mk_stmt_priv "DeleteStatement" true [mk_pentry false "" "WritePrivilege" ""] [];
  mk_stmt_priv "DropContinuousQueryStatement" true [mk_pentry false "s.Database" "WritePrivilege" ""] [];
  mk_stmt_priv "DropDatabaseStatement" true [mk_pentry true "" "AllPrivileges" ""] [];
  mk_stmt_priv "DropDownSampleStatement" true [mk_pentry true "" "AllPrivileges" ""] [];
  mk_stmt_priv "DropMeasurementStatement" true [mk_pentry true "" "AllPrivileges" ""] [];
  mk_stmt_priv "DropRetentionPolicyStatement" true [mk_pentry false "s.Database" "WritePrivilege" ""] [];
  mk_stmt_priv "DropSeriesStatement" true [mk_pentry false "" "WritePrivilege" ""] [];
  mk_stmt_priv "DropShardStatement" true [mk_pentry true "" "AllPrivileges" ""] [];
  mk_stmt_priv "DropStreamsStatement" true [mk_pentry true "" "AllPrivileges" ""] [];
  mk_stmt_priv "DropSubscriptionStatement" true [mk_pentry true "" "AllPrivileges" ""] [];
  mk_stmt_priv "DropUserStatement" true [mk_pentry true "" "AllPrivileges" ""] [];
  mk_stmt_priv "EndPrepareSnapshotStatement" true [mk_pentry false "" "NoPrivileges" ""] [];
  mk_stmt_priv "ExplainStatement" false [] ["e.Statement.RequiredPrivileges"];
  mk_stmt_priv "GetRuntimeInfoStatement" true [mk_pentry false "" "NoPrivileges" ""] [];
  mk_stmt_priv "GrantAdminStatement" true [mk_pentry true "" "AllPrivileges" ""] [];
  mk_stmt_priv "GrantStatement" true [mk_pentry true "" "AllPrivileges" ""] [];
  mk_stmt_priv "GraphStatement" true [mk_pentry true "" "AllPrivileges" ""] [];
  mk_stmt_priv "KillQueryStatement" true [mk_pentry true "" "AllPrivileges" ""] [];
  mk_stmt_priv "LogPipeStatement" true [mk_pentry true "" "AllPrivileges" ""] [];
  mk_stmt_priv "PrepareSnapshotStatement" true [mk_pentry false "" "NoPrivileges" ""] [];
  mk_stmt_priv "RevokeAdminStatement" true [mk_pentry true "" "AllPrivileges" ""] [];
  mk_stmt_priv "RevokeStatement" true [mk_pentry true "" "AllPrivileges" ""] [];
  mk_stmt_priv "SelectStatement" false [mk_pentry false "s.Target.Measurement.Database" "WritePrivilege" "s.Target != nil"] ["s.Sources.RequiredPrivileges"];
  mk_stmt_priv "SetConfigStatement" true [mk_pentry true "" "AllPrivileges" ""] [];
  mk_stmt_priv "SetPasswordUserStatement" true [mk_pentry true "" "AllPrivileges" ""] [];
  mk_stmt_priv "ShowClusterStatement" true [mk_pentry true "" "AllPrivileges" ""] [];
  mk_stmt_priv "ShowConfigsStatement" true [mk_pentry true "" "AllPrivileges" ""] [];
  mk_stmt_priv "ShowContinuousQueriesStatement" true [mk_pentry false "" "ReadPrivilege" ""] [];
  mk_stmt_priv "ShowDatabasesStatement" true [mk_pentry false "" "NoPrivileges" ""] [];
  mk_stmt_priv "ShowDiagnosticsStatement" true [mk_pentry true "" "AllPrivileges" ""] [];
  mk_stmt_priv "ShowDownSampleStatement" true [mk_pentry true "" "AllPrivileges" ""] [];
  mk_stmt_priv "ShowFieldKeyCardinalityStatement" false [] ["s.Sources.RequiredPrivileges"];
  mk_stmt_priv "ShowFieldKeysStatement" true [mk_pentry false "s.Database" "ReadPrivilege" ""] [];
  mk_stmt_priv "ShowGrantsForUserStatement" true [mk_pentry true "" "AllPrivileges" ""] [];
  mk_stmt_priv "ShowMeasurementCardinalityStatement" false [mk_pentry false "s.Database" "ReadPrivilege" "!s.Exact"] ["s.Sources.RequiredPrivileges"];
  mk_stmt_priv "ShowMeasurementKeysStatement" true [mk_pentry true "" "AllPrivileges" ""] [];
  mk_stmt_priv "ShowMeasurementsDetailStatement" true [mk_pentry false "s.Database" "ReadPrivilege" ""] [];
  mk_stmt_priv "ShowMeasurementsStatement" true [mk_pentry false "s.Database" "ReadPrivilege" ""] [];
  mk_stmt_priv "ShowQueriesStatement" true [mk_pentry false "" "ReadPrivilege" ""] [];
  mk_stmt_priv "ShowRetentionPoliciesStatement" true [mk_pentry false "s.Database" "ReadPrivilege" ""] [];
  mk_stmt_priv "ShowSeriesCardinalityStatement" false [mk_pentry false "s.Database" "ReadPrivilege" "!s.Exact"] ["s.Sources.RequiredPrivileges"];
  mk_stmt_priv "ShowSeriesStatement" true [mk_pentry false "s.Database" "ReadPrivilege" ""] [];
  mk_stmt_priv "ShowShardGroupsStatement" true [mk_pentry true "" "AllPrivileges" ""] [];
  mk_stmt_priv "ShowShardsStatement" true [mk_pentry true "" "AllPrivileges" ""] [];
  mk_stmt_priv "ShowStatsStatement" true [mk_pentry true "" "AllPrivileges" ""] [];
  mk_stmt_priv "ShowStreamsStatement" true [mk_pentry true "" "AllPrivileges" ""] [];
  mk_stmt_priv "ShowSubscriptionsStatement" true [mk_pentry true "" "AllPrivileges" ""] [];
  mk_stmt_priv "ShowTagKeyCardinalityStatement" false [] ["s.Sources.RequiredPrivileges"];
  mk_stmt_priv "ShowTagKeysStatement" true [mk_pentry false "s.Database" "ReadPrivilege" ""] [];
  mk_stmt_priv "ShowTagValuesCardinalityStatement" false [mk_pentry false "assign p.Name" "s.Database" "p.Name == """""] ["s.Sources.RequiredPrivileges"];
  mk_stmt_priv "ShowTagValuesStatement" true [mk_pentry false "s.Database" "ReadPrivilege" ""] [];
  mk_stmt_priv "ShowUsersStatement" true [mk_pentry true "" "AllPrivileges" ""] [];
  mk_stmt_priv "Sources" false [mk_pentry false "source.Database" "ReadPrivilege" ""] ["source.Statement.RequiredPrivileges"; "sources.RequiredPrivileges"; "sources.RequiredPrivileges"];
  mk_stmt_priv "WithSelectStatement" true [mk_pentry true "" "AllPrivileges" ""] []
].
