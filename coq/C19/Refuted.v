(* C19: today's code violates the property at exactly named places. These theorems are about the frozen `_current`
   constants below (they mirror the unchanged tree and do not depend on the generated table, so they keep checking
   after the repository is repaired); the generated table of a run is classified against them by run.py. *)
From Coq Require Import String List Bool NArith.
From OG Require Import C19.Model C19.Privileges C19.AuthCache C19.Proofs.
Import ListNotations.
Open Scope string_scope.
Open Scope N_scope.

Definition shape_current : shape :=
  mk_shape [mk_wrap SigUser WrapAuth "h.Config.AuthEnabled"; mk_wrap SigPlain WrapPlain ""] 0 true 0 true 1 0.
Definition failpoint_route_current : route := mk_route "failpoint" "POST" "/failpoint" "h.failPoint" SigPlain "".
Definition runtime_config_route_current : route :=
  mk_route "query-runtime-config" "GET" "/runtime_config" "runtimecfg.RuntimeConfigHandler(s.runtimeCfgService, c.Limits)" SigPlain
           "s.runtimeCfgService != nil".
Definition prefixes_current : list prefix_rule :=
  [mk_prefix "/debug/pprof" "h.Config.PprofEnabled" "h.handleProfiles" true false [];
   mk_prefix "/debug/vars" "" "h.serveExpvar" true false [];
   mk_prefix "/debug/query" "" "h.serveDebugQuery" true false []].
Definition cfg_on : config := mk_config true false [].
Definition one_admin : list user := [mk_user "root" "rootpw" true false []].
Definition anonymous : request := mk_request (mk_creds_in "" "" HNone) "".

(* C19-failpoint-public / C19-runtime-config-public: a route registered with the two-argument signature runs its
   handler for a request without any credentials, although it is not on the statement's whitelist *)
Theorem C19_plain_signature_refuted :
  exists r, (r = failpoint_route_current \/ r = runtime_config_route_current) /\
    public r = false /\ auth_enabled cfg_on = true /\ admin_exists one_admin = true /\
    (forall u, ~ valid_creds cfg_on one_admin (rq_creds anonymous) u) /\
    snd (serve shape_current cfg_on one_admin r KAdminOnly anonymous) <> [].
Proof.
  exists failpoint_route_current. split; [left; reflexivity|]. split; [reflexivity|]. split; [reflexivity|].
  split; [reflexivity|]. split.
  - intros u [(n & p & [(U & _)|(_ & [E|E])] & _)|(t & n & [_ E] & _)]; try discriminate.
    destruct U as [U _]. apply U. reflexivity.
  - vm_compute. discriminate.
Qed.
Print Assumptions C19_plain_signature_refuted.

Theorem C19_runtime_config_refuted :
  public runtime_config_route_current = false /\
  snd (serve shape_current cfg_on one_admin runtime_config_route_current KOpaque anonymous) <> [].
Proof. split; [reflexivity|vm_compute; discriminate]. Qed.

(* C19-debug-public: these paths never reach the mux, hence never reach `authenticate` *)
Theorem C19_debug_prefix_refuted :
  exists path, snd (serve_path shape_current cfg_on [] prefixes_current one_admin path
                               (mk_route "none" "GET" path "" SigUser "") KOpaque anonymous) <> [].
Proof. exists "/debug/vars". vm_compute. discriminate. Qed.
Print Assumptions C19_debug_prefix_refuted.

Theorem C19_debug_prefix_refuted_each :
  forallb (fun path => match dispatch ["h.Config.PprofEnabled"] prefixes_current path with Some _ => true | None => false end)
          ["/debug/vars"; "/debug/query"; "/debug/pprof"; "/debug/pprof/heap"; "/debug/varsX"] = true.
Proof. vm_compute. reflexivity. Qed.

(* with the repairs the same requests are answered 401 *)
Theorem C19_repaired_rejects :
  serve shape_current cfg_on one_admin (repair_route failpoint_route_current) KAdminOnly anonymous = (401, []) /\
  serve shape_current cfg_on one_admin (repair_route runtime_config_route_current) KOpaque anonymous = (401, []) /\
  repair_prefixes prefixes_current = [].
Proof. vm_compute. repeat split. Qed.

(* C19-create-tsdb-unprivileged: a handler that takes the user but checks nothing (KOpaque, today's
   servePromCreateTSDB) acts for a user who holds no privilege at all; an administrator check (KAdminOnly) refuses. *)
Definition nobody : user := mk_user "grantee" "Gr#Pw12345xy" false false [].
Definition tsdb_route_current : route := mk_route "prometheus-create-tsdb" "POST" "/api/v1/tsdb/{tsdb}" "h.servePromCreateTSDB" SigUser "".
Theorem C19_unchecked_handler_refuted :
  let us := (one_admin ++ [nobody])%list in
  let rq := mk_request (mk_creds_in "grantee" "Gr#Pw12345xy" HNone) "" in
  snd (serve shape_current cfg_on us tsdb_route_current KOpaque rq) <> [] /\
  u_admin nobody = false /\ u_privs nobody = [] /\
  serve shape_current cfg_on us tsdb_route_current KAdminOnly rq = (403, []).
Proof. vm_compute. repeat split. discriminate. Qed.
Print Assumptions C19_unchecked_handler_refuted.

(* C19-logstore-listing-unprivileged (repaired 3986ddb): the old listing handler returned the whole catalogue to every
   authenticated user; the repaired one returns what the user may read or write. *)
Definition listing_current (u : user) (dbs : list string) : list string := dbs.
Theorem C19_listing_refuted :
  exists d, In d (listing_current nobody ["db1"; "db2"]) /\ ~ (has_priv nobody ReadPriv d \/ has_priv nobody WritePriv d).
Proof.
  exists "db1". split; [left; reflexivity|]. intros [H|H]; apply authorize_database_spec in H; vm_compute in H; discriminate.
Qed.
Print Assumptions C19_listing_refuted.
Theorem C19_listing_repaired : visible_repositories nobody ["db1"; "db2"] = [].
Proof. reflexivity. Qed.

(* C19-logstore-data-unprivileged (open): the log-store record / upload / cursor / consume / stream-task handlers make no
   authorization decision on their user: the handler fact is the empty list, which only the open finding excuses; such a
   handler (KOpaque) acts for a user without any privilege, while the write check of serveWrite (KWrite) refuses. *)
Definition records_guard_current : hguard := mk_hguard "POST" "/repo/{repository}/logstreams/{logStream}/records" [].
Definition records_route_current : route :=
  mk_route "write-log" "POST" "/repo/{repository}/logstreams/{logStream}/records" "h.serveRecord" SigUser "config2.IsLogKeeper()".
Theorem C19_dataplane_refuted :
  let us := (one_admin ++ [nobody])%list in
  let rq := mk_request (mk_creds_in "grantee" "Gr#Pw12345xy" HNone) "db1" in
  guard_ok [] records_guard_current = false /\
  snd (serve shape_current cfg_on us records_route_current KOpaque rq) <> [] /\
  serve shape_current cfg_on us records_route_current KWrite rq = (403, []) /\
  guard_ok [] (mk_hguard "POST" "/repo/{repository}/logstreams/{logStream}/records" ["write"]) = true.
Proof. vm_compute. repeat split. discriminate. Qed.
Print Assumptions C19_dataplane_refuted.

(* C19-cardinality-no-source-unprivileged (open): with today's RequiredPrivileges methods a cardinality statement without
   a FROM clause (key cardinalities; EXACT series / measurement cardinality) asks for nothing: a user without any
   privilege is authorized to read the measurement names and counts of any database. *)
Theorem C19_cardinality_refuted :
  exists ty exact, In ty cardinality_types /\
    card_rule model_privs ty exact "db1" [] = Some [] /\
    authorize_query nobody "db1" [[]] = true /\ authorize_database nobody ReadPriv "db1" = false.
Proof.
  exists "ShowTagKeyCardinalityStatement", true. split; [right; right; left; reflexivity|]. vm_compute. repeat split.
Qed.
Print Assumptions C19_cardinality_refuted.

Theorem C19_cardinality_refuted_each :
  forallb (fun te => match card_rule model_privs (fst te) (snd te) "db1" [] with Some [] => true | _ => false end)
    [("ShowTagKeyCardinalityStatement", true); ("ShowTagKeyCardinalityStatement", false); ("ShowFieldKeyCardinalityStatement", false);
     ("ShowTagValuesCardinalityStatement", false); ("ShowSeriesCardinalityStatement", true); ("ShowMeasurementCardinalityStatement", true)] = true.
Proof. vm_compute. reflexivity. Qed.

(* ... and with fix6.patch (the three prefixes behind authenticate, administrator only) the same anonymous request is refused *)
Definition prefixes_repaired : list prefix_rule :=
  map (fun p => mk_prefix (p_prefix p) (p_guard p) (p_callee p) true true ["admin"]) prefixes_current.
Theorem C19_debug_prefix_repaired :
  forallb (fun path => match serve_path shape_current cfg_on ["h.Config.PprofEnabled"] prefixes_repaired one_admin path
                               (mk_route "none" "GET" path "" SigUser "") KOpaque anonymous with (401, []) => true | _ => false end)
          ["/debug/vars"; "/debug/query"; "/debug/pprof/heap"] = true /\ unexempt_prefixes [] prefixes_repaired = [].
Proof. vm_compute. split; reflexivity. Qed.

(* a client that refreshes the password cache only after user commands (seeded change C19-m6, not the repository): a
   password replaced through a full snapshot still authenticates *)
Theorem C19_refresh_only_on_user_commands_refuted :
  exists evs us0 n p,
    let st := run verify_plain refresh_on_user_commands_only [] us0 evs in
    fst (authenticate_c verify_plain (fst st) (snd st) n p) = true /\
    forall u, find_cuser (snd st) n = Some u -> verify_plain (cu_hash u) p = false.
Proof. exact refresh_on_user_commands_only_is_stale. Qed.
Print Assumptions C19_refresh_only_on_user_commands_refuted.
