(* C19 model: executable definitions only.
   Part A: shape of the route table, of AddRoutes and of the ServeHTTP prefix dispatch (instantiated by the
           translator in Gen_Routes.v), the statement's whitelist `public`, and the repairs of the known defects.
   Part B: hand model of credential parsing, `authenticate`, privilege checks and `serve`. *)
From Coq Require Import String List Bool NArith.
Import ListNotations.
Open Scope string_scope.
Open Scope N_scope.

(* ------------------------------------------------------------------------------------------------------------ *)
(* Part A: tables *)

(* Go type of Route.HandlerFunc as the two type assertions in AddRoutes see it *)
Inductive hsig :=
| SigUser     (* func(http.ResponseWriter, *http.Request, meta.User) *)
| SigPlain    (* func(http.ResponseWriter, *http.Request) *)
| SigReject   (* SigPlain function literal whose whole body is http.Error(w, const, const 4xx/5xx) *)
| SigOther.   (* anything else / not statically known *)

Inductive wrap := WrapAuth | WrapPlain | WrapOther.

Record route := mk_route {
  r_name : string; r_method : string; r_pattern : string; r_handler : string; r_sig : hsig; r_cond : string }.

(* p_auth: the callee is `h.M(inner).ServeHTTP` with M = `return authenticate(func(w, r, user){..}, h, h.Config.AuthEnabled)`
   (the repair of C19-debug-public); p_guards: the decisions that literal's user argument reaches *)
Record prefix_rule := mk_prefix {
  p_prefix : string; p_guard : string; p_callee : string; p_understood : bool; p_auth : bool; p_guards : list string }.

(* one `if hf, ok := r.HandlerFunc.(T); ok { handler = W(hf ...) }` of AddRoutes: T, W and, for authenticate, the
   expression passed as requireAuthentication *)
Record wrap_rule := mk_wrap { w_sig : hsig; w_wrap : wrap; w_flag : string }.

Record shape := mk_shape {
  s_rules : list wrap_rule;
  s_replaced : N;            (* later assignments to `handler` that do not wrap the previous value *)
  s_registers : bool;        (* h.mux.HandleFunc(r.Pattern, handler.ServeHTTP).Methods(r.Method) present *)
  s_direct_mux : N;          (* registrations on the mux outside AddRoutes *)
  s_else_is_mux : bool;      (* final else of the ServeHTTP chain is h.mux.ServeHTTP(w, r) *)
  s_mux_calls : N;           (* number of calls of h.mux.ServeHTTP in ServeHTTP *)
  s_problems : N }.          (* constructs the translator could not interpret *)

Definition hsig_eqb (a b : hsig) : bool :=
  match a, b with
  | SigUser, SigUser | SigPlain, SigPlain | SigReject, SigReject | SigOther, SigOther => true
  | _, _ => false
  end.

(* the Go type a signature class has for the type assertions: a rejecting literal is a plain func *)
Definition go_type (s : hsig) : hsig := match s with SigReject => SigPlain | x => x end.

(* AddRoutes runs its assertions one after the other; a later matching one overwrites `handler` *)
Fixpoint wrap_for (rules : list wrap_rule) (s : hsig) (acc : option wrap_rule) : option wrap_rule :=
  match rules with
  | [] => acc
  | w :: rest => if hsig_eqb (w_sig w) (go_type s) && negb (hsig_eqb (w_sig w) SigOther)
                 then wrap_for rest s (Some w) else wrap_for rest s acc
  end.

Definition auth_flag : string := "h.Config.AuthEnabled".

Definition authenticated (sh : shape) (r : route) : bool :=
  match wrap_for (s_rules sh) (r_sig r) None with
  | Some w => match w_wrap w with WrapAuth => String.eqb (w_flag w) auth_flag | _ => false end
  | None => false
  end.

Definition always_rejects (r : route) : bool := hsig_eqb (r_sig r) SigReject.

(* What the STATEMENT lets answer anonymously: pre-flight requests and the liveness/status endpoints. *)
Definition public (r : route) : bool :=
  String.eqb (r_method r) "OPTIONS"
  || ((String.eqb (r_pattern r) "/ping" || String.eqb (r_pattern r) "/status")
      && (String.eqb (r_method r) "GET" || String.eqb (r_method r) "HEAD")).

Definition route_ok (sh : shape) (r : route) : bool := public r || authenticated sh r || always_rejects r.

(* routes of today's table that act without authentication *)
Definition open_routes (sh : shape) (rs : list route) : list route := filter (fun r => negb (route_ok sh r)) rs.

(* Defects repaired in the repository (C19-failpoint-public 8b29366, C19-runtime-config-public bbb5325): exact method and
   pattern. Only Refuted.v (frozen constants of the old tree) still uses this and `repair_route`; the theorems over the
   table translated in a run exempt NO route. *)
Definition known_open_route (r : route) : bool :=
  (String.eqb (r_method r) "POST" && String.eqb (r_pattern r) "/failpoint")
  || (String.eqb (r_method r) "GET" && String.eqb (r_pattern r) "/runtime_config").

(* the minimal repair: give the handler the authenticated signature *)
Definition repair_route (r : route) : route :=
  if known_open_route r && hsig_eqb (r_sig r) SigPlain
  then mk_route (r_name r) (r_method r) (r_pattern r) (r_handler r) SigUser (r_cond r) else r.
Definition repair_routes (rs : list route) : list route := map repair_route rs.

(* Known defect C19-debug-public: exactly these three prefixes are dispatched before the mux. *)
Definition known_prefix (p : prefix_rule) : bool :=
  p_understood p &&
  (String.eqb (p_prefix p) "/debug/pprof" || String.eqb (p_prefix p) "/debug/vars" || String.eqb (p_prefix p) "/debug/query").
Definition repair_prefixes (ps : list prefix_rule) : list prefix_rule := filter (fun p => negb (known_prefix p)) ps.

(* An exemption is in force only while its finding is OPEN in known_findings.json: `open` is the list of open finding
   ids written into Gen_Routes.v by run.py in every run. Once a finding is marked fixed its exemption is gone and a
   re-appearance breaks the obligation. *)
Definition mem (x : string) (l : list string) : bool := existsb (String.eqb x) l.
Definition exempt_prefix (open : list string) (p : prefix_rule) : bool := mem "C19-debug-public" open && known_prefix p.
Fixpoint str_list_eqb (a b : list string) : bool :=
  match a, b with
  | [], [] => true
  | x :: a', y :: b' => String.eqb x y && str_list_eqb a' b'
  | _, _ => false
  end.
(* a prefix dispatched before the mux is fine when it runs behind authenticate and asks for the administrator *)
Definition prefix_admin (p : prefix_rule) : bool := p_understood p && p_auth p && str_list_eqb (p_guards p) ["admin"].
Definition prefix_ok (open : list string) (p : prefix_rule) : bool := prefix_admin p || exempt_prefix open p.
Definition unexempt_prefixes (open : list string) (ps : list prefix_rule) : list prefix_rule :=
  filter (fun p => negb (prefix_ok open p)) ps.

Definition shape_ok (sh : shape) : bool :=
  match wrap_for (s_rules sh) SigUser None with
  | Some w => match w_wrap w with WrapAuth => String.eqb (w_flag w) auth_flag | _ => false end
  | None => false
  end
  && N.eqb (s_replaced sh) 0 && s_registers sh && N.eqb (s_direct_mux sh) 0
  && s_else_is_mux sh && N.eqb (s_mux_calls sh) 1 && N.eqb (s_problems sh) 0.

(* ---- handler facts: the authorization decisions the user argument of a handler reaches (translated per run) ---- *)
Record hguard := mk_hguard { g_method : string; g_pattern : string; g_guards : list string }.

(* Routes for which authentication alone is what the statement asks: they name no database and perform no action
   (serveFluxQuery only answers "not implemented"; /runtime_config reads the limits configuration). *)
Definition auth_only_ok (m p : string) : bool :=
  (String.eqb m "POST" && String.eqb p "/api/v2/query") || (String.eqb m "GET" && String.eqb p "/runtime_config").
Definition is_dataplane (p : string) : bool := String.prefix "/repo/{repository}/logstreams/{logStream}/" p.
(* Known defect C19-logstore-data-unprivileged (log-store data plane), in force only while open *)
Definition guard_exempt (open : list string) (g : hguard) : bool :=
  auth_only_ok (g_method g) (g_pattern g) || (mem "C19-logstore-data-unprivileged" open && is_dataplane (g_pattern g)).
Definition decides (g : hguard) : bool :=
  match g_guards g with [] => false | _ => negb (mem "?" (g_guards g)) end.
Definition guard_ok (open : list string) (g : hguard) : bool := decides g || guard_exempt open g.
Definition unguarded (open : list string) (gs : list hguard) : list hguard := filter (fun g => negb (guard_ok open g)) gs.

Fixpoint list_eqb {A} (eqb : A -> A -> bool) (a b : list A) : bool :=
  match a, b with
  | [], [] => true
  | x :: a', y :: b' => eqb x y && list_eqb eqb a' b'
  | _, _ => false
  end.

(* What the statement implies for the routes it names by their function: catalogue changes and server control are for the
   administrator; the log-store listings ask for read or write on the repository; the write endpoints go through the
   write authorizer, the query endpoint through the statement authorizer. (method, pattern, decisions) *)
Definition g_admin : list string := ["admin"].
Definition g_see : list string := ["db:ReadPrivilege"; "db:WritePrivilege"].
Definition expected_guards : list hguard := [
  mk_hguard "POST" "/debug/ctrl" g_admin; mk_hguard "POST" "/backup/run" g_admin; mk_hguard "POST" "/backup/abort" g_admin;
  mk_hguard "POST" "/backup/status" g_admin; mk_hguard "POST" "/failpoint" g_admin; mk_hguard "POST" "/api/v1/tsdb/{tsdb}" g_admin;
  mk_hguard "POST" "/api/v1/repository/{repository}" g_admin; mk_hguard "PUT" "/api/v1/repository/{repository}" g_admin;
  mk_hguard "DELETE" "/api/v1/repository/{repository}" g_admin;
  mk_hguard "POST" "/api/v1/logstream/{repository}/{logStream}" g_admin; mk_hguard "PUT" "/api/v1/logstream/{repository}/{logStream}" g_admin;
  mk_hguard "DELETE" "/api/v1/logstream/{repository}/{logStream}" g_admin;
  mk_hguard "GET" "/api/v1/repository" g_see; mk_hguard "GET" "/api/v1/repository/{repository}" g_see;
  mk_hguard "GET" "/api/v1/logstream/{repository}" g_see; mk_hguard "GET" "/api/v1/logstream/{repository}/{logStream}" g_see;
  mk_hguard "POST" "/write" ["write"]; mk_hguard "POST" "/api/v2/write" ["write"]; mk_hguard "POST" "/api/v1/write" ["write"];
  mk_hguard "GET" "/query" ["query"]; mk_hguard "POST" "/query" ["query"] ].
Fixpoint find_guard (gs : list hguard) (m p : string) : option hguard :=
  match gs with
  | [] => None
  | g :: r => if String.eqb (g_method g) m && String.eqb (g_pattern g) p then Some g else find_guard r m p
  end.
(* a named route that is registered makes exactly the expected decisions (a route that is not registered asks nothing) *)
Definition expected_ok (gs : list hguard) (e : hguard) : bool :=
  match find_guard gs (g_method e) (g_pattern e) with
  | Some g => list_eqb String.eqb (g_guards g) (g_guards e)
  | None => true
  end.

(* dispatch of a request path by Handler.ServeHTTP: the first prefix rule that matches wins, else the mux *)
Definition guard_on (enabled_guards : list string) (p : prefix_rule) : bool :=
  String.eqb (p_guard p) "" || existsb (String.eqb (p_guard p)) enabled_guards.
Fixpoint dispatch (guards : list string) (ps : list prefix_rule) (path : string) : option prefix_rule :=
  match ps with
  | [] => None
  | p :: rest => if String.prefix (p_prefix p) path && guard_on guards p then Some p else dispatch guards rest path
  end.

(* credential methods: names of the Go constants *)
Record cred_facts := mk_cred_facts {
  cf_declared : list string; cf_produced : list string; cf_handled : list string;
  cf_has_default : bool; cf_default_returns : bool }.

(* every method ParseCredentials can produce has its own arm in authenticate (or the default arm returns) *)
Definition cred_facts_ok (c : cred_facts) : bool :=
  cf_default_returns c || forallb (fun m => mem m (cf_handled c)) (cf_produced c).
(* the hand model below knows exactly these two methods *)
Definition model_methods : list string := ["BearerAuthentication"; "UserAuthentication"].
Definition cred_facts_match_model (c : cred_facts) : bool :=
  forallb (fun m => mem m model_methods) (cf_produced c) && forallb (fun m => mem m (cf_produced c)) model_methods.

(* ------------------------------------------------------------------------------------------------------------ *)
(* Part B: authentication and authorisation *)

(* influxql.Privilege is a bit mask: 0 none, 1 read, 2 write, 3 all *)
Inductive priv := NoPriv | ReadPriv | WritePriv | AllPriv.
Definition priv_eqb (a b : priv) : bool :=
  match a, b with
  | NoPriv, NoPriv | ReadPriv, ReadPriv | WritePriv, WritePriv | AllPriv, AllPriv => true
  | _, _ => false
  end.
(* p &^ q *)
Definition priv_clear (p q : priv) : priv :=
  match p, q with
  | x, NoPriv => x
  | _, AllPriv => NoPriv
  | NoPriv, _ => NoPriv
  | ReadPriv, ReadPriv => NoPriv | ReadPriv, WritePriv => ReadPriv
  | WritePriv, WritePriv => NoPriv | WritePriv, ReadPriv => WritePriv
  | AllPriv, ReadPriv => WritePriv | AllPriv, WritePriv => ReadPriv
  end.

(* u_rw: UserInfo.Rwuser - the "partition privileges" account class (CREATE USER .. WITH PARTITION PRIVILEGES, a statement
   only an administrator or another such account may run): it passes every per-database check, is never an
   administrator for AuthorizeUnrestricted, and has its own statement rules (AuthorizeQueryForRwUser). *)
Record user := mk_user { u_name : string; u_pass : string; u_admin : bool; u_rw : bool; u_privs : list (string * priv) }.

Fixpoint lookup {A} (l : list (string * A)) (k : string) : option A :=
  match l with
  | [] => None
  | (k', v) :: r => if String.eqb k' k then Some v else lookup r k
  end.
Fixpoint set_key {A} (l : list (string * A)) (k : string) (v : A) : list (string * A) :=
  match l with
  | [] => [(k, v)]
  | (k', v') :: r => if String.eqb k' k then (k, v) :: r else (k', v') :: set_key r k v
  end.

Fixpoint find_user (us : list user) (n : string) : option user :=
  match us with
  | [] => None
  | u :: r => if String.eqb (u_name u) n then Some u else find_user r n
  end.
Definition admin_exists (us : list user) : bool := existsb u_admin us.

(* UserInfo.AuthorizeDatabase *)
Definition authorize_database (u : user) (p : priv) (d : string) : bool :=
  u_admin u || u_rw u || priv_eqb p NoPriv ||
  match lookup (u_privs u) d with
  | Some q => priv_eqb q p || priv_eqb q AllPriv
  | None => false
  end.

(* Data.SetPrivilege / statement executor GRANT and REVOKE *)
Definition set_priv_user (u : user) (d : string) (p : priv) : user :=
  mk_user (u_name u) (u_pass u) (u_admin u) (u_rw u) (set_key (u_privs u) d p).
Fixpoint set_privilege (us : list user) (n d : string) (p : priv) : list user :=
  match us with
  | [] => []
  | u :: r => if String.eqb (u_name u) n then set_priv_user u d p :: r else u :: set_privilege r n d p
  end.
Definition grant (us : list user) (n d : string) (p : priv) : list user := set_privilege us n d p.
Definition user_priv (us : list user) (n d : string) : priv :=
  match find_user us n with
  | Some u => match lookup (u_privs u) d with Some q => q | None => NoPriv end
  | None => NoPriv
  end.
Definition revoke (us : list user) (n d : string) (p : priv) : list user :=
  set_privilege us n d (match p with AllPriv => NoPriv | _ => priv_clear (user_priv us n d) p end).

(* one entry of a statement's RequiredPrivileges: Admin (RAdmin: Rwuser false, RAdminRw: Rwuser true), or privilege p on
   database d ("" = the request's db; every such entry of the source carries Rwuser: true). RRwAllow / RRwDeny are not
   entries of the source list: they mark the statement INSTANCES that AuthorizeQueryForRwUser lets through (`continue`)
   or refuses before it looks at the list; they mean nothing for other users. *)
(* RInvalid: RequiredPrivileges itself fails for the statement (a plain error, not ErrAuthorize: "invalid source" for table
   function / unnest / binary-operation / CTE sources). AuthorizeQuery hands that error on for everybody but the
   administrator (whose check comes first), and checkAuthorization must refuse on ANY error. *)
Inductive reqpriv := RAdmin | RAdminRw | RDb (d : string) (p : priv) | RRwAllow | RRwDeny | RInvalid.
Definition stmt := list reqpriv.

Definition target_db (d dflt : string) : string := if String.eqb d "" then dflt else d.

Definition is_rwallow (rp : reqpriv) : bool := match rp with RRwAllow => true | _ => false end.
Definition is_rwdeny (rp : reqpriv) : bool := match rp with RRwDeny => true | _ => false end.
(* UserInfo.AuthorizeQuery, ordinary user: every entry must hold, an Admin entry never does *)
Definition authorize_stmt_plain (u : user) (db : string) (s : stmt) : bool :=
  forallb (fun rp => match rp with
                     | RAdmin | RAdminRw | RInvalid => false
                     | RDb d p => authorize_database u p (target_db d db)
                     | RRwAllow | RRwDeny => true
                     end) s.
(* UserInfo.AuthorizeQueryForRwUser: the statement cases first, then every entry must carry Rwuser: true *)
Definition authorize_stmt_rw (s : stmt) : bool :=
  if existsb is_rwallow s then true
  else if existsb is_rwdeny s then false
  else forallb (fun rp => match rp with RAdmin | RInvalid => false | _ => true end) s.
Definition authorize_stmt (u : user) (db : string) (s : stmt) : bool :=
  if u_rw u then authorize_stmt_rw s else authorize_stmt_plain u db s.
Definition authorize_query (u : user) (db : string) (q : list stmt) : bool :=
  u_admin u || forallb (authorize_stmt u db) q.

(* What QueryAuthorizer.AuthorizeQuery hands back, by kind: nil, *ErrAuthorize, or any other error (today: the error of
   RequiredPrivileges). The first statement that does not pass decides. *)
Inductive authz_result := AuthzOk | AuthzDenied | AuthzOtherError.
Definition is_invalid (rp : reqpriv) : bool := match rp with RInvalid => true | _ => false end.
Definition stmt_result (u : user) (db : string) (s : stmt) : authz_result :=
  if authorize_stmt u db s then AuthzOk
  else if existsb is_invalid s && negb (u_rw u && existsb is_rwallow s) then AuthzOtherError else AuthzDenied.
Fixpoint stmts_result (u : user) (db : string) (q : list stmt) : authz_result :=
  match q with
  | [] => AuthzOk
  | s :: r => match stmt_result u db s with AuthzOk => stmts_result u db r | e => e end
  end.
Definition query_result (u : user) (db : string) (q : list stmt) : authz_result :=
  if u_admin u then AuthzOk else stmts_result u db q.
(* Handler.checkAuthorization: nil only when the authorizer returned nil *)
Definition check_authorization (r : authz_result) : bool := match r with AuthzOk => true | _ => false end.

(* ---- UserInfo.AuthorizeUnrestricted as a formula over the account's flags (translated per run) ---- *)
Inductive uexpr := UAdmin | URw | UTrue | UFalse | UOr (a b : uexpr) | UAnd (a b : uexpr) | UNot (a : uexpr) | UUnknown.
Fixpoint eval_uexpr (e : uexpr) (adm rw : bool) : option bool :=
  match e with
  | UAdmin => Some adm | URw => Some rw | UTrue => Some true | UFalse => Some false
  | UOr a b => match eval_uexpr a adm rw, eval_uexpr b adm rw with Some x, Some y => Some (x || y) | _, _ => None end
  | UAnd a b => match eval_uexpr a adm rw, eval_uexpr b adm rw with Some x, Some y => Some (x && y) | _, _ => None end
  | UNot a => match eval_uexpr a adm rw with Some x => Some (negb x) | None => None end
  | UUnknown => None
  end.
Definition opt_bool_eqb (a : option bool) (b : bool) : bool := match a with Some x => Bool.eqb x b | None => false end.
(* the formula is the administrator flag, whatever the other flag says *)
Definition uexpr_is_admin (e : uexpr) : bool :=
  opt_bool_eqb (eval_uexpr e true true) true && opt_bool_eqb (eval_uexpr e true false) true
  && opt_bool_eqb (eval_uexpr e false true) false && opt_bool_eqb (eval_uexpr e false false) false.

(* handler.go canSeeRepository / requireRepositoryRead: read or write on the repository, the rule SHOW DATABASES follows *)
Definition can_see (u : user) (d : string) : bool := authorize_database u ReadPriv d || authorize_database u WritePriv d.
(* serveListRepository: the catalogue's repositories (dbs: not marked deleted, in the order listed) the user can see *)
Definition visible_repositories (u : user) (dbs : list string) : list string := filter (can_see u) dbs.

(* ---- credentials as they arrive ---- *)
Record token := mk_token {
  tk_valid : bool;              (* parses, HMAC signature under the shared secret, not expired *)
  tk_has_exp : bool;            (* carries a positive numeric exp claim *)
  tk_user : option string }.    (* the username claim, if it is a string *)

Inductive authz_header :=
| HNone
| HBearer (t : token)                       (* "Bearer <jwt>" *)
| HToken (up : option (string * string))    (* "Token user:pass"; None: no colon *)
| HBasic (up : option (string * string))    (* "Basic base64(user:pass)"; None: undecodable *)
| HGarbage.                                 (* any other header value *)

Record creds_in := mk_creds_in { c_url_u : string; c_url_p : string; c_hdr : authz_header }.

(* AuthenticationMethod is a Go int: the two declared constants and every other value *)
Inductive cmethod := UserAuthentication | BearerAuthentication | OtherMethod (n : N).
Record credentials := mk_credentials { cr_method : cmethod; cr_user : string; cr_pass : string; cr_token : option token }.

Definition user_creds (u p : string) := mk_credentials UserAuthentication u p None.

Definition parse_credentials (c : creds_in) : option credentials :=
  if negb (String.eqb (c_url_u c) "") && negb (String.eqb (c_url_p c) "") then Some (user_creds (c_url_u c) (c_url_p c))
  else match c_hdr c with
       | HNone => None
       | HBearer t => Some (mk_credentials BearerAuthentication "" "" (Some t))
       | HToken (Some (u, p)) => Some (user_creds u p)
       | HToken None => None
       | HBasic (Some (u, p)) => Some (user_creds u p)
       | HBasic None => None
       | HGarbage => None
       end.

Record config := mk_config {
  auth_enabled : bool;
  shared_secret_set : bool;
  locked : list string }.      (* users currently locked after repeated failures *)

Inductive auth_result :=
| Reject (status : N)                   (* wrote the status and returned: inner not called *)
| Pass (u : option user)                (* inner called with this user (None = nil) *)
| RejectAndPass (status : N).           (* default arm: wrote 401 and fell through to inner with a nil user *)

Definition authenticate_creds (cfg : config) (us : list user) (cr : credentials) : auth_result :=
  match cr_method cr with
  | UserAuthentication =>
      if String.eqb (cr_user cr) "" then Reject 401
      else if mem (cr_user cr) (locked cfg) then Reject 401
      else match find_user us (cr_user cr) with
           | None => Reject 401
           | Some u => if String.eqb (u_pass u) (cr_pass cr) then Pass (Some u) else Reject 401
           end
  | BearerAuthentication =>
      if negb (shared_secret_set cfg) then Reject 401
      else match cr_token cr with
           | None => Reject 401
           | Some t =>
               if negb (tk_valid t) then Reject 401
               else if negb (tk_has_exp t) then Reject 401
               else match tk_user t with
                    | None => Reject 401
                    | Some n => if String.eqb n "" then Reject 401
                                else match find_user us n with None => Reject 401 | Some u => Pass (Some u) end
                    end
           end
  | OtherMethod _ => RejectAndPass 401
  end.

Definition authenticate (cfg : config) (us : list user) (c : creds_in) : auth_result :=
  if negb (auth_enabled cfg) then Pass None
  else if negb (admin_exists us) then Pass None
  else match parse_credentials c with
       | None => Reject 401
       | Some cr => authenticate_creds cfg us cr
       end.

(* ---- handlers ---- *)
(* what the handler behind a route does with the user it is given *)
Inductive rkind :=
| KPublic                       (* ping / status / options: answers 204, touches nothing *)
| KQuery (q : list stmt)        (* serveQuery and the other handlers that go through AuthorizeQuery *)
| KWrite                        (* serveWrite and the other handlers that go through AuthorizeWrite on the request's db *)
| KAdminOnly                    (* /debug/ctrl, /backup/..., requireAdmin: AuthorizeUnrestricted *)
| KRepoSee                      (* requireRepositoryRead on the repository named by the request (rq_db) *)
| KListRepos (dbs : list string) (* serveListRepository over a catalogue holding the repositories dbs *)
| KOpaque.                      (* handler whose own checks are not modelled; only the authentication wrapper is *)

Inductive effect :=
| EffQuery (db : string) (q : list stmt)    (* the statements were executed *)
| EffWrite (db : string)
| EffControl
| EffList (l : list string)                 (* a listing with exactly these entries was returned *)
| EffHandler.                               (* the handler body ran *)

Record request := mk_request { rq_creds : creds_in; rq_db : string }.

Definition inner (cfg : config) (k : rkind) (rq : request) (u : option user) : N * list effect :=
  match k with
  | KPublic => (204, [])
  | KOpaque => (200, [EffHandler])
  | KQuery q =>
      if negb (auth_enabled cfg) then (200, [EffQuery (rq_db rq) q])
      else match u with
           | None => (403, [])
           | Some usr => if authorize_query usr (rq_db rq) q then (200, [EffQuery (rq_db rq) q]) else (403, [])
           end
  | KWrite =>
      if negb (auth_enabled cfg) then (204, [EffWrite (rq_db rq)])
      else match u with
           | None => (403, [])
           | Some usr => if authorize_database usr WritePriv (rq_db rq) then (204, [EffWrite (rq_db rq)]) else (403, [])
           end
  | KAdminOnly =>
      if negb (auth_enabled cfg) then (200, [EffControl])
      else match u with
           | None => (403, [])
           | Some usr => if u_admin usr then (200, [EffControl]) else (403, [])
           end
  | KRepoSee =>
      if negb (auth_enabled cfg) then (200, [EffHandler])
      else match u with
           | None => (403, [])
           | Some usr => if can_see usr (rq_db rq) then (200, [EffHandler]) else (403, [])
           end
  | KListRepos dbs =>
      if negb (auth_enabled cfg) then (200, [EffList dbs])
      else match u with
           | None => (200, [EffList []])
           | Some usr => (200, [EffList (visible_repositories usr dbs)])
           end
  end.

(* a plain-signature handler never sees a user: whatever it does, it does for everybody *)
Definition inner_plain (k : rkind) (rq : request) : N * list effect :=
  match k with
  | KPublic => (204, [])
  | KQuery q => (200, [EffQuery (rq_db rq) q])
  | KWrite => (204, [EffWrite (rq_db rq)])
  | KAdminOnly => (200, [EffControl])
  | KRepoSee => (200, [EffHandler])
  | KListRepos dbs => (200, [EffList dbs])
  | KOpaque => (200, [EffHandler])
  end.

Definition serve (sh : shape) (cfg : config) (us : list user) (r : route) (k : rkind) (rq : request) : N * list effect :=
  if always_rejects r then (403, [])
  else if authenticated sh r then
    match authenticate cfg us (rq_creds rq) with
    | Reject st => (st, [])
    | Pass u => inner cfg k rq u
    | RejectAndPass st => (st, snd (inner cfg k rq None))
    end
  else match wrap_for (s_rules sh) (r_sig r) None with
       | None => (500, [])                       (* nil handler: the recovery wrapper answers *)
       | Some _ => inner_plain k rq
       end.

(* ------------------------------------------------------------------------------------------------------------ *)
(* Part C: the RequiredPrivileges table (one row per statement type; instantiated from the source by the translator in
   Gen_Privileges.v and frozen by hand in Privileges.v) *)
Record pentry := mk_pentry {
  pe_admin : bool;         (* Admin: true *)
  pe_rwuser : bool;        (* Rwuser: true *)
  pe_name : string;        (* "" = the request's db; otherwise the Go expression naming the database *)
  pe_priv : string;        (* name of the influxql constant *)
  pe_cond : string }.      (* enclosing conditions, "" = unconditional *)
Record stmt_priv := mk_stmt_priv {
  sp_type : string; sp_simple : bool; sp_entries : list pentry; sp_calls : list string }.

Definition pentry_eqb (a b : pentry) : bool :=
  Bool.eqb (pe_admin a) (pe_admin b) && Bool.eqb (pe_rwuser a) (pe_rwuser b) && String.eqb (pe_name a) (pe_name b) && String.eqb (pe_priv a) (pe_priv b)
  && String.eqb (pe_cond a) (pe_cond b).
Definition stmt_priv_eqb (a b : stmt_priv) : bool :=
  String.eqb (sp_type a) (sp_type b) && Bool.eqb (sp_simple a) (sp_simple b)
  && list_eqb pentry_eqb (sp_entries a) (sp_entries b) && list_eqb String.eqb (sp_calls a) (sp_calls b).

Definition priv_of_name (s : string) : option priv :=
  if String.eqb s "ReadPrivilege" then Some ReadPriv
  else if String.eqb s "WritePrivilege" then Some WritePriv
  else if String.eqb s "AllPrivileges" then Some AllPriv
  else if String.eqb s "NoPrivileges" then Some NoPriv
  else None.

(* meaning of one unconditional entry for a statement whose own database field holds stmt_db *)
Definition req_of_entry (stmt_db : string) (e : pentry) : option reqpriv :=
  if negb (String.eqb (pe_cond e) "") then None
  else if pe_admin e then Some (if pe_rwuser e then RAdminRw else RAdmin)
  else if negb (pe_rwuser e) then None      (* RDb stands for an entry with Rwuser: true; anything else is not modelled *)
  else match priv_of_name (pe_priv e) with
       | None => None
       | Some p => if String.eqb (pe_name e) "" then Some (RDb "" p)
                   else if String.eqb (pe_name e) "s.Database" then Some (RDb stmt_db p)
                   else None
       end.
Fixpoint req_of_entries (stmt_db : string) (es : list pentry) : option stmt :=
  match es with
  | [] => Some []
  | e :: r => match req_of_entry stmt_db e, req_of_entries stmt_db r with
              | Some x, Some xs => Some (x :: xs)
              | _, _ => None
              end
  end.
Fixpoint find_stmt_priv (tbl : list stmt_priv) (ty : string) : option stmt_priv :=
  match tbl with
  | [] => None
  | sp :: r => if String.eqb (sp_type sp) ty then Some sp else find_stmt_priv r ty
  end.
(* the requirement list of a simple statement type; None for the types whose method computes *)
Definition required_of (tbl : list stmt_priv) (ty stmt_db : string) : option stmt :=
  match find_stmt_priv tbl ty with
  | Some sp => if sp_simple sp then req_of_entries stmt_db (sp_entries sp) else None
  | None => None
  end.
(* Sources.RequiredPrivileges: read on the database of every measurement; SELECT adds write on the target's database;
   CREATE CONTINUOUS QUERY: read on its database and write on the target's if that names a database *)
Definition sources_req (dbs : list string) : stmt := map (fun d => RDb d ReadPriv) dbs.
Definition select_req (srcs : list string) (target : option string) : stmt :=
  (sources_req srcs ++ match target with Some d => [RDb d WritePriv] | None => [] end)%list.
Definition cq_req (db target : string) : stmt :=
  RDb db ReadPriv :: (if String.eqb target "" then [] else [RDb target WritePriv]).

(* ---- the cardinality statements (ShowSeriesCardinality, ShowMeasurementCardinality, ShowTagKeyCardinality,
   ShowFieldKeyCardinality, ShowTagValuesCardinality): their requirement depends on the EXACT flag and on the sources.
   The rule is read off the translated row, so that today's methods (C19-cardinality-no-source-unprivileged: without a FROM
   clause nothing is asked) and the repaired ones (read on the statement's database) are both understood. ---- *)
Definition has_db_read_entry (sp : stmt_priv) (c : string) : bool :=
  existsb (fun e => negb (pe_admin e) && pe_rwuser e && String.eqb (pe_name e) "s.Database"
                    && String.eqb (pe_priv e) "ReadPrivilege" && String.eqb (pe_cond e) c) (sp_entries sp).
Definition real_entries (sp : stmt_priv) : list pentry :=
  filter (fun e => negb (String.prefix "assign " (pe_name e))) (sp_entries sp).
Definition delegates_to_sources (sp : stmt_priv) : bool :=
  list_eqb String.eqb (sp_calls sp) ["s.Sources.RequiredPrivileges"].
(* a source without a database of its own: the request's database, or - ShowTagValuesCardinality rewrites it - the statement's *)
Definition src_dbs (sp : stmt_priv) (stmt_db : string) (srcs : list string) : list string :=
  if existsb (fun e => String.eqb (pe_name e) "assign p.Name") (sp_entries sp)
  then map (fun d => if String.eqb d "" then stmt_db else d) srcs else srcs.
Definition card_rule (tbl : list stmt_priv) (ty : string) (exact : bool) (stmt_db : string) (srcs : list string) : option stmt :=
  match find_stmt_priv tbl ty with
  | None => None
  | Some sp =>
      let nosrc := match srcs with [] => true | _ => false end in
      let dbreq := [RDb stmt_db ReadPriv] in
      let bysrc := sources_req (src_dbs sp stmt_db srcs) in
      if negb (delegates_to_sources sp) then None
      else match real_entries sp with
           | [] => Some bysrc
           | [_] =>
               if has_db_read_entry sp "!s.Exact || len(s.Sources) == 0" then Some (if negb exact || nosrc then dbreq else bysrc)
               else if has_db_read_entry sp "!s.Exact" then Some (if negb exact then dbreq else bysrc)
               else if has_db_read_entry sp "len(s.Sources) == 0" then Some (if nosrc then dbreq else bysrc)
               else None
           | _ => None
           end
  end.
Definition cardinality_types : list string :=
  ["ShowSeriesCardinalityStatement"; "ShowMeasurementCardinalityStatement"; "ShowTagKeyCardinalityStatement";
   "ShowFieldKeyCardinalityStatement"; "ShowTagValuesCardinalityStatement"].
(* the repair (fix5.patch): without a FROM clause read on the statement's database is asked *)
Definition repair_card_row (sp : stmt_priv) : stmt_priv :=
  let e c := mk_pentry false true "s.Database" "ReadPrivilege" c in
  if String.eqb (sp_type sp) "ShowSeriesCardinalityStatement" || String.eqb (sp_type sp) "ShowMeasurementCardinalityStatement"
  then mk_stmt_priv (sp_type sp) false [e "!s.Exact || len(s.Sources) == 0"] (sp_calls sp)
  else if String.eqb (sp_type sp) "ShowTagKeyCardinalityStatement" || String.eqb (sp_type sp) "ShowFieldKeyCardinalityStatement"
       || String.eqb (sp_type sp) "ShowTagValuesCardinalityStatement"
  then mk_stmt_priv (sp_type sp) false (e "len(s.Sources) == 0" :: sp_entries sp) (sp_calls sp)
  else sp.

(* ---- the statement cases of AuthorizeQueryForRwUser (translated in Gen_Privileges.v, frozen in Privileges.v) ---- *)
Record rwrule := mk_rwrule { rw_type : string; rw_action : string }.
Definition rwrule_eqb (a b : rwrule) : bool := String.eqb (rw_type a) (rw_type b) && String.eqb (rw_action a) (rw_action b).
Fixpoint find_rwrule (rules : list rwrule) (ty : string) : option string :=
  match rules with
  | [] => None
  | r :: rest => if String.eqb (rw_type r) ty then Some (rw_action r) else find_rwrule rest ty
  end.
(* what an arm means for an instance of the statement type. `special`: the instance names the account "rwuser" (DROP USER,
   SET PASSWORD, by an account that is not itself called "rwuser") or the database "_internal" (DROP DATABASE).
   An arm whose text is not one of the known ones means nothing here (no marker), so that a changed arm shows as a
   disagreement with the running server and as a broken table equality. *)
Definition rw_marker (rules : list rwrule) (ty : string) (special : bool) : list reqpriv :=
  match find_rwrule rules ty with
  | None => []
  | Some a =>
      if String.eqb a "continue" then [RRwAllow]
      else if String.eqb a "if stmtType.Admin == true { set stmtType.Admin = false }; continue" then [RRwAllow]
      else if String.eqb a "if stmtType.Name != ""rwuser"" { continue }" then (if special then [] else [RRwAllow])
      else if String.eqb a "if u.Name != ""rwuser"" && stmtType.Name == ""rwuser"" { refuse }; continue"
           then (if special then [RRwDeny] else [RRwAllow])
      else if String.eqb a "if stmtType.Name == ""_internal"" { refuse }" then (if special then [RRwDeny] else [])
      else []
  end.
(* after the arms: every entry of RequiredPrivileges must carry Rwuser: true *)
Definition rw_tail_expected : string :=
  "set privs, err := stmt.RequiredPrivileges(); if err != nil { return return err }; range privs { if !p.Rwuser { refuse } }".

(* a request path: prefix dispatch first, then the route the mux selected *)
Definition serve_path (sh : shape) (cfg : config) (guards : list string) (ps : list prefix_rule) (us : list user)
           (path : string) (r : route) (k : rkind) (rq : request) : N * list effect :=
  match dispatch guards ps path with
  | Some p =>
      if prefix_admin p then
        match authenticate cfg us (rq_creds rq) with
        | Reject st => (st, [])
        | Pass u => inner cfg KAdminOnly rq u
        | RejectAndPass st => (st, snd (inner cfg KAdminOnly rq None))
        end
      else (200, [EffHandler])
  | None => serve sh cfg us r k rq
  end.
