(* C19 lemmas. *)
From Coq Require Import String List Bool NArith Lia.
From OG Require Import C19.Model C19.Guards C19.Gen_Routes.
Import ListNotations.
Open Scope string_scope.
Open Scope N_scope.

(* ------------------------------------------------------------------------------------------------------------ *)
(* Part A: finite checks over the generated table, lifted to statements about every entry *)

Lemma route_table_ok_lift : forall sh rs,
  forallb (route_ok sh) rs = true ->
  forall r, In r rs -> public r = false -> authenticated sh r = true \/ always_rejects r = true.
Proof.
  intros sh rs H r Hin Hp. rewrite forallb_forall in H. specialize (H r Hin).
  unfold route_ok in H. rewrite Hp in H. cbn [orb] in H. apply orb_true_iff in H. exact H.
Qed.

(* every route of the table translated in this run is fine: NO route is exempt (the defects C19-failpoint-public and
   C19-runtime-config-public are repaired in the repository; a re-appearance breaks this check) *)
Lemma routes_check : forallb (route_ok shape_now) routes = true.
Proof. vm_compute. reflexivity. Qed.

Lemma all_nonpublic_authenticated_lemma :
  forall r, In r routes -> public r = false -> authenticated shape_now r = true \/ always_rejects r = true.
Proof. exact (route_table_ok_lift shape_now _ routes_check). Qed.

Lemma no_open_routes_check : open_routes shape_now routes = [].
Proof. vm_compute. reflexivity. Qed.

Lemma shape_check : shape_ok shape_now = true.
Proof. vm_compute. reflexivity. Qed.

(* prefix rules: only those exempted by an OPEN finding (C19-debug-public) may exist *)
Lemma no_prefix_skips_the_mux_check : unexempt_prefixes open_findings prefixes = [].
Proof. vm_compute. reflexivity. Qed.

Lemma dispatch_nil : forall g path, dispatch g [] path = None.
Proof. reflexivity. Qed.

Lemma dispatch_some_in : forall g ps path p, dispatch g ps path = Some p -> In p ps /\ String.prefix (p_prefix p) path = true.
Proof.
  induction ps as [|q ps IH]; intros path p H; cbn [dispatch] in H; [discriminate|].
  destruct (String.prefix (p_prefix q) path && guard_on g q) eqn:E.
  - inversion H; subst. apply andb_true_iff in E. split; [left; reflexivity|tauto].
  - destruct (IH _ _ H) as [A B]. split; [right; exact A|exact B].
Qed.

(* a path is taken away from the mux only by a rule that an open finding names *)
Lemma prefix_bypass_only_exempt : forall g path p, dispatch g prefixes path = Some p ->
  prefix_ok open_findings p = true.
Proof.
  intros g path p H. apply dispatch_some_in in H. destruct H as [Hin _].
  destruct (prefix_ok open_findings p) eqn:E; [reflexivity|].
  assert (In p (unexempt_prefixes open_findings prefixes)) as Hf.
  { unfold unexempt_prefixes. apply filter_In. split; [exact Hin|]. rewrite E. reflexivity. }
  rewrite no_prefix_skips_the_mux_check in Hf. destruct Hf.
Qed.

Lemma exempt_prefix_known : forall open p, exempt_prefix open p = true ->
  mem "C19-debug-public" open = true /\ known_prefix p = true.
Proof. intros open p H. unfold exempt_prefix in H. apply andb_true_iff in H. exact H. Qed.

Lemma prefix_bypass_only_open_finding : forall g path p, dispatch g prefixes path = Some p ->
  prefix_admin p = true \/ (mem "C19-debug-public" open_findings = true /\ known_prefix p = true).
Proof.
  intros g path p H. pose proof (prefix_bypass_only_exempt _ _ _ H) as X. unfold prefix_ok in X.
  apply orb_true_iff in X. destruct X as [X|X]; [left; exact X|right; apply exempt_prefix_known; exact X].
Qed.

Lemma repaired_dispatch_is_mux : forall g path, dispatch g (unexempt_prefixes open_findings prefixes) path = None.
Proof. intros. rewrite no_prefix_skips_the_mux_check. reflexivity. Qed.

Lemma cred_facts_check : cred_facts_ok cred_facts_now = true /\ cred_facts_match_model cred_facts_now = true.
Proof. vm_compute. split; reflexivity. Qed.

(* handler facts: every handler with the authenticated signature makes an authorization decision on its user, except the
   routes for which authentication alone is asked and those an OPEN finding names *)
Lemma guards_check : unguarded open_findings handler_guards = [].
Proof. vm_compute. reflexivity. Qed.

Lemma guards_forall : forall g, In g handler_guards -> decides g = true \/ guard_exempt open_findings g = true.
Proof.
  intros g Hin. destruct (guard_ok open_findings g) eqn:E.
  - unfold guard_ok in E. apply orb_true_iff in E. exact E.
  - exfalso. assert (In g (unguarded open_findings handler_guards)) as Hf.
    { unfold unguarded. apply filter_In. split; [exact Hin|]. rewrite E. reflexivity. }
    rewrite guards_check in Hf. destruct Hf.
Qed.

(* the routes the statement names by function make exactly the decision it asks for *)
Lemma expected_guards_check : forallb (expected_ok handler_guards) expected_guards = true.
Proof. vm_compute. reflexivity. Qed.

(* and the handler facts cover the table: every route with the authenticated signature has its row *)
Definition has_guard_row (r : route) : bool :=
  negb (hsig_eqb (r_sig r) SigUser) ||
  match find_guard handler_guards (r_method r) (r_pattern r) with Some _ => true | None => false end.
Lemma guards_cover_routes_check : forallb has_guard_row routes = true.
Proof. vm_compute. reflexivity. Qed.

(* ------------------------------------------------------------------------------------------------------------ *)
(* Part B *)

Lemma str_eqb_false : forall a b, String.eqb a b = false <-> a <> b.
Proof. intros. rewrite <- String.eqb_eq. destruct (String.eqb a b); split; congruence. Qed.

(* ParseCredentials yields only the two methods that `authenticate` handles *)
Lemma parse_methods : forall c cr, parse_credentials c = Some cr ->
  cr_method cr = UserAuthentication \/ cr_method cr = BearerAuthentication.
Proof.
  intros c cr H. unfold parse_credentials in H.
  destruct (negb (c_url_u c =? "")%string && negb (c_url_p c =? "")%string).
  - inversion H; subst. left. reflexivity.
  - destruct (c_hdr c) as [|t|[[u p]|]|[[u p]|]|]; try discriminate; inversion H; subst; cbn; auto.
Qed.

Lemma authenticate_creds_no_fallthrough : forall cfg us cr st,
  cr_method cr = UserAuthentication \/ cr_method cr = BearerAuthentication ->
  authenticate_creds cfg us cr <> RejectAndPass st.
Proof.
  intros cfg us cr st H. unfold authenticate_creds.
  destruct H as [H|H]; rewrite H.
  - destruct (cr_user cr =? "")%string; [discriminate|].
    destruct (mem (cr_user cr) (locked cfg)); [discriminate|].
    destruct (find_user us (cr_user cr)); [|discriminate].
    destruct (u_pass u =? cr_pass cr)%string; discriminate.
  - destruct (negb (shared_secret_set cfg)); [discriminate|].
    destruct (cr_token cr) as [t|]; [|discriminate].
    destruct (negb (tk_valid t)); [discriminate|].
    destruct (negb (tk_has_exp t)); [discriminate|].
    destruct (tk_user t) as [n|]; [|discriminate].
    destruct (n =? "")%string; [discriminate|].
    destruct (find_user us n); discriminate.
Qed.

Lemma unsupported_method_unreachable_lemma : forall cfg us c st, authenticate cfg us c <> RejectAndPass st.
Proof.
  intros cfg us c st. unfold authenticate.
  destruct (negb (auth_enabled cfg)); [discriminate|].
  destruct (negb (admin_exists us)); [discriminate|].
  destruct (parse_credentials c) as [cr|] eqn:E; [|discriminate].
  apply authenticate_creds_no_fallthrough. exact (parse_methods _ _ E).
Qed.

(* and it really is only that: a credential with any other method value does fall through to the handler *)
Lemma default_arm_falls_through : forall cfg us n u p t,
  authenticate_creds cfg us (mk_credentials (OtherMethod n) u p t) = RejectAndPass 401.
Proof. reflexivity. Qed.

(* ---- specification of "valid credentials", independent of the functions above ---- *)
Definition url_complete (c : creds_in) : Prop := c_url_u c <> "" /\ c_url_p c <> "".

Definition presented_userpass (c : creds_in) (n p : string) : Prop :=
  (url_complete c /\ c_url_u c = n /\ c_url_p c = p)
  \/ (~ url_complete c /\ (c_hdr c = HToken (Some (n, p)) \/ c_hdr c = HBasic (Some (n, p)))).

Definition presented_token (c : creds_in) (t : token) : Prop := ~ url_complete c /\ c_hdr c = HBearer t.

Definition valid_creds (cfg : config) (us : list user) (c : creds_in) (u : user) : Prop :=
  (exists n p, presented_userpass c n p /\ n <> "" /\ mem n (locked cfg) = false /\
               find_user us n = Some u /\ u_pass u = p)
  \/ (exists t n, presented_token c t /\ shared_secret_set cfg = true /\ tk_valid t = true /\ tk_has_exp t = true /\
                  tk_user t = Some n /\ n <> "" /\ find_user us n = Some u).

Lemma url_complete_dec : forall c,
  (negb (c_url_u c =? "")%string && negb (c_url_p c =? "")%string = true <-> url_complete c).
Proof.
  intros c. unfold url_complete. rewrite andb_true_iff, !negb_true_iff, !str_eqb_false. tauto.
Qed.

Lemma authenticate_creds_user_sound : forall cfg us n p u,
  authenticate_creds cfg us (user_creds n p) = Pass (Some u) ->
  n <> "" /\ mem n (locked cfg) = false /\ find_user us n = Some u /\ u_pass u = p.
Proof.
  intros cfg us n p u H. unfold authenticate_creds, user_creds in H. cbn [cr_method cr_user cr_pass] in H.
  destruct (n =? "")%string eqn:E1; [discriminate|].
  destruct (mem n (locked cfg)) eqn:E2; [discriminate|].
  destruct (find_user us n) as [u'|] eqn:E3; [|discriminate].
  destruct (u_pass u' =? p)%string eqn:E4; [|discriminate].
  inversion H; subst. apply str_eqb_false in E1. apply String.eqb_eq in E4. auto.
Qed.

Lemma authenticate_creds_user_complete : forall cfg us n p u,
  n <> "" -> mem n (locked cfg) = false -> find_user us n = Some u -> u_pass u = p ->
  authenticate_creds cfg us (user_creds n p) = Pass (Some u).
Proof.
  intros cfg us n p u H1 H2 H3 H4. unfold authenticate_creds, user_creds. cbn [cr_method cr_user cr_pass].
  apply str_eqb_false in H1. rewrite H1, H2, H3. apply String.eqb_eq in H4. rewrite H4. reflexivity.
Qed.

Lemma authenticate_pass_sound : forall cfg us c u,
  auth_enabled cfg = true -> admin_exists us = true ->
  authenticate cfg us c = Pass (Some u) -> valid_creds cfg us c u.
Proof.
  intros cfg us c u Ha Hadm H. unfold authenticate in H. rewrite Ha, Hadm in H. cbn [negb] in H.
  unfold parse_credentials in H.
  destruct (negb (c_url_u c =? "")%string && negb (c_url_p c =? "")%string) eqn:EU.
  - apply url_complete_dec in EU. apply authenticate_creds_user_sound in H. destruct H as (A & B & C & D).
    left. exists (c_url_u c), (c_url_p c). repeat split; auto. left. auto.
  - assert (~ url_complete c) as NU. { intro X. apply url_complete_dec in X. congruence. }
    destruct (c_hdr c) as [|t|[[n p]|]|[[n p]|]|] eqn:EH; try discriminate.
    + right. unfold authenticate_creds in H. cbn [cr_method cr_token] in H.
      destruct (shared_secret_set cfg) eqn:E0; [|discriminate]. cbn [negb] in H.
      destruct (tk_valid t) eqn:E1; [|discriminate]. destruct (tk_has_exp t) eqn:E2; [|discriminate]. cbn [negb] in H.
      destruct (tk_user t) as [n|] eqn:E3; [|discriminate].
      destruct (n =? "")%string eqn:E4; [discriminate|].
      destruct (find_user us n) as [u'|] eqn:E5; [|discriminate]. inversion H; subst.
      exists t, n. apply str_eqb_false in E4. unfold presented_token. repeat split; auto.
    + apply authenticate_creds_user_sound in H. destruct H as (A & B & C & D).
      left. exists n, p. repeat split; auto. right. auto.
    + apply authenticate_creds_user_sound in H. destruct H as (A & B & C & D).
      left. exists n, p. repeat split; auto. right. auto.
Qed.

Lemma authenticate_pass_complete : forall cfg us c u,
  auth_enabled cfg = true -> admin_exists us = true ->
  valid_creds cfg us c u -> authenticate cfg us c = Pass (Some u).
Proof.
  intros cfg us c u Ha Hadm H. unfold authenticate. rewrite Ha, Hadm. cbn [negb]. unfold parse_credentials.
  destruct H as [(n & p & Hp & A & B & C & D)|(t & n & [NU EH] & A & B & C & D & E & F)].
  - destruct Hp as [(U & X & Y)|(NU & [EH|EH])].
    + apply url_complete_dec in U. rewrite U. subst. apply authenticate_creds_user_complete; auto.
    + destruct (negb (c_url_u c =? "")%string && negb (c_url_p c =? "")%string) eqn:EU.
      { apply url_complete_dec in EU. contradiction. }
      rewrite EH. apply authenticate_creds_user_complete; auto.
    + destruct (negb (c_url_u c =? "")%string && negb (c_url_p c =? "")%string) eqn:EU.
      { apply url_complete_dec in EU. contradiction. }
      rewrite EH. apply authenticate_creds_user_complete; auto.
  - destruct (negb (c_url_u c =? "")%string && negb (c_url_p c =? "")%string) eqn:EU.
    { apply url_complete_dec in EU. contradiction. }
    rewrite EH. unfold authenticate_creds. cbn [cr_method cr_token]. rewrite A, B, C, D. cbn [negb].
    apply str_eqb_false in E. rewrite E, F. reflexivity.
Qed.

(* with authentication on and an administrator present, the handler never receives a nil user *)
Lemma authenticate_no_anonymous : forall cfg us c,
  auth_enabled cfg = true -> admin_exists us = true -> authenticate cfg us c <> Pass None.
Proof.
  intros cfg us c Ha Hadm. unfold authenticate. rewrite Ha, Hadm. cbn [negb].
  destruct (parse_credentials c) as [cr|]; [|discriminate].
  unfold authenticate_creds. destruct (cr_method cr).
  - destruct (cr_user cr =? "")%string; [discriminate|]. destruct (mem (cr_user cr) (locked cfg)); [discriminate|].
    destruct (find_user us (cr_user cr)); [|discriminate]. destruct (u_pass u =? cr_pass cr)%string; discriminate.
  - destruct (negb (shared_secret_set cfg)); [discriminate|]. destruct (cr_token cr) as [t|]; [|discriminate].
    destruct (negb (tk_valid t)); [discriminate|]. destruct (negb (tk_has_exp t)); [discriminate|].
    destruct (tk_user t) as [n|]; [|discriminate]. destruct (n =? "")%string; [discriminate|].
    destruct (find_user us n); discriminate.
  - discriminate.
Qed.

(* ---- specification of "sufficient privilege" ---- *)
Definition has_priv (u : user) (p : priv) (d : string) : Prop :=
  u_admin u = true \/ u_rw u = true \/ p = NoPriv \/ exists q, lookup (u_privs u) d = Some q /\ (q = p \/ q = AllPriv).

(* one entry of a statement's requirement list, for an ordinary user *)
Definition entry_holds (u : user) (db : string) (rp : reqpriv) : Prop :=
  match rp with
  | RAdmin | RAdminRw | RInvalid => False
  | RDb d p => has_priv u p (target_db d db)
  | RRwAllow | RRwDeny => True
  end.
(* a statement, for an account with partition privileges: let through by its case, or not refused by its case and free
   of entries without the Rwuser flag *)
Definition rw_allowed (s : stmt) : Prop := In RRwAllow s \/ (~ In RRwDeny s /\ ~ In RAdmin s /\ ~ In RInvalid s).
Definition stmt_allowed (u : user) (db : string) (s : stmt) : Prop :=
  if u_rw u then rw_allowed s else forall rp, In rp s -> entry_holds u db rp.
Definition can_see_spec (u : user) (d : string) : Prop := has_priv u ReadPriv d \/ has_priv u WritePriv d.

Definition sufficient (u : user) (k : rkind) (rq : request) : Prop :=
  match k with
  | KPublic => True
  | KOpaque => True
  | KQuery q => u_admin u = true \/ forall s, In s q -> stmt_allowed u (rq_db rq) s
  | KWrite => has_priv u WritePriv (rq_db rq)
  | KAdminOnly => u_admin u = true
  | KRepoSee => can_see_spec u (rq_db rq)
  | KListRepos _ => True
  end.

Lemma priv_eqb_eq : forall a b, priv_eqb a b = true <-> a = b.
Proof. destruct a, b; cbn; split; intro H; try reflexivity; try discriminate. Qed.

Lemma authorize_database_spec : forall u p d, authorize_database u p d = true <-> has_priv u p d.
Proof.
  intros u p d. unfold authorize_database, has_priv. rewrite !orb_true_iff, priv_eqb_eq. split.
  - intros [[[A|A]|A]|A]; auto. destruct (lookup (u_privs u) d) as [q|] eqn:E; [|discriminate].
    right. right. right. exists q. split; [reflexivity|]. apply orb_true_iff in A. rewrite !priv_eqb_eq in A. exact A.
  - intros [A|[A|[A|(q & E & A)]]]; auto. right. rewrite E. apply orb_true_iff. rewrite !priv_eqb_eq. exact A.
Qed.

Lemma can_see_iff : forall u d, can_see u d = true <-> can_see_spec u d.
Proof. intros. unfold can_see, can_see_spec. rewrite orb_true_iff, !authorize_database_spec. tauto. Qed.

Lemma existsb_rwallow : forall s, existsb is_rwallow s = true <-> In RRwAllow s.
Proof.
  intros s. rewrite existsb_exists. split.
  - intros (x & Hin & Hx). destruct x; try discriminate. exact Hin.
  - intro H. exists RRwAllow. split; [exact H|reflexivity].
Qed.
Lemma existsb_rwdeny : forall s, existsb is_rwdeny s = true <-> In RRwDeny s.
Proof.
  intros s. rewrite existsb_exists. split.
  - intros (x & Hin & Hx). destruct x; try discriminate. exact Hin.
  - intro H. exists RRwDeny. split; [exact H|reflexivity].
Qed.

Lemma authorize_stmt_rw_spec : forall s, authorize_stmt_rw s = true <-> rw_allowed s.
Proof.
  intros s. unfold authorize_stmt_rw, rw_allowed.
  destruct (existsb is_rwallow s) eqn:EA.
  - apply existsb_rwallow in EA. tauto.
  - assert (~ In RRwAllow s) as NA. { intro X. apply existsb_rwallow in X. congruence. }
    destruct (existsb is_rwdeny s) eqn:ED.
    + apply existsb_rwdeny in ED. split; [discriminate|]. intros [X|[X _]]; contradiction.
    + assert (~ In RRwDeny s) as ND. { intro X. apply existsb_rwdeny in X. congruence. }
      rewrite forallb_forall. split.
      * intro H. right. split; [exact ND|]. split; intro X; specialize (H _ X); discriminate.
      * intros [X|[_ [X Y]]]; [contradiction|]. intros rp Hrp. destruct rp; try reflexivity; contradiction.
Qed.

Lemma authorize_stmt_spec : forall u db s, authorize_stmt u db s = true <-> stmt_allowed u db s.
Proof.
  intros u db s. unfold authorize_stmt, stmt_allowed. destruct (u_rw u); [apply authorize_stmt_rw_spec|].
  unfold authorize_stmt_plain. rewrite forallb_forall. split.
  - intros H rp Hrp. specialize (H rp Hrp). destruct rp as [| |d p| | |]; cbn [entry_holds]; try discriminate; auto.
    apply authorize_database_spec. exact H.
  - intros H rp Hrp. specialize (H rp Hrp). destruct rp as [| |d p| | |]; cbn [entry_holds] in H; try contradiction; auto.
    apply authorize_database_spec. exact H.
Qed.

Lemma authorize_query_spec : forall u db q, authorize_query u db q = true <-> sufficient u (KQuery q) (mk_request (mk_creds_in "" "" HNone) db).
Proof.
  intros u db q. unfold authorize_query, sufficient. cbn [rq_db]. rewrite orb_true_iff, forallb_forall. split.
  - intros [A|A]; [left; exact A|]. right. intros s Hs. apply authorize_stmt_spec. exact (A s Hs).
  - intros [A|A]; [left; exact A|]. right. intros s Hs. apply authorize_stmt_spec. exact (A s Hs).
Qed.

Lemma inner_effects_sufficient : forall cfg k rq u,
  auth_enabled cfg = true -> snd (inner cfg k rq (Some u)) <> [] -> sufficient u k rq.
Proof.
  intros cfg k rq u Ha H. destruct k as [|q| | | |dbs|]; cbn [inner] in H; rewrite ?Ha in H; cbn [negb] in H; cbn [sufficient]; auto.
  - destruct (authorize_query u (rq_db rq) q) eqn:E; [|cbn in H; congruence].
    apply authorize_query_spec in E. exact E.
  - destruct (authorize_database u WritePriv (rq_db rq)) eqn:E; [|cbn in H; congruence].
    apply authorize_database_spec. exact E.
  - destruct (u_admin u) eqn:E; [reflexivity|cbn in H; congruence].
  - destruct (can_see u (rq_db rq)) eqn:E; [|cbn in H; congruence]. apply can_see_iff. exact E.
Qed.

Lemma handler_runs_only_if_authorized_lemma : forall sh cfg us r k rq,
  auth_enabled cfg = true -> admin_exists us = true -> authenticated sh r = true ->
  snd (serve sh cfg us r k rq) <> [] ->
  exists u, valid_creds cfg us (rq_creds rq) u /\ sufficient u k rq.
Proof.
  intros sh cfg us r k rq Ha Hadm Hauth H. unfold serve in H.
  destruct (always_rejects r); [cbn in H; congruence|]. rewrite Hauth in H.
  destruct (authenticate cfg us (rq_creds rq)) as [st|[u|]|st] eqn:E.
  - cbn in H. congruence.
  - exists u. split; [apply authenticate_pass_sound; assumption|]. eapply inner_effects_sufficient; eassumption.
  - exfalso. exact (authenticate_no_anonymous _ _ _ Ha Hadm E).
  - exfalso. exact (unsupported_method_unreachable_lemma _ _ _ _ E).
Qed.

(* requests without valid credentials are answered 401 and nothing happens *)
Lemma invalid_creds_rejected_lemma : forall sh cfg us r k rq,
  auth_enabled cfg = true -> admin_exists us = true -> authenticated sh r = true -> always_rejects r = false ->
  (forall u, ~ valid_creds cfg us (rq_creds rq) u) ->
  serve sh cfg us r k rq = (401, []).
Proof.
  intros sh cfg us r k rq Ha Hadm Hauth Hrej Hno. unfold serve. rewrite Hrej, Hauth.
  destruct (authenticate cfg us (rq_creds rq)) as [st|[u|]|st] eqn:E.
  - (* every Reject of the model carries 401 *)
    assert (st = 401) as ->; [|reflexivity].
    unfold authenticate in E. rewrite Ha, Hadm in E. cbn [negb] in E.
    destruct (parse_credentials (rq_creds rq)) as [cr|]; [|inversion E; reflexivity].
    unfold authenticate_creds in E. destruct (cr_method cr).
    + destruct (cr_user cr =? "")%string; [inversion E; reflexivity|].
      destruct (mem (cr_user cr) (locked cfg)); [inversion E; reflexivity|].
      destruct (find_user us (cr_user cr)); [|inversion E; reflexivity].
      destruct (u_pass u =? cr_pass cr)%string; inversion E; reflexivity.
    + destruct (negb (shared_secret_set cfg)); [inversion E; reflexivity|].
      destruct (cr_token cr) as [t|]; [|inversion E; reflexivity].
      destruct (negb (tk_valid t)); [inversion E; reflexivity|].
      destruct (negb (tk_has_exp t)); [inversion E; reflexivity|].
      destruct (tk_user t) as [n|]; [|inversion E; reflexivity].
      destruct (n =? "")%string; [inversion E; reflexivity|].
      destruct (find_user us n); inversion E; reflexivity.
    + discriminate.
  - exfalso. apply (Hno u). apply authenticate_pass_sound; assumption.
  - exfalso. exact (authenticate_no_anonymous _ _ _ Ha Hadm E).
  - exfalso. exact (unsupported_method_unreachable_lemma _ _ _ _ E).
Qed.

(* valid credentials without the privilege: 403 and nothing happens (modelled handler kinds) *)
Lemma insufficient_privilege_rejected_lemma : forall sh cfg us r k rq u,
  auth_enabled cfg = true -> admin_exists us = true -> authenticated sh r = true -> always_rejects r = false ->
  valid_creds cfg us (rq_creds rq) u -> ~ sufficient u k rq ->
  serve sh cfg us r k rq = (403, []).
Proof.
  intros sh cfg us r k rq u Ha Hadm Hauth Hrej Hv Hns. unfold serve. rewrite Hrej, Hauth.
  rewrite (authenticate_pass_complete _ _ _ _ Ha Hadm Hv).
  destruct k as [|q| | | |dbs|]; cbn [inner sufficient] in *; rewrite ?Ha; cbn [negb]; try (exfalso; apply Hns; exact I).
  - destruct (authorize_query u (rq_db rq) q) eqn:E; [|reflexivity]. exfalso. apply Hns. apply authorize_query_spec in E. exact E.
  - destruct (authorize_database u WritePriv (rq_db rq)) eqn:E; [|reflexivity]. exfalso. apply Hns. apply authorize_database_spec. exact E.
  - destruct (u_admin u) eqn:E; [|reflexivity]. exfalso. apply Hns. reflexivity.
  - destruct (can_see u (rq_db rq)) eqn:E; [|reflexivity]. exfalso. apply Hns. apply can_see_iff. exact E.
Qed.

(* and sufficient credentials are accepted: the handler's effect happens *)
Lemma sufficient_accepted_lemma : forall sh cfg us r k rq u,
  auth_enabled cfg = true -> admin_exists us = true -> authenticated sh r = true -> always_rejects r = false ->
  valid_creds cfg us (rq_creds rq) u -> sufficient u k rq -> k <> KPublic ->
  snd (serve sh cfg us r k rq) <> [] /\ fst (serve sh cfg us r k rq) <> 401 /\ fst (serve sh cfg us r k rq) <> 403.
Proof.
  intros sh cfg us r k rq u Ha Hadm Hauth Hrej Hv Hs Hk. unfold serve. rewrite Hrej, Hauth.
  rewrite (authenticate_pass_complete _ _ _ _ Ha Hadm Hv).
  destruct k as [|q| | | |dbs|]; cbn [inner sufficient] in *; rewrite ?Ha; cbn [negb]; try congruence.
  - apply authorize_query_spec in Hs. rewrite Hs. cbn. repeat split; congruence.
  - apply authorize_database_spec in Hs. rewrite Hs. cbn. repeat split; congruence.
  - rewrite Hs. cbn. repeat split; congruence.
  - apply can_see_iff in Hs. rewrite Hs. cbn. repeat split; congruence.
  - cbn. repeat split; congruence.
  - cbn. repeat split; congruence.
Qed.

(* ---- the unauthenticated signature: today's /failpoint ---- *)
Definition no_creds : creds_in := mk_creds_in "" "" HNone.

Lemma plain_route_runs_for_anyone : forall sh cfg us r k rq,
  authenticated sh r = false -> always_rejects r = false -> wrap_for (s_rules sh) (r_sig r) None <> None ->
  serve sh cfg us r k rq = inner_plain k rq.
Proof.
  intros sh cfg us r k rq H1 H2 H3. unfold serve. rewrite H2, H1.
  destruct (wrap_for (s_rules sh) (r_sig r) None); [reflexivity|congruence].
Qed.

(* ---- grant / revoke ---- *)
Definition authorize_by_name (us : list user) (n : string) (p : priv) (d : string) : bool :=
  match find_user us n with Some u => authorize_database u p d | None => false end.

Lemma lookup_set_key_same : forall A (l : list (string * A)) k v, lookup (set_key l k v) k = Some v.
Proof.
  induction l as [|[k' v'] l IH]; intros k v; cbn [set_key lookup].
  - rewrite String.eqb_refl. reflexivity.
  - destruct (k' =? k)%string eqn:E; cbn [lookup]; [rewrite String.eqb_refl; reflexivity|rewrite E; apply IH].
Qed.

Lemma lookup_set_key_other : forall A (l : list (string * A)) k v k', k' <> k -> lookup (set_key l k v) k' = lookup l k'.
Proof.
  induction l as [|[k0 v0] l IH]; intros k v k' Hne; cbn [set_key lookup].
  - assert ((k =? k')%string = false) as ->; [apply str_eqb_false; congruence|reflexivity].
  - destruct (k0 =? k)%string eqn:E; cbn [lookup].
    + apply String.eqb_eq in E. subst k0.
      assert ((k =? k')%string = false) as ->; [apply str_eqb_false; congruence|reflexivity].
    + destruct (k0 =? k')%string; [reflexivity|apply IH; exact Hne].
Qed.

Lemma find_user_set_privilege : forall us n d p n',
  find_user (set_privilege us n d p) n' =
  match find_user us n' with
  | Some u => Some (if (u_name u =? n)%string then set_priv_user u d p else u)
  | None => None
  end.
Proof.
  induction us as [|u us IH]; intros n d p n'; cbn [set_privilege find_user]; [reflexivity|].
  destruct (u_name u =? n)%string eqn:E; cbn [find_user set_priv_user u_name].
  - destruct (u_name u =? n')%string eqn:E'; [rewrite E; reflexivity|].
    (* the rest of the list is untouched, and it contains no earlier user named n at the head *)
    destruct (find_user us n') as [u'|] eqn:F; [|reflexivity].
    (* u' may itself be named n: set_privilege stopped at the first one, so u' is unchanged; this case needs
       n' = n which contradicts E and E' *)
    destruct (u_name u' =? n)%string eqn:E2; [|reflexivity].
    exfalso. apply String.eqb_eq in E. apply String.eqb_eq in E2. apply str_eqb_false in E'.
    assert (u_name u' = n') as X.
    { clear - F. induction us as [|x us IH]; cbn [find_user] in F; [discriminate|].
      destruct (u_name x =? n')%string eqn:Q; [inversion F; subst; apply String.eqb_eq; exact Q|apply IH; exact F]. }
    congruence.
  - destruct (u_name u =? n')%string eqn:E'; [rewrite E; reflexivity|apply IH].
Qed.

Lemma find_user_name : forall us n u, find_user us n = Some u -> u_name u = n.
Proof.
  induction us as [|x us IH]; intros n u F; cbn [find_user] in F; [discriminate|].
  destruct (u_name x =? n)%string eqn:Q; [inversion F; subst; apply String.eqb_eq; exact Q|apply IH; exact F].
Qed.

(* setting user n's privilege on d changes the answer for no other (user, database) pair *)
Lemma set_privilege_exact : forall us n d p n' d' q,
  n' <> n \/ d' <> d ->
  authorize_by_name (set_privilege us n d p) n' q d' = authorize_by_name us n' q d'.
Proof.
  intros us n d p n' d' q H. unfold authorize_by_name. rewrite find_user_set_privilege.
  destruct (find_user us n') as [u|] eqn:F; [|reflexivity].
  destruct (u_name u =? n)%string eqn:E; [|reflexivity].
  apply String.eqb_eq in E. pose proof (find_user_name _ _ _ F) as X.
  destruct H as [H|H]; [congruence|].
  unfold authorize_database, set_priv_user. cbn [u_admin u_rw u_privs]. rewrite lookup_set_key_other; [reflexivity|exact H].
Qed.

(* and for that pair the answer becomes exactly what the new privilege says *)
Lemma set_privilege_effect : forall us n d p u q,
  find_user us n = Some u -> u_admin u = false -> u_rw u = false ->
  authorize_by_name (set_privilege us n d p) n q d = priv_eqb q NoPriv || (priv_eqb p q || priv_eqb p AllPriv).
Proof.
  intros us n d p u q F Hna Hnr. unfold authorize_by_name. rewrite find_user_set_privilege, F.
  rewrite (find_user_name _ _ _ F), String.eqb_refl.
  unfold authorize_database, set_priv_user. cbn [u_admin u_rw u_privs]. rewrite Hna, Hnr, lookup_set_key_same. reflexivity.
Qed.

(* credentials, administrator flag and the set of names are untouched by GRANT / REVOKE *)
Lemma set_privilege_admin_exists : forall us n d p, admin_exists (set_privilege us n d p) = admin_exists us.
Proof.
  induction us as [|u us IH]; intros n d p; cbn [set_privilege]; [reflexivity|].
  destruct (u_name u =? n)%string; unfold admin_exists in *; cbn [existsb set_priv_user u_admin]; [reflexivity|].
  rewrite IH. reflexivity.
Qed.

Lemma grant_revoke_exact_lemma : forall us n d p n' d' q,
  n' <> n \/ d' <> d ->
  authorize_by_name (grant us n d p) n' q d' = authorize_by_name us n' q d' /\
  authorize_by_name (revoke us n d p) n' q d' = authorize_by_name us n' q d'.
Proof. intros. unfold grant, revoke. split; apply set_privilege_exact; assumption. Qed.

Lemma revoke_effect_lemma : forall us n d p u,
  find_user us n = Some u -> u_admin u = false -> u_rw u = false -> p <> NoPriv ->
  authorize_by_name (revoke us n d p) n p d = false.
Proof.
  intros us n d p u F Hna Hnr Hp. unfold revoke. rewrite (set_privilege_effect _ _ _ _ _ _ F Hna Hnr).
  destruct p; [congruence| | |reflexivity]; destruct (user_priv us n d); reflexivity.
Qed.

(* ------------------------------------------------------------------------------------------------------------ *)
(* Part C: RequiredPrivileges table *)
From OG Require Import C19.Privileges C19.Gen_Privileges.

Lemma required_privileges_match_check :
  list_eqb stmt_priv_eqb gen_privs model_privs || list_eqb stmt_priv_eqb gen_privs model_privs_repaired = true.
Proof. vm_compute. reflexivity. Qed.



(* a statement whose requirement list contains an Admin entry is refused for every non-administrator *)
Lemma admin_requirement_refuses : forall u dflt s, In RAdmin s -> u_admin u = false -> u_rw u = false -> authorize_query u dflt [s] = false.
Proof.
  intros u dflt s Hin Hna Hnr. unfold authorize_query. rewrite Hna. cbn [orb forallb]. rewrite andb_true_r.
  unfold authorize_stmt. rewrite Hnr. unfold authorize_stmt_plain. destruct (forallb _ s) eqn:E; [|reflexivity].
  rewrite forallb_forall in E. specialize (E RAdmin Hin). discriminate.
Qed.

(* every requirement of the list must hold: one missing privilege refuses the statement *)
Lemma every_requirement_must_hold : forall u dflt s d p,
  In (RDb d p) s -> u_admin u = false -> authorize_database u p (target_db d dflt) = false ->
  authorize_query u dflt [s] = false.
Proof.
  intros u dflt s d p Hin Hna Hno. unfold authorize_query. rewrite Hna. cbn [orb forallb]. rewrite andb_true_r.
  assert (u_rw u = false) as Hnr.
  { unfold authorize_database in Hno. destruct (u_rw u); [|reflexivity]. rewrite orb_true_r in Hno. discriminate. }
  unfold authorize_stmt. rewrite Hnr. unfold authorize_stmt_plain. destruct (forallb _ s) eqn:E; [|reflexivity].
  rewrite forallb_forall in E. specialize (E _ Hin). cbn in E. congruence.
Qed.

(* statement types that are administrator-only in the table *)
Definition admin_only_type (ty : string) : bool :=
  match required_of model_privs ty "" with Some s => existsb (fun r => match r with RAdmin | RAdminRw => true | _ => false end) s | None => false end.
Lemma admin_only_types_check :
  forallb admin_only_type ["CreateDatabaseStatement"; "DropDatabaseStatement"; "CreateUserStatement"; "DropUserStatement";
    "GrantStatement"; "GrantAdminStatement"; "RevokeStatement"; "RevokeAdminStatement"; "SetPasswordUserStatement";
    "ShowUsersStatement"; "ShowGrantsForUserStatement"; "CreateRetentionPolicyStatement"; "AlterRetentionPolicyStatement";
    "DropMeasurementStatement"; "DropShardStatement"; "KillQueryStatement"; "ShowShardsStatement"; "ShowStatsStatement";
    "ShowDiagnosticsStatement"; "CreateMeasurementStatement"; "SetConfigStatement"; "ShowConfigsStatement"] = true.
Proof. vm_compute. reflexivity. Qed.

(* ------------------------------------------------------------------------------------------------------------ *)
(* GRANT / REVOKE at the level of `serve` *)
Definition stmt_mentions (db d : string) (s : stmt) : bool :=
  existsb (fun rp => match rp with RDb d0 _ => String.eqb (target_db d0 db) d | _ => false end) s.
(* does handling the request consult the privilege on database d ? *)
Definition mentionsb (k : rkind) (rq : request) (d : string) : bool :=
  match k with
  | KQuery q => existsb (stmt_mentions (rq_db rq) d) q
  | KWrite => String.eqb (rq_db rq) d
  | KRepoSee => String.eqb (rq_db rq) d
  | KListRepos dbs => mem d dbs
  | _ => false
  end.

Definition upd_user (n d : string) (p : priv) (u : user) : user :=
  if (u_name u =? n)%string then set_priv_user u d p else u.
Definition map_auth (f : user -> user) (r : auth_result) : auth_result :=
  match r with Pass (Some u) => Pass (Some (f u)) | x => x end.

Lemma authorize_database_other_db : forall u d p q d', d' <> d ->
  authorize_database (set_priv_user u d p) q d' = authorize_database u q d'.
Proof.
  intros. unfold authorize_database, set_priv_user. cbn [u_admin u_rw u_privs]. rewrite lookup_set_key_other; [reflexivity|assumption].
Qed.

Lemma can_see_other_db : forall u d p d', d' <> d -> can_see (set_priv_user u d p) d' = can_see u d'.
Proof. intros. unfold can_see. rewrite !authorize_database_other_db by assumption. reflexivity. Qed.

Lemma mem_false_neq : forall x l y, mem x l = false -> In y l -> y <> x.
Proof.
  intros x l y H Hin E. subst y. unfold mem in H.
  assert (existsb (String.eqb x) l = true) as X. { apply existsb_exists. exists x. split; [exact Hin|apply String.eqb_refl]. }
  congruence.
Qed.

Lemma visible_unmentioned : forall u d p dbs, mem d dbs = false ->
  visible_repositories (set_priv_user u d p) dbs = visible_repositories u dbs.
Proof.
  intros u d p dbs H. unfold visible_repositories. apply filter_ext_in. intros x Hx.
  apply can_see_other_db. exact (mem_false_neq _ _ _ H Hx).
Qed.

Lemma authorize_stmt_unmentioned : forall u d p db s, stmt_mentions db d s = false ->
  authorize_stmt (set_priv_user u d p) db s = authorize_stmt u db s.
Proof.
  intros u d p db s. unfold authorize_stmt. cbn [set_priv_user u_rw]. destruct (u_rw u); [reflexivity|].
  unfold authorize_stmt_plain, stmt_mentions. induction s as [|rp s IH]; intro H; [reflexivity|].
  cbn [existsb forallb] in *. apply orb_false_iff in H. destruct H as [H1 H2]. rewrite (IH H2).
  destruct rp as [| |d0 q| | |]; try reflexivity. apply str_eqb_false in H1.
  rewrite authorize_database_other_db; [reflexivity|exact H1].
Qed.

Lemma inner_unmentioned : forall cfg k rq u d p, mentionsb k rq d = false ->
  inner cfg k rq (Some (set_priv_user u d p)) = inner cfg k rq (Some u).
Proof.
  intros cfg k rq u d p H. destruct k as [|q| | | |dbs|]; cbn [inner mentionsb] in *; try reflexivity.
  - destruct (negb (auth_enabled cfg)); [reflexivity|].
    assert (authorize_query (set_priv_user u d p) (rq_db rq) q = authorize_query u (rq_db rq) q) as ->; [|reflexivity].
    unfold authorize_query. cbn [set_priv_user u_admin]. f_equal.
    induction q as [|s q IH]; [reflexivity|]. cbn [existsb forallb] in *. apply orb_false_iff in H. destruct H as [H1 H2].
    rewrite (IH H2), (authorize_stmt_unmentioned _ _ _ _ _ H1). reflexivity.
  - destruct (negb (auth_enabled cfg)); [reflexivity|]. apply str_eqb_false in H.
    rewrite authorize_database_other_db; [reflexivity|exact H].
  - destruct (negb (auth_enabled cfg)); [reflexivity|]. apply str_eqb_false in H.
    rewrite can_see_other_db; [reflexivity|exact H].
  - destruct (negb (auth_enabled cfg)); [reflexivity|]. rewrite visible_unmentioned; [reflexivity|exact H].
Qed.

Lemma set_privilege_admin_exists' : forall us n d p, admin_exists (set_privilege us n d p) = admin_exists us.
Proof. exact set_privilege_admin_exists. Qed.

Lemma upd_user_name : forall n d p u, u_name (upd_user n d p u) = u_name u.
Proof. intros. unfold upd_user. destruct (u_name u =? n)%string; reflexivity. Qed.
Lemma upd_user_pass : forall n d p u, u_pass (upd_user n d p u) = u_pass u.
Proof. intros. unfold upd_user. destruct (u_name u =? n)%string; reflexivity. Qed.

Lemma authenticate_set_privilege : forall cfg us n d p c,
  authenticate cfg (set_privilege us n d p) c = map_auth (upd_user n d p) (authenticate cfg us c).
Proof.
  intros cfg us n d p c. unfold authenticate. rewrite set_privilege_admin_exists.
  destruct (negb (auth_enabled cfg)); [reflexivity|]. destruct (negb (admin_exists us)); [reflexivity|].
  destruct (parse_credentials c) as [cr|]; [|reflexivity].
  unfold authenticate_creds. destruct (cr_method cr); [| |reflexivity].
  - destruct (cr_user cr =? "")%string; [reflexivity|]. destruct (mem (cr_user cr) (locked cfg)); [reflexivity|].
    rewrite find_user_set_privilege. destruct (find_user us (cr_user cr)) as [u|]; [|reflexivity].
    fold (upd_user n d p u). rewrite upd_user_pass. destruct (u_pass u =? cr_pass cr)%string; reflexivity.
  - destruct (negb (shared_secret_set cfg)); [reflexivity|]. destruct (cr_token cr) as [t|]; [|reflexivity].
    destruct (negb (tk_valid t)); [reflexivity|]. destruct (negb (tk_has_exp t)); [reflexivity|].
    destruct (tk_user t) as [m|]; [|reflexivity]. destruct (m =? "")%string; [reflexivity|].
    rewrite find_user_set_privilege. destruct (find_user us m) as [u|]; reflexivity.
Qed.

(* setting user n's privilege on database d leaves the answer of `serve` unchanged for every request that is not made
   by n, and for every request whose handling does not consult the privilege on d *)
Lemma serve_set_privilege_exact : forall sh cfg us r k rq n d p,
  (forall u, authenticate cfg us (rq_creds rq) = Pass (Some u) -> u_name u <> n) \/ mentionsb k rq d = false ->
  serve sh cfg (set_privilege us n d p) r k rq = serve sh cfg us r k rq.
Proof.
  intros sh cfg us r k rq n d p H. unfold serve. destruct (always_rejects r); [reflexivity|].
  destruct (authenticated sh r); [|reflexivity]. rewrite authenticate_set_privilege.
  destruct (authenticate cfg us (rq_creds rq)) as [st|[u|]|st] eqn:E; cbn [map_auth]; try reflexivity.
  unfold upd_user. destruct (u_name u =? n)%string eqn:En; [|reflexivity].
  destruct H as [H|H].
  - exfalso. apply (H u eq_refl). apply String.eqb_eq. exact En.
  - apply inner_unmentioned. exact H.
Qed.

Lemma serve_grant_revoke_exact_lemma : forall sh cfg us r k rq n d p,
  (forall u, authenticate cfg us (rq_creds rq) = Pass (Some u) -> u_name u <> n) \/ mentionsb k rq d = false ->
  serve sh cfg (grant us n d p) r k rq = serve sh cfg us r k rq /\
  serve sh cfg (revoke us n d p) r k rq = serve sh cfg us r k rq.
Proof. intros. unfold grant, revoke. split; apply serve_set_privilege_exact; assumption. Qed.

(* ... and for the user and database concerned the answer becomes what the new privilege says: after GRANT p a read
   (write) request of a non-administrator n on d is served iff p covers it *)
Lemma serve_after_grant : forall sh cfg us r n d p u c want,
  auth_enabled cfg = true -> admin_exists us = true -> authenticated sh r = true -> always_rejects r = false ->
  authenticate cfg us c = Pass (Some u) -> u_name u = n -> u_admin u = false -> u_rw u = false -> want <> NoPriv ->
  fst (serve sh cfg (grant us n d p) r (KQuery [[RDb "" want]]) (mk_request c d)) =
    if priv_eqb p want || priv_eqb p AllPriv then 200 else 403.
Proof.
  intros sh cfg us r n d p u c want Ha Hadm Hauth Hrej E Hn Hna Hnr Hw. unfold serve, grant. rewrite Hrej, Hauth.
  rewrite authenticate_set_privilege. cbn [rq_creds]. rewrite E. cbn [map_auth]. unfold upd_user. rewrite Hn, String.eqb_refl.
  cbn [inner]. rewrite Ha. cbn [negb]. unfold authorize_query, authorize_stmt. cbn [set_priv_user u_admin u_rw forallb rq_db].
  rewrite Hna, Hnr. unfold authorize_stmt_plain. cbn [orb forallb]. unfold target_db. cbn [String.eqb]. unfold authorize_database.
  cbn [set_priv_user u_admin u_rw u_privs].
  rewrite Hna, Hnr, lookup_set_key_same. cbn [orb].
  assert (priv_eqb want NoPriv = false) as ->. { destruct want; try reflexivity. congruence. }
  cbn [orb]. rewrite !andb_true_r. destruct (priv_eqb p want || priv_eqb p AllPriv); reflexivity.
Qed.

(* ------------------------------------------------------------------------------------------------------------ *)
(* Log-store listings: GET /api/v1/repository returns exactly the repositories the user may read or write *)

Lemma listing_exact_lemma : forall u dbs d,
  In d (visible_repositories u dbs) <-> In d dbs /\ (has_priv u ReadPriv d \/ has_priv u WritePriv d).
Proof.
  intros u dbs d. unfold visible_repositories. rewrite filter_In, can_see_iff. unfold can_see_spec. tauto.
Qed.

Lemma listing_nodup_lemma : forall u dbs, NoDup dbs -> NoDup (visible_repositories u dbs).
Proof. intros u dbs H. unfold visible_repositories. apply NoDup_filter. exact H. Qed.

(* order is kept: the listing is the catalogue with the invisible entries removed, nothing else *)
Lemma listing_cons_lemma : forall u d dbs,
  visible_repositories u (d :: dbs) = if can_see u d then d :: visible_repositories u dbs else visible_repositories u dbs.
Proof. reflexivity. Qed.

Lemma listing_served_lemma : forall sh cfg us r dbs rq u,
  auth_enabled cfg = true -> admin_exists us = true -> authenticated sh r = true -> always_rejects r = false ->
  valid_creds cfg us (rq_creds rq) u ->
  serve sh cfg us r (KListRepos dbs) rq = (200, [EffList (visible_repositories u dbs)]).
Proof.
  intros sh cfg us r dbs rq u Ha Hadm Hauth Hrej Hv. unfold serve. rewrite Hrej, Hauth.
  rewrite (authenticate_pass_complete _ _ _ _ Ha Hadm Hv). cbn [inner]. rewrite Ha. reflexivity.
Qed.

Lemma admin_sees_all_lemma : forall u dbs, u_admin u = true -> visible_repositories u dbs = dbs.
Proof.
  intros u dbs H. unfold visible_repositories. induction dbs as [|d dbs IH]; [reflexivity|].
  cbn [filter]. unfold can_see at 1, authorize_database. rewrite H. cbn [orb]. rewrite IH. reflexivity.
Qed.

Lemma nobody_sees_nothing_lemma : forall u dbs, u_admin u = false -> u_rw u = false -> u_privs u = [] ->
  visible_repositories u dbs = [].
Proof.
  intros u dbs Ha Hr Hp. unfold visible_repositories. induction dbs as [|d dbs IH]; [reflexivity|].
  cbn [filter]. unfold can_see at 1, authorize_database. rewrite Ha, Hr, Hp. cbn. exact IH.
Qed.

(* what user n sees after its privilege on d was set to p: d iff p is not the empty privilege, every other repository
   as before *)
Definition see_after (u : user) (d : string) (p : priv) (x : string) : bool :=
  if String.eqb x d then negb (priv_eqb p NoPriv) else can_see u x.

Lemma can_see_set_same : forall u d p, u_admin u = false -> u_rw u = false ->
  can_see (set_priv_user u d p) d = negb (priv_eqb p NoPriv).
Proof.
  intros u d p Ha Hr. unfold can_see, authorize_database, set_priv_user. cbn [u_admin u_rw u_privs].
  rewrite Ha, Hr, lookup_set_key_same. destruct p; reflexivity.
Qed.

Lemma visible_after_set : forall u d p dbs, u_admin u = false -> u_rw u = false ->
  visible_repositories (set_priv_user u d p) dbs = filter (see_after u d p) dbs.
Proof.
  intros u d p dbs Ha Hr. unfold visible_repositories. apply filter_ext. intro x. unfold see_after.
  destruct (String.eqb x d) eqn:E.
  - apply String.eqb_eq in E. subst x. apply can_see_set_same; assumption.
  - apply can_see_other_db. apply str_eqb_false. exact E.
Qed.

Lemma listing_after_grant_lemma : forall sh cfg us r n d p u c x dbs,
  auth_enabled cfg = true -> admin_exists us = true -> authenticated sh r = true -> always_rejects r = false ->
  authenticate cfg us c = Pass (Some u) -> u_name u = n -> u_admin u = false -> u_rw u = false ->
  serve sh cfg (grant us n d p) r (KListRepos dbs) (mk_request c x) = (200, [EffList (filter (see_after u d p) dbs)]).
Proof.
  intros sh cfg us r n d p u c x dbs Ha Hadm Hauth Hrej E Hn Hna Hnr. unfold serve, grant. rewrite Hrej, Hauth.
  rewrite authenticate_set_privilege. cbn [rq_creds]. rewrite E. cbn [map_auth]. unfold upd_user. rewrite Hn, String.eqb_refl.
  cbn [inner]. rewrite Ha. cbn [negb]. rewrite visible_after_set by assumption. reflexivity.
Qed.

(* ------------------------------------------------------------------------------------------------------------ *)
(* Accounts with partition privileges (UserInfo.Rwuser) *)

Lemma rw_authorize_database : forall u p d, u_rw u = true -> authorize_database u p d = true.
Proof. intros u p d H. unfold authorize_database. rewrite H. rewrite orb_true_r. reflexivity. Qed.

Lemma rw_sees_all : forall u dbs, u_rw u = true -> visible_repositories u dbs = dbs.
Proof.
  intros u dbs H. unfold visible_repositories. induction dbs as [|d dbs IH]; [reflexivity|].
  cbn [filter]. unfold can_see at 1. rewrite (rw_authorize_database _ _ _ H). cbn [orb]. rewrite IH. reflexivity.
Qed.

(* per-database privileges mean nothing for such an account: GRANT / REVOKE never changes what it may do *)
Lemma rw_privileges_irrelevant : forall cfg k rq u d p, u_rw u = true ->
  inner cfg k rq (Some (set_priv_user u d p)) = inner cfg k rq (Some u).
Proof.
  intros cfg k rq u d p H.
  assert (u_rw (set_priv_user u d p) = true) as H' by exact H.
  destruct k as [|q| | | |dbs|]; cbn [inner]; try reflexivity; destruct (negb (auth_enabled cfg)); try reflexivity.
  - assert (authorize_query (set_priv_user u d p) (rq_db rq) q = authorize_query u (rq_db rq) q) as ->; [|reflexivity].
    unfold authorize_query. cbn [set_priv_user u_admin]. f_equal. induction q as [|s q IH]; [reflexivity|].
    cbn [forallb]. rewrite IH. unfold authorize_stmt. cbn [set_priv_user u_rw]. rewrite H. reflexivity.
  - rewrite !rw_authorize_database by assumption. reflexivity.
  - unfold can_see. rewrite !rw_authorize_database by assumption. reflexivity.
  - rewrite !rw_sees_all by assumption. reflexivity.
Qed.

(* it is not an administrator: the control endpoints refuse it *)
Lemma rw_not_unrestricted : forall cfg rq u, auth_enabled cfg = true -> u_admin u = false ->
  inner cfg KAdminOnly rq (Some u) = (403, []).
Proof. intros cfg rq u Ha Hna. cbn [inner]. rewrite Ha, Hna. reflexivity. Qed.

(* statements: an entry without the Rwuser flag refuses it unless the statement's own case lets it through *)
Lemma rw_refused_by_unflagged_entry : forall u db s, u_rw u = true -> u_admin u = false ->
  In RAdmin s -> ~ In RRwAllow s -> authorize_query u db [s] = false.
Proof.
  intros u db s Hr Ha Hin Hno. unfold authorize_query. rewrite Ha. cbn [orb forallb]. rewrite andb_true_r.
  unfold authorize_stmt. rewrite Hr. destruct (authorize_stmt_rw s) eqn:E; [|reflexivity].
  apply authorize_stmt_rw_spec in E. destruct E as [X|[_ [X _]]]; contradiction.
Qed.

Lemma rw_refused_by_case : forall u db s, u_rw u = true -> u_admin u = false ->
  In RRwDeny s -> ~ In RRwAllow s -> authorize_query u db [s] = false.
Proof.
  intros u db s Hr Ha Hin Hno. unfold authorize_query. rewrite Ha. cbn [orb forallb]. rewrite andb_true_r.
  unfold authorize_stmt. rewrite Hr. destruct (authorize_stmt_rw s) eqn:E; [|reflexivity].
  apply authorize_stmt_rw_spec in E. destruct E as [X|[X _]]; contradiction.
Qed.

Lemma rw_database_statements_allowed : forall u db s, u_rw u = true ->
  (forall rp, In rp s -> exists d p, rp = RDb d p) -> authorize_query u db [s] = true.
Proof.
  intros u db s Hr Hall. unfold authorize_query. apply orb_true_iff. right. cbn [forallb]. rewrite andb_true_r.
  unfold authorize_stmt. rewrite Hr. apply authorize_stmt_rw_spec. right. repeat split; intro X; destruct (Hall _ X) as (d & p & E); discriminate.
Qed.

(* the markers mean nothing for an ordinary user *)
Lemma markers_ignored_by_plain : forall u db s m, u_rw u = false -> (m = RRwAllow \/ m = RRwDeny) ->
  authorize_stmt u db (s ++ [m])%list = authorize_stmt u db s.
Proof.
  intros u db s m Hr Hm. unfold authorize_stmt. rewrite Hr. unfold authorize_stmt_plain. rewrite forallb_app. cbn [forallb].
  destruct Hm as [-> | ->]; rewrite !andb_true_r; reflexivity.
Qed.

Lemma rwuser_rules_match_check : list_eqb rwrule_eqb gen_rw_rules model_rw_rules = true /\
  find_rwrule model_rw_rules "<tail>" = Some rw_tail_expected.
Proof. vm_compute. split; reflexivity. Qed.

(* cardinality statements. Repaired table: without a FROM clause every one of them asks for read on its database, so a
   user without that privilege is refused; with sources it asks for read on the database of every source *)
Lemma card_repaired_no_source_check :
  forallb (fun ty => forallb (fun exact =>
     match card_rule model_privs_repaired ty exact "d" [] with Some [RDb "d" ReadPriv] => true | _ => false end) [true; false])
  cardinality_types = true.
Proof. vm_compute. reflexivity. Qed.

Lemma card_rule_db_generic : forall tbl ty exact d d' srcs,
  card_rule tbl ty exact d srcs = None -> card_rule tbl ty exact d' srcs = None.
Proof.
  intros tbl ty exact d d' srcs. unfold card_rule. destruct (find_stmt_priv tbl ty) as [sp|]; [|reflexivity].
  destruct (negb (delegates_to_sources sp)); [reflexivity|].
  destruct (real_entries sp) as [|e [|e2 l]]; try reflexivity; try discriminate.
  destruct (has_db_read_entry sp "!s.Exact || len(s.Sources) == 0"); [discriminate|].
  destruct (has_db_read_entry sp "!s.Exact"); [discriminate|].
  destruct (has_db_read_entry sp "len(s.Sources) == 0"); [discriminate|]. reflexivity.
Qed.

(* the rule never depends on the name of the database except through the entry it produces *)
Lemma card_repaired_no_source : forall ty exact d, In ty cardinality_types ->
  card_rule model_privs_repaired ty exact d [] = Some [RDb d ReadPriv].
Proof.
  intros ty exact d Hin. unfold cardinality_types in Hin.
  repeat (destruct Hin as [<-|Hin]; [destruct exact; vm_compute; reflexivity|]). destruct Hin.
Qed.

Lemma card_repaired_refuses : forall ty exact d dflt u, In ty cardinality_types ->
  u_admin u = false -> authorize_database u ReadPriv (target_db d dflt) = false ->
  match card_rule model_privs_repaired ty exact d [] with
  | Some s => authorize_query u dflt [s] = false
  | None => False
  end.
Proof.
  intros ty exact d dflt u Hin Hna Hno. rewrite (card_repaired_no_source ty exact d Hin).
  apply (every_requirement_must_hold u dflt _ d ReadPriv); [left; reflexivity|assumption|assumption].
Qed.

(* ------------------------------------------------------------------------------------------------------------ *)
(* from the translated tables to the behaviour of the model: a route of the table with the authenticated signature is
   wrapped by authenticate, and if its handler facts say "administrator" (resp. "read or write on the repository") the
   kind that Corr.kind_supported accepts for it refuses everybody else *)
Lemma siguser_authenticated : forall r, r_sig r = SigUser -> authenticated shape_now r = true.
Proof.
  intros r H. unfold authenticated. rewrite H. pose proof shape_check as S. unfold shape_ok in S.
  repeat (apply andb_true_iff in S; destruct S as [S _]).
  destruct (wrap_for (s_rules shape_now) SigUser None) as [w|]; [|discriminate]. exact S.
Qed.

Lemma siguser_not_rejecting : forall r, r_sig r = SigUser -> always_rejects r = false.
Proof. intros r H. unfold always_rejects. rewrite H. reflexivity. Qed.

Lemma admin_routes_refuse_lemma : forall r cfg us rq u,
  In r routes -> r_sig r = SigUser ->
  auth_enabled cfg = true -> admin_exists us = true -> valid_creds cfg us (rq_creds rq) u -> u_admin u = false ->
  serve shape_now cfg us r KAdminOnly rq = (403, []).
Proof.
  intros r cfg us rq u _ Hs Ha Hadm Hv Hna.
  apply (insufficient_privilege_rejected_lemma shape_now cfg us r KAdminOnly rq u Ha Hadm
           (siguser_authenticated r Hs) (siguser_not_rejecting r Hs) Hv).
  cbn [sufficient]. congruence.
Qed.

Lemma see_routes_refuse_lemma : forall r cfg us rq u,
  In r routes -> r_sig r = SigUser ->
  auth_enabled cfg = true -> admin_exists us = true -> valid_creds cfg us (rq_creds rq) u ->
  ~ has_priv u ReadPriv (rq_db rq) -> ~ has_priv u WritePriv (rq_db rq) ->
  serve shape_now cfg us r KRepoSee rq = (403, []).
Proof.
  intros r cfg us rq u _ Hs Ha Hadm Hv Hnr Hnw.
  apply (insufficient_privilege_rejected_lemma shape_now cfg us r KRepoSee rq u Ha Hadm
           (siguser_authenticated r Hs) (siguser_not_rejecting r Hs) Hv).
  cbn [sufficient]. unfold can_see_spec. tauto.
Qed.

Lemma anonymous_refused_everywhere_lemma : forall r k cfg us rq,
  In r routes -> public r = false ->
  auth_enabled cfg = true -> admin_exists us = true -> (forall u, ~ valid_creds cfg us (rq_creds rq) u) ->
  snd (serve shape_now cfg us r k rq) = [] /\ (fst (serve shape_now cfg us r k rq) = 401 \/ fst (serve shape_now cfg us r k rq) = 403).
Proof.
  intros r k cfg us rq Hin Hp Ha Hadm Hno.
  destruct (all_nonpublic_authenticated_lemma r Hin Hp) as [Hau|Hrej].
  - destruct (always_rejects r) eqn:E.
    + unfold serve. rewrite E. split; [reflexivity|right; reflexivity].
    + rewrite (invalid_creds_rejected_lemma shape_now cfg us r k rq Ha Hadm Hau E Hno). split; [reflexivity|left; reflexivity].
  - unfold serve. rewrite Hrej. split; [reflexivity|right; reflexivity].
Qed.

(* ------------------------------------------------------------------------------------------------------------ *)
(* AuthorizeUnrestricted (translated formula) is the administrator flag: an account with partition privileges is refused
   by every handler that asks for the administrator *)
Lemma uexpr_is_admin_sound : forall e, uexpr_is_admin e = true -> forall adm rw, eval_uexpr e adm rw = Some adm.
Proof.
  intros e H adm rw. unfold uexpr_is_admin in H. repeat (apply andb_true_iff in H; destruct H as [H ?]).
  assert (forall o b, opt_bool_eqb o b = true -> o = Some b) as X.
  { intros o b. destruct o as [x|]; cbn; [|discriminate]. destruct x, b; cbn; congruence. }
  destruct adm, rw; apply X; assumption.
Qed.

Lemma unrestricted_check : uexpr_is_admin unrestricted_now = true.
Proof. vm_compute. reflexivity. Qed.

Lemma unrestricted_code_is_admin : forall u, eval_uexpr unrestricted_now (u_admin u) (u_rw u) = Some (u_admin u).
Proof. intro u. apply uexpr_is_admin_sound. exact unrestricted_check. Qed.

Lemma rwuser_refused_on_admin_routes_lemma : forall r cfg us rq u,
  In r routes -> r_sig r = SigUser ->
  auth_enabled cfg = true -> admin_exists us = true -> valid_creds cfg us (rq_creds rq) u -> u_rw u = true -> u_admin u = false ->
  eval_uexpr unrestricted_now (u_admin u) (u_rw u) = Some false /\
  serve shape_now cfg us r KAdminOnly rq = (403, []).
Proof.
  intros r cfg us rq u Hin Hs Ha Hadm Hv Hrw Hna. split.
  - rewrite unrestricted_code_is_admin. rewrite Hna. reflexivity.
  - exact (admin_routes_refuse_lemma r cfg us rq u Hin Hs Ha Hadm Hv Hna).
Qed.

(* checkAuthorization: ANY error of the authorizer refuses *)
Lemma check_authz_check : check_authz_returns_all_now = true.
Proof. vm_compute. reflexivity. Qed.

Lemma stmt_result_ok_iff : forall u db s, stmt_result u db s = AuthzOk <-> authorize_stmt u db s = true.
Proof.
  intros u db s. unfold stmt_result. destruct (authorize_stmt u db s); [tauto|].
  destruct (existsb is_invalid s && negb (u_rw u && existsb is_rwallow s)); split; discriminate.
Qed.

Lemma stmts_result_ok_iff : forall u db q, stmts_result u db q = AuthzOk <-> forallb (authorize_stmt u db) q = true.
Proof.
  intros u db q. induction q as [|s q IH]; cbn [stmts_result forallb]; [tauto|].
  destruct (stmt_result u db s) eqn:E.
  - apply stmt_result_ok_iff in E. rewrite E. cbn [andb]. exact IH.
  - assert (authorize_stmt u db s = false) as ->.
    { destruct (authorize_stmt u db s) eqn:F; [|reflexivity]. apply stmt_result_ok_iff in F. congruence. }
    cbn [andb]. split; discriminate.
  - assert (authorize_stmt u db s = false) as ->.
    { destruct (authorize_stmt u db s) eqn:F; [|reflexivity]. apply stmt_result_ok_iff in F. congruence. }
    cbn [andb]. split; discriminate.
Qed.

Lemma query_result_ok_iff : forall u db q, query_result u db q = AuthzOk <-> authorize_query u db q = true.
Proof.
  intros u db q. unfold query_result, authorize_query. destruct (u_admin u); cbn [orb]; [tauto|]. apply stmts_result_ok_iff.
Qed.

Lemma check_authorization_spec : forall u db q, check_authorization (query_result u db q) = authorize_query u db q.
Proof.
  intros u db q. destruct (authorize_query u db q) eqn:E.
  - apply query_result_ok_iff in E. rewrite E. reflexivity.
  - destruct (query_result u db q) eqn:F; try reflexivity. apply query_result_ok_iff in F. congruence.
Qed.

Lemma any_authorizer_error_refuses_lemma : forall sh cfg us r q rq u,
  auth_enabled cfg = true -> admin_exists us = true -> authenticated sh r = true -> always_rejects r = false ->
  valid_creds cfg us (rq_creds rq) u -> query_result u (rq_db rq) q <> AuthzOk ->
  serve sh cfg us r (KQuery q) rq = (403, []).
Proof.
  intros sh cfg us r q rq u Ha Hadm Hauth Hrej Hv Hne. unfold serve. rewrite Hrej, Hauth.
  rewrite (authenticate_pass_complete _ _ _ _ Ha Hadm Hv). cbn [inner]. rewrite Ha. cbn [negb].
  destruct (authorize_query u (rq_db rq) q) eqn:E; [|reflexivity]. apply query_result_ok_iff in E. contradiction.
Qed.

(* the error that is not an authorization error: RequiredPrivileges fails (invalid source) *)
Lemma invalid_source_is_other_error : forall u db s q,
  In RInvalid s -> u_admin u = false -> ~ In RRwAllow s -> query_result u db (s :: q) = AuthzOtherError.
Proof.
  intros u db s q Hin Hna Hno. unfold query_result. rewrite Hna. cbn [stmts_result].
  assert (existsb is_invalid s = true) as EI. { apply existsb_exists. exists RInvalid. split; [exact Hin|reflexivity]. }
  assert (existsb is_rwallow s = false) as EA.
  { destruct (existsb is_rwallow s) eqn:X; [|reflexivity]. apply existsb_rwallow in X. contradiction. }
  assert (authorize_stmt u db s = false) as EF.
  { unfold authorize_stmt. destruct (u_rw u).
    - unfold authorize_stmt_rw. rewrite EA.
      destruct (existsb is_rwdeny s); [reflexivity|].
      destruct (forallb _ s) eqn:F; [|reflexivity]. rewrite forallb_forall in F. specialize (F _ Hin). discriminate.
    - unfold authorize_stmt_plain. destruct (forallb _ s) eqn:F; [|reflexivity]. rewrite forallb_forall in F. specialize (F _ Hin). discriminate. }
  unfold stmt_result. rewrite EF, EI, EA. rewrite andb_false_r. reflexivity.
Qed.

(* a prefix rule that runs behind authenticate and asks for the administrator (repair of C19-debug-public): requests
   without valid credentials get 401 and valid non-administrators 403, nothing runs *)
Lemma authenticated_prefix_refuses_lemma : forall sh cfg g ps us path r k rq p,
  dispatch g ps path = Some p -> prefix_admin p = true ->
  auth_enabled cfg = true -> admin_exists us = true ->
  ((forall u, ~ valid_creds cfg us (rq_creds rq) u) -> serve_path sh cfg g ps us path r k rq = (401, [])) /\
  (forall u, valid_creds cfg us (rq_creds rq) u -> u_admin u = false -> serve_path sh cfg g ps us path r k rq = (403, [])).
Proof.
  intros sh cfg g ps us path r k rq p Hd Hp Ha Hadm. unfold serve_path. rewrite Hd, Hp. split.
  - intro Hno. pose (r0 := mk_route "p" "GET" path "" SigUser "").
    pose proof (invalid_creds_rejected_lemma (mk_shape [mk_wrap SigUser WrapAuth auth_flag] 0 true 0 true 1 0) cfg us r0 KAdminOnly rq Ha Hadm
                  eq_refl eq_refl Hno) as X.
    unfold serve in X. cbn [always_rejects r0 r_sig hsig_eqb] in X.
    change (authenticated (mk_shape [mk_wrap SigUser WrapAuth auth_flag] 0 true 0 true 1 0) r0) with true in X. exact X.
  - intros u Hv Hna. rewrite (authenticate_pass_complete _ _ _ _ Ha Hadm Hv). cbn [inner]. rewrite Ha, Hna. reflexivity.
Qed.

(* ------------------------------------------------------------------------------------------------------------ *)
(* guard formulas: the kind derived from the source for the routes the statement names, and the formulas cover the table *)
Lemma expected_dkinds_check : forallb (expected_dkind_ok handler_formulas) expected_dkinds = true.
Proof. vm_compute. reflexivity. Qed.

Definition has_formula_row (r : route) : bool :=
  negb (hsig_eqb (r_sig r) SigUser) ||
  match find_formula handler_formulas (r_method r) (r_pattern r) with Some _ => true | None => false end.
Lemma formulas_cover_routes_check : forallb has_formula_row routes = true.
Proof. vm_compute. reflexivity. Qed.

Lemma find_formula_derive_admin : forall m p g cfg u rq q o,
  find_formula handler_formulas m p = Some g -> derive g = DAdmin ->
  geval (mk_genv (base_of cfg u (rq_db rq) q) o) g = acts (inner cfg KAdminOnly rq u).
Proof.
  intros m p g cfg u rq q o _ Hd. pose proof (derive_sound g) as S. rewrite Hd in S. exact (S cfg u rq q o).
Qed.

Lemma auth_refresh_check : auth_refresh_with_every_update_now = true.
Proof. vm_compute. reflexivity. Qed.
