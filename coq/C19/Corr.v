(* C19 correspondence evaluator: runs the model `serve` (over the table and shapes translated in this run) on the
   cases the black-box harness executed against the running server and reports the disagreeing case numbers. *)
From Coq Require Import String List Bool NArith.
From OG Require Import C19.Model C19.Guards C19.Gen_Routes C19.Privileges C19.Gen_Privileges.
Import ListNotations.
Open Scope string_scope.
Open Scope N_scope.

(* status class: 0 = 401, 1 = 403, 2 = anything else (the handler answered). The harness reports 3 for "another 4xx / 5xx"
   only on cases it marks loose (handlers whose validation of path or body may answer before or after the privilege
   check): there a refusal by the model (403) and an acceptance by the model both agree with an observed other error status as
   long as the model does not say 401. *)
Definition cls (st : N) : N := if st =? 401 then 0 else if st =? 403 then 1 else 2.

Record case := mk_case {
  cs_route : nat;          (* index into Gen_Routes.routes *)
  cs_kind : rkind;
  cs_cfg : config;
  cs_users : list user;
  cs_rq : request;
  cs_obs : N;              (* observed status class *)
  cs_effect : N;           (* observed effect: 0 none, 1 some, 2 not observable for this case *)
  cs_loose : bool }.

(* the kind the harness claims for a route must be what the handler facts translated from the source say *)
Definition kind_guards (k : rkind) : list string :=
  match k with
  | KAdminOnly => g_admin
  | KWrite => ["write"]
  | KQuery _ => ["query"]
  | KRepoSee | KListRepos _ => g_see
  | _ => []
  end.
(* the kind derived from the route's guard formula (DUnknown when there is no row) *)
(* computed once, when this file is compiled against the tables of the run *)
Definition derived_tab : list (string * string * dkind) :=
  Eval vm_compute in map (fun f => (f_method f, f_pattern f, derive (f_formula f))) handler_formulas.
Fixpoint find_derived (t : list (string * string * dkind)) (m p : string) : dkind :=
  match t with
  | [] => DUnknown
  | (m', p', d) :: r => if String.eqb m' m && String.eqb p' p then d else find_derived r m p
  end.
Definition derived_of (r : route) : dkind := find_derived derived_tab (r_method r) (r_pattern r).
Definition derived_now : list (string * string * string) :=
  map (fun e => let '(m, p, d) := e in (m, p, dkind_name d)) derived_tab.
(* does the derived kind support the kind a case claims? (None: the formula is not understood - the coarser handler facts decide) *)
Definition derived_supports (d : dkind) (k : rkind) : option bool :=
  match d with
  | DUnknown => None
  | _ => Some match k, d with
              | KAdminOnly, DAdmin | KRepoSee, DSee | KWrite, DWrite | KQuery _, DQuery => true
              | KQuery [[RDb "" ReadPriv]], (DDbRead | DAtLeastRead | DAtLeastQuery) => true
              | KQuery _, DAtLeastQuery => true
              | KListRepos _, DEveryone => true
              | _, _ => false
              end
  end.
Definition kind_supported_by_guards (r : route) (k : rkind) : bool :=
  match k with
  | KOpaque => true
  | KPublic => public r
  | _ => match find_guard handler_guards (r_method r) (r_pattern r) with
         | None => false
         | Some g => hsig_eqb (r_sig r) SigUser &&
                     (list_eqb String.eqb (g_guards g) (kind_guards k) ||
                      (* AuthorizeDatabase asked directly is the same decision as the one-entry statement / the write check *)
                      match k with
                      | KQuery [[RDb "" ReadPriv]] => list_eqb String.eqb (g_guards g) ["db:ReadPrivilege"]
                                                      || list_eqb String.eqb (g_guards g) ["db:ReadPrivilege"; "query"]
                      | KWrite => list_eqb String.eqb (g_guards g) ["db:WritePrivilege"]
                      | _ => false
                      end)
         end
  end.

Definition kind_supported (r : route) (k : rkind) : bool :=
  match k with
  | KOpaque => true
  | KPublic => public r
  | _ => hsig_eqb (r_sig r) SigUser &&
         match derived_supports (derived_of r) k with Some b => b | None => kind_supported_by_guards r k end
  end.

Definition model_case (c : case) : option (N * list effect) :=
  match nth_error routes (cs_route c) with
  | None => None
  | Some r => if kind_supported r (cs_kind c)
              then Some (serve shape_now (cs_cfg c) (cs_users c) r (cs_kind c) (cs_rq c)) else None
  end.

Definition case_ok (c : case) : bool :=
  match model_case c with
  | None => false
  | Some (st, eff) =>
      ((cls st =? cs_obs c) || (cs_loose c && (cs_obs c =? 3) && negb (cls st =? 0))) &&
      match cs_effect c with
      | 0 => match eff with [] => true | _ => false end
      | 1 => match eff with [] => false | _ => true end
      | _ => true
      end
  end.

Fixpoint mismatches_from (k : nat) (cs : list case) : list nat :=
  match cs with
  | [] => []
  | c :: r => if case_ok c then mismatches_from (S k) r else k :: mismatches_from (S k) r
  end.
Definition mismatches := mismatches_from 0.

(* listing cases: the repositories the server listed for this caller (None: the request was refused with 401) against
   `serve .. (KListRepos dbs)`, dbs = the catalogue as the administrator sees it at that moment *)
Record lcase := mk_lcase {
  lc_route : nat; lc_cfg : config; lc_users : list user; lc_rq : request; lc_dbs : list string;
  lc_observed : option (list string) }.
Definition lcase_ok (c : lcase) : bool :=
  match nth_error routes (lc_route c) with
  | None => false
  | Some r =>
      kind_supported r (KListRepos (lc_dbs c)) &&
      match serve shape_now (lc_cfg c) (lc_users c) r (KListRepos (lc_dbs c)) (lc_rq c), lc_observed c with
      | (200, [EffList l]), Some o => list_eqb String.eqb l o
      | (401, []), None => true
      | _, _ => false
      end
  end.
Fixpoint lmismatches_from (k : nat) (cs : list lcase) : list nat :=
  match cs with
  | [] => []
  | c :: r => if lcase_ok c then lmismatches_from (S k) r else k :: lmismatches_from (S k) r
  end.
Definition lmismatches := lmismatches_from 0.

(* what today's table leaves open, by (name, method, pattern); and the prefix rules *)
Definition open_now : list (string * string * string) :=
  map (fun r => (r_name r, r_method r, r_pattern r)) (open_routes shape_now routes).
Definition unknown_prefixes_now : list string := map p_prefix (unexempt_prefixes open_findings prefixes).
Definition known_prefixes_now : list string :=
  map p_prefix (filter (fun p => exempt_prefix open_findings p && negb (prefix_admin p)) prefixes).
Definition unguarded_now : list (string * string) := map (fun g => (g_method g, g_pattern g)) (unguarded open_findings handler_guards).
Definition exempt_unguarded_now : list (string * string) :=
  map (fun g => (g_method g, g_pattern g))
      (filter (fun g => negb (decides g) && negb (auth_only_ok (g_method g) (g_pattern g))) handler_guards).
Definition unexpected_guards_now : list (string * string) :=
  map (fun g => (g_method g, g_pattern g)) (filter (fun e => negb (expected_ok handler_guards e)) expected_guards).

(* requirement list of a simple statement type from the (source-tied) table; an unknown type is treated as
   administrator-only so that a missing row shows as a disagreement *)
Definition req_stmt (ty stmt_db : string) : stmt :=
  match required_of model_privs ty stmt_db with Some s => s | None => [RAdmin] end.
(* a NoPrivileges entry asks for nothing: authorize_database answers true for it, so it is kept as is *)
Definition req_stmt_nopriv (ty : string) : stmt := req_stmt ty "".

(* the cardinality statements: the rule read off the row translated from the tree under test (today's methods or the
   repaired ones, see Model.card_rule); a row that is not understood asks for the administrator (shows as disagreement) *)
Definition card_now (ty : string) (exact : bool) (stmt_db : string) (srcs : list string) : stmt :=
  match card_rule gen_privs ty exact stmt_db srcs with Some s => s | None => [RAdmin] end.

(* the same with the marker of the statement's case in AuthorizeQueryForRwUser. special: the instance names the account
   "rwuser" (DROP USER / SET PASSWORD) or the database "_internal" (DROP DATABASE) *)
Definition req_stmt_i (ty stmt_db : string) (special : bool) : stmt :=
  (req_stmt ty stmt_db ++ rw_marker model_rw_rules ty special)%list.

(* statement cases: what the REAL RequiredPrivileges method returned for a statement the REAL parser produced from the
   matrix's text (harness/cmd/c19 stmts), against the requirement list the matrix takes from the table for it *)
Record real_entry := mk_real { re_admin : bool; re_rwuser : bool; re_name : string; re_priv : N }.
Definition priv_of_bits (n : N) : priv :=
  match n with 0 => NoPriv | 1 => ReadPriv | 2 => WritePriv | _ => AllPriv end.
Definition real_to_req (e : real_entry) : reqpriv :=
  if re_admin e then (if re_rwuser e then RAdminRw else RAdmin)
  else if re_rwuser e then RDb (re_name e) (priv_of_bits (re_priv e)) else RAdmin.
Definition reqpriv_eqb (a b : reqpriv) : bool :=
  match a, b with
  | RAdmin, RAdmin | RAdminRw, RAdminRw | RRwAllow, RRwAllow | RRwDeny, RRwDeny | RInvalid, RInvalid => true
  | RDb d p, RDb d' p' => String.eqb d d' && priv_eqb p p'
  | _, _ => false
  end.
Definition strip_markers (s : stmt) : stmt := filter (fun rp => negb (is_rwallow rp) && negb (is_rwdeny rp)) s.
Record scase := mk_scase { sc_claimed : stmt; sc_real : list real_entry }.
Definition scase_ok (c : scase) : bool := list_eqb reqpriv_eqb (strip_markers (sc_claimed c)) (map real_to_req (sc_real c)).
Fixpoint smismatches_from (k : nat) (cs : list scase) : list nat :=
  match cs with
  | [] => []
  | c :: r => if scase_ok c then smismatches_from (S k) r else k :: smismatches_from (S k) r
  end.
Definition smismatches := smismatches_from 0.
