(* C19 correspondence evaluator: runs the model `serve` (over the table and shapes translated in this run) on the
   cases the black-box harness executed against the running server and reports the disagreeing case numbers. *)
From Coq Require Import String List Bool NArith.
From OG Require Import C19.Model C19.Gen_Routes C19.Privileges.
Import ListNotations.
Open Scope string_scope.
Open Scope N_scope.

(* status class: 0 = 401, 1 = 403, 2 = anything else (the handler answered) *)
Definition cls (st : N) : N := if st =? 401 then 0 else if st =? 403 then 1 else 2.

Record case := mk_case {
  cs_route : nat;          (* index into Gen_Routes.routes *)
  cs_kind : rkind;
  cs_cfg : config;
  cs_users : list user;
  cs_rq : request;
  cs_obs : N;              (* observed status class *)
  cs_effect : N }.         (* observed effect: 0 none, 1 some, 2 not observable for this case *)

Definition model_case (c : case) : option (N * list effect) :=
  match nth_error routes (cs_route c) with
  | None => None
  | Some r => Some (serve shape_now (cs_cfg c) (cs_users c) r (cs_kind c) (cs_rq c))
  end.

Definition case_ok (c : case) : bool :=
  match model_case c with
  | None => false
  | Some (st, eff) =>
      (cls st =? cs_obs c) &&
      match cs_effect c with
      | 0 => match eff with [] => true | _ => false end
      | 1 => match eff with [] => false | _ => true end
      | _ => true
      end
  end.

Fixpoint mismatches_from (k : nat) (cs : list case) : list nat :=
  match cs with
  | [] => []
  | c :: r => if case_ok c then mismatches_from (S k) r else k :: mismatches_from (S k) r
  end.
Definition mismatches := mismatches_from 0.

(* what today's table leaves open, by (name, method, pattern); and the prefix rules *)
Definition open_now : list (string * string * string) :=
  map (fun r => (r_name r, r_method r, r_pattern r)) (open_routes shape_now routes).
Definition unknown_prefixes_now : list string := map p_prefix (repair_prefixes prefixes).
Definition known_prefixes_now : list string := map p_prefix (filter known_prefix prefixes).

(* requirement list of a simple statement type from the (source-tied) table; an unknown type is treated as
   administrator-only so that a missing row shows as a disagreement *)
Definition req_stmt (ty stmt_db : string) : stmt :=
  match required_of model_privs ty stmt_db with Some s => s | None => [RAdmin] end.
(* a NoPrivileges entry asks for nothing: authorize_database answers true for it, so it is kept as is *)
Definition req_stmt_nopriv (ty : string) : stmt := req_stmt ty "".
