(* C06 - dec_parse against the grammar of decimal literals: for every literal written as
     [sign] digits [ . digits ] [ (e|E) [sign] digits ]
   (also without integer digits when there are fraction digits) dec_parse returns the sign, the mantissa
   value(int digits ++ fraction digits), the number of fraction digits, the exponent's sign and the exponent's value - so
   the ratio dec_ratio makes of it is the literal's decimal value  (-1)^s * int.frac * 10^(+-exp). *)
From Coq Require Import ZArith NArith List Bool Lia.
From OG Require Import C06.Model C06.ProofsDec.
Import ListNotations.
Open Scope Z_scope.

Definition mk (n : bool) (m f : Z) (en : bool) (x : Z) : decnum :=
  {| d_neg := n; d_mant := m; d_frac := f; d_eneg := en; d_exp := x |}.

Definition sign_text (sg : option bool) : bytes :=
  match sg with None => [] | Some true => [ch_minus] | Some false => [ch_plus] end.
Definition sign_neg (sg : option bool) : bool := match sg with Some true => true | _ => false end.

Lemma nstep_digit : forall st c, is_digit c = true ->
  nstep st c = Some (match st with
                     | SInit | SSign | SInt => SInt
                     | SPoint | SPointNoInt | SFrac => SFrac
                     | SExp | SExpSign | SExpNum => SExpNum
                     end).
Proof. intros st c H. unfold nstep. rewrite H. destruct st; reflexivity. Qed.

Lemma digit_not_special : forall c, is_digit c = true ->
  is_e c = false /\ (c =? c_dot)%N = false /\ is_sign c = false.
Proof.
  intros c H. apply digit_range in H. unfold is_e, is_sign, c_dot, ch_plus, ch_minus.
  repeat split; repeat (apply orb_false_iff; split); apply N.eqb_neq; lia.
Qed.

(* integer digits *)
Lemma scan_int : forall I st r n m f en x, all_digits I = true -> (st = SInit \/ st = SSign \/ st = SInt) ->
  dec_scan st (I ++ r) (mk n m f en x) = dec_scan (match I with [] => st | _ => SInt end) r (mk n (dfold m I) f en x).
Proof.
  induction I as [|c I IH]; intros st r n m f en x H Hst; [reflexivity|].
  cbn in H. apply andb_true_iff in H. destruct H as [Hc HI].
  cbn [app dec_scan]. rewrite (nstep_digit st c Hc).
  assert (E : match st with SInit | SSign | SInt => SInt | SPoint | SPointNoInt | SFrac => SFrac | _ => SExpNum end = SInt)
    by (destruct Hst as [->|[->| ->]]; reflexivity).
  rewrite E. cbn [d_neg d_mant d_frac d_eneg d_exp mk].
  change {| d_neg := n; d_mant := m * 10 + digit_val c; d_frac := f; d_eneg := en; d_exp := x |} with (mk n (m * 10 + digit_val c) f en x).
  rewrite (IH SInt r n (m * 10 + digit_val c) f en x HI (or_intror (or_intror eq_refl))).
  destruct I; reflexivity.
Qed.

(* fraction digits *)
Lemma scan_frac : forall F st r n m f en x, all_digits F = true -> (st = SPoint \/ st = SPointNoInt \/ st = SFrac) ->
  dec_scan st (F ++ r) (mk n m f en x) =
  dec_scan (match F with [] => st | _ => SFrac end) r (mk n (dfold m F) (f + Z.of_nat (length F)) en x).
Proof.
  induction F as [|c F IH]; intros st r n m f en x H Hst.
  - cbn. now rewrite Z.add_0_r.
  - cbn in H. apply andb_true_iff in H. destruct H as [Hc HF].
    cbn [app dec_scan]. rewrite (nstep_digit st c Hc).
    assert (E : match st with SInit | SSign | SInt => SInt | SPoint | SPointNoInt | SFrac => SFrac | _ => SExpNum end = SFrac)
      by (destruct Hst as [->|[->| ->]]; reflexivity).
    rewrite E. cbn [d_neg d_mant d_frac d_eneg d_exp mk].
    change {| d_neg := n; d_mant := m * 10 + digit_val c; d_frac := f + 1; d_eneg := en; d_exp := x |} with (mk n (m * 10 + digit_val c) (f + 1) en x).
    rewrite (IH SFrac r n (m * 10 + digit_val c) (f + 1) en x HF (or_intror (or_intror eq_refl))).
    replace (f + 1 + Z.of_nat (length F)) with (f + Z.of_nat (length (c :: F))) by (cbn [length]; lia).
    destruct F; reflexivity.
Qed.

(* exponent digits *)
Lemma scan_exp : forall X st r n m f en x, all_digits X = true -> (st = SExp \/ st = SExpSign \/ st = SExpNum) ->
  dec_scan st (X ++ r) (mk n m f en x) = dec_scan (match X with [] => st | _ => SExpNum end) r (mk n m f en (dfold x X)).
Proof.
  induction X as [|c X IH]; intros st r n m f en x H Hst; [reflexivity|].
  cbn in H. apply andb_true_iff in H. destruct H as [Hc HX].
  cbn [app dec_scan]. rewrite (nstep_digit st c Hc).
  assert (E : match st with SInit | SSign | SInt => SInt | SPoint | SPointNoInt | SFrac => SFrac | _ => SExpNum end = SExpNum)
    by (destruct Hst as [->|[->| ->]]; reflexivity).
  rewrite E. cbn [d_neg d_mant d_frac d_eneg d_exp mk].
  change {| d_neg := n; d_mant := m; d_frac := f; d_eneg := en; d_exp := x * 10 + digit_val c |} with (mk n m f en (x * 10 + digit_val c)).
  rewrite (IH SExpNum r n m f en (x * 10 + digit_val c) HX (or_intror (or_intror eq_refl))).
  destruct X; reflexivity.
Qed.

Lemma scan_int_end : forall I st n m f en x, all_digits I = true -> (st = SInit \/ st = SSign \/ st = SInt) ->
  dec_scan st I (mk n m f en x) = mk n (dfold m I) f en x.
Proof. intros. pose proof (scan_int I st [] n m f en x H H0) as E. rewrite app_nil_r in E. exact E. Qed.
Lemma scan_frac_end : forall F st n m f en x, all_digits F = true -> (st = SPoint \/ st = SPointNoInt \/ st = SFrac) ->
  dec_scan st F (mk n m f en x) = mk n (dfold m F) (f + Z.of_nat (length F)) en x.
Proof. intros. pose proof (scan_frac F st [] n m f en x H H0) as E. rewrite app_nil_r in E. exact E. Qed.
Lemma scan_exp_end : forall X st n m f en x, all_digits X = true -> (st = SExp \/ st = SExpSign \/ st = SExpNum) ->
  dec_scan st X (mk n m f en x) = mk n m f en (dfold x X).
Proof. intros. pose proof (scan_exp X st [] n m f en x H H0) as E. rewrite app_nil_r in E. exact E. Qed.

(* the sign *)
Lemma scan_sign : forall sg r, (forall c r', r = c :: r' -> is_sign c = false) ->
  dec_scan SInit (sign_text sg ++ r) (mk false 0 0 false 0) =
  dec_scan (match sg with None => SInit | Some _ => SSign end) r (mk (sign_neg sg) 0 0 false 0).
Proof. intros [[|]|] r _; reflexivity. Qed.

Lemma dec_scan_nil : forall st d, dec_scan st [] d = d.
Proof. reflexivity. Qed.

(* [sign] digits *)
Theorem dec_parse_int : forall sg I, all_digits I = true ->
  dec_parse (sign_text sg ++ I) = mk (sign_neg sg) (dec_val I) 0 false 0.
Proof.
  intros sg I HI. unfold dec_parse. change {| d_neg := false; d_mant := 0; d_frac := 0; d_eneg := false; d_exp := 0 |} with (mk false 0 0 false 0).
  rewrite scan_sign by (intros; reflexivity || idtac; destruct sg; auto; intros; subst; cbn in HI; apply andb_true_iff in HI; destruct HI as [Hc _]; apply digit_not_special in Hc; tauto).
  rewrite scan_int_end by (try exact HI; destruct sg; auto).
  reflexivity.
Qed.

(* [sign] digits . digits   (either digit run may be empty) *)
Theorem dec_parse_point : forall sg I F, all_digits I = true -> all_digits F = true ->
  dec_parse (sign_text sg ++ I ++ c_dot :: F) = mk (sign_neg sg) (dec_val (I ++ F)) (Z.of_nat (length F)) false 0.
Proof.
  intros sg I F HI HF. unfold dec_parse. change {| d_neg := false; d_mant := 0; d_frac := 0; d_eneg := false; d_exp := 0 |} with (mk false 0 0 false 0).
  rewrite scan_sign.
  2:{ intros c r' E. destruct I as [|i I']; cbn in E; inversion E; subst; [reflexivity|].
      cbn in HI. apply andb_true_iff in HI. destruct HI as [Hc _]. apply digit_not_special in Hc. tauto. }
  rewrite scan_int by (try exact HI; destruct sg; auto).
  assert (Hdot : forall st, (st = SInit \/ st = SSign \/ st = SInt) -> forall d,
            dec_scan st (c_dot :: F) d = dec_scan (match st with SInt => SPoint | _ => SPointNoInt end) F d).
  { intros st Hst d. cbn [dec_scan]. destruct Hst as [->|[->| ->]]; reflexivity. }
  rewrite Hdot by (destruct I; destruct sg; auto).
  rewrite scan_frac_end by (try exact HF; destruct I; destruct sg; auto).
  rewrite <- dfold_app. reflexivity.
Qed.

Definition is_e_char (c : N) : Prop := is_e c = true.

(* [sign] digits . digits (e|E) [sign] digits   (one of the first two digit runs non-empty) *)
Theorem dec_parse_point_exp : forall sg I F ec es X,
  all_digits I = true -> all_digits F = true -> all_digits X = true -> (I <> [] \/ F <> []) -> is_e ec = true ->
  dec_parse (sign_text sg ++ I ++ c_dot :: F ++ ec :: sign_text es ++ X) =
  mk (sign_neg sg) (dec_val (I ++ F)) (Z.of_nat (length F)) (sign_neg es) (dec_val X).
Proof.
  intros sg I F ec es X HI HF HX Hne He. unfold dec_parse.
  change {| d_neg := false; d_mant := 0; d_frac := 0; d_eneg := false; d_exp := 0 |} with (mk false 0 0 false 0).
  rewrite scan_sign.
  2:{ intros c r' E. destruct I as [|i I']; cbn in E; inversion E; subst; [reflexivity|].
      cbn in HI. apply andb_true_iff in HI. destruct HI as [Hc _]. apply digit_not_special in Hc. tauto. }
  rewrite scan_int by (try exact HI; destruct sg; auto).
  assert (Hdot : forall st r, (st = SInit \/ st = SSign \/ st = SInt) -> forall d,
            dec_scan st (c_dot :: r) d = dec_scan (match st with SInt => SPoint | _ => SPointNoInt end) r d).
  { intros st r Hst d. cbn [dec_scan]. destruct Hst as [->|[->| ->]]; reflexivity. }
  rewrite Hdot by (destruct I; destruct sg; auto).
  rewrite scan_frac by (try exact HF; destruct I; destruct sg; auto).
  (* the state before the exponent letter is SPoint or SFrac *)
  set (st := match F with [] => match match I with [] => match sg with None => SInit | Some _ => SSign end | _ => SInt end with SInt => SPoint | _ => SPointNoInt end | _ => SFrac end).
  assert (Hst : st = SPoint \/ st = SFrac).
  { unfold st. destruct F; [|now right]. destruct I; [destruct Hne; congruence|now left]. }
  assert (He' : is_digit ec = false).
  { destruct (is_digit ec) eqn:D; [|reflexivity]. apply digit_not_special in D. destruct D as [D _]. congruence. }
  assert (Hexp : forall d, dec_scan st (ec :: sign_text es ++ X) d = dec_scan SExp (sign_text es ++ X) d).
  { intro d. cbn [dec_scan]. unfold nstep. rewrite He', He. destruct Hst as [->| ->]; reflexivity. }
  rewrite Hexp.
  assert (Hes : forall n m f, dec_scan SExp (sign_text es ++ X) (mk n m f false 0) =
                              dec_scan (match es with None => SExp | Some _ => SExpSign end) X (mk n m f (sign_neg es) 0)).
  { intros n m f. destruct es as [[|]|]; reflexivity. }
  rewrite Hes. rewrite scan_exp_end by (try exact HX; destruct es; auto).
  rewrite <- dfold_app. reflexivity.
Qed.

(* [sign] digits (e|E) [sign] digits *)
Theorem dec_parse_int_exp : forall sg I ec es X,
  all_digits I = true -> all_digits X = true -> I <> [] -> is_e ec = true ->
  dec_parse (sign_text sg ++ I ++ ec :: sign_text es ++ X) = mk (sign_neg sg) (dec_val I) 0 (sign_neg es) (dec_val X).
Proof.
  intros sg I ec es X HI HX Hne He. unfold dec_parse.
  change {| d_neg := false; d_mant := 0; d_frac := 0; d_eneg := false; d_exp := 0 |} with (mk false 0 0 false 0).
  rewrite scan_sign.
  2:{ intros c r' E. destruct I as [|i I']; [congruence|]. cbn in E; inversion E; subst.
      cbn in HI. apply andb_true_iff in HI. destruct HI as [Hc _]. apply digit_not_special in Hc. tauto. }
  rewrite scan_int by (try exact HI; destruct sg; auto).
  destruct I as [|i I']; [congruence|].
  assert (He' : is_digit ec = false).
  { destruct (is_digit ec) eqn:D; [|reflexivity]. apply digit_not_special in D. destruct D as [D _]. congruence. }
  assert (Hexp : forall d, dec_scan SInt (ec :: sign_text es ++ X) d = dec_scan SExp (sign_text es ++ X) d).
  { intro d. cbn [dec_scan]. unfold nstep. rewrite He', He. reflexivity. }
  rewrite Hexp.
  assert (Hes : forall n m f, dec_scan SExp (sign_text es ++ X) (mk n m f false 0) =
                              dec_scan (match es with None => SExp | Some _ => SExpSign end) X (mk n m f (sign_neg es) 0)).
  { intros n m f. destruct es as [[|]|]; reflexivity. }
  rewrite Hes. rewrite scan_exp_end by (try exact HX; destruct es; auto).
  reflexivity.
Qed.
