(* C06: decimal rendering of integers and timestamps parses back to the same number, for every value. *)
From Coq Require Import ZArith NArith List Bool Lia ZifyBool ZifyN.
From OG Require Import C06.Model.
Import ListNotations.
Open Scope Z_scope.

Definition dstep (a : Z) (c : N) : Z := a * 10 + digit_val c.
Definition dfold (a : Z) (s : bytes) : Z := fold_left dstep s a.

Lemma dec_val_dfold : forall s, dec_val s = dfold 0 s.
Proof. reflexivity. Qed.

Definition dch (d : Z) : N := (48 + Z.to_N d)%N.

Lemma dch_digit : forall d, 0 <= d < 10 -> is_digit (dch d) = true /\ digit_val (dch d) = d.
Proof.
  intros d H. unfold is_digit, digit_val, dch. split.
  - apply andb_true_iff. split; apply N.leb_le; lia.
  - replace (48 + Z.to_N d - 48)%N with (Z.to_N d) by lia. apply Z2N.id. lia.
Qed.

Lemma all_digits_app : forall a b, all_digits (a ++ b) = all_digits a && all_digits b.
Proof.
  induction a as [|c r IH]; intro b; [reflexivity|]. cbn [app all_digits]. rewrite IH. now rewrite andb_assoc.
Qed.

Lemma dfold_app : forall s1 s2 a, dfold a (s1 ++ s2) = dfold (dfold a s1) s2.
Proof. intros. unfold dfold. apply fold_left_app. Qed.

(* the digits produced for n, most significant first, in front of the accumulator *)
Lemma nat_digits_spec : forall fuel n acc,
  0 <= n < 10 ^ Z.of_nat (S fuel) ->
  exists ds, nat_digits (S fuel) n acc = ds ++ acc /\ ds <> [] /\ all_digits ds = true /\
             forall a, dfold a ds = a * 10 ^ Z.of_nat (length ds) + n.
Proof.
  induction fuel as [|f IH]; intros n acc Hn.
  - change (10 ^ Z.of_nat 1) with 10 in Hn.
    assert (Hq : n / 10 = 0) by (apply Z.div_small; lia).
    assert (Hm : n mod 10 = n) by (apply Z.mod_small; lia).
    cbn [nat_digits]. rewrite Hq. cbn [Z.eqb]. rewrite Hm.
    exists [dch n]. destruct (dch_digit n Hn) as [D1 D2].
    split; [reflexivity|]. split; [discriminate|]. split; [cbn [all_digits]; rewrite D1; reflexivity|].
    intro a. unfold dfold. cbn [fold_left]. unfold dstep. rewrite D2.
    change (10 ^ Z.of_nat (length [dch n])) with 10. lia.
  - assert (Hd : 0 <= n mod 10 < 10) by (apply Z.mod_pos_bound; lia).
    destruct (dch_digit (n mod 10) Hd) as [D1 D2].
    change (nat_digits (S (S f)) n acc) with
      (let acc' := dch (n mod 10) :: acc in if n / 10 =? 0 then acc' else nat_digits (S f) (n / 10) acc').
    cbv zeta. destruct (n / 10 =? 0) eqn:Q.
    + apply Z.eqb_eq in Q.
      assert (Hm : n mod 10 = n) by (pose proof (Z.div_mod n 10 ltac:(lia)); lia).
      exists [dch (n mod 10)]. split; [reflexivity|]. split; [discriminate|]. split; [cbn [all_digits]; rewrite D1; reflexivity|].
      intro a. unfold dfold. cbn [fold_left]. unfold dstep. rewrite D2.
      change (10 ^ Z.of_nat (length [dch (n mod 10)])) with 10. lia.
    + apply Z.eqb_neq in Q.
      assert (Hq : 0 <= n / 10 < 10 ^ Z.of_nat (S f)).
      { split; [apply Z.div_pos; lia|]. apply Z.div_lt_upper_bound; [lia|].
        replace (10 * 10 ^ Z.of_nat (S f)) with (10 ^ Z.of_nat (S (S f))); [lia|].
        rewrite (Nat2Z.inj_succ (S f)). rewrite Z.pow_succ_r by lia. reflexivity. }
      destruct (IH (n / 10) (dch (n mod 10) :: acc) Hq) as [ds [E [Hne [Hall Hval]]]].
      exists (ds ++ [dch (n mod 10)]). split; [rewrite E, <- app_assoc; reflexivity|].
      split; [destruct ds; discriminate|]. split.
      * rewrite all_digits_app, Hall. cbn [all_digits andb]. rewrite D1. reflexivity.
      * intro a. rewrite dfold_app, Hval. unfold dfold at 1. cbn [fold_left]. unfold dstep. rewrite D2.
        rewrite app_length. cbn [length]. rewrite Nat.add_1_r, Nat2Z.inj_succ, Z.pow_succ_r by lia.
        pose proof (Z.div_mod n 10 ltac:(lia)). lia.
Qed.

Lemma render_nat_spec : forall n, 0 <= n ->
  render_nat n <> [] /\ all_digits (render_nat n) = true /\ dec_val (render_nat n) = n.
Proof.
  intros n Hn. unfold render_nat.
  assert (Hb : 0 <= n < 10 ^ Z.of_nat (S (Z.to_nat (Z.log2 n)))).
  { split; [exact Hn|]. rewrite Nat2Z.inj_succ, Z2Nat.id by apply Z.log2_nonneg.
    destruct (Z.eq_dec n 0) as [->|Hz]; [cbn; lia|].
    pose proof (Z.log2_spec n ltac:(lia)) as [_ H2].
    assert (2 ^ Z.succ (Z.log2 n) <= 10 ^ Z.succ (Z.log2 n)).
    { apply Z.pow_le_mono_l. lia. }
    lia. }
  destruct (nat_digits_spec _ n [] Hb) as [ds [E [Hne [Hall Hval]]]].
  rewrite E, app_nil_r. split; [exact Hne|]. split; [exact Hall|].
  rewrite dec_val_dfold, Hval. lia.
Qed.

Lemma all_digits_Forall : forall s, all_digits s = true <-> Forall (fun c => is_digit c = true) s.
Proof.
  induction s as [|c r IH]; [split; [constructor|reflexivity]|].
  cbn [all_digits]. rewrite andb_true_iff, IH. split.
  - intros [H1 H2]. constructor; assumption.
  - intro H. inversion H; subst. split; assumption.
Qed.

Lemma digit_not_minus : forall c, is_digit c = true -> (c =? ch_minus)%N = false.
Proof.
  intros c H. destruct (c =? ch_minus)%N eqn:E; [|reflexivity]. apply N.eqb_eq in E. subst. discriminate.
Qed.

Lemma digit_not_ws : forall c, is_digit c = true -> is_ascii_ws c = false.
Proof.
  intros c H. destruct (is_ascii_ws c) eqn:W; [|reflexivity]. exfalso. unfold is_ascii_ws in W.
  repeat (apply orb_true_iff in W; destruct W as [W|W]); apply N.eqb_eq in W; subst; discriminate.
Qed.

Theorem parse_int64_render_int : forall n, in_int64 n = true -> parse_int64 (render_int n) = Ok n.
Proof.
  intros n Hin. unfold render_int. destruct (n <? 0) eqn:L.
  - apply Z.ltb_lt in L. destruct (render_nat_spec (- n) ltac:(lia)) as [Hne [Hall Hval]].
    unfold parse_int64. rewrite N.eqb_refl.
    destruct (render_nat (- n)) as [|c r] eqn:E; [congruence|].
    rewrite Hall, Hval. replace (- - n) with n by lia. rewrite Hin. reflexivity.
  - apply Z.ltb_ge in L. destruct (render_nat_spec n L) as [Hne [Hall Hval]].
    unfold parse_int64. destruct (render_nat n) as [|c r] eqn:E; [congruence|].
    assert (Hc : is_digit c = true) by (cbn in Hall; apply andb_true_iff in Hall; tauto).
    rewrite (digit_not_minus c Hc). rewrite Hall, Hval, Hin. reflexivity.
Qed.

Lemma digit_range : forall c, is_digit c = true -> (48 <= c <= 57)%N.
Proof.
  intros c H. unfold is_digit in H. apply andb_true_iff in H. destruct H as [A B].
  apply N.leb_le in A. apply N.leb_le in B. lia.
Qed.

Lemma digit_not_uws2 : forall a b, is_digit a = true \/ is_digit b = true -> is_uws2 a b = false.
Proof.
  intros a b H. unfold is_uws2.
  destruct (a =? 194)%N eqn:A; [|reflexivity]. apply N.eqb_eq in A. cbn [andb].
  destruct (b =? 133)%N eqn:B1; [apply N.eqb_eq in B1; destruct H as [H|H]; apply digit_range in H; lia|].
  destruct (b =? 160)%N eqn:B2; [apply N.eqb_eq in B2; destruct H as [H|H]; apply digit_range in H; lia|].
  reflexivity.
Qed.

Lemma digit_not_uws3 : forall a b c, is_digit a = true \/ is_digit c = true -> is_uws3 a b c = false.
Proof.
  intros a b c H. unfold is_uws3.
  assert (Ha : is_digit a = true -> (a =? 225)%N = false /\ (a =? 226)%N = false /\ (a =? 227)%N = false).
  { intro Hd. apply digit_range in Hd. repeat split; apply N.eqb_neq; lia. }
  assert (Hc : is_digit c = true -> (c =? 128)%N = false /\ (128 <=? c)%N = false /\ (c =? 168)%N = false /\
                                     (c =? 169)%N = false /\ (c =? 175)%N = false /\ (c =? 159)%N = false).
  { intro Hd. apply digit_range in Hd. repeat split; try (apply N.eqb_neq; lia). apply N.leb_gt. lia. }
  destruct H as [H|H].
  - destruct (Ha H) as (A1 & A2 & A3). rewrite A1, A2, A3. reflexivity.
  - destruct (Hc H) as (C1 & C2 & C3 & C4 & C5 & C6). rewrite C1, C2, C3, C4, C5, C6.
    cbn [andb orb]. rewrite !andb_false_r. reflexivity.
Qed.

Lemma drop_ws_digits : forall fwd s, all_digits s = true -> trim_sp fwd s = s.
Proof.
  intros fwd [|c r] H; [reflexivity|]. cbn in H. apply andb_true_iff in H. destruct H as [Hc _].
  cbn [trim_sp]. rewrite (digit_not_ws c Hc).
  destruct r as [|d r2]; [reflexivity|].
  assert (U2 : (if fwd then is_uws2 c d else is_uws2 d c) = false) by (destruct fwd; apply digit_not_uws2; auto).
  rewrite U2. destruct r2 as [|e r3]; [reflexivity|].
  assert (U3 : (if fwd then is_uws3 c d e else is_uws3 e d c) = false) by (destruct fwd; apply digit_not_uws3; auto).
  rewrite U3. reflexivity.
Qed.

Lemma all_digits_rev : forall s, all_digits s = true -> all_digits (rev s) = true.
Proof. intros s H. apply all_digits_Forall. apply Forall_rev. apply all_digits_Forall. exact H. Qed.

Theorem parse_ts_render_nat : forall t, 0 <= t <= max_int64 -> parse_ts (render_nat t) = Ok (Some t).
Proof.
  intros t [H0 H1]. destruct (render_nat_spec t H0) as [Hne [Hall Hval]].
  unfold parse_ts, trim_ws. rewrite (drop_ws_digits true _ Hall).
  rewrite (drop_ws_digits false _ (all_digits_rev _ Hall)). rewrite rev_involutive.
  destruct (render_nat t) as [|c r] eqn:E; [congruence|].
  rewrite Hall, Hval. assert (Hle : (t <=? max_int64) = true) by (apply Z.leb_le; exact H1). rewrite Hle. reflexivity.
Qed.

(* the rendered integer is plain text for every scanner: digits and at most a leading '-' *)
Lemma render_int_chars : forall n, Forall (fun c => is_digit c = true \/ c = ch_minus) (render_int n).
Proof.
  intro n. unfold render_int. destruct (n <? 0) eqn:L.
  - apply Z.ltb_lt in L. destruct (render_nat_spec (- n) ltac:(lia)) as [_ [Hall _]].
    constructor; [right; reflexivity|]. apply all_digits_Forall in Hall.
    eapply Forall_impl; [|exact Hall]. intros c Hc. left. exact Hc.
  - apply Z.ltb_ge in L. destruct (render_nat_spec n L) as [_ [Hall _]]. apply all_digits_Forall in Hall.
    eapply Forall_impl; [|exact Hall]. intros c Hc. left. exact Hc.
Qed.
