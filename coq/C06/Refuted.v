(* C06: today's code (cfg_current) violates the property. Witnesses closed by vm_compute. *)
From Coq Require Import ZArith NArith List Bool String.
From OG Require Import C06.ModelWriter C06.Model C06.Proofs.
Import ListNotations.
Open Scope Z_scope.

(* integers above 2^53 travel through float64: 9007199254740993i comes back as ...992, 9223372036854775807i as
   -9223372036854775808 *)
Theorem C06_int_refuted :
  exists n m, in_int64 n = true /\ in_int64 m = true /\
    parse_line dec2f_exact cfg_current (bs "m x=9007199254740993i,y=9223372036854775807i 1") =
      Ok {| r_name := bs "m"; r_tags := []; r_fields := [(bs "x", VInt n 9007199254740992); (bs "y", VInt m (-9223372036854775808))];
            r_ts := Some 1 |} /\
    n = 9007199254740993 /\ m = 9223372036854775807.
Proof. exists 9007199254740993, 9223372036854775807. vm_compute. repeat split; reflexivity. Qed.

(* "x=zzf" is not a number, yet it is accepted as a float field *)
Theorem C06_f_suffix_refuted :
  exists s v, valid_number v = false /\ s = bs "m x=" ++ v ++ bs "f" /\
    parse_line dec2f_exact cfg_current s = Ok {| r_name := bs "m"; r_tags := []; r_fields := [(bs "x", VFloatJunk)]; r_ts := None |} /\
    parse_line dec2f_exact cfg_repaired s = Err.
Proof. exists (bs "m x=zzf"), (bs "zz"). vm_compute. repeat split; reflexivity. Qed.

(* three lines, the middle one invalid, the last one valid: no error is reported and the two valid lines are stored *)
Theorem C06_batch_error_lost_refuted :
  exists s l, In l (split_lines s) /\ parse_row dec2f_exact cfg_current l = Some Err /\
    snd (parse_batch_current s) = false /\ List.length (fst (parse_batch_current s)) = 2%nat /\
    accept_block dec2f_exact cfg_repaired 1 s = Err.
Proof.
  exists (bs "m x=1i 1" ++ [10%N] ++ bs "m bad" ++ [10%N] ++ bs "m x=2i 2"), (bs "m bad").
  vm_compute. repeat split; try reflexivity. right. left. reflexivity.
Qed.

(* a float literal with a leading '+' is accepted and stored as 0 *)
Theorem C06_plus_zero_refuted :
  exists s, parse_line dec2f_exact cfg_current s =
              Ok {| r_name := bs "m"; r_tags := []; r_fields := [(bs "x", VFloatBits (f64_zero false))]; r_ts := None |} /\
            parse_line dec2f_exact cfg_repaired s =
              Ok {| r_name := bs "m"; r_tags := []; r_fields := [(bs "x", VFloat (bs "+1.5") (FFin false 6755399441055744 (-52)))]; r_ts := None |}.
Proof. exists (bs "m x=+1.5"). vm_compute. split; reflexivity. Qed.

(* "-716." loses its sign *)
Theorem C06_neg_dot_refuted :
  exists s, parse_line dec2f_exact cfg_current s =
              Ok {| r_name := bs "m"; r_tags := []; r_fields := [(bs "x", VFloatBits (FFin false 6298002603900928 (-43)))]; r_ts := None |} /\
            parse_line dec2f_exact cfg_repaired s =
              Ok {| r_name := bs "m"; r_tags := []; r_fields := [(bs "x", VFloat (bs "-716.") (FFin true 6298002603900928 (-43)))]; r_ts := None |}.
Proof. exists (bs "m x=-716."). vm_compute. split; reflexivity. Qed.

(* a value that contains a quote but does not start with one is accepted as the empty string *)
Theorem C06_strquote_refuted :
  exists s, parse_line dec2f_exact cfg_current s =
              Ok {| r_name := bs "m"; r_tags := []; r_fields := [(bs "x", VStr [])]; r_ts := None |} /\
            parse_line dec2f_exact cfg_repaired s = Err.
Proof. exists (bs "m x=12""3"""). vm_compute. split; reflexivity. Qed.

(* precision s, timestamp 18446744074: the instant is beyond int64 ns; today it wraps to 290448384 ns and is stored *)
Theorem C06_ts_overflow_refuted :
  exists s mult, accept_block dec2f_exact cfg_current mult s =
                   Ok [{| r_name := bs "m"; r_tags := []; r_fields := [(bs "x", VInt 1 1)]; r_ts := Some 290448384 |}] /\
                 accept_block dec2f_exact cfg_repaired mult s = Err.
Proof. exists (bs "m x=1i 18446744074"), 1000000000. vm_compute. split; reflexivity. Qed.

(* today's writer drops a field named `time` without a word: the row is handed on without an error and without the field *)
Theorem C06_time_field_refuted :
  exists s, match accept_block dec2f_exact cfg_repaired 1 s with
            | Ok [r] =>
                snd (writer_row wcfg_current [] r) =
                  {| wo_err := false; wo_row := Some {| r_name := bs "tf"; r_tags := []; r_fields := [(bs "x", VInt 1 1)]; r_ts := Some 1000 |} |} /\
                snd (writer_row wcfg_repaired [] r) = {| wo_err := true; wo_row := None |}
            | _ => False
            end.
Proof. exists (bs "tf time=5i,x=1i 1000"). vm_compute. split; reflexivity. Qed.

(* today's writer reports an error for a row with a tag named `time` and hands the row on in the series without that tag *)
Theorem C06_time_tag_refuted :
  exists s, match accept_block dec2f_exact cfg_repaired 1 s with
            | Ok [r] =>
                snd (writer_row wcfg_current [] r) =
                  {| wo_err := true; wo_row := Some {| r_name := bs "tt"; r_tags := []; r_fields := [(bs "x", VInt 1 1)]; r_ts := Some 1000 |} |} /\
                snd (writer_row wcfg_repaired [] r) = {| wo_err := true; wo_row := None |}
            | _ => False
            end.
Proof. exists (bs "tt,time=a x=1i 1000"). vm_compute. split; reflexivity. Qed.
