(* C06 - the body framing between the socket and the parser: proofs about ModelStream. *)
From Coq Require Import ZArith NArith List Bool Arith Lia.
From OG Require Import C06.Model C06.ModelStream C06.Proofs.
Import ListNotations.
Open Scope Z_scope.

(* ------------------------------------------------------------------------------------------------ *)
(* data lines: the non-empty lines of a text (empty lines carry no point and no error) *)
Definition nonempty (l : bytes) : bool := match l with [] => false | _ => true end.
Definition dlines (s : bytes) : list bytes := filter nonempty (split_lines s).

Lemma dlines_aux_snoc_nl : forall a cur,
  filter nonempty (split_lines_aux cur (a ++ [c_nl])) = filter nonempty (split_lines_aux cur a).
Proof.
  induction a as [|c r IH]; intro cur.
  - cbn [app split_lines_aux]. rewrite N.eqb_refl. cbn [split_lines_aux].
    destruct cur as [|x cur']; reflexivity.
  - cbn [app split_lines_aux]. destruct (c =? c_nl)%N.
    + cbn [filter]. now rewrite IH.
    + apply IH.
Qed.

Lemma dlines_snoc_nl : forall a, dlines (a ++ [c_nl]) = dlines a.
Proof. intro a. apply dlines_aux_snoc_nl. Qed.

(* cutting a text at a newline cuts its data lines in two *)
Lemma dlines_cut : forall a b, dlines (a ++ c_nl :: b) = dlines a ++ dlines b.
Proof.
  intros a b. unfold dlines, split_lines. rewrite split_lines_aux_cut, filter_app.
  f_equal. apply dlines_aux_snoc_nl.
Qed.

Lemma dlines_nil : dlines [] = [].
Proof. reflexivity. Qed.

(* ------------------------------------------------------------------------------------------------ *)
(* the last newline *)
Lemma cut_first_nl_sound : forall s a b, cut_first_nl s = Some (a, b) -> s = a ++ c_nl :: b.
Proof.
  induction s as [|c r IH]; intros a b H; [discriminate|].
  cbn [cut_first_nl] in H. destruct (c =? c_nl)%N eqn:E.
  - inversion H; subst. apply N.eqb_eq in E. now subst.
  - destruct (cut_first_nl r) as [[a' b']|]; [|discriminate]. inversion H; subst.
    cbn [app]. f_equal. now apply IH.
Qed.

Lemma cut_first_nl_none : forall s, cut_first_nl s = None -> ~ In c_nl s.
Proof.
  induction s as [|c r IH]; intros H Hin; [exact Hin|].
  cbn [cut_first_nl] in H. destruct (c =? c_nl)%N eqn:E; [discriminate|].
  destruct (cut_first_nl r) as [[a' b']|] eqn:F; [discriminate|].
  destruct Hin as [Hc|Hr].
  - subst. now rewrite N.eqb_refl in E.
  - now apply IH.
Qed.

Lemma cut_first_nl_first : forall s a b, cut_first_nl s = Some (a, b) -> ~ In c_nl a.
Proof.
  induction s as [|c r IH]; intros a b H; [discriminate|].
  cbn [cut_first_nl] in H. destruct (c =? c_nl)%N eqn:E.
  - inversion H; subst. intros [].
  - destruct (cut_first_nl r) as [[a' b']|] eqn:F; [|discriminate]. inversion H; subst.
    intros [Hc|Hr].
    + subst. now rewrite N.eqb_refl in E.
    + exact (IH a' b eq_refl Hr).
Qed.

Lemma cut_last_nl_sound : forall s a b, cut_last_nl s = Some (a, b) -> s = a ++ c_nl :: b.
Proof.
  intros s a b H. unfold cut_last_nl in H.
  destruct (cut_first_nl (rev s)) as [[x y]|] eqn:E; [|discriminate]. inversion H; subst.
  apply cut_first_nl_sound in E. rewrite <- (rev_involutive s), E, rev_app_distr.
  cbn [rev]. now rewrite <- app_assoc.
Qed.

(* it is the LAST newline: none follows *)
Lemma cut_last_nl_last : forall s a b, cut_last_nl s = Some (a, b) -> ~ In c_nl b.
Proof.
  intros s a b H. unfold cut_last_nl in H.
  destruct (cut_first_nl (rev s)) as [[x y]|] eqn:E; [|discriminate]. inversion H; subst.
  intro Hin. apply in_rev in Hin. exact (cut_first_nl_first _ _ _ E Hin).
Qed.

Lemma cut_last_nl_none : forall s, cut_last_nl s = None -> ~ In c_nl s.
Proof.
  intros s H Hin. unfold cut_last_nl in H.
  destruct (cut_first_nl (rev s)) as [[x y]|] eqn:E; [discriminate|].
  apply (cut_first_nl_none _ E). now apply in_rev in Hin.
Qed.

(* ------------------------------------------------------------------------------------------------ *)
(* one call of the block reader *)
Lemma firstn_short : forall (A : Type) n (l : list A), (length (firstn n l) < n)%nat -> firstn n l = l /\ skipn n l = [].
Proof.
  intros A n l H. rewrite firstn_length in H.
  assert (length l <= n)%nat as L by lia.
  split; [now apply firstn_all2 | now apply skipn_all2].
Qed.

(* what a delivered block is: either the unread text up to one of its newlines (the rest is carried or still unread),
   or - at the end of a stream that ends regularly - everything that was left *)
Lemma next_block_data : forall e maxline stall caps tail fresh rest b tail' rest' cap',
  next_block e maxline stall caps tail fresh rest = BlkData b tail' rest' cap' ->
  tail ++ fresh ++ rest = b ++ c_nl :: tail' ++ rest' \/
  (e = EndEOF /\ b = tail ++ fresh ++ rest /\ tail' = [] /\ rest' = [] /\ b <> []).
Proof.
  intros e maxline stall caps. induction caps as [|cap caps' IH]; intros tail fresh rest b tail' rest' cap' H;
    [discriminate|].
  cbn [next_block] in H.
  destruct ((cap - (length tail + length fresh))%nat =? 0)%nat eqn:Eroom.
  - destruct rest as [|r0 rr]; [|discriminate]. destruct e; [|discriminate].
    destruct stall; [|discriminate].
    destruct ((length tail + length fresh)%nat =? 0)%nat eqn:Eh; [discriminate|].
    inversion H; subst. right. rewrite app_nil_r. repeat split.
    intro Hn. apply (f_equal (@length N)) in Hn. rewrite app_length in Hn. cbn in Hn.
    apply Nat.eqb_neq in Eh. lia.
  - set (room := (cap - (length tail + length fresh))%nat) in *.
    destruct (length (firstn room rest) <? room)%nat eqn:Eshort.
    + apply Nat.ltb_lt in Eshort. destruct (firstn_short _ _ _ Eshort) as [Hf Hs].
      destruct e; [|discriminate].
      destruct ((length tail + length fresh + length (firstn room rest))%nat =? 0)%nat eqn:Ez; [discriminate|].
      inversion H; subst. right. rewrite Hf. repeat split.
      intro Hn. apply (f_equal (@length N)) in Hn. rewrite !app_length in Hn. cbn in Hn.
      apply Nat.eqb_neq in Ez. rewrite Hf in Ez. lia.
    + destruct (cut_last_nl (fresh ++ firstn room rest)) as [[a bb]|] eqn:Ecut.
      * inversion H; subst. left. apply cut_last_nl_sound in Ecut.
        rewrite <- (firstn_skipn room rest) at 1.
        rewrite (app_assoc fresh), Ecut, <- !app_assoc. cbn [app]. reflexivity.
      * destruct (maxline <? length tail + length (fresh ++ firstn room rest))%nat; [discriminate|].
        apply IH in H.
        assert (tail ++ fresh ++ rest = tail ++ (fresh ++ firstn room rest) ++ skipn room rest) as Hrw
          by (now rewrite <- app_assoc, firstn_skipn).
        rewrite Hrw. exact H.
Qed.

Lemma next_block_end : forall e maxline stall caps tail fresh rest,
  next_block e maxline stall caps tail fresh rest = BlkEnd -> e = EndEOF /\ tail ++ fresh ++ rest = [].
Proof.
  intros e maxline stall caps. induction caps as [|cap caps' IH]; intros tail fresh rest H; [discriminate|].
  cbn [next_block] in H.
  destruct ((cap - (length tail + length fresh))%nat =? 0)%nat eqn:Eroom.
  - destruct rest as [|r0 rr]; [|discriminate]. destruct e; [|discriminate].
    destruct stall; [|discriminate].
    destruct ((length tail + length fresh)%nat =? 0)%nat eqn:Eh; [|discriminate].
    apply Nat.eqb_eq in Eh. split; [reflexivity|].
    destruct tail; [|cbn in Eh; lia]. destruct fresh; [|cbn in Eh; lia]. reflexivity.
  - set (room := (cap - (length tail + length fresh))%nat) in *.
    destruct (length (firstn room rest) <? room)%nat eqn:Eshort.
    + apply Nat.ltb_lt in Eshort. destruct (firstn_short _ _ _ Eshort) as [Hf Hs].
      destruct e; [|discriminate]. split; [reflexivity|].
      destruct ((length tail + length fresh + length (firstn room rest))%nat =? 0)%nat eqn:Ez; [|discriminate].
      apply Nat.eqb_eq in Ez. rewrite Hf in Ez.
      destruct tail; [|cbn in Ez; lia]. destruct fresh; [|cbn in Ez; lia]. destruct rest; [|cbn in Ez; lia]. reflexivity.
    + destruct (cut_last_nl (fresh ++ firstn room rest)) as [[a bb]|]; [discriminate|].
      destruct (maxline <? length tail + length (fresh ++ firstn room rest))%nat; [discriminate|].
      apply IH in H. destruct H as [He H]. split; [exact He|].
      rewrite <- app_assoc, firstn_skipn in H. exact H.
Qed.

(* ------------------------------------------------------------------------------------------------ *)
(* the read loop *)

(* a stream that ends in an error never ends the loop cleanly *)
Lemma read_blocks_err_not_ok : forall maxline sched tail rest bl ok,
  read_blocks EndErr maxline sched tail rest = (bl, ok) -> ok = false.
Proof.
  intros maxline sched. induction sched as [|[caps stall] sched' IH]; intros tail rest bl ok H.
  - cbn in H. now inversion H.
  - cbn [read_blocks] in H.
    destruct (next_block EndErr maxline stall caps tail [] rest) as [b tail' rest' cap'| |] eqn:E.
    + destruct (read_blocks EndErr maxline sched' tail' rest') as [bl' ok'] eqn:R. inversion H; subst.
      eapply IH; eauto.
    + apply next_block_end in E. destruct E as [E _]. discriminate.
    + now inversion H.
Qed.

(* a clean end: the data lines of the delivered blocks, in order, are exactly the data lines of the stream - for every
   schedule of buffer capacities and every max-line-size *)
Lemma read_blocks_complete : forall e maxline sched tail rest bl,
  read_blocks e maxline sched tail rest = (bl, true) ->
  flat_map dlines (map fst bl) = dlines (tail ++ rest).
Proof.
  intros e maxline sched. induction sched as [|[caps stall] sched' IH]; intros tail rest bl H.
  - cbn in H. inversion H.
  - cbn [read_blocks] in H.
    destruct (next_block e maxline stall caps tail [] rest) as [b tail' rest' cap'| |] eqn:E.
    + destruct (read_blocks e maxline sched' tail' rest') as [bl' ok'] eqn:R. inversion H; subst.
      cbn [map fst flat_map]. rewrite (IH _ _ _ R).
      apply next_block_data in E. cbn [app] in E. destruct E as [E|(_ & Eb & Et & Er & _)].
      * rewrite E. now rewrite dlines_cut.
      * subst. cbn [app]. rewrite dlines_nil. now rewrite app_nil_r.
    + inversion H; subst. apply next_block_end in E. destruct E as [_ E]. cbn [app] in E. rewrite E. reflexivity.
    + inversion H.
Qed.

(* any end: what was delivered is a prefix of the data lines of the stream, and - unless everything was delivered
   at a regular end - the delivered text ends at a newline of the stream, so no cut line is ever among them, whatever
   follows ([more]) in the text the stream is a prefix of *)
Lemma read_blocks_prefix : forall e maxline sched tail rest bl ok,
  read_blocks e maxline sched tail rest = (bl, ok) ->
  exists Y, dlines (tail ++ rest) = flat_map dlines (map fst bl) ++ dlines Y /\
            (e = EndErr -> forall more, dlines (tail ++ rest ++ more) = flat_map dlines (map fst bl) ++ dlines (Y ++ more)).
Proof.
  intros e maxline sched. induction sched as [|[caps stall] sched' IH]; intros tail rest bl ok H.
  - cbn in H. inversion H; subst. exists (tail ++ rest). split; [reflexivity|]. intros _ more. now rewrite <- app_assoc.
  - cbn [read_blocks] in H.
    destruct (next_block e maxline stall caps tail [] rest) as [b tail' rest' cap'| |] eqn:E.
    + destruct (read_blocks e maxline sched' tail' rest') as [bl' ok'] eqn:R. inversion H; subst.
      destruct (IH _ _ _ _ R) as (Y & HY & HYe).
      apply next_block_data in E. cbn [app] in E. destruct E as [E|(Ee & Eb & Et & Er & _)].
      * exists Y. cbn [map fst flat_map]. split.
        -- rewrite E, dlines_cut, HY. now rewrite app_assoc.
        -- intros He more. rewrite app_assoc, E, <- app_assoc. cbn [app]. rewrite dlines_cut.
           rewrite <- app_assoc, (HYe He more). now rewrite app_assoc.
      * subst. exists []. cbn [map fst flat_map]. split.
        -- cbn [app] in HY. rewrite dlines_nil in HY. rewrite dlines_nil, app_nil_r.
           destruct (flat_map dlines (map fst bl')); [now rewrite app_nil_r|].
           symmetry in HY. apply app_eq_nil in HY. destruct HY; discriminate.
        -- intro He. discriminate.
    + inversion H; subst. exists (tail ++ rest). split; [reflexivity|]. intros _ more. now rewrite <- app_assoc.
    + inversion H; subst. exists (tail ++ rest). split; [reflexivity|]. intros _ more. now rewrite <- app_assoc.
Qed.

(* nothing left: nothing delivered *)
Lemma read_blocks_nil : forall e maxline sched bl ok, read_blocks e maxline sched [] [] = (bl, ok) -> bl = [].
Proof.
  intros e maxline sched bl ok H. destruct sched as [|[caps stall] sched']; cbn [read_blocks] in H; [now inversion H|].
  destruct (next_block e maxline stall caps [] [] []) as [b tail' rest' cap'| |] eqn:E.
  - apply next_block_data in E. cbn [app] in E. destruct E as [E|(_ & Eb & _ & _ & Hne)].
    + destruct b; discriminate.
    + now elim Hne.
  - now inversion H.
  - now inversion H.
Qed.

(* every delivered block but the last ends just before a newline and starts after one: no block holds a newline-less
   piece of a longer line. Stated on texts: the blocks joined by newlines are a prefix of the stream. *)
Fixpoint join_nl (l : list bytes) : bytes :=
  match l with [] => [] | b :: r => b ++ c_nl :: join_nl r end.

Lemma read_blocks_join : forall e maxline sched tail rest bl ok,
  read_blocks e maxline sched tail rest = (bl, ok) ->
  (exists Y, tail ++ rest = join_nl (map fst bl) ++ Y) \/
  (e = EndEOF /\ exists bl' b cap, bl = bl' ++ [(b, cap)] /\ tail ++ rest = join_nl (map fst bl') ++ b).
Proof.
  intros e maxline sched. induction sched as [|[caps stall] sched' IH]; intros tail rest bl ok H.
  - cbn in H. inversion H; subst. left. now exists (tail ++ rest).
  - cbn [read_blocks] in H.
    destruct (next_block e maxline stall caps tail [] rest) as [b tail' rest' cap'| |] eqn:E.
    + destruct (read_blocks e maxline sched' tail' rest') as [bl' ok'] eqn:R. inversion H; subst.
      apply next_block_data in E. cbn [app] in E. destruct E as [E|(Ee & Eb & Et & Er & _)].
      * destruct (IH _ _ _ _ R) as [(Y & HY)|(Ee & bl2 & b2 & cap2 & Hbl & HY)].
        -- left. exists Y. cbn [map fst join_nl]. rewrite E, HY, <- app_assoc. reflexivity.
        -- right. split; [exact Ee|]. exists ((b, cap') :: bl2), b2, cap2. split; [now rewrite Hbl|].
           cbn [map fst join_nl]. rewrite E, HY, <- app_assoc. reflexivity.
      * subst. right. split; [reflexivity|].
        apply read_blocks_nil in R. subst bl'.
        exists [], (tail ++ rest), cap'. split; reflexivity.
    + inversion H; subst. left. now exists (tail ++ rest).
    + inversion H; subst. left. now exists (tail ++ rest).
Qed.

(* rows and error flag of a text depend on its data lines only (every configuration) *)
Lemma rows_dlines : forall d c s, fst (parse_batch d c s) = flat_map (line_rows d c) (dlines s).
Proof.
  intros d c s. rewrite batch_rows_exact. unfold dlines.
  induction (split_lines s) as [|l r IH]; [reflexivity|].
  cbn [filter flat_map]. destruct l as [|x l']; cbn [nonempty]; [exact IH|].
  cbn [flat_map]. now rewrite IH.
Qed.

Lemma read_blocks_rows : forall d c e maxline sched body bl,
  read_blocks e maxline sched [] body = (bl, true) ->
  flat_map (fun b => fst (parse_batch d c b)) (map fst bl) = fst (parse_batch d c body).
Proof.
  intros d c e maxline sched body bl H. rewrite rows_dlines.
  pose proof (read_blocks_complete _ _ _ _ _ _ H) as Hc. cbn [app] in Hc. rewrite <- Hc. clear Hc H.
  induction (map fst bl) as [|b r IH]; [reflexivity|].
  cbn [flat_map]. rewrite flat_map_app, <- IH, rows_dlines. reflexivity.
Qed.

(* ------------------------------------------------------------------------------------------------ *)
(* a block of lines as the unit of acceptance *)
Section Accept.
Variable d : bytes -> f64.
Variable c : cfg.
Hypothesis Hc : c_batch c = false.
Variable mult : Z.

Definition noname (r : row) : bool := match r_name r with [] => true | _ => false end.

(* accept_block on the list of data lines: refused as a whole when a line is refused or has no measurement name or a
   timestamp leaves the int64 range; otherwise every line's row, scaled *)
Definition accept_lines (ls : list bytes) : result (list row) :=
  if existsb (line_fails d c) ls then Err
  else let rows := flat_map (line_rows d c) ls in
       if existsb noname rows then Err else map_result (scale_row c mult) rows.

Lemma parse_row_nil : parse_row d c [] = None.
Proof. reflexivity. Qed.

Lemma flat_map_filter_nonempty : forall (B : Type) (f : bytes -> list B) ls,
  f [] = [] -> flat_map f (filter nonempty ls) = flat_map f ls.
Proof.
  intros B f ls Hf. induction ls as [|l r IH]; [reflexivity|].
  cbn [filter flat_map]. destruct l as [|x l']; cbn [nonempty].
  - now rewrite Hf, IH.
  - cbn [flat_map]. now rewrite IH.
Qed.

Lemma existsb_filter_nonempty : forall (f : bytes -> bool) ls,
  f [] = false -> existsb f (filter nonempty ls) = existsb f ls.
Proof.
  intros f ls Hf. induction ls as [|l r IH]; [reflexivity|].
  cbn [filter existsb]. destruct l as [|x l']; cbn [nonempty].
  - now rewrite Hf, IH.
  - cbn [existsb]. now rewrite IH.
Qed.

Lemma accept_block_lines : forall s, accept_block d c mult s = accept_lines (dlines s).
Proof.
  intro s. unfold accept_block, accept_lines, dlines.
  pose proof (batch_rows_exact d c s) as Hr.
  pose proof (batch_go_err_sticky d c (split_lines s) [] false Hc) as He.
  unfold parse_batch in *. destruct (batch_go d c (split_lines s) [] false) as [rows err].
  cbn [fst snd] in *. subst rows err. cbn [orb].
  rewrite existsb_filter_nonempty by reflexivity.
  rewrite flat_map_filter_nonempty by reflexivity. reflexivity.
Qed.

Lemma map_result_app : forall (A B : Type) (f : A -> result B) l1 l2,
  map_result f (l1 ++ l2) =
  match map_result f l1, map_result f l2 with Ok a, Ok b => Ok (a ++ b) | _, _ => Err end.
Proof.
  intros A B f l1 l2. induction l1 as [|x r IH]; cbn [app map_result].
  - destruct (map_result f l2); reflexivity.
  - destruct (f x) as [y|]; cbn [bind]; [|reflexivity].
    rewrite IH. destruct (map_result f r); cbn [bind]; [|reflexivity].
    destruct (map_result f l2); reflexivity.
Qed.

(* acceptance of a concatenation = acceptance of both parts, rows appended *)
Lemma accept_lines_app : forall l1 l2,
  accept_lines (l1 ++ l2) =
  match accept_lines l1, accept_lines l2 with Ok a, Ok b => Ok (a ++ b) | _, _ => Err end.
Proof.
  intros l1 l2. unfold accept_lines. rewrite existsb_app, flat_map_app, existsb_app, map_result_app.
  destruct (existsb (line_fails d c) l1), (existsb noname (flat_map (line_rows d c) l1)),
    (map_result (scale_row c mult) (flat_map (line_rows d c) l1)), (existsb (line_fails d c) l2),
    (existsb noname (flat_map (line_rows d c) l2)), (map_result (scale_row c mult) (flat_map (line_rows d c) l2));
    reflexivity.
Qed.

Lemma accept_lines_nil : accept_lines [] = Ok [].
Proof. reflexivity. Qed.

Definition group_rows (g : list bytes) : list row := match accept_lines g with Ok rows => rows | Err => [] end.

Lemma block_rows_group : forall b, block_rows d c mult b = group_rows (dlines b).
Proof. intro b. unfold block_rows, group_rows. now rewrite accept_block_lines. Qed.

Lemma block_ok_lines : forall b, block_ok d c mult b = match accept_lines (dlines b) with Ok _ => true | Err => false end.
Proof. intro b. unfold block_ok. now rewrite accept_block_lines. Qed.

(* all blocks accepted: their concatenation is accepted with the concatenated rows *)
Lemma accept_all_blocks : forall blocks,
  forallb (block_ok d c mult) blocks = true ->
  accept_lines (flat_map dlines blocks) = Ok (flat_map (block_rows d c mult) blocks).
Proof.
  induction blocks as [|b r IH]; intro H; [reflexivity|].
  cbn [forallb] in H. apply andb_true_iff in H. destruct H as [Hb Hr].
  cbn [flat_map]. rewrite accept_lines_app, (IH Hr).
  rewrite block_ok_lines in Hb. rewrite block_rows_group. unfold group_rows.
  destruct (accept_lines (dlines b)); [reflexivity|discriminate].
Qed.

(* acknowledged (the status is computed from the reader's end and the blocks' errors) means: the body was within
   max-body-size, and what was stored is exactly what accepting the whole body as one block stores *)
Theorem serve_write_ack : forall limit declared gz maxline sched body stored,
  serve_write d c limit declared gz maxline sched mult body = (WAck, stored) ->
  accept_block d c mult body = Ok stored /\
  match stream_limit limit gz with Some n => (length body <= n)%nat | None => True end.
Proof.
  intros limit0 declared gz maxline sched body stored H. unfold serve_write in H.
  destruct (match limit0, declared with Some n, Some dd => (n <? dd)%nat | _, _ => false end); [discriminate|].
  set (limit := stream_limit limit0 gz) in *.
  destruct (limit_stream limit body) as [stream e] eqn:L.
  destruct (read_blocks e maxline sched [] stream) as [bl ok] eqn:R.
  destruct (ok && forallb (block_ok d c mult) (map fst bl)) eqn:A; [|discriminate].
  apply andb_true_iff in A. destruct A as [Hok Hall]. subst ok. inversion H; subst.
  assert (e = EndEOF /\ stream = body /\ match limit with Some n => (length body <= n)%nat | None => True end) as (He & Hs & Hl).
  { unfold limit_stream in L. destruct limit as [n|].
    - destruct (length body <=? n)%nat eqn:Le; inversion L; subst.
      + apply Nat.leb_le in Le. auto.
      + apply read_blocks_err_not_ok in R. discriminate.
    - inversion L; subst. auto. }
  subst. split; [|exact Hl].
  rewrite accept_block_lines. pose proof (read_blocks_complete _ _ _ _ _ _ R) as Hcpl. cbn [app] in Hcpl. rewrite <- Hcpl.
  now apply accept_all_blocks.
Qed.

(* conversely: a body the reader gets through without an error and that is acceptable as one block is acknowledged,
   with exactly those rows (so the status and the stored rows do not depend on the schedule of capacities) *)
Lemma accept_lines_parts : forall blocks rows,
  accept_lines (flat_map dlines blocks) = Ok rows ->
  forallb (block_ok d c mult) blocks = true /\ rows = flat_map (block_rows d c mult) blocks.
Proof.
  induction blocks as [|b r IH]; intros rows H.
  - cbn in H. inversion H. split; reflexivity.
  - cbn [flat_map] in H. rewrite accept_lines_app in H.
    destruct (accept_lines (dlines b)) as [ra|] eqn:Ea; [|discriminate].
    destruct (accept_lines (flat_map dlines r)) as [rb|] eqn:Eb; [|discriminate].
    inversion H; subst. destruct (IH rb eq_refl) as [Hall Hrows].
    cbn [forallb flat_map]. rewrite block_ok_lines, Ea, Hall, block_rows_group. unfold group_rows. rewrite Ea, Hrows.
    split; reflexivity.
Qed.

Theorem serve_write_complete : forall limit declared gz maxline sched body bl rows,
  match limit, declared with Some n, Some dd => (n <? dd)%nat | _, _ => false end = false ->
  match stream_limit limit gz with Some n => (length body <= n)%nat | None => True end ->
  read_blocks EndEOF maxline sched [] body = (bl, true) ->
  accept_block d c mult body = Ok rows ->
  serve_write d c limit declared gz maxline sched mult body = (WAck, rows).
Proof.
  intros limit0 declared gz maxline sched body bl rows Hd Hl R A. unfold serve_write. rewrite Hd.
  assert (limit_stream (stream_limit limit0 gz) body = (body, EndEOF)) as L.
  { unfold limit_stream. destruct (stream_limit limit0 gz) as [n|]; [|reflexivity].
    apply Nat.leb_le in Hl. now rewrite Hl. }
  rewrite L, R. rewrite accept_block_lines in A.
  pose proof (read_blocks_complete _ _ _ _ _ _ R) as Hcpl. cbn [app] in Hcpl. rewrite <- Hcpl in A.
  apply accept_lines_parts in A. destruct A as [Hall Hrows]. rewrite Hall, Hrows. reflexivity.
Qed.

(* a streamed body longer than max-body-size is never acknowledged *)
Theorem serve_write_oversized : forall n declared maxline sched body,
  (n < length body)%nat ->
  fst (serve_write d c (Some n) declared false maxline sched mult body) = WRefused.
Proof.
  intros n declared maxline sched body Hn. unfold serve_write.
  destruct (match declared with Some dd => (n <? dd)%nat | None => false end); [reflexivity|].
  unfold stream_limit, limit_stream. destruct (length body <=? n)%nat eqn:Le; [apply Nat.leb_le in Le; lia|].
  destruct (read_blocks EndErr maxline sched [] (firstn (S n) body)) as [bl ok] eqn:R.
  apply read_blocks_err_not_ok in R. subst. reflexivity.
Qed.

(* whatever the status: the data lines of the body fall into consecutive groups and a dropped remainder; what is stored
   is, group by group, either everything the group's lines denote or nothing. No line is ever stored in part, no
   stored row comes from anything but a complete line of the body. *)
Theorem serve_write_stores_whole_lines : forall limit declared gz maxline sched body st stored,
  serve_write d c limit declared gz maxline sched mult body = (st, stored) ->
  exists groups dropped,
    dlines body = concat groups ++ dropped /\ stored = flat_map group_rows groups.
Proof.
  intros limit0 declared gz maxline sched body st stored H. unfold serve_write in H.
  destruct (match limit0, declared with Some n, Some dd => (n <? dd)%nat | _, _ => false end).
  { inversion H; subst. exists [], (dlines body). split; reflexivity. }
  set (limit := stream_limit limit0 gz) in *.
  destruct (limit_stream limit body) as [stream e] eqn:L.
  destruct (read_blocks e maxline sched [] stream) as [bl ok] eqn:R.
  inversion H; subst. clear H.
  destruct (read_blocks_prefix _ _ _ _ _ _ _ R) as (Y & HY & HYe). cbn [app] in HY, HYe.
  assert (exists dropped, dlines body = flat_map dlines (map fst bl) ++ dropped) as (dropped & Hd).
  { unfold limit_stream in L. destruct limit as [n|].
    - destruct (length body <=? n)%nat; inversion L; subst.
      + now exists (dlines Y).
      + exists (dlines (Y ++ skipn (S n) body)).
        rewrite <- (firstn_skipn (S n) body) at 1. now apply HYe.
    - inversion L; subst. now exists (dlines Y). }
  exists (map dlines (map fst bl)), dropped. split.
  - rewrite Hd, flat_map_concat_map. reflexivity.
  - rewrite !flat_map_concat_map. f_equal. rewrite (map_map dlines group_rows).
    apply map_ext. intro b. apply block_rows_group.
Qed.

End Accept.
