(* C06 - every text IsValidNumber accepts is a literal of the grammar the dec_parse theorems speak about:
     [sign] digits [ . digits ] [ (e|E) [sign] digits ]      (integer digits may be missing when fraction digits follow,
                                                               fraction digits may be missing after integer digits)
   proved by describing, for every state of the automaton, the texts that reach it. *)
From Coq Require Import ZArith NArith List Bool Lia.
From OG Require Import C06.Model C06.ProofsDec C06.ProofsRender C06.ProofsDecParse.
Import ListNotations.
Open Scope Z_scope.

(* the part before the exponent: sign, integer digits, optional point with fraction digits *)
Definition mtext (sg : option bool) (I : bytes) (pp : option bytes) : bytes :=
  sign_text sg ++ I ++ match pp with None => [] | Some F => c_dot :: F end.

Inductive shape : nst -> bytes -> Prop :=
| ShInit : shape SInit []
| ShSign : forall b, shape SSign (sign_text (Some b))
| ShInt : forall sg I, all_digits I = true -> I <> [] -> shape SInt (mtext sg I None)
| ShPoint : forall sg I, all_digits I = true -> I <> [] -> shape SPoint (mtext sg I (Some []))
| ShPointNoInt : forall sg, shape SPointNoInt (mtext sg [] (Some []))
| ShFrac : forall sg I F, all_digits I = true -> all_digits F = true -> F <> [] -> shape SFrac (mtext sg I (Some F))
| ShExp : forall sg I pp ec, all_digits I = true ->
    match pp with None => I <> [] | Some F => all_digits F = true /\ (I <> [] \/ F <> []) end ->
    is_e ec = true -> shape SExp (mtext sg I pp ++ [ec])
| ShExpSign : forall sg I pp ec b, all_digits I = true ->
    match pp with None => I <> [] | Some F => all_digits F = true /\ (I <> [] \/ F <> []) end ->
    is_e ec = true -> shape SExpSign (mtext sg I pp ++ ec :: sign_text (Some b))
| ShExpNum : forall sg I pp ec es X, all_digits I = true ->
    match pp with None => I <> [] | Some F => all_digits F = true /\ (I <> [] \/ F <> []) end ->
    is_e ec = true -> all_digits X = true -> X <> [] -> shape SExpNum (mtext sg I pp ++ ec :: sign_text es ++ X).

Lemma all_digits_snoc : forall I c, all_digits I = true -> is_digit c = true -> all_digits (I ++ [c]) = true.
Proof. intros. rewrite all_digits_app, H. cbn. now rewrite H0. Qed.

Lemma snoc_ne : forall (A : Type) (l : list A) x, l ++ [x] <> [].
Proof. intros A l x H. destruct l; discriminate. Qed.

Lemma sign_char : forall c, is_sign c = true -> exists b, [c] = sign_text (Some b).
Proof.
  intros c H. unfold is_sign in H. apply orb_true_iff in H. destruct H as [H|H]; apply N.eqb_eq in H; subst.
  - exists false. reflexivity.
  - exists true. reflexivity.
Qed.

Lemma shape_eq : forall st t s, shape st t -> t = s -> shape st s.
Proof. intros; subst; assumption. Qed.

Ltac norm := unfold mtext; repeat (first [rewrite <- app_assoc | progress cbn [app]]); repeat rewrite app_nil_r; reflexivity.

(* one step of the automaton keeps the description *)
Lemma shape_step : forall st s c st', shape st s -> nstep st c = Some st' -> shape st' (s ++ [c]).
Proof.
  intros st s c st' Hs Hn. unfold nstep in Hn.
  assert (Hd1 : is_digit c = true -> all_digits [c] = true) by (intro D; cbn; now rewrite D).
  assert (Hne1 : [c] <> []) by discriminate.
  destruct (is_digit c) eqn:D.
  - specialize (Hd1 eq_refl).
    inversion Hs; subst; inversion Hn; subst; clear Hn.
    + eapply shape_eq; [apply (ShInt None [c]); assumption|norm].
    + eapply shape_eq; [apply (ShInt (Some b) [c]); assumption|norm].
    + eapply shape_eq; [apply (ShInt sg (I ++ [c])); [now apply all_digits_snoc|apply snoc_ne]|norm].
    + eapply shape_eq; [apply (ShFrac sg I [c]); assumption|norm].
    + eapply shape_eq; [apply (ShFrac sg [] [c]); [reflexivity|assumption|assumption]|norm].
    + eapply shape_eq; [apply (ShFrac sg I (F ++ [c])); [assumption|now apply all_digits_snoc|apply snoc_ne]|norm].
    + eapply shape_eq; [apply (ShExpNum sg I pp ec None [c]); assumption|norm].
    + eapply shape_eq; [apply (ShExpNum sg I pp ec (Some b) [c]); assumption|norm].
    + eapply shape_eq; [apply (ShExpNum sg I pp ec es (X ++ [c])); try assumption; [now apply all_digits_snoc|apply snoc_ne]|norm].
  - destruct (is_e c) eqn:E.
    + inversion Hs; subst; try discriminate; inversion Hn; subst; clear Hn.
      * eapply shape_eq; [apply (ShExp sg I None c); assumption|norm].
      * eapply shape_eq; [apply (ShExp sg I (Some []) c); [assumption|split; [reflexivity|now left]|assumption]|norm].
      * eapply shape_eq; [apply (ShExp sg I (Some F) c); [assumption|split; [assumption|now right]|assumption]|norm].
    + destruct (c =? c_dot)%N eqn:P.
      * apply N.eqb_eq in P. subst c.
        inversion Hs; subst; try discriminate; inversion Hn; subst; clear Hn.
        -- eapply shape_eq; [apply (ShPointNoInt None)|norm].
        -- eapply shape_eq; [apply (ShPointNoInt (Some b))|norm].
        -- eapply shape_eq; [apply (ShPoint sg I); assumption|norm].
      * destruct (is_sign c) eqn:S; [|discriminate].
        destruct (sign_char c S) as [b Hb].
        inversion Hs; subst; try discriminate; inversion Hn; subst; clear Hn.
        -- eapply shape_eq; [apply (ShSign b)|rewrite <- Hb; reflexivity].
        -- eapply shape_eq; [apply (ShExpSign sg I pp ec b); assumption|rewrite <- Hb; norm].
Qed.

Lemma nrun_shape : forall s st, nrun SInit s = Some st -> shape st s.
Proof.
  induction s as [|c s IH] using rev_ind; intros st H.
  - cbn in H. inversion H; subst. constructor.
  - rewrite nrun_snoc in H. destruct (nrun SInit s) as [st0|] eqn:R; [|discriminate].
    eapply shape_step; [apply IH; reflexivity|exact H].
Qed.

(* every valid number is a literal of the grammar *)
Theorem valid_number_grammar : forall s, valid_number s = true ->
  exists sg I, all_digits I = true /\
    ((I <> [] /\ s = sign_text sg ++ I) \/
     (exists F, all_digits F = true /\ (I <> [] \/ F <> []) /\ s = sign_text sg ++ I ++ c_dot :: F) \/
     (exists ec es X, I <> [] /\ is_e ec = true /\ all_digits X = true /\ X <> [] /\ s = sign_text sg ++ I ++ ec :: sign_text es ++ X) \/
     (exists F ec es X, all_digits F = true /\ (I <> [] \/ F <> []) /\ is_e ec = true /\ all_digits X = true /\ X <> [] /\
                        s = sign_text sg ++ I ++ c_dot :: F ++ ec :: sign_text es ++ X)).
Proof.
  intros s H. unfold valid_number in H. destruct (nrun SInit s) as [st|] eqn:R; [|discriminate].
  apply nrun_shape in R. inversion R; subst; try discriminate.
  - exists sg, I. split; [assumption|]. left. split; [assumption|norm].
  - exists sg, I. split; [assumption|]. right; left. exists []. split; [reflexivity|]. split; [now left|norm].
  - exists sg, I. split; [assumption|]. right; left. exists F. split; [assumption|]. split; [now right|norm].
  - exists sg, I. split; [assumption|]. destruct pp as [F|].
    + right; right; right. destruct H1 as [HF Hne]. exists F, ec, es, X. repeat (split; [assumption|]). norm.
    + right; right; left. exists ec, es, X. repeat (split; [assumption|]). norm.
Qed.
