(* C06 property theorems. Statements closed by `exact lemma`, followed by Print Assumptions. *)
From Coq Require Import ZArith NArith List Bool String.
From OG Require Import C06.Model C06.Proofs.
Import ListNotations.
Open Scope Z_scope.

(* escape_roundtrip: EVERY byte string - commas, spaces, '=', quotes, backslashes, UTF-8 included - survives the
   escaper of measurement / tag key / tag value / field key followed by the parser's unescaping ... *)
Theorem C06_escape_roundtrip_tag : forall s, unescape_tag (escape_tag s) = s.
Proof. exact unescape_escape_tag. Qed.
Print Assumptions C06_escape_roundtrip_tag.

(* ... the parser finds the end of the escaped text exactly at the delimiter that follows it (space, comma, '=') ... *)
Theorem C06_escape_delimits : forall ch s r,
  is_esc ch = true -> (ch =? c_bs)%N = false ->
  split_unesc ch false (escape_tag s ++ ch :: r) = Some (escape_tag s, r).
Proof. exact split_unesc_escape_tag. Qed.
Print Assumptions C06_escape_delimits.

(* ... and every byte string survives string-field escaping (quote and backslash) and unescaping *)
Theorem C06_escape_roundtrip_str : forall s, unesc_str 0 (escape_str s) = s.
Proof. exact unesc_escape_str. Qed.
Print Assumptions C06_escape_roundtrip_str.

(* batch_reports_every_invalid_line (repaired parser, any float conversion): a refused line anywhere in a block makes
   the block report an error ... *)
Theorem C06_batch_reports_every_invalid_line : forall d s l,
  In l (split_lines s) -> parse_row d cfg_repaired l = Some Err ->
  snd (parse_batch d cfg_repaired s) = true.
Proof. intros d s l. exact (batch_repaired_reports d cfg_repaired s l eq_refl). Qed.
Print Assumptions C06_batch_reports_every_invalid_line.

(* ... hence the write endpoint stores nothing of that block (the callback returns before the points writer) ... *)
Theorem C06_invalid_line_block_rejected : forall d mult s l,
  In l (split_lines s) -> parse_row d cfg_repaired l = Some Err ->
  accept_block d cfg_repaired mult s = Err.
Proof. intros d mult s l. exact (accept_block_rejects d cfg_repaired mult s l eq_refl). Qed.
Print Assumptions C06_invalid_line_block_rejected.

(* ... and in every configuration the rows handed on are exactly the rows of the lines that parse: a refused line
   contributes nothing (invalid_rejected_stores_nothing, batch level) *)
Theorem C06_rows_are_exactly_the_parsed_lines : forall d c s,
  fst (parse_batch d c s) = flat_map (line_rows d c) (split_lines s).
Proof. exact batch_rows_exact. Qed.
Print Assumptions C06_rows_are_exactly_the_parsed_lines.

(* non-vacuity: a line using every escape form parses to the point it denotes *)
Example C06_example_escapes :
  parse_line dec2f_exact cfg_repaired (bs "m\ 1\,a,t\=k=v\\\,w s=""q\""\\ e"",i=-42i,b=T,f=2.5e-1 1600000000000000000") =
  Ok {| r_name := bs "m 1,a"; r_tags := [(bs "t=k", bs "v\,w")];
        r_fields := [(bs "s", VStr (bs "q""\ e")); (bs "i", VInt (-42) (-42)); (bs "b", VBool true);
                     (bs "f", VFloat (bs "2.5e-1") (FFin false 4503599627370496 (-54)))];
        r_ts := Some 1600000000000000000 |}.
Proof. vm_compute. reflexivity. Qed.
