(* C06 property theorems. Statements closed by `exact lemma`, followed by Print Assumptions. *)
From Coq Require Import ZArith NArith List Bool String Lia Permutation.
From OG Require Import C06.Model C06.ModelStream C06.Proofs C06.ProofsInt C06.ProofsDec C06.ProofsRender C06.ProofsStream C06.ProofsFloat C06.ProofsFloatAll C06.ProofsDecParse C06.ProofsValidGrammar C06.ModelWriter C06.ProofsWriter.
Import ListNotations.
Open Scope Z_scope.

(* escape_roundtrip: EVERY byte string - commas, spaces, '=', quotes, backslashes, UTF-8 included - survives the
   escaper of measurement / tag key / tag value / field key followed by the parser's unescaping ... *)
Theorem C06_escape_roundtrip_tag : forall s, unescape_tag (escape_tag s) = s.
Proof. exact unescape_escape_tag. Qed.
Print Assumptions C06_escape_roundtrip_tag.

(* ... the parser finds the end of the escaped text exactly at the delimiter that follows it (space, comma, '=') ... *)
Theorem C06_escape_delimits : forall ch s r,
  is_esc ch = true -> (ch =? c_bs)%N = false ->
  split_unesc ch false (escape_tag s ++ ch :: r) = Some (escape_tag s, r).
Proof. exact split_unesc_escape_tag. Qed.
Print Assumptions C06_escape_delimits.

(* ... and every byte string survives string-field escaping (quote and backslash) and unescaping *)
Theorem C06_escape_roundtrip_str : forall s, unesc_str 0 (escape_str s) = s.
Proof. exact unesc_escape_str. Qed.
Print Assumptions C06_escape_roundtrip_str.

(* batch_reports_every_invalid_line (repaired parser, any float conversion): a refused line anywhere in a block makes
   the block report an error ... *)
Theorem C06_batch_reports_every_invalid_line : forall d s l,
  In l (split_lines s) -> parse_row d cfg_repaired l = Some Err ->
  snd (parse_batch d cfg_repaired s) = true.
Proof. intros d s l. exact (batch_repaired_reports d cfg_repaired s l eq_refl). Qed.
Print Assumptions C06_batch_reports_every_invalid_line.

(* ... hence the write endpoint stores nothing of that block (the callback returns before the points writer) ... *)
Theorem C06_invalid_line_block_rejected : forall d mult s l,
  In l (split_lines s) -> parse_row d cfg_repaired l = Some Err ->
  accept_block d cfg_repaired mult s = Err.
Proof. intros d mult s l. exact (accept_block_rejects d cfg_repaired mult s l eq_refl). Qed.
Print Assumptions C06_invalid_line_block_rejected.

(* ... and in every configuration the rows handed on are exactly the rows of the lines that parse: a refused line
   contributes nothing (invalid_rejected_stores_nothing, batch level) *)
Theorem C06_rows_are_exactly_the_parsed_lines : forall d c s,
  fst (parse_batch d c s) = flat_map (line_rows d c) (split_lines s).
Proof. exact batch_rows_exact. Qed.
Print Assumptions C06_rows_are_exactly_the_parsed_lines.

(* the block reader may cut a request body at any newline: the rows of the body are the rows of the first block
   (newline-terminated) followed by the rows of the rest - every line is delivered exactly once, in order *)
Theorem C06_rows_independent_of_block_cut : forall d c a b,
  fst (parse_batch d c (a ++ c_nl :: b)) = fst (parse_batch d c (a ++ [c_nl])) ++ fst (parse_batch d c b).
Proof. exact rows_cut_at_newline. Qed.
Print Assumptions C06_rows_independent_of_block_cut.

(* timestamps keep their instant: the repaired scaling by the precision factor stores exactly t * factor, and only when
   that is within int64 *)
Theorem C06_timestamp_scaled_exactly : forall mult r r',
  scale_row cfg_repaired mult r = Ok r' ->
  r_name r' = r_name r /\ r_tags r' = r_tags r /\ r_fields r' = r_fields r /\
  match r_ts r with
  | None => r_ts r' = None
  | Some t => r_ts r' = Some (t * mult) /\ t * mult <= max_int64
  end.
Proof. exact scale_row_repaired_exact. Qed.
Print Assumptions C06_timestamp_scaled_exactly.

(* ------------------------------------------------------------------------------------------------ *)
(* the body framing between the socket and the parser (ModelStream: ReadLinesBlockExt, truncateReader, the read loop of
   serveWrite).  Every statement is for EVERY schedule of buffer capacities, every max-line-size, every body. *)

(* the block reader: when it ends without an error, the data lines (non-empty lines) of the blocks it delivered, in
   order, are exactly the data lines of the body - nothing lost, nothing twice, nothing cut ... *)
Theorem C06_blocks_deliver_every_line : forall e maxline sched body bl,
  read_blocks e maxline sched [] body = (bl, true) ->
  flat_map dlines (map fst bl) = dlines body.
Proof. intros e maxline sched body bl. exact (read_blocks_complete e maxline sched [] body bl). Qed.
Print Assumptions C06_blocks_deliver_every_line.

(* ... hence, in every configuration of the parser, the rows of the blocks are the rows of the body ... *)
Theorem C06_blocks_rows_are_body_rows : forall d c e maxline sched body bl,
  read_blocks e maxline sched [] body = (bl, true) ->
  flat_map (fun b => fst (parse_batch d c b)) (map fst bl) = fst (parse_batch d c body).
Proof. exact read_blocks_rows. Qed.
Print Assumptions C06_blocks_rows_are_body_rows.

(* ... and however the loop ends, blocks are cut at newlines of the body only: the blocks joined by newlines are a
   prefix of the body, or (regular end) the last block is the rest of the body *)
Theorem C06_blocks_cut_only_at_newlines : forall e maxline sched body bl ok,
  read_blocks e maxline sched [] body = (bl, ok) ->
  (exists Y, body = join_nl (map fst bl) ++ Y) \/
  (e = EndEOF /\ exists bl' b cap, bl = bl' ++ [(b, cap)] /\ body = join_nl (map fst bl') ++ b).
Proof. intros e maxline sched body bl ok. exact (read_blocks_join e maxline sched [] body bl ok). Qed.
Print Assumptions C06_blocks_cut_only_at_newlines.

(* the write endpoint: an acknowledged request stored exactly what accepting its whole body as one block stores (every
   line, with the value its text denotes by C06_accepted_means_written), and its body was within max-body-size *)
Theorem C06_acknowledged_write_stores_every_line : forall d limit declared gz maxline sched mult body stored,
  serve_write d cfg_repaired limit declared gz maxline sched mult body = (WAck, stored) ->
  accept_block d cfg_repaired mult body = Ok stored /\
  match stream_limit limit gz with Some n => (List.length body <= n)%nat | None => True end.
Proof. intros d limit declared gz maxline sched mult. exact (serve_write_ack d cfg_repaired eq_refl mult limit declared gz maxline sched). Qed.
Print Assumptions C06_acknowledged_write_stores_every_line.

(* conversely, the answer does not depend on how the body is cut into blocks: a body within the limits that the reader
   gets through and that is acceptable as one block is acknowledged with exactly those rows *)
Theorem C06_acceptable_body_acknowledged : forall d limit declared gz maxline sched mult body bl rows,
  match limit, declared with Some n, Some dd => (n <? dd)%nat | _, _ => false end = false ->
  match stream_limit limit gz with Some n => (List.length body <= n)%nat | None => True end ->
  read_blocks EndEOF maxline sched [] body = (bl, true) ->
  accept_block d cfg_repaired mult body = Ok rows ->
  serve_write d cfg_repaired limit declared gz maxline sched mult body = (WAck, rows).
Proof. intros d limit declared gz maxline sched mult. exact (serve_write_complete d cfg_repaired eq_refl mult limit declared gz maxline sched). Qed.
Print Assumptions C06_acceptable_body_acknowledged.

(* a streamed body (no usable Content-Length) longer than max-body-size is never acknowledged *)
Theorem C06_oversized_stream_refused : forall d n declared maxline sched mult body,
  (n < List.length body)%nat ->
  fst (serve_write d cfg_repaired (Some n) declared false maxline sched mult body) = WRefused.
Proof. intros d n declared maxline sched mult. exact (serve_write_oversized d cfg_repaired mult n declared maxline sched). Qed.
Print Assumptions C06_oversized_stream_refused.

(* whatever the answer: the data lines of the body fall into consecutive groups and a dropped remainder, and what is
   stored is, group by group, everything the group's lines denote or nothing - never a part of a line, never a row
   that is not the row of a complete line of the body *)
Theorem C06_write_stores_whole_lines_only : forall d limit declared gz maxline sched mult body st stored,
  serve_write d cfg_repaired limit declared gz maxline sched mult body = (st, stored) ->
  exists groups dropped,
    dlines body = List.concat groups ++ dropped /\ stored = flat_map (group_rows d cfg_repaired mult) groups.
Proof. intros d limit declared gz maxline sched mult. exact (serve_write_stores_whole_lines d cfg_repaired eq_refl mult limit declared gz maxline sched). Qed.
Print Assumptions C06_write_stores_whole_lines_only.

(* non-vacuity: a body of three lines read with 16-byte buffers arrives in three blocks and is acknowledged with its
   three rows; the same body against max-body-size 20 is refused and leaves the rows of its first block only *)
Example C06_example_stream :
  let body := bs "m x=1i 1" ++ [c_nl] ++ bs "m x=2i 2" ++ [c_nl] ++ bs "m x=3i 3" in
  let sched := repeat ([16; 32; 64]%nat, false) 6 in
  map fst (fst (read_blocks EndEOF 1000 sched [] body)) = [bs "m x=1i 1"; bs "m x=2i 2"; bs "m x=3i 3"] /\
  snd (read_blocks EndEOF 1000 sched [] body) = true /\
  fst (serve_write dec2f_exact cfg_repaired (Some 100%nat) None false 1000 sched 1 body) = WAck /\
  List.length (snd (serve_write dec2f_exact cfg_repaired (Some 100%nat) None false 1000 sched 1 body)) = 3%nat /\
  fst (serve_write dec2f_exact cfg_repaired (Some 20%nat) None false 1000 sched 1 body) = WRefused /\
  List.length (snd (serve_write dec2f_exact cfg_repaired (Some 20%nat) None false 1000 sched 1 body)) = 1%nat /\
  serve_write dec2f_exact cfg_repaired (Some 20%nat) (Some 26%nat) false 1000 sched 1 body = (WRefused, []).
Proof. vm_compute. repeat split. Qed.

(* ------------------------------------------------------------------------------------------------ *)
(* the points writer's per-row glue (ModelWriter: stable sort of the fields, fixFields, schema check, partial errors) *)

(* a row with distinct keys, none of them `time`, whose field types agree with the measurement's schema, is handed on
   without an error with its measurement, tag set, timestamp and exactly its fields (a permutation: sorted by key) -
   for every schema, in today's writer and in the repaired one *)
Theorem C06_writer_clean_row_handed_on_exactly : forall c s r, clean_row s r ->
  exists s',
    writer_row c s r = (s', {| wo_err := false;
                               wo_row := Some {| r_name := r_name r; r_tags := r_tags r; r_fields := sort_fields (r_fields r); r_ts := r_ts r |} |}) /\
    Permutation (r_fields r) (sort_fields (r_fields r)).
Proof. exact writer_row_clean. Qed.
Print Assumptions C06_writer_clean_row_handed_on_exactly.

(* repaired writer, EVERY row and schema: a row that is handed on has the measurement, the whole tag set and the timestamp
   that were written; every field handed on was written; every key that was written is handed on, except keys whose type
   conflicts with the schema - and then an error is reported for the row *)
Theorem C06_writer_repaired_sound : forall s r s' o r',
  writer_row wcfg_repaired s r = (s', o) -> wo_row o = Some r' ->
  r_name r' = r_name r /\ r_tags r' = r_tags r /\ r_ts r' = r_ts r /\
  (forall f, In f (r_fields r') -> In f (r_fields r)) /\
  (forall f, In f (r_fields r) ->
     (exists f', In f' (r_fields r') /\ fst f' = fst f) \/
     (wo_err o = true /\ exists f', In f' (r_fields r) /\ fst f' = fst f /\ conflicts s f' = true)).
Proof. exact writer_row_repaired_sound. Qed.
Print Assumptions C06_writer_repaired_sound.

(* ... in particular nothing is lost silently: no error reported for a row => it is handed on with every key it was written with *)
Theorem C06_writer_repaired_no_silent_loss : forall s r s' o,
  writer_row wcfg_repaired s r = (s', o) -> wo_err o = false ->
  exists r', wo_row o = Some r' /\ r_name r' = r_name r /\ r_tags r' = r_tags r /\ r_ts r' = r_ts r /\
             (forall f, In f (r_fields r') -> In f (r_fields r)) /\
             (forall f, In f (r_fields r) -> exists f', In f' (r_fields r') /\ fst f' = fst f).
Proof. exact writer_row_repaired_no_silent_loss. Qed.
Print Assumptions C06_writer_repaired_no_silent_loss.

Example C06_example_writer :
  match accept_block dec2f_exact cfg_repaired 1 (bs "w,b=2,a=1 y=2i,x=1.5 10") with
  | Ok [r] => clean_row [] r /\
              snd (writer_row wcfg_repaired [] r) =
                {| wo_err := false;
                   wo_row := Some {| r_name := bs "w"; r_tags := [(bs "a", bs "1"); (bs "b", bs "2")];
                                     r_fields := [(bs "x", VFloat (bs "1.5") (FFin false 6755399441055744 (-52))); (bs "y", VInt 2 2)];
                                     r_ts := Some 10 |} |}
  | _ => False
  end.
Proof.
  vm_compute. split; [|reflexivity].
  repeat split; try (repeat constructor; cbn; intuition congruence); try discriminate.
Qed.

(* int_exact_iff: the int64 -> float64 -> int64 passage today's code applies to every integer field returns the
   integer written iff it is a 53-bit mantissa times a power of two (so: every |n| <= 2^53, and beyond that only the
   multiples of the matching power of two) *)
Theorem C06_int_exact_iff : forall n,
  in_int64 n = true -> (f64_to_z (z_to_f64 n) = n <-> representable53 n).
Proof. exact int_exact_iff. Qed.
Print Assumptions C06_int_exact_iff.

Theorem C06_int_exact_below_2_53 : forall n, Z.abs n <= 2 ^ 53 -> store_int cfg_current n = n.
Proof. exact int_exact_below_2_53. Qed.
Print Assumptions C06_int_exact_below_2_53.

(* the repaired parser stores integers as written *)
Theorem C06_int_repaired_exact : forall n, store_int cfg_repaired n = n.
Proof. reflexivity. Qed.

(* accepted_means_written (repaired parser, any float conversion d): every field of an accepted line carries the
   value its text denotes under the line-protocol reference relation [denotes] - integers digit for digit, floats as
   d of the literal, booleans by spelling, strings unescaped; nothing else is ever stored *)
Theorem C06_accepted_means_written : forall d s r,
  parse_line d cfg_repaired s = Ok r ->
  Forall2 (fun seg kv => exists kraw vtxt, seg = kraw ++ c_eq :: vtxt /\ fst kv = unescape_tag kraw /\ denotes d vtxt (snd kv))
          (line_field_segments s) (r_fields r).
Proof. exact accepted_means_written. Qed.
Print Assumptions C06_accepted_means_written.

(* invalid_rejected_stores_nothing, line level, for the malformed classes:
   no field section; a field that does not parse (missing '=', empty key, bad value); a value text that denotes
   nothing (bad number, junk before 'f', unterminated quote, quote not in first position); a bad timestamp *)
Theorem C06_invalid_no_field_section : forall d c s,
  split_unesc c_sp false (drop_while is_lead_ws s) = None -> parse_line d c s = Err.
Proof. exact no_field_section_rejected. Qed.
Theorem C06_invalid_field : forall d c s seg,
  In seg (line_field_segments s) -> parse_field d c seg = Err -> parse_line d c s = Err.
Proof. exact bad_field_rejected. Qed.
Theorem C06_invalid_value : forall d kraw v,
  (forall x, ~ denotes d v x) -> split_unesc c_eq false (kraw ++ c_eq :: v) = Some (kraw, v) ->
  parse_field d cfg_repaired (kraw ++ c_eq :: v) = Err.
Proof. exact undenoted_value_rejected. Qed.
Theorem C06_invalid_timestamp : forall d c s mt rest0 fstr tsr,
  split_unesc c_sp false (drop_while is_lead_ws s) = Some (mt, rest0) ->
  split_unq c_sp false false (drop_while is_sp rest0) = Some (fstr, tsr) ->
  parse_ts (drop_while is_sp tsr) = Err ->
  parse_line d c s = Err.
Proof. exact bad_timestamp_rejected. Qed.
Print Assumptions C06_invalid_value.
Print Assumptions C06_invalid_timestamp.

Example C06_example_malformed :
  parse_line dec2f_exact cfg_repaired (bs "m") = Err /\
  parse_line dec2f_exact cfg_repaired (bs "m x=1.2.3") = Err /\
  parse_line dec2f_exact cfg_repaired (bs "m x=zzf") = Err /\
  parse_line dec2f_exact cfg_repaired (bs "m x=""abc") = Err /\
  parse_line dec2f_exact cfg_repaired (bs "m x=1 12a") = Err /\
  parse_line dec2f_exact cfg_repaired (bs "m x=9223372036854775808i") = Err.
Proof. vm_compute. repeat split. Qed.

(* parse of render, field level (repaired parser, ANY float conversion d): the canonical rendering of a field - key
   escaped, value in its documented spelling - parses back to exactly the key and the value it denotes *)
Theorem C06_parse_render_field : forall d k v,
  valid_key k -> valid_val d v ->
  parse_field d cfg_repaired (render_field (k, v)) = Ok (k, store_val d v).
Proof. exact parse_field_render. Qed.
Print Assumptions C06_parse_render_field.

(* parse_render, at full strength (repaired parser, ANY float conversion d): for every valid point - measurement of any
   bytes, any number of tags with any key/value bytes, any number of fields, every int64, every valid finite float
   literal, every string, every timestamp 0..max int64 - the canonical rendering parses back to exactly that point:
   same measurement, the tags sorted by key, every field with the value it denotes, the timestamp. No premises
   beyond [valid]. *)
Theorem C06_parse_render : forall d p, valid d p -> parse_line d cfg_repaired (render p) = Ok (store d p).
Proof. exact parse_render. Qed.
Print Assumptions C06_parse_render.

(* the same with the stored floats spelled out as the correctly rounded binary64 of their literals, under the single
   hypothesis about the conversion the parser calls *)
Theorem C06_parse_render_exact : forall dec2f,
  (forall s, valid_number s = true -> dec2f s = dec2f_exact s) ->
  forall p, valid dec2f p -> parse_line dec2f cfg_repaired (render p) = Ok (store dec2f_exact p).
Proof. exact parse_render_exact. Qed.
Print Assumptions C06_parse_render_exact.

(* 64-bit integers keep every digit, timestamps too: the decimal round trips, for every value *)
Theorem C06_int_decimal_roundtrip : forall n, in_int64 n = true -> parse_int64 (render_int n) = Ok n.
Proof. exact parse_int64_render_int. Qed.
Theorem C06_ts_decimal_roundtrip : forall t, 0 <= t <= max_int64 -> parse_ts (render_nat t) = Ok (Some t).
Proof. exact parse_ts_render_nat. Qed.
Print Assumptions C06_ts_decimal_roundtrip.

Theorem C06_parse_render_tag : forall k v,
  k <> [] -> v <> [] -> (List.length k <= max_key_len)%nat -> (Z.of_nat (List.length v) <= max_tagval_len) ->
  parse_tag (escape_tag k ++ c_eq :: escape_tag v) = Ok (Some (k, v)).
Proof. exact parse_tag_render. Qed.

(* floats keep their exact value: under the single hypothesis that the conversion the parser calls is the correctly
   rounded one, an accepted float literal is stored as the correctly rounded binary64 of its text *)
Theorem C06_float_stored_correctly_rounded : forall dec2f,
  (forall s, valid_number s = true -> dec2f s = dec2f_exact s) ->
  forall lit, valid_number lit = true -> f64_is_finite (dec2f_exact lit) = true ->
  parse_value dec2f cfg_repaired lit = Ok (VFloat lit (dec2f_exact lit)).
Proof. exact float_stored_correctly_rounded. Qed.
Print Assumptions C06_float_stored_correctly_rounded.

(* the reference conversion itself: dec2f_exact hands the literal's value, as a ratio of integers, to round_ratio; for every
   positive ratio round_ratio finds the binade (2^e <= num/den < 2^(e+1), written by cross-multiplication with An/Bd) and
   returns num/den rounded to the nearest multiple q * 2^sh of the spacing 2^sh = 2^max(e-52,-1074) binary64 has there,
   ties to the even q, normalised (2^52 <= q unless subnormal; q = 2^53 moves to the next binade), infinite beyond the
   largest exponent - i.e. the correctly rounded binary64.  (dec2f_exact decides literals beyond 10^330 / below 10^-360
   without this function; those shortcuts are only compared with strconv.ParseFloat by the harness.) *)
Theorem C06_dec2f_round_ratio_correct : forall neg num den, 0 < num -> 0 < den ->
  exists e q,
    let sh := Z.max (e - 52) (-1074) in
    (Bd den e <= An num e /\ An num (e + 1) < Bd den (e + 1)) /\
    nearest_even (An num sh) (Bd den sh) q /\
    0 <= q <= 2 ^ 53 /\ (-1074 <= e - 52 -> 2 ^ 52 <= q) /\
    round_ratio neg num den =
      (if q =? 2 ^ 53 then (if 971 <? sh + 1 then FInf neg else FFin neg (2 ^ 52) (sh + 1))
       else if 971 <? sh then FInf neg else FFin neg q sh).
Proof. exact round_ratio_correct. Qed.
Print Assumptions C06_dec2f_round_ratio_correct.

(* floats keep their exact value, the reference side with NO premise: for EVERY text, dec2f_exact - the value every stored
   float is compared with on every run - is zero with the literal's sign when the mantissa is zero, and otherwise the
   binary64 nearest to mantissa * 10^(exponent - number of fraction digits) among ALL binary64 values (distances in units
   of 2^-1074, times den), or infinity exactly from the IEEE overflow threshold (2^53 - 1/2) * 2^971 on.  The magnitude
   shortcuts of dec2f_exact are proved away (C06_dec2f_shortcuts_sound). *)
Theorem C06_dec2f_exact_nearest_binary64 : forall s,
  let d := dec_parse s in
  if d_mant d =? 0 then dec2f_exact s = f64_zero (d_neg d)
  else
    let num := fst (dec_ratio d) in let den := snd (dec_ratio d) in
    0 < num /\ 0 < den /\
    match dec2f_exact s with
    | FFin sg m ex =>
        sg = d_neg d /\ 0 <= m < 2 ^ 53 /\ -1074 <= ex <= 971 /\
        forall m2 e2, 0 <= m2 < 2 ^ 53 -> -1074 <= e2 <= 971 ->
          Z.abs (num * 2 ^ 1074 - m * 2 ^ (ex + 1074) * den) <= Z.abs (num * 2 ^ 1074 - m2 * 2 ^ (e2 + 1074) * den)
    | FInf sg => sg = d_neg d /\ (2 ^ 54 - 1) * 2 ^ 2044 * den <= num * 2 ^ 1074
    | FNaN => False
    end.
Proof. exact dec2f_exact_nearest_double. Qed.
Print Assumptions C06_dec2f_exact_nearest_binary64.

Theorem C06_dec2f_shortcuts_sound : forall s, dec2f_exact s = dec2f_full s.
Proof. exact dec2f_exact_full. Qed.
Print Assumptions C06_dec2f_shortcuts_sound.

(* dec_parse against the grammar of decimal literals  [sign] digits [. digits] [(e|E) [sign] digits]  (the integer digits may be
   missing when there are fraction digits): it returns the sign, the value of the integer and fraction digits read as one number,
   the number of fraction digits, the exponent's sign and value - so dec_ratio is the decimal value of the literal *)
Theorem C06_dec_parse_int : forall sg I, all_digits I = true ->
  dec_parse (sign_text sg ++ I) = mk (sign_neg sg) (dec_val I) 0 false 0.
Proof. exact dec_parse_int. Qed.
Theorem C06_dec_parse_point : forall sg I F, all_digits I = true -> all_digits F = true ->
  dec_parse (sign_text sg ++ I ++ c_dot :: F) = mk (sign_neg sg) (dec_val (I ++ F)) (Z.of_nat (List.length F)) false 0.
Proof. exact dec_parse_point. Qed.
Theorem C06_dec_parse_point_exp : forall sg I F ec es X,
  all_digits I = true -> all_digits F = true -> all_digits X = true -> (I <> [] \/ F <> []) -> is_e ec = true ->
  dec_parse (sign_text sg ++ I ++ c_dot :: F ++ ec :: sign_text es ++ X) =
  mk (sign_neg sg) (dec_val (I ++ F)) (Z.of_nat (List.length F)) (sign_neg es) (dec_val X).
Proof. exact dec_parse_point_exp. Qed.
Theorem C06_dec_parse_int_exp : forall sg I ec es X,
  all_digits I = true -> all_digits X = true -> I <> [] -> is_e ec = true ->
  dec_parse (sign_text sg ++ I ++ ec :: sign_text es ++ X) = mk (sign_neg sg) (dec_val I) 0 (sign_neg es) (dec_val X).
Proof. exact dec_parse_int_exp. Qed.
Print Assumptions C06_dec_parse_point_exp.

(* ... and every text IsValidNumber accepts is a literal of that grammar (so the four theorems above give the value of every
   float literal the parser can accept) *)
Theorem C06_valid_number_is_grammar_literal : forall s, valid_number s = true ->
  exists sg I, all_digits I = true /\
    ((I <> [] /\ s = sign_text sg ++ I) \/
     (exists F, all_digits F = true /\ (I <> [] \/ F <> []) /\ s = sign_text sg ++ I ++ c_dot :: F) \/
     (exists ec es X, I <> [] /\ is_e ec = true /\ all_digits X = true /\ X <> [] /\ s = sign_text sg ++ I ++ ec :: sign_text es ++ X) \/
     (exists F ec es X, all_digits F = true /\ (I <> [] \/ F <> []) /\ is_e ec = true /\ all_digits X = true /\ X <> [] /\
                        s = sign_text sg ++ I ++ c_dot :: F ++ ec :: sign_text es ++ X)).
Proof. exact valid_number_grammar. Qed.
Print Assumptions C06_valid_number_is_grammar_literal.

Example C06_example_round_ratio :
  round_ratio false 1 10 = FFin false 7205759403792794 (-56) /\                 (* 0.1 = 0x1.999999999999ap-4 *)
  dec2f_exact (bs "0.1") = FFin false 7205759403792794 (-56) /\
  dec2f_exact (bs "9007199254740993") = FFin false 4503599627370496 1 /\      (* 2^53 + 1: a tie, to even *)
  dec2f_exact (bs "4.9e-324") = FFin false 1 (-1074) /\
  dec2f_exact (bs "2.4703282292062327e-324") = FFin false 0 (-1074) /\        (* just below half the smallest subnormal *)
  dec2f_exact (bs "2.4703282292062328e-324") = FFin false 1 (-1074) /\
  dec2f_exact (bs "1.7976931348623159e308") = FInf false.
Proof. vm_compute. repeat split. Qed.

(* the hypothesis is satisfiable (by the exact conversion itself), and the decimal premises hold on the boundary values *)
Example C06_dec2f_hypothesis_satisfiable : forall s, valid_number s = true -> dec2f_exact s = dec2f_exact s.
Proof. reflexivity. Qed.
Example C06_valid_satisfiable :
  valid dec2f_exact
    {| p_name := bs "m 1"; p_tags := [(bs "t=k", bs "v,w"); (bs "a", bs "\")];
       p_fields := [(bs "s", PStr (bs "q"" e\")); (bs "i", PInt (-9223372036854775808)); (bs "f", PFloat (bs "2.5e-1")); (bs "b", PBool true)];
       p_ts := 9223372036854775807 |}.
Proof.
  unfold valid. cbn [p_name p_tags p_fields p_ts]. split; [|split; [|split; [|split]]].
  - unfold valid_name. split; [discriminate|]. split; [vm_compute; lia|]. split; reflexivity.
  - constructor; [|constructor; [|constructor]]; unfold valid_tag; cbn [fst snd];
      (split; [discriminate|split; [discriminate|split; [vm_compute; lia|apply Z.leb_le; reflexivity]]]).
  - discriminate.
  - constructor; [|constructor; [|constructor; [|constructor; [|constructor]]]];
      unfold valid_pfield, valid_key, no_quote; cbn [fst snd valid_pval];
      (split; [split; [discriminate|vm_compute; lia]|split; [repeat constructor|]]).
    + exact I.
    + reflexivity.
    + split; vm_compute; reflexivity.
    + exact I.
  - unfold max_int64. change (2 ^ 63) with 9223372036854775808. lia.
Qed.
Example C06_example_render :
  render {| p_name := bs "m 1"; p_tags := [(bs "t=k", bs "v,w")];
            p_fields := [(bs "s", PStr (bs "q"" e\")); (bs "i", PInt (-42)); (bs "f", PFloat (bs "2.5e-1"))]; p_ts := 7 |}
  = bs "m\ 1,t\=k=v\,w s=""q\"" e\\"",i=-42i,f=2.5e-1 7".
Proof. vm_compute. reflexivity. Qed.

(* non-vacuity: a line using every escape form parses to the point it denotes *)
Example C06_example_escapes :
  parse_line dec2f_exact cfg_repaired (bs "m\ 1\,a,t\=k=v\\\,w s=""q\""\\ e"",i=-42i,b=T,f=2.5e-1 1600000000000000000") =
  Ok {| r_name := bs "m 1,a"; r_tags := [(bs "t=k", bs "v\,w")];
        r_fields := [(bs "s", VStr (bs "q""\ e")); (bs "i", VInt (-42) (-42)); (bs "b", VBool true);
                     (bs "f", VFloat (bs "2.5e-1") (FFin false 4503599627370496 (-54)))];
        r_ts := Some 1600000000000000000 |}.
Proof. vm_compute. reflexivity. Qed.
