(* C06 - executable model of what the points writer does to a parsed row before it is routed to a shard.

   Mirrors coordinator/points_writer.go (routeAndMapOriginRows: sort.Stable of the fields, fixFields, the partial-error /
   dropped-row decision) and coordinator/write_helper.go (updateSchemaIfNeeded, updateSchemaCheck: a tag named `time` is
   taken off the row, CheckDuplicateTag, new tags and fields enter the schema, a field whose type differs from the
   schema's is taken off the row, a row left without fields is dropped).  Time-series engine, schema cleaning off
   (the defaults).  [wcfg] selects per finding between today's behaviour (true) and the repair (false). *)
From Coq Require Import ZArith NArith List Bool.
From OG Require Import C06.Model.
Import ListNotations.
Open Scope Z_scope.

Definition field := (bytes * fval)%type.

(* influx.Field_Type_* (compared with the source on every run) *)
Definition ty_int : Z := 1.
Definition ty_float : Z := 3.
Definition ty_string : Z := 4.
Definition ty_bool : Z := 5.
Definition ty_tag : Z := 6.
Definition ftype (v : fval) : Z :=
  match v with
  | VInt _ _ => ty_int
  | VFloat _ _ | VFloatBits _ | VFloatJunk => ty_float
  | VStr _ => ty_string
  | VBool _ => ty_bool
  end.

Definition time_key : bytes := [116; 105; 109; 101]%N.      (* "time" *)
Definition is_time (k : bytes) : bool := list_beq k time_key.

Record wcfg := {
  w_timefield : bool;   (* a field named time is taken off the row silently *)
  w_timetag : bool      (* a tag named time is taken off the row and the rest of the row is stored although an error is reported *)
}.
Definition wcfg_current : wcfg := {| w_timefield := true; w_timetag := true |}.
Definition wcfg_repaired : wcfg := {| w_timefield := false; w_timetag := false |}.

(* sort.Stable(&r.Fields): by key, equal keys keep their order *)
Fixpoint insert_field (t : field) (l : list field) : list field :=
  match l with
  | [] => [t]
  | u :: r => if bytes_leb (fst t) (fst u) then t :: l else u :: insert_field t r
  end.
Definition sort_fields (l : list field) : list field := fold_right insert_field [] l.

(* fixFields on the sorted fields; [prev] = the last field kept so far.  A `time` field is skipped (repaired: refuses the
   row); of neighbours with one key the later one stays when the types agree, otherwise the row is refused. *)
Fixpoint fix_go (c : wcfg) (prev : option field) (fs : list field) : result (list field) :=
  match fs with
  | [] => Ok (match prev with Some p => [p] | None => [] end)
  | f :: r =>
      if is_time (fst f) then (if w_timefield c then fix_go c prev r else Err)
      else match prev with
           | None => fix_go c (Some f) r
           | Some p =>
               if list_beq (fst p) (fst f) then
                 (if ftype (snd p) =? ftype (snd f) then fix_go c (Some f) r else Err)
               else bind (fix_go c (Some f) r) (fun l => Ok (p :: l))
           end
  end.
Definition fix_fields (c : wcfg) (fs : list field) : result (list field) := fix_go c None (sort_fields fs).

(* the schema of the measurement: key -> type *)
Definition schema := list (bytes * Z).
Fixpoint sch_get (s : schema) (k : bytes) : option Z :=
  match s with [] => None | (k', t) :: r => if list_beq k' k then Some t else sch_get r k end.
Definition sch_add (s : schema) (k : bytes) (t : Z) : schema :=
  match sch_get s k with Some _ => s | None => s ++ [(k, t)] end.

(* CheckDuplicateTag over the (sorted) tags: two neighbours with one key, the first of which is not `time` *)
Fixpoint has_dup_tag (tags : list (bytes * bytes)) : bool :=
  match tags with
  | t :: ((u :: _) as r) => (negb (is_time (fst t)) && list_beq (fst t) (fst u)) || has_dup_tag r
  | _ => false
  end.

Definition conflicts (s : schema) (f : field) : bool :=
  match sch_get s (fst f) with Some t => negb (t =? ftype (snd f)) | None => false end.

Record wout := { wo_err : bool; wo_row : option row }.    (* an error is reported for the row; what is handed on to be stored *)

Definition sch_add_tags (s : schema) (tags : list (bytes * bytes)) : schema :=
  fold_left (fun s t => sch_add s (fst t) ty_tag) tags s.
Definition sch_add_fields (s : schema) (fs : list field) : schema :=
  fold_left (fun s f => sch_add s (fst f) (ftype (snd f))) fs s.

(* one row through the writer *)
Definition writer_row (c : wcfg) (s : schema) (r : row) : schema * wout :=
  let dropped := (s, {| wo_err := true; wo_row := None |}) in
  match fix_fields c (r_fields r) with
  | Err => dropped
  | Ok fs =>
      if has_dup_tag (r_tags r) then dropped
      else
        let timetag := existsb (fun t => is_time (fst t)) (r_tags r) in
        let tags := filter (fun t => negb (is_time (fst t))) (r_tags r) in
        let keep := filter (fun f => negb (conflicts s f)) fs in
        let conflict := existsb (conflicts s) fs in
        match keep with
        | [] =>
            (* every field conflicts with the schema: the row is dropped before the schema is touched.  No field at all
               (all of them were named time): the tags still enter the schema, and the row without fields is refused
               further down ("point without fields is unsupported") *)
            match fs with
            | [] => (sch_add_tags s tags, {| wo_err := true; wo_row := None |})
            | _ => dropped
            end
        | _ =>
            let s' := sch_add_fields (sch_add_tags s tags) keep in
            let r' := {| r_name := r_name r; r_tags := tags; r_fields := keep; r_ts := r_ts r |} in
            if timetag && negb (w_timetag c) then (s', {| wo_err := true; wo_row := None |})
            else (s', {| wo_err := timetag || conflict; wo_row := Some r' |})
        end
  end.

(* a request's rows, one after the other, against the evolving schema *)
Fixpoint writer_rows (c : wcfg) (s : schema) (rows : list row) : schema * list wout :=
  match rows with
  | [] => (s, [])
  | r :: rest => let '(s1, o) := writer_row c s r in
                 let '(s2, os) := writer_rows c s1 rest in (s2, o :: os)
  end.
