(* C06: the int64 -> float64 -> int64 passage of integer field values is exact iff the integer is a 53-bit mantissa
   times a power of two. *)
From Coq Require Import ZArith List Bool Lia.
From OG Require Import C06.Model.
Import ListNotations.
Open Scope Z_scope.

Lemma pow2_pos : forall k, 0 <= k -> 0 < 2 ^ k.
Proof. intros. apply Z.pow_pos_nonneg; lia. Qed.

Lemma pow2_split : forall a b, 0 <= a -> 0 <= b -> 2 ^ (a + b) = 2 ^ a * 2 ^ b.
Proof. intros. apply Z.pow_add_r; lia. Qed.

Lemma log2_le_63 : forall a, 0 < a -> a <= 2 ^ 63 -> Z.log2 a <= 63.
Proof.
  intros a Ha Hb. destruct (Z_le_gt_dec (Z.log2 a) 63) as [H|H]; [exact H|exfalso].
  pose proof (Z.log2_spec a Ha) as [H1 _].
  assert (2 ^ 64 <= 2 ^ Z.log2 a) by (apply Z.pow_le_mono_r; lia).
  change (2 ^ 64) with 18446744073709551616 in *. change (2 ^ 63) with 9223372036854775808 in *. lia.
Qed.

(* value of the float produced by round53 *)
Definition fl_value (p : Z * Z) : Z := if 0 <=? snd p then fst p * 2 ^ snd p else fst p / 2 ^ (- snd p).

Lemma round53_small : forall a, 0 < a -> Z.log2 a <= 52 -> fl_value (round53 a) = a.
Proof.
  intros a Ha Hk. unfold round53. apply Z.leb_le in Hk. rewrite Hk. apply Z.leb_le in Hk.
  unfold fl_value. cbn [fst snd].
  pose proof (Z.log2_nonneg a) as Hk0.
  destruct (0 <=? Z.log2 a - 52) eqn:E.
  - apply Z.leb_le in E. assert (Z.log2 a = 52) by lia.
    replace (52 - Z.log2 a) with 0 by lia. replace (Z.log2 a - 52) with 0 by lia. cbn. lia.
  - replace (- (Z.log2 a - 52)) with (52 - Z.log2 a) by lia.
    apply Z.div_mul. pose proof (pow2_pos (52 - Z.log2 a)). lia.
Qed.

(* for 2^53 <= a the result is q' * 2^sh with q' the quotient or the quotient plus one, and it is the quotient
   when the remainder vanishes *)
Lemma round53_big : forall a, 0 < a -> 53 <= Z.log2 a ->
  let sh := Z.log2 a - 52 in
  exists q', fl_value (round53 a) = q' * 2 ^ sh /\
             (q' = a / 2 ^ sh \/ q' = a / 2 ^ sh + 1) /\
             (a mod 2 ^ sh = 0 -> q' = a / 2 ^ sh).
Proof.
  intros a Ha Hk sh. unfold round53.
  assert (Hk' : (Z.log2 a <=? 52) = false) by (apply Z.leb_gt; lia). rewrite Hk'.
  fold sh.
  assert (Hsh : 1 <= sh) by (unfold sh; lia).
  set (q := a / 2 ^ sh). set (r := a mod 2 ^ sh).
  assert (Hhalf : 0 < 2 ^ (sh - 1)) by (apply pow2_pos; lia).
  set (up := (2 ^ (sh - 1) <? r) || ((r =? 2 ^ (sh - 1)) && Z.odd q)).
  set (q' := if up then q + 1 else q).
  exists q'. split; [|split].
  - destruct (q' =? 2 ^ 53) eqn:E.
    + apply Z.eqb_eq in E. unfold fl_value. cbn [fst snd].
      assert (H0 : (0 <=? sh + 1) = true) by (apply Z.leb_le; lia). rewrite H0.
      rewrite E. rewrite pow2_split by lia. change (2 ^ 53) with (2 ^ 52 * 2). change (2 ^ 1) with 2. ring.
    + unfold fl_value. cbn [fst snd].
      assert (H0 : (0 <=? sh) = true) by (apply Z.leb_le; lia). rewrite H0. reflexivity.
  - unfold q'. destruct up; [right|left]; reflexivity.
  - intro Hr. unfold q'. fold r in Hr. unfold up. rewrite Hr.
    assert (H1 : (2 ^ (sh - 1) <? 0) = false) by (apply Z.ltb_ge; lia).
    assert (H2 : (0 =? 2 ^ (sh - 1)) = false) by (apply Z.eqb_neq; lia).
    rewrite H1, H2. reflexivity.
Qed.

Lemma f64_to_z_fin : forall neg m e,
  f64_to_z (FFin neg m e) =
  let sv := if neg then - fl_value (m, e) else fl_value (m, e) in if in_int64 sv then sv else min_int64.
Proof. reflexivity. Qed.

Theorem int_exact_iff : forall n,
  in_int64 n = true -> (f64_to_z (z_to_f64 n) = n <-> representable53 n).
Proof.
  intros n Hr. unfold in_int64, min_int64, max_int64 in Hr.
  apply andb_true_iff in Hr. destruct Hr as [Hlo Hhi]. apply Z.leb_le in Hlo, Hhi.
  change (2 ^ 63) with 9223372036854775808 in Hlo, Hhi.
  unfold z_to_f64. destruct (n =? 0) eqn:Hz.
  - apply Z.eqb_eq in Hz. subst n. split; intros _.
    + exists 0, 0. cbn. lia.
    + vm_compute. reflexivity.
  - apply Z.eqb_neq in Hz.
    assert (Ha : 0 < Z.abs n) by lia.
    assert (Ha63 : Z.abs n <= 2 ^ 63) by (change (2 ^ 63) with 9223372036854775808; lia).
    pose proof (log2_le_63 _ Ha Ha63) as Hk63.
    pose proof (Z.log2_spec _ Ha) as [Hk1 Hk2].
    pose proof (Z.log2_nonneg (Z.abs n)) as Hk0.
    destruct (round53 (Z.abs n)) as [m e] eqn:ER.
    rewrite f64_to_z_fin. cbv zeta.
    destruct (Z_le_gt_dec (Z.log2 (Z.abs n)) 52) as [Hs|Hb].
    + (* below 2^53: always exact, always representable *)
      pose proof (round53_small _ Ha Hs) as Hv. rewrite ER in Hv. rewrite Hv.
      assert (Hsv : (if n <? 0 then - Z.abs n else Z.abs n) = n).
      { destruct (n <? 0) eqn:E; [apply Z.ltb_lt in E | apply Z.ltb_ge in E]; lia. }
      rewrite Hsv.
      assert (Hin : in_int64 n = true).
      { unfold in_int64, min_int64, max_int64. change (2 ^ 63) with 9223372036854775808.
        apply andb_true_iff; split; apply Z.leb_le; lia. }
      rewrite Hin. split; intros _; [|reflexivity].
      exists n, 0. split; [lia|]. split; [|cbn; lia].
      assert (2 ^ Z.succ (Z.log2 (Z.abs n)) <= 2 ^ 53) by (apply Z.pow_le_mono_r; lia). lia.
    + (* 2^53 and above *)
      assert (Hb' : 53 <= Z.log2 (Z.abs n)) by lia.
      pose proof (round53_big _ Ha Hb') as [q' [Hv [Hq Hq0]]]. cbv zeta in Hv, Hq, Hq0. rewrite ER in Hv.
      set (sh := Z.log2 (Z.abs n) - 52) in *.
      assert (Hsh : 1 <= sh) by (unfold sh; lia).
      assert (Hp : 0 < 2 ^ sh) by (apply pow2_pos; lia).
      pose proof (Z.div_mod (Z.abs n) (2 ^ sh) ltac:(lia)) as Hdm.
      pose proof (Z.mod_pos_bound (Z.abs n) (2 ^ sh) Hp) as Hrb.
      set (q := Z.abs n / 2 ^ sh) in *. set (r := Z.abs n mod 2 ^ sh) in *.
      rewrite Hv. split.
      * (* exact -> representable *)
        intro He.
        destruct (in_int64 (if n <? 0 then - (q' * 2 ^ sh) else q' * 2 ^ sh)) eqn:Hin.
        -- assert (Hva : q' * 2 ^ sh = Z.abs n).
           { destruct (n <? 0) eqn:E; [apply Z.ltb_lt in E | apply Z.ltb_ge in E]; lia. }
           assert (Hr0 : r = 0).
           { destruct Hq as [Hq|Hq]; rewrite Hq in Hva; nia. }
           assert (Hqq : q' = q) by (apply Hq0; exact Hr0).
           assert (Hq53 : q < 2 ^ 53).
           { apply Z.div_lt_upper_bound; [lia|].
             replace (2 ^ sh * 2 ^ 53) with (2 ^ Z.succ (Z.log2 (Z.abs n))); [lia|].
             rewrite <- pow2_split by lia. f_equal. unfold sh. lia. }
           assert (Hq0' : 0 <= q) by (apply Z.div_pos; lia).
           exists (if n <? 0 then - q else q), sh. split; [lia|]. split.
           ++ destruct (n <? 0); lia.
           ++ rewrite Hqq in Hva. destruct (n <? 0) eqn:E; [apply Z.ltb_lt in E | apply Z.ltb_ge in E]; lia.
        -- (* saturated: only min_int64 itself comes back *)
           unfold min_int64 in He. exists (-1), 63. split; [lia|]. split; [cbn; lia|].
           rewrite <- He. reflexivity.
      * (* representable -> exact *)
        intros [m0 [e0 [He0 [Hm0 Hn]]]].
        assert (Hm0nz : m0 <> 0) by (intro; subst m0; lia).
        assert (Habs : Z.abs n = Z.abs m0 * 2 ^ e0).
        { rewrite Hn, Z.abs_mul. f_equal. apply Z.abs_eq. pose proof (pow2_pos e0 He0). lia. }
        assert (Hlog : Z.log2 (Z.abs n) = e0 + Z.log2 (Z.abs m0)).
        { rewrite Habs. apply Z.log2_mul_pow2; lia. }
        assert (Hlm : Z.log2 (Z.abs m0) <= 52).
        { assert (Z.log2 (Z.abs m0) < 53); [|lia]. apply Z.log2_lt_pow2; lia. }
        assert (Hshe : sh <= e0) by (unfold sh; lia).
        assert (Hr0 : r = 0).
        { unfold r. rewrite Habs. replace e0 with ((e0 - sh) + sh) by lia.
          rewrite pow2_split by lia. rewrite Z.mul_assoc. apply Z.mod_mul. lia. }
        assert (Hqq : q' = q) by (apply Hq0; exact Hr0).
        assert (Hva : q' * 2 ^ sh = Z.abs n) by (rewrite Hqq; lia).
        rewrite Hva.
        assert (Hsv : (if n <? 0 then - Z.abs n else Z.abs n) = n).
        { destruct (n <? 0) eqn:E; [apply Z.ltb_lt in E | apply Z.ltb_ge in E]; lia. }
        rewrite Hsv.
        assert (Hin : in_int64 n = true).
        { unfold in_int64, min_int64, max_int64. change (2 ^ 63) with 9223372036854775808.
          apply andb_true_iff; split; apply Z.leb_le; lia. }
        rewrite Hin. reflexivity.
Qed.

(* consequences used in the notes: every |n| <= 2^53 is exact; 2^53 + 1 is not *)
Corollary int_exact_below_2_53 : forall n, Z.abs n <= 2 ^ 53 -> f64_to_z (z_to_f64 n) = n.
Proof.
  intros n H. change (2 ^ 53) with 9007199254740992 in H.
  apply int_exact_iff.
  - unfold in_int64, min_int64, max_int64. change (2 ^ 63) with 9223372036854775808.
    apply andb_true_iff; split; apply Z.leb_le; lia.
  - destruct (Z.eq_dec (Z.abs n) 9007199254740992) as [E|E].
    + exists (if n <? 0 then -1 else 1), 53. split; [lia|]. split.
      * destruct (n <? 0); cbn; lia.
      * change (2 ^ 53) with 9007199254740992.
        destruct (n <? 0) eqn:L; [apply Z.ltb_lt in L | apply Z.ltb_ge in L]; lia.
    + exists n, 0. split; [lia|]. split; [change (2 ^ 53) with 9007199254740992; lia | cbn; lia].
Qed.
