(* C06 - the points writer's per-row glue: proofs about ModelWriter. *)
From Coq Require Import ZArith NArith List Bool Lia Permutation.
From OG Require Import C06.Model C06.ModelWriter.
Import ListNotations.
Open Scope Z_scope.

(* ------------------------------------------------------------------------------------------------ *)
(* the stable sort *)
Lemma insert_field_perm : forall t l, Permutation (t :: l) (insert_field t l).
Proof.
  induction l as [|u r IH]; [reflexivity|]. cbn [insert_field].
  destruct (bytes_leb (fst t) (fst u)); [reflexivity|].
  rewrite perm_swap. now apply perm_skip.
Qed.

Lemma sort_fields_perm : forall l, Permutation l (sort_fields l).
Proof.
  induction l as [|t r IH]; [reflexivity|]. cbn [sort_fields fold_right].
  rewrite <- insert_field_perm. now apply perm_skip.
Qed.

(* ------------------------------------------------------------------------------------------------ *)
(* fixFields *)
Definition opt_list (p : option field) : list field := match p with Some x => [x] | None => [] end.

(* whatever comes out was in: no field is invented or changed *)
Lemma fix_go_subset : forall c fs prev out, fix_go c prev fs = Ok out ->
  forall f, In f out -> In f (opt_list prev ++ fs).
Proof.
  intros c fs. induction fs as [|x r IH]; intros prev out H f Hin.
  - cbn in H. inversion H; subst. now rewrite app_nil_r.
  - cbn [fix_go] in H. destruct (is_time (fst x)).
    + destruct (w_timefield c); [|discriminate]. specialize (IH _ _ H f Hin).
      apply in_app_or in IH. apply in_or_app. destruct IH; [now left|right; now right].
    + destruct prev as [p|].
      * destruct (list_beq (fst p) (fst x)).
        -- destruct (ftype (snd p) =? ftype (snd x)); [|discriminate].
           specialize (IH _ _ H f Hin). cbn [opt_list app] in IH. destruct IH as [E|E]; apply in_or_app; right; [left|right]; assumption.
        -- destruct (fix_go c (Some x) r) as [l|] eqn:E; [|discriminate]. cbn in H. inversion H; subst.
           destruct Hin as [Hp|Hl]; [subst; now left|].
           specialize (IH _ _ E f Hl). cbn [opt_list app] in IH. apply in_or_app; right. exact IH.
      * specialize (IH _ _ H f Hin). exact IH.
Qed.

Lemma list_beq_refl : forall a, list_beq a a = true.
Proof. induction a as [|x a IH]; [reflexivity|]. cbn. now rewrite N.eqb_refl. Qed.

Lemma list_beq_true : forall a b, list_beq a b = true -> a = b.
Proof.
  induction a as [|x a IH]; intros [|y b] H; try discriminate; [reflexivity|].
  cbn in H. apply andb_true_iff in H. destruct H as [E H]. apply N.eqb_eq in E. subst. f_equal. now apply IH.
Qed.

(* repaired: every key that went in comes out (under the same key; of several fields with one key the last one) *)
Lemma fix_go_keys_repaired : forall fs prev out, fix_go wcfg_repaired prev fs = Ok out ->
  forall f, In f (opt_list prev ++ fs) -> exists f', In f' out /\ fst f' = fst f.
Proof.
  induction fs as [|x r IH]; intros prev out H f Hin.
  - cbn in H. inversion H; subst. rewrite app_nil_r in Hin. exists f. split; [exact Hin|reflexivity].
  - cbn [fix_go] in H. destruct (is_time (fst x)); [discriminate|].
    destruct prev as [p|].
    + destruct (list_beq (fst p) (fst x)) eqn:K.
      * destruct (ftype (snd p) =? ftype (snd x)); [|discriminate].
        apply list_beq_true in K. cbn [opt_list app] in Hin.
        destruct Hin as [E|[E|E]].
        -- subst f. destruct (IH _ _ H x (or_introl eq_refl)) as (f' & I & Kf). exists f'. split; [exact I|congruence].
        -- subst f. exact (IH _ _ H x (or_introl eq_refl)).
        -- exact (IH _ _ H f (or_intror E)).
      * destruct (fix_go wcfg_repaired (Some x) r) as [l|] eqn:E; [|discriminate]. cbn in H. inversion H; subst.
        cbn [opt_list app] in Hin. destruct Hin as [Ef|Hr].
        -- subst. exists f. split; [now left|reflexivity].
        -- destruct (IH _ _ E f Hr) as (f' & I & Kf). exists f'. split; [now right|exact Kf].
    + exact (IH _ _ H f Hin).
Qed.

(* no `time` key, no two fields with one key: fixFields returns its (sorted) input, in every configuration *)
Lemma fix_go_distinct : forall c fs prev,
  NoDup (map fst (opt_list prev ++ fs)) -> Forall (fun f => is_time (fst f) = false) fs ->
  fix_go c prev fs = Ok (opt_list prev ++ fs).
Proof.
  intros c fs. induction fs as [|x r IH]; intros prev Hnd Ht.
  - cbn. now rewrite app_nil_r.
  - inversion Ht as [|? ? Hx Hr]; subst. cbn [fix_go]. rewrite Hx.
    destruct prev as [p|]; cbn [opt_list app] in *.
    + destruct (list_beq (fst p) (fst x)) eqn:K.
      * apply list_beq_true in K. inversion Hnd as [|? ? Hn _]; subst. exfalso. apply Hn. cbn. now left.
      * inversion Hnd as [|? ? _ Hnd']; subst. rewrite (IH (Some x) Hnd' Hr). reflexivity.
    + exact (IH (Some x) Hnd Hr).
Qed.

Theorem fix_fields_distinct : forall c fs,
  NoDup (map fst fs) -> Forall (fun f => is_time (fst f) = false) fs ->
  fix_fields c fs = Ok (sort_fields fs) /\ Permutation fs (sort_fields fs).
Proof.
  intros c fs Hnd Ht. pose proof (sort_fields_perm fs) as P. split; [|exact P].
  unfold fix_fields. rewrite (fix_go_distinct c (sort_fields fs) None).
  - reflexivity.
  - cbn [opt_list app]. eapply Permutation_NoDup; [apply Permutation_map; exact P|exact Hnd].
  - eapply Permutation_Forall; [exact P|exact Ht].
Qed.

(* ------------------------------------------------------------------------------------------------ *)
(* one row *)
Definition clean_row (s : schema) (r : row) : Prop :=
  NoDup (map fst (r_fields r)) /\ Forall (fun f => is_time (fst f) = false) (r_fields r) /\
  r_fields r <> [] /\
  has_dup_tag (r_tags r) = false /\ Forall (fun t => is_time (fst t) = false) (r_tags r) /\
  Forall (fun f => conflicts s f = false) (r_fields r).

Lemma filter_all : forall (A : Type) (p : A -> bool) l, Forall (fun x => p x = true) l -> filter p l = l.
Proof. intros A p l H. induction H as [|x l Hx _ IH]; [reflexivity|]. cbn. now rewrite Hx, IH. Qed.

Lemma existsb_none : forall (A : Type) (p : A -> bool) l, Forall (fun x => p x = false) l -> existsb p l = false.
Proof. intros A p l H. induction H as [|x l Hx _ IH]; [reflexivity|]. cbn. now rewrite Hx, IH. Qed.

(* a row with distinct keys, none of them `time`, whose types agree with the schema, is handed on without an error with
   its measurement, tags and timestamp and exactly its fields (sorted by key) - today and repaired *)
Theorem writer_row_clean : forall c s r, clean_row s r ->
  exists s',
    writer_row c s r = (s', {| wo_err := false;
                               wo_row := Some {| r_name := r_name r; r_tags := r_tags r; r_fields := sort_fields (r_fields r); r_ts := r_ts r |} |}) /\
    Permutation (r_fields r) (sort_fields (r_fields r)).
Proof.
  intros c s r (Hnd & Ht & Hne & Hdup & Htt & Hc).
  destruct (fix_fields_distinct c (r_fields r) Hnd Ht) as [Hfix P].
  unfold writer_row. rewrite Hfix, Hdup.
  assert (Hc' : Forall (fun f => conflicts s f = false) (sort_fields (r_fields r))) by (eapply Permutation_Forall; eauto).
  rewrite (existsb_none _ _ _ Htt), (existsb_none _ _ _ Hc').
  rewrite (filter_all _ (fun t => negb (is_time (fst t))) (r_tags r)).
  2:{ eapply Forall_impl; [|exact Htt]. cbn. intros a Ha. now rewrite Ha. }
  rewrite (filter_all _ (fun f => negb (conflicts s f)) (sort_fields (r_fields r))).
  2:{ eapply Forall_impl; [|exact Hc']. cbn. intros a Ha. now rewrite Ha. }
  destruct (sort_fields (r_fields r)) as [|x l] eqn:E.
  - exfalso. apply Hne. apply Permutation_sym in P. now apply Permutation_nil in P.
  - eexists. split; [reflexivity|exact P].
Qed.

Lemma filter_In' : forall (A : Type) (p : A -> bool) x l, In x (filter p l) -> In x l /\ p x = true.
Proof. intros. now apply filter_In. Qed.

(* repaired writer, every row, every schema: a row that is handed on keeps its measurement, its whole tag set and its
   timestamp; every field handed on is a field that was written; and every key that was written is handed on (of several
   fields with one key one of them) unless an error is reported for the row and that key's type conflicts with the
   schema.  In particular: no error reported => nothing was lost. *)
Theorem writer_row_repaired_sound : forall s r s' o r',
  writer_row wcfg_repaired s r = (s', o) -> wo_row o = Some r' ->
  r_name r' = r_name r /\ r_tags r' = r_tags r /\ r_ts r' = r_ts r /\
  (forall f, In f (r_fields r') -> In f (r_fields r)) /\
  (forall f, In f (r_fields r) ->
     (exists f', In f' (r_fields r') /\ fst f' = fst f) \/
     (wo_err o = true /\ exists f', In f' (r_fields r) /\ fst f' = fst f /\ conflicts s f' = true)).
Proof.
  intros s r s' o r' H Hr. unfold writer_row in H.
  destruct (fix_fields wcfg_repaired (r_fields r)) as [fs|] eqn:F; [|inversion H; subst; discriminate].
  destruct (has_dup_tag (r_tags r)); [inversion H; subst; discriminate|].
  set (tags := filter (fun t => negb (is_time (fst t))) (r_tags r)) in *.
  set (keep := filter (fun f => negb (conflicts s f)) fs) in *.
  destruct keep as [|k0 kr] eqn:K.
  { destruct fs; inversion H; subst; discriminate. }
  destruct (existsb (fun t => is_time (fst t)) (r_tags r)) eqn:T; cbn [andb negb wcfg_repaired w_timetag] in H.
  { inversion H; subst. discriminate. }
  inversion H; subst. cbn [wo_row] in Hr. inversion Hr; subst. cbn [r_name r_tags r_ts r_fields wo_err].
  assert (Htags : tags = r_tags r).
  { unfold tags. apply filter_all. apply Forall_forall. intros t Ht.
    destruct (is_time (fst t)) eqn:E; [|reflexivity]. exfalso.
    assert (existsb (fun t => is_time (fst t)) (r_tags r) = true) by (apply existsb_exists; exists t; auto). congruence. }
  split; [reflexivity|]. split; [exact Htags|]. split; [reflexivity|].
  unfold fix_fields in F. pose proof (sort_fields_perm (r_fields r)) as P.
  split.
  - intros f Hin. rewrite <- K in Hin. apply filter_In' in Hin. destruct Hin as [Hin _].
    pose proof (fix_go_subset _ _ _ _ F f Hin) as Hs. cbn [opt_list app] in Hs.
    eapply Permutation_in; [apply Permutation_sym; exact P|exact Hs].
  - intros f Hin.
    assert (Hs : In f (opt_list None ++ sort_fields (r_fields r))) by (cbn; eapply Permutation_in; eauto).
    destruct (fix_go_keys_repaired _ _ _ F f Hs) as (f' & Hf' & Kf).
    destruct (conflicts s f') eqn:C.
    + right. split.
      * cbn [orb]. apply existsb_exists. exists f'. auto.
      * exists f'. split; [|auto].
        pose proof (fix_go_subset _ _ _ _ F f' Hf') as Hs'. cbn [opt_list app] in Hs'.
        eapply Permutation_in; [apply Permutation_sym; exact P|exact Hs'].
    + left. exists f'. split; [|exact Kf]. rewrite <- K. apply filter_In. split; [exact Hf'|now rewrite C].
Qed.

(* repaired: when no error is reported for a row it is handed on and every written key is in it *)
Corollary writer_row_repaired_no_silent_loss : forall s r s' o,
  writer_row wcfg_repaired s r = (s', o) -> wo_err o = false ->
  exists r', wo_row o = Some r' /\ r_name r' = r_name r /\ r_tags r' = r_tags r /\ r_ts r' = r_ts r /\
             (forall f, In f (r_fields r') -> In f (r_fields r)) /\
             (forall f, In f (r_fields r) -> exists f', In f' (r_fields r') /\ fst f' = fst f).
Proof.
  intros s r s' o H He.
  assert (exists r', wo_row o = Some r') as [r' Hr].
  { unfold writer_row in H.
    destruct (fix_fields wcfg_repaired (r_fields r)) as [fs|]; [|inversion H; subst; discriminate].
    destruct (has_dup_tag (r_tags r)); [inversion H; subst; discriminate|].
    destruct (filter (fun f => negb (conflicts s f)) fs); [destruct fs; inversion H; subst; discriminate|].
    destruct (existsb (fun t => is_time (fst t)) (r_tags r)); cbn [andb negb wcfg_repaired w_timetag] in H;
      inversion H; subst; [discriminate|eexists; reflexivity]. }
  exists r'. split; [exact Hr|].
  destruct (writer_row_repaired_sound _ _ _ _ _ H Hr) as (A & B & C & D & E).
  repeat (split; [assumption|]). intros f Hin. destruct (E f Hin) as [X|[X _]]; [exact X|congruence].
Qed.
