(* C06 - executable model of the body framing between the socket and the line parser.

   Mirrors lib/util/lifted/vm/protoparser/influx/streamparser.go (ReadLinesBlockExt, streamContext.Read / Error),
   lib/util/lifted/influx/httpd/io.go (truncateReader: an io.LimitedReader of max-body-size + 1 bytes that answers
   "truncated" once its budget is used up) and the read loop of httpd.Handler.serveWrite (Content-Length test, one
   unmarshal work per block, every block handed to the points writer on its own, status from the reader's error and
   the blocks' errors).

   The capacity of the buffer a block is read into is not a function of the configured block size: serveWrite swaps
   the context's buffer with the buffer of a pooled unmarshal work after every block, bytesutil.Resize and append
   round capacities up. The model therefore takes the capacities as a SCHEDULE (one entry per call of
   ReadLinesBlockExt) and every theorem is for every schedule.  Definitions only; total; computable. *)
From Coq Require Import ZArith NArith List Bool Arith.
From OG Require Import C06.Model.
Import ListNotations.
Open Scope Z_scope.

(* how the byte stream under the reader ends: end of file, or a read error (truncation by max-body-size, a broken
   gzip stream, a closed connection) *)
Inductive rd_end := EndEOF | EndErr.

(* bytes.LastIndexByte(s, '\n'): the text before and after the last newline *)
Fixpoint cut_first_nl (s : bytes) : option (bytes * bytes) :=
  match s with
  | [] => None
  | c :: r =>
      if (c =? c_nl)%N then Some ([], r)
      else match cut_first_nl r with Some (a, b) => Some (c :: a, b) | None => None end
  end.
Definition cut_last_nl (s : bytes) : option (bytes * bytes) :=
  match cut_first_nl (rev s) with Some (a, b) => Some (rev b, rev a) | None => None end.

Inductive blk :=
| BlkData (block tail rest : bytes) (cap : nat)  (* a block for the parser, the carried tail, the unread stream, final capacity *)
| BlkEnd                                         (* io.EOF with nothing buffered: the body is finished *)
| BlkFail.                                       (* read error, line longer than max-line-size, no forward progress *)

(* one call of ReadLinesBlockExt.  [tail] = bytes carried over from the previous call (dstBuf[:originLen]),
   [fresh] = bytes read in this call so far, [rest] = the unread stream.  [caps] = the capacities of dstBuf during this
   call: the head is cap(dstBuf) now, the next entries are what bytesutil.Resize(dstBuf, 2*cap) yields each time a full
   buffer holds no newline (at least the double; append rounds up to a size class).  [stall] = what a read into a buffer
   without room answers at the end of the stream (bufio.Reader: io.EOF when it has seen the end already, otherwise
   nothing, which ReadLinesBlockExt reports as "no forward progress"). *)
Fixpoint next_block (e : rd_end) (maxline : nat) (stall : bool) (caps : list nat) (tail fresh rest : bytes) : blk :=
  match caps with
  | [] => BlkFail
  | cap :: caps' =>
      let have := (length tail + length fresh)%nat in
      let room := (cap - have)%nat in
      if (room =? 0)%nat then
        match rest, e with
        | [], EndEOF => if stall then (if (have =? 0)%nat then BlkEnd else BlkData (tail ++ fresh) [] [] cap) else BlkFail
        | _, _ => BlkFail
        end
      else
        let got := firstn room rest in
        let rest' := skipn room rest in
        if (length got <? room)%nat then
          (* the stream ended before the buffer was full *)
          match e with
          | EndErr => BlkFail
          | EndEOF => if ((have + length got)%nat =? 0)%nat then BlkEnd
                      else BlkData (tail ++ fresh ++ got) [] [] cap
          end
        else
          let fresh' := fresh ++ got in
          match cut_last_nl fresh' with
          | Some (a, b) => BlkData (tail ++ a) b rest' cap
          | None =>
              if (maxline <? length tail + length fresh')%nat then BlkFail
              else next_block e maxline stall caps' tail fresh' rest'
          end
  end.

(* the read loop: blocks in order (each with the final capacity of its buffer), and whether the reader ended without
   an error (streamContext.Error() == nil).  One schedule entry (capacities, stall answer) per call; an exhausted
   schedule counts as a failure. *)
Fixpoint read_blocks (e : rd_end) (maxline : nat) (sched : list (list nat * bool)) (tail rest : bytes) : list (bytes * nat) * bool :=
  match sched with
  | [] => ([], false)
  | (caps, stall) :: sched' =>
      match next_block e maxline stall caps tail [] rest with
      | BlkEnd => ([], true)
      | BlkFail => ([], false)
      | BlkData b tail' rest' cap' =>
          let '(bl, ok) := read_blocks e maxline sched' tail' rest' in ((b, cap') :: bl, ok)
      end
  end.

(* truncateReader(body, limit): at most limit bytes pass; a longer body delivers limit + 1 bytes and then fails *)
Definition limit_stream (limit : option nat) (body : bytes) : bytes * rd_end :=
  match limit with
  | None => (body, EndEOF)
  | Some n => if (length body <=? n)%nat then (body, EndEOF) else (firstn (S n) body, EndErr)
  end.

Inductive wstatus := WAck | WRefused.

Section Serve.
Variable dec2f : bytes -> f64.

Definition block_rows (c : cfg) (mult : Z) (b : bytes) : list row :=
  match accept_block dec2f c mult b with Ok rows => rows | Err => [] end.
Definition block_ok (c : cfg) (mult : Z) (b : bytes) : bool :=
  match accept_block dec2f c mult b with Ok _ => true | Err => false end.

(* serveWrite: [declared] = the Content-Length header when the request has one (a request that declares more than
   max-body-size is answered 413 before anything is read); [gz] = the body arrives gzip-encoded: [body] is the decoded
   text, and the decoder reads the request body directly, so max-body-size bounds only the declared (encoded) length;
   every block the reader delivers goes to the points writer on its own (what a refused request leaves behind are whole
   accepted blocks); the request is acknowledged iff the reader ended cleanly and no block reported an error. *)
Definition stream_limit (limit : option nat) (gz : bool) : option nat := if gz then None else limit.

Definition serve_write (c : cfg) (limit declared : option nat) (gz : bool) (maxline : nat) (sched : list (list nat * bool))
                       (mult : Z) (body : bytes) : wstatus * list row :=
  let too_big := match limit, declared with Some n, Some d => (n <? d)%nat | _, _ => false end in
  if too_big then (WRefused, [])
  else
    let '(stream, e) := limit_stream (stream_limit limit gz) body in
    let '(bl, ok) := read_blocks e maxline sched [] stream in
    let blocks := map fst bl in
    (if ok && forallb (block_ok c mult) blocks then WAck else WRefused, flat_map (block_rows c mult) blocks).

End Serve.
