(* C06: the canonical rendering of a value / field parses back to what it denotes (repaired parser). *)
From Coq Require Import ZArith NArith List Bool Lia.
From OG Require Import C06.Model C06.Proofs C06.ProofsDec.
Import ListNotations.
Open Scope Z_scope.

(* ------------------------------------------------------------------------------------------------ *)
(* texts the scanners run through without stopping *)

Definition lift (a : bytes) (o : option (bytes * bytes)) : option (bytes * bytes) :=
  match o with Some (x, y) => Some (a ++ x, y) | None => None end.

Lemma lift_nil : forall o, lift [] o = o.
Proof. intros [[x y]|]; reflexivity. Qed.
Lemma lift_app : forall a b o, lift (a ++ b) o = lift a (lift b o).
Proof. intros a b [[x y]|]; cbn; [rewrite app_assoc|]; reflexivity. Qed.

Definition transp (ch : N) (a : bytes) : Prop :=
  forall r, split_unesc ch false (a ++ r) = lift a (split_unesc ch false r).
Definition transq (ch : N) (a : bytes) : Prop :=
  forall r, split_unq ch false false (a ++ r) = lift a (split_unq ch false false r).

Lemma transp_app : forall ch a b, transp ch a -> transp ch b -> transp ch (a ++ b).
Proof. intros ch a b Ha Hb r. rewrite <- app_assoc, Ha, Hb, lift_app. reflexivity. Qed.
Lemma transq_app : forall ch a b, transq ch a -> transq ch b -> transq ch (a ++ b).
Proof. intros ch a b Ha Hb r. rewrite <- app_assoc, Ha, Hb, lift_app. reflexivity. Qed.
Lemma transp_nil : forall ch, transp ch [].
Proof. intros ch r. cbn. now rewrite lift_nil. Qed.
Lemma transq_nil : forall ch, transq ch [].
Proof. intros ch r. cbn. now rewrite lift_nil. Qed.

Lemma transp_char : forall ch c, (c =? ch)%N = false -> (c =? c_bs)%N = false -> transp ch [c].
Proof.
  intros ch c H1 H2 r. cbn [app split_unesc]. rewrite H1, H2. cbn [andb].
  destruct (split_unesc ch false r) as [[x y]|]; reflexivity.
Qed.

Lemma transq_char : forall ch c,
  (c =? ch)%N = false -> (c =? c_bs)%N = false -> (c =? c_quote)%N = false -> transq ch [c].
Proof.
  intros ch c H1 H2 H3 r. cbn [app split_unq]. rewrite H1, H2, H3. cbn [andb].
  destruct (split_unq ch false false r) as [[x y]|]; reflexivity.
Qed.

Lemma transp_escape_tag : forall ch s, is_esc ch = true -> (ch =? c_bs)%N = false -> transp ch (escape_tag s).
Proof.
  intros ch s Hesc Hbs. induction s as [|c t IH]; [apply transp_nil|].
  intro r. cbn [escape_tag]. destruct (is_esc c) eqn:E.
  - cbn [app split_unesc].
    assert (Hb : (c_bs =? ch)%N = false) by (rewrite N.eqb_sym; exact Hbs).
    rewrite Hb. cbn [andb]. rewrite N.eqb_refl. cbn [negb]. rewrite andb_false_r.
    assert (Hp : (if (c =? c_bs)%N then false else false) = false) by (destruct (c =? c_bs)%N; reflexivity).
    rewrite Hp, IH. destruct (split_unesc ch false r) as [[x y]|]; reflexivity.
  - cbn [app split_unesc].
    assert (Hc : (c =? ch)%N = false).
    { destruct (c =? ch)%N eqn:Q; [|reflexivity]. apply N.eqb_eq in Q. subst. congruence. }
    rewrite Hc. cbn [andb]. rewrite (not_esc_not_bs c E), IH.
    destruct (split_unesc ch false r) as [[x y]|]; reflexivity.
Qed.

Definition no_quote (s : bytes) : Prop := Forall (fun c => (c =? c_quote)%N = false) s.

Lemma transq_escape_tag : forall ch s,
  is_esc ch = true -> (ch =? c_bs)%N = false -> no_quote s -> transq ch (escape_tag s).
Proof.
  intros ch s Hesc Hbs Hq. induction Hq as [|c t Hc Ht IH]; [apply transq_nil|].
  intro r. cbn [escape_tag]. destruct (is_esc c) eqn:E.
  - cbn [app split_unq].
    assert (Hb : (c_bs =? ch)%N = false) by (rewrite N.eqb_sym; exact Hbs).
    rewrite Hb. cbn [andb]. rewrite N.eqb_refl. cbn [negb].
    change (c_bs =? c_quote)%N with false. cbn [andb negb]. rewrite ?andb_false_r. cbn [andb negb].
    assert (Hp : (if (c =? c_bs)%N then false else false) = false) by (destruct (c =? c_bs)%N; reflexivity).
    rewrite Hp, IH. destruct (split_unq ch false false r) as [[x y]|]; reflexivity.
  - cbn [app split_unq].
    assert (Hcc : (c =? ch)%N = false).
    { destruct (c =? ch)%N eqn:Q; [|reflexivity]. apply N.eqb_eq in Q. subst. congruence. }
    rewrite Hcc. cbn [andb]. rewrite Hc. cbn [andb]. rewrite (not_esc_not_bs c E), IH.
    destruct (split_unq ch false false r) as [[x y]|]; reflexivity.
Qed.

Ltac clean := repeat (progress (rewrite ?andb_false_r, ?andb_true_r, ?N.eqb_refl; cbn [andb negb])).

(* inside a quoted string nothing stops the scan; the closing quote returns it to the outer state *)
Lemma split_unq_in_string : forall ch s r, (ch =? c_quote)%N = false ->
  split_unq ch true false (escape_str s ++ c_quote :: r) =
  lift (escape_str s ++ [c_quote]) (split_unq ch false false r).
Proof.
  intros ch s r Hq. assert (Hq' : (c_quote =? ch)%N = false) by (rewrite N.eqb_sym; exact Hq).
  induction s as [|c t IH].
  - cbn [escape_str app split_unq]. rewrite Hq'. change (c_quote =? c_bs)%N with false. clean.
    destruct (split_unq ch false false r) as [[x y]|]; reflexivity.
  - cbn [escape_str]. destruct ((c =? c_quote)%N || (c =? c_bs)%N) eqn:E.
    + cbn [app split_unq]. change (c_bs =? c_quote)%N with false. clean.
      assert (Hp : (if (c =? c_bs)%N then false else false) = false) by (destruct (c =? c_bs)%N; reflexivity).
      rewrite Hp, IH. destruct (split_unq ch false false r) as [[x y]|]; reflexivity.
    + apply orb_false_iff in E. destruct E as [E1 E2].
      cbn [app split_unq]. rewrite E1, E2. clean. rewrite IH.
      destruct (split_unq ch false false r) as [[x y]|]; reflexivity.
Qed.

Lemma transq_string : forall ch s, (ch =? c_quote)%N = false -> (ch =? c_bs)%N = false ->
  transq ch (c_quote :: escape_str s ++ [c_quote]).
Proof.
  intros ch s Hq Hb r. cbn [app split_unq].
  assert (Hq' : (c_quote =? ch)%N = false) by (rewrite N.eqb_sym; exact Hq).
  rewrite Hq'. change (c_quote =? c_bs)%N with false. clean.
  rewrite <- app_assoc. cbn [app]. rewrite (split_unq_in_string ch s r Hq).
  destruct (split_unq ch false false r) as [[x y]|]; cbn; rewrite <- ?app_assoc; reflexivity.
Qed.

(* plain texts: no delimiter, no backslash, no quote *)
Definition plain (ch : N) (s : bytes) : Prop :=
  Forall (fun c => (c =? ch)%N = false /\ (c =? c_bs)%N = false /\ (c =? c_quote)%N = false) s.

Lemma transq_plain : forall ch s, plain ch s -> transq ch s.
Proof.
  intros ch s H. induction H as [|c t [H1 [H2 H3]] Ht IH]; [apply transq_nil|].
  change (c :: t) with ([c] ++ t). apply transq_app; [apply transq_char; assumption | exact IH].
Qed.

Lemma plain_no_unesc_quote : forall ch s, plain ch s -> has_unesc_quote s = false.
Proof.
  intros ch s H. unfold has_unesc_quote.
  assert (G : forall par, split_unesc c_quote par s = None).
  { induction H as [|c t [H1 [H2 H3]] Ht IH]; intro par; [reflexivity|].
    cbn [split_unesc]. rewrite H3. cbn [andb]. rewrite IH. reflexivity. }
  rewrite G. reflexivity.
Qed.

(* ------------------------------------------------------------------------------------------------ *)
(* numbers: what the validity automaton accepts is plain text ending in a digit or a point *)

Definition numch (c : N) : bool := is_digit c || is_e c || (c =? c_dot)%N || is_sign c.

Lemma nstep_numch : forall st c st', nstep st c = Some st' -> numch c = true.
Proof.
  intros st c st' H. unfold nstep in H. unfold numch.
  destruct (is_digit c); [reflexivity|]. destruct (is_e c); [reflexivity|].
  destruct (c =? c_dot)%N; [reflexivity|]. destruct (is_sign c); [apply orb_true_r|discriminate].
Qed.

Lemma numch_plain : forall ch c, numch ch = false -> numch c = true ->
  (c =? ch)%N = false /\ (c =? c_bs)%N = false /\ (c =? c_quote)%N = false.
Proof.
  intros ch c Hch Hc. repeat split.
  - destruct (c =? ch)%N eqn:E; [|reflexivity]. apply N.eqb_eq in E. subst. congruence.
  - destruct (c =? c_bs)%N eqn:E; [|reflexivity]. apply N.eqb_eq in E. subst. discriminate.
  - destruct (c =? c_quote)%N eqn:E; [|reflexivity]. apply N.eqb_eq in E. subst. discriminate.
Qed.

Lemma nrun_numch : forall s st st', nrun st s = Some st' -> Forall (fun c => numch c = true) s.
Proof.
  induction s as [|c r IH]; intros st st' H; [constructor|].
  cbn [nrun] in H. destruct (nstep st c) as [st1|] eqn:S; [|discriminate].
  constructor; [eapply nstep_numch; eauto | eapply IH; eauto].
Qed.

Lemma valid_number_plain : forall ch s, numch ch = false -> valid_number s = true -> plain ch s.
Proof.
  intros ch s Hch H. unfold valid_number in H.
  destruct (nrun SInit s) as [st|] eqn:R; [|discriminate].
  apply nrun_numch in R. unfold plain. eapply Forall_impl; [|exact R].
  intros c Hc. apply numch_plain; assumption.
Qed.

Lemma nrun_snoc : forall s st c,
  nrun st (s ++ [c]) = match nrun st s with Some st' => nstep st' c | None => None end.
Proof.
  induction s as [|x r IH]; intros st c.
  - cbn. destruct (nstep st c); reflexivity.
  - cbn [app nrun]. destruct (nstep st x); [apply IH|reflexivity].
Qed.

Lemma valid_number_last : forall s l, valid_number (s ++ [l]) = true -> is_digit l = true \/ (l =? c_dot)%N = true.
Proof.
  intros s l H. unfold valid_number in H. rewrite nrun_snoc in H.
  destruct (nrun SInit s) as [st|]; [|discriminate].
  unfold nstep in H. destruct (is_digit l); [left; reflexivity|].
  destruct (is_e l). { destruct st; discriminate. }
  destruct (l =? c_dot)%N; [right; reflexivity|].
  destruct (is_sign l); [destruct st; discriminate | discriminate].
Qed.

Lemma list_beq_eq : forall a b, list_beq a b = true -> a = b.
Proof.
  induction a as [|x a IH]; intros [|y b] H; try discriminate; [reflexivity|].
  cbn in H. apply andb_true_iff in H. destruct H as [H1 H2]. apply N.eqb_eq in H1. subst.
  f_equal. apply IH. exact H2.
Qed.

Lemma bool_text_head : forall s, is_true_text s = true \/ is_false_text s = true ->
  exists c r, s = c :: r /\ numch c = false.
Proof.
  intros s [H|H]; unfold is_true_text, is_false_text in H;
  repeat (apply orb_true_iff in H; destruct H as [H|H]);
  apply list_beq_eq in H; subst; eexists; eexists; split; reflexivity.
Qed.

Lemma valid_number_not_bool : forall s, valid_number s = true -> is_true_text s = false /\ is_false_text s = false.
Proof.
  intros s H.
  assert (G : forall b, b = true -> (is_true_text s = true \/ is_false_text s = true) -> False).
  { intros _ _ Hb. destruct (bool_text_head s Hb) as [c [r [E Hc]]]. subst s.
    unfold valid_number in H. cbn [nrun] in H. destruct (nstep SInit c) as [st|] eqn:S; [|discriminate].
    apply nstep_numch in S. congruence. }
  split.
  - destruct (is_true_text s) eqn:E; [|reflexivity]. exfalso. apply (G true eq_refl). left. reflexivity.
  - destruct (is_false_text s) eqn:E; [|reflexivity]. exfalso. apply (G true eq_refl). right. reflexivity.
Qed.

Lemma digit_or_dot_not_suffix : forall l, is_digit l = true \/ (l =? c_dot)%N = true ->
  (l =? 105)%N = false /\ (l =? 117)%N = false /\ (l =? 102)%N = false.
Proof.
  intros l H. repeat split.
  - destruct (l =? 105)%N eqn:E; [|reflexivity]. apply N.eqb_eq in E. subst. destruct H; discriminate.
  - destruct (l =? 117)%N eqn:E; [|reflexivity]. apply N.eqb_eq in E. subst. destruct H; discriminate.
  - destruct (l =? 102)%N eqn:E; [|reflexivity]. apply N.eqb_eq in E. subst. destruct H; discriminate.
Qed.

(* ------------------------------------------------------------------------------------------------ *)
(* value and field round trips *)

Section Render.
Variable dec2f : bytes -> f64.

Definition store_val (v : pval) : fval :=
  match v with
  | PInt n => VInt n n
  | PFloat lit => VFloat lit (dec2f lit)
  | PBool b => VBool b
  | PStr s => VStr s
  end.

(* a value the line protocol can carry. For integers the decimal round trip parse_int64 (render_int n) = Ok n is a
   premise here (it holds for every int64; checked by computation in Props.v on the boundary values and by the
   correspondence runs, not yet proved for all n) *)
Definition valid_val (v : pval) : Prop :=
  match v with
  | PInt n => parse_int64 (render_int n) = Ok n /\ plain c_comma (render_int n) /\ plain c_sp (render_int n)
  | PFloat lit => valid_number lit = true /\ f64_is_finite (dec2f lit) = true
  | PBool _ => True
  | PStr _ => True
  end.

Lemma parse_value_render : forall v, valid_val v -> parse_value dec2f cfg_repaired (render_val v) = Ok (store_val v).
Proof.
  intros [n|lit|b|s] Hv; cbn [render_val store_val].
  - destruct Hv as [Hp [Hpl _]]. unfold parse_value.
    assert (Hq : has_unesc_quote (render_int n ++ [105%N]) = false).
    { apply (plain_no_unesc_quote c_comma). unfold plain. apply Forall_app. split; [exact Hpl|].
      constructor; [repeat split; reflexivity|constructor]. }
    rewrite Hq. unfold parse_num_field. rewrite rev_unit. rewrite rev_involutive.
    change (105 =? 105)%N with true. cbv iota. rewrite Hp. reflexivity.
  - destruct Hv as [Hvn Hfin]. unfold parse_value.
    rewrite (plain_no_unesc_quote c_comma lit (valid_number_plain c_comma lit eq_refl Hvn)).
    unfold parse_num_field.
    destruct (rev lit) as [|l rinit] eqn:R.
    { assert (lit = []) by (rewrite <- (rev_involutive lit), R; reflexivity). subst. discriminate. }
    apply rev_cons_eq in R.
    assert (Hl : is_digit l = true \/ (l =? c_dot)%N = true) by (apply (valid_number_last (rev rinit)); rewrite <- R; exact Hvn).
    destruct (digit_or_dot_not_suffix l Hl) as [H1 [H2 H3]]. rewrite H1, H2, H3. cbn [andb].
    destruct (valid_number_not_bool lit Hvn) as [Ht Hf]. rewrite Ht, Hf, Hvn.
    unfold float_of_valid. cbn [cfg_repaired c_plus c_negdot andb]. cbn [fval_finite]. rewrite Hfin. reflexivity.
  - destruct b; reflexivity.
  - unfold parse_value. unfold has_unesc_quote. cbn [split_unesc]. rewrite N.eqb_refl. cbn [andb negb].
    unfold parse_str_field. rewrite N.eqb_refl. rewrite rev_unit. rewrite N.eqb_refl. rewrite rev_involutive.
    rewrite unesc_escape_str. reflexivity.
Qed.

Definition valid_key (k : bytes) : Prop := k <> [] /\ (List.length k <= max_key_len)%nat.

Lemma parse_field_render : forall k v,
  valid_key k -> valid_val v ->
  parse_field dec2f cfg_repaired (render_field (k, v)) = Ok (k, store_val v).
Proof.
  intros k v [Hk Hlen] Hv. unfold parse_field, render_field. cbn [fst snd].
  rewrite (split_unesc_escape_tag c_eq k (render_val v) eq_refl eq_refl).
  rewrite unescape_escape_tag. destruct k as [|k0 kr]; [congruence|].
  assert (Hl : Nat.ltb max_key_len (List.length (k0 :: kr)) = false) by (apply Nat.ltb_ge; exact Hlen).
  rewrite Hl. rewrite (parse_value_render v Hv). reflexivity.
Qed.

(* a rendered field is passed over by the comma and space scans of the field section: the section is cut exactly
   where the renderer put its separators *)
Lemma transq_render_val : forall ch v,
  (ch = c_comma \/ ch = c_sp) -> valid_val v -> transq ch (render_val v).
Proof.
  intros ch v Hch Hv. destruct v as [n|lit|b|s]; cbn [render_val].
  - destruct Hv as [_ [Hc Hs]]. apply transq_app.
    + apply transq_plain. destruct Hch; subst; assumption.
    + apply transq_char; destruct Hch; subst; reflexivity.
  - destruct Hv as [Hvn _]. apply transq_plain. apply valid_number_plain; [destruct Hch; subst; reflexivity | exact Hvn].
  - apply transq_plain. destruct b; destruct Hch; subst; repeat constructor.
  - apply transq_string; destruct Hch; subst; reflexivity.
Qed.

Lemma transq_render_field : forall ch k v,
  (ch = c_comma \/ ch = c_sp) -> no_quote k -> valid_val v -> transq ch (render_field (k, v)).
Proof.
  intros ch k v Hch Hq Hv. unfold render_field. cbn [fst snd].
  apply transq_app; [apply transq_escape_tag; [destruct Hch; subst; reflexivity | destruct Hch; subst; reflexivity | exact Hq]|].
  change (c_eq :: render_val v) with ([c_eq] ++ render_val v).
  apply transq_app; [apply transq_char; destruct Hch; subst; reflexivity | apply transq_render_val; assumption].
Qed.

(* ---- field section ---- *)
Lemma transq_join : forall ch segs, (ch =? c_comma)%N = false ->
  Forall (transq ch) segs -> transq ch (join_fields segs).
Proof.
  intros ch segs Hc H. induction H as [|x r Hx Hr IH]; [apply transq_nil|].
  destruct r as [|y r']; [exact Hx|].
  change (join_fields (x :: y :: r')) with (x ++ [c_comma] ++ join_fields (y :: r')).
  apply transq_app; [exact Hx|]. apply transq_app; [|exact IH].
  apply transq_char; [rewrite N.eqb_sym; exact Hc | reflexivity | reflexivity].
Qed.

Lemma split_all_unq_join : forall segs fuel,
  segs <> [] -> Forall (transq c_comma) segs -> (List.length (join_fields segs) <= fuel)%nat ->
  split_all_unq fuel c_comma (join_fields segs) = segs.
Proof.
  induction segs as [|x r IH]; intros fuel Hne H Hf; [congruence|].
  inversion H as [|x' r' Hx Hr]; subst.
  destruct r as [|y r'].
  - cbn [join_fields]. destruct fuel as [|f]; [reflexivity|].
    cbn [split_all_unq]. pose proof (Hx []) as E. rewrite app_nil_r in E. cbn in E. rewrite E. reflexivity.
  - change (join_fields (x :: y :: r')) with (x ++ c_comma :: join_fields (y :: r')) in *.
    destruct fuel as [|f].
    { rewrite app_length in Hf. cbn in Hf. lia. }
    cbn [split_all_unq]. rewrite (Hx (c_comma :: join_fields (y :: r'))).
    cbn [split_unq]. rewrite N.eqb_refl. cbn [andb negb lift]. rewrite app_nil_r.
    f_equal. apply IH; [discriminate | exact Hr |].
    rewrite app_length in Hf. cbn [List.length] in Hf. lia.
Qed.

Definition valid_field (kv : bytes * pval) : Prop := valid_key (fst kv) /\ no_quote (fst kv) /\ valid_val (snd kv).
Definition store_field (kv : bytes * pval) : bytes * fval := (fst kv, store_val (snd kv)).

Lemma map_result_render : forall fs, Forall valid_field fs ->
  map_result (parse_field dec2f cfg_repaired) (map render_field fs) = Ok (map store_field fs).
Proof.
  intros fs H. induction H as [|[k v] r [Hk [_ Hv]] Hr IH]; [reflexivity|].
  cbn [map map_result]. rewrite (parse_field_render k v Hk Hv). cbn [bind]. rewrite IH. reflexivity.
Qed.

Lemma parse_fields_render : forall fs, fs <> [] -> Forall valid_field fs ->
  parse_fields dec2f cfg_repaired (join_fields (map render_field fs)) = Ok (map store_field fs).
Proof.
  intros fs Hne H. unfold parse_fields.
  rewrite split_all_unq_join.
  - apply map_result_render. exact H.
  - destruct fs; [congruence|discriminate].
  - apply Forall_map. eapply Forall_impl; [|exact H]. intros [k v] [_ [Hq Hv]].
    apply transq_render_field; [left; reflexivity | exact Hq | exact Hv].
  - apply le_n.
Qed.

(* ---- heads ---- *)
Lemma drop_while_head : forall p h t, p h = false -> drop_while p (h :: t) = h :: t.
Proof. intros p h t H. cbn. rewrite H. reflexivity. Qed.

Lemma escape_tag_head : forall k, k <> [] ->
  exists h t, escape_tag k = h :: t /\ is_sp h = false /\
              (match k with c :: _ => (c =? 9)%N = false /\ (c =? 0)%N = false | [] => True end -> is_lead_ws h = false).
Proof.
  intros [|c r] H; [congruence|]. cbn [escape_tag]. destruct (is_esc c) eqn:E.
  - eexists; eexists; split; [reflexivity|]. split; [reflexivity|]. intros _. reflexivity.
  - eexists; eexists; split; [reflexivity|].
    assert (Hs : (c =? 32)%N = false).
    { unfold is_esc in E. destruct (c =? c_sp)%N eqn:S; [discriminate|exact S]. }
    split; [exact Hs|]. intros [H9 H0]. unfold is_lead_ws. rewrite Hs, H9, H0. reflexivity.
Qed.

Lemma drop_sp_ascii : forall t, trim_sp true (drop_while is_sp t) = trim_sp true t.
Proof.
  induction t as [|c r IH]; [reflexivity|]. cbn [drop_while]. destruct (is_sp c) eqn:S.
  - unfold is_sp in S. assert (is_ascii_ws c = true) by (unfold is_ascii_ws; rewrite S; reflexivity).
    cbn [trim_sp]. rewrite H. exact IH.
  - reflexivity.
Qed.

Lemma parse_ts_drop_sp : forall t, parse_ts (drop_while is_sp t) = parse_ts t.
Proof. intro t. unfold parse_ts, trim_ws. rewrite drop_sp_ascii. reflexivity. Qed.

(* ---- the line ---- *)
Definition valid_name (n : bytes) : Prop :=
  n <> [] /\ (List.length n <= max_name_len)%nat /\
  match n with c :: _ => (c =? 9)%N = false /\ (c =? 0)%N = false | [] => True end.

(* parse_render for points without tags. PARTIAL: (1) tags are not covered here (tag-level round trips are
   parse_tag_render below); (2) the decimal round trips parse_int64 (render_int n) = Ok n and
   parse_ts (render_nat ts) = Ok (Some ts) are premises (valid_val, Hts), true for every int64 / every
   0 <= ts <= max_int64 but not yet proved for all of them. *)
Lemma parse_render_notags_partial : forall name fs ts,
  valid_name name -> fs <> [] -> Forall valid_field fs ->
  parse_ts (render_nat ts) = Ok (Some ts) ->
  parse_line dec2f cfg_repaired (render {| p_name := name; p_tags := []; p_fields := fs; p_ts := ts |}) =
  Ok {| r_name := name; r_tags := []; r_fields := map store_field fs; r_ts := Some ts |}.
Proof.
  intros name fs ts [Hn [Hlen Hfirst]] Hne Hfs Hts.
  unfold render. cbn [p_name p_tags p_fields p_ts map concat app].
  set (F := join_fields (map render_field fs)).
  destruct (escape_tag_head name Hn) as [h [t [Eh [_ Hlead]]]].
  unfold parse_line.
  assert (Hd : drop_while is_lead_ws (escape_tag name ++ c_sp :: F ++ c_sp :: render_nat ts) =
               escape_tag name ++ c_sp :: F ++ c_sp :: render_nat ts).
  { rewrite Eh. cbn [app]. apply drop_while_head. apply Hlead. exact Hfirst. }
  rewrite Hd. rewrite (split_unesc_escape_tag c_sp name _ eq_refl eq_refl).
  (* the field section does not start with a space *)
  assert (HF : exists fh ft, F = fh :: ft /\ is_sp fh = false).
  { unfold F. destruct fs as [|[k v] r]; [congruence|].
    inversion Hfs as [|x y [[Hk _] _] _]; subst.
    destruct (escape_tag_head k Hk) as [kh [kt [Ek [Hsp _]]]].
    cbn [map]. unfold render_field at 1. cbn [fst snd]. rewrite Ek.
    destruct (map render_field r); cbn [join_fields app]; eexists; eexists; split; try reflexivity; exact Hsp. }
  destruct HF as [fh [ft [EF Hfh]]].
  assert (Hd2 : drop_while is_sp (F ++ c_sp :: render_nat ts) = F ++ c_sp :: render_nat ts).
  { rewrite EF. cbn [app]. apply drop_while_head. exact Hfh. }
  rewrite Hd2.
  rewrite (split_unesc_escape_tag_none c_comma name eq_refl eq_refl). cbn [bind fst snd].
  rewrite unescape_escape_tag.
  assert (Hl : Nat.ltb max_name_len (List.length name) = false) by (apply Nat.ltb_ge; exact Hlen).
  rewrite Hl.
  assert (HT : transq c_sp F).
  { unfold F. apply transq_join; [reflexivity|]. apply Forall_map. eapply Forall_impl; [|exact Hfs].
    intros [k v] [_ [Hq Hv]]. apply transq_render_field; [right; reflexivity | exact Hq | exact Hv]. }
  rewrite (HT (c_sp :: render_nat ts)). cbn [split_unq]. rewrite N.eqb_refl. cbn [andb negb lift]. rewrite app_nil_r.
  unfold F. rewrite (parse_fields_render fs Hne Hfs). cbn [bind].
  rewrite parse_ts_drop_sp, Hts. reflexivity.
Qed.

(* tag-level round trip: a rendered tag is cut and unescaped back to its key and value *)
Lemma parse_tag_render : forall k v,
  k <> [] -> v <> [] -> (List.length k <= max_key_len)%nat -> (Z.of_nat (List.length v) <= max_tagval_len) ->
  parse_tag (escape_tag k ++ c_eq :: escape_tag v) = Ok (Some (k, v)).
Proof.
  intros k v Hk Hv Hlk Hlv. unfold parse_tag.
  rewrite (split_unesc_escape_tag c_eq k _ eq_refl eq_refl). rewrite !unescape_escape_tag.
  assert (H1 : Nat.ltb max_key_len (List.length k) = false) by (apply Nat.ltb_ge; exact Hlk). rewrite H1.
  assert (H2 : (max_tagval_len <? Z.of_nat (List.length v)) = false) by (apply Z.ltb_ge; exact Hlv). rewrite H2.
  destruct k; [congruence|]. destruct v; [congruence|]. reflexivity.
Qed.

End Render.

(* ------------------------------------------------------------------------------------------------ *)
(* the whole line, tags included, no premises beyond validity *)

Lemma transp_split : forall ch a r, transp ch a -> split_unesc ch false (a ++ ch :: r) = Some (a, r).
Proof.
  intros ch a r H. rewrite H. cbn [split_unesc]. rewrite N.eqb_refl. cbn [andb negb lift]. rewrite app_nil_r. reflexivity.
Qed.
Lemma transp_none : forall ch a, transp ch a -> split_unesc ch false a = None.
Proof. intros ch a H. pose proof (H []) as E. rewrite app_nil_r in E. cbn in E. exact E. Qed.

Definition tag_body (t : bytes * bytes) : bytes := escape_tag (fst t) ++ c_eq :: escape_tag (snd t).

Lemma render_tag_body : forall t, render_tag t = c_comma :: tag_body t.
Proof. reflexivity. Qed.

Lemma transp_tag_body : forall ch t, (ch = c_comma \/ ch = c_sp) -> transp ch (tag_body t).
Proof.
  intros ch t Hch. unfold tag_body.
  apply transp_app; [apply transp_escape_tag; destruct Hch; subst; reflexivity|].
  change (c_eq :: escape_tag (snd t)) with ([c_eq] ++ escape_tag (snd t)).
  apply transp_app; [apply transp_char; destruct Hch; subst; reflexivity|].
  apply transp_escape_tag; destruct Hch; subst; reflexivity.
Qed.

Lemma transp_sp_tags : forall tags, transp c_sp (concat (map render_tag tags)).
Proof.
  induction tags as [|t r IH]; [apply transp_nil|].
  cbn [map concat]. rewrite render_tag_body. change (c_comma :: tag_body t) with ([c_comma] ++ tag_body t).
  apply transp_app; [|exact IH]. apply transp_app; [apply transp_char; reflexivity|].
  apply transp_tag_body. right. reflexivity.
Qed.

Lemma split_all_unesc_tags : forall tags t fuel,
  (List.length (tag_body t ++ concat (map render_tag tags)) <= fuel)%nat ->
  split_all_unesc fuel c_comma (tag_body t ++ concat (map render_tag tags)) = tag_body t :: map tag_body tags.
Proof.
  induction tags as [|u r IH]; intros t fuel Hf.
  - cbn [map concat]. rewrite app_nil_r. destruct fuel as [|f]; [reflexivity|].
    cbn [split_all_unesc]. rewrite (transp_none c_comma (tag_body t)); [reflexivity|].
    apply transp_tag_body. left. reflexivity.
  - cbn [map concat] in *. rewrite render_tag_body in *.
    change ((c_comma :: tag_body u) ++ concat (map render_tag r)) with (c_comma :: (tag_body u ++ concat (map render_tag r))) in *.
    destruct fuel as [|f].
    { rewrite app_length in Hf. cbn [List.length] in Hf. lia. }
    cbn [split_all_unesc]. rewrite (transp_split c_comma (tag_body t)); [|apply transp_tag_body; left; reflexivity].
    f_equal. apply IH. rewrite app_length in Hf. cbn [List.length] in Hf. lia.
Qed.

Definition valid_tag (t : bytes * bytes) : Prop :=
  fst t <> [] /\ snd t <> [] /\ (List.length (fst t) <= max_key_len)%nat /\ Z.of_nat (List.length (snd t)) <= max_tagval_len.

Lemma map_result_tags : forall tags, Forall valid_tag tags ->
  map_result parse_tag (map tag_body tags) = Ok (map Some tags).
Proof.
  intros tags H. induction H as [|[k v] r [Hk [Hv [Hlk Hlv]]] Hr IH]; [reflexivity|].
  cbn [map map_result]. unfold tag_body at 1. cbn [fst snd] in *.
  rewrite (parse_tag_render k v Hk Hv Hlk Hlv). cbn [bind]. rewrite IH. reflexivity.
Qed.

Lemma somes_map_Some : forall (A : Type) (l : list A), somes (map Some l) = l.
Proof. induction l as [|a r IH]; [reflexivity|]. cbn. now rewrite IH. Qed.

Lemma mtags_render : forall name tags, Forall valid_tag tags ->
  match split_unesc c_comma false (escape_tag name ++ concat (map render_tag tags)) with
  | Some (m, tagstr) => bind (parse_tags tagstr) (fun tg => Ok (m, sort_tags tg))
  | None => Ok (escape_tag name ++ concat (map render_tag tags), [])
  end = Ok (escape_tag name, sort_tags tags).
Proof.
  intros name [|t r] H.
  - cbn [map concat]. rewrite app_nil_r. rewrite (split_unesc_escape_tag_none c_comma name eq_refl eq_refl). reflexivity.
  - cbn [map concat]. rewrite render_tag_body.
    change ((c_comma :: tag_body t) ++ concat (map render_tag r)) with (c_comma :: (tag_body t ++ concat (map render_tag r))).
    rewrite (split_unesc_escape_tag c_comma name _ eq_refl eq_refl).
    unfold parse_tags. rewrite split_all_unesc_tags by apply le_n.
    change (tag_body t :: map tag_body r) with (map tag_body (t :: r)).
    rewrite (map_result_tags (t :: r) H). cbn [bind]. rewrite somes_map_Some. reflexivity.
Qed.

Section RenderFull.
Variable dec2f : bytes -> f64.

Definition valid_pval (v : pval) : Prop :=
  match v with
  | PInt n => in_int64 n = true
  | PFloat lit => valid_number lit = true /\ f64_is_finite (dec2f lit) = true
  | PBool _ => True
  | PStr _ => True
  end.

Lemma digit_or_minus_plain : forall ch c, numch ch = false -> (is_digit c = true \/ c = ch_minus) ->
  (c =? ch)%N = false /\ (c =? c_bs)%N = false /\ (c =? c_quote)%N = false.
Proof.
  intros ch c Hch Hc. apply numch_plain; [exact Hch|]. unfold numch. destruct Hc as [Hc| ->]; [rewrite Hc|]; reflexivity.
Qed.

Lemma valid_pval_val : forall v, valid_pval v -> valid_val dec2f v.
Proof.
  intros [n|lit|b|s] H; cbn [valid_pval valid_val] in *; auto.
  split; [apply parse_int64_render_int; exact H|].
  split; (eapply Forall_impl; [|apply render_int_chars]); intros c Hc; apply digit_or_minus_plain; auto.
Qed.

Definition valid_pfield (kv : bytes * pval) : Prop := valid_key (fst kv) /\ no_quote (fst kv) /\ valid_pval (snd kv).

(* a point the line protocol can carry *)
Definition valid (p : point) : Prop :=
  valid_name (p_name p) /\ Forall valid_tag (p_tags p) /\ p_fields p <> [] /\ Forall valid_pfield (p_fields p) /\
  0 <= p_ts p <= max_int64.

(* what is stored for it: the same measurement, the tags sorted by key, every field with the value it denotes, the
   timestamp *)
Definition store (p : point) : row :=
  {| r_name := p_name p; r_tags := sort_tags (p_tags p); r_fields := map (store_field dec2f) (p_fields p); r_ts := Some (p_ts p) |}.

Theorem parse_render : forall p, valid p -> parse_line dec2f cfg_repaired (render p) = Ok (store p).
Proof.
  intros [name tags fs ts] [[Hn [Hlen Hfirst]] [Htags [Hne [Hfs0 Hts]]]]. cbn [p_name p_tags p_fields p_ts] in *.
  assert (Hfs : Forall (valid_field dec2f) fs).
  { eapply Forall_impl; [|exact Hfs0]. intros kv [H1 [H2 H3]]. split; [exact H1|]. split; [exact H2|].
    apply valid_pval_val. exact H3. }
  unfold render, store. cbn [p_name p_tags p_fields p_ts].
  set (T := concat (map render_tag tags)). set (F := join_fields (map render_field fs)).
  destruct (escape_tag_head name Hn) as [h [t [Eh [_ Hlead]]]].
  unfold parse_line.
  assert (Hd : drop_while is_lead_ws (escape_tag name ++ T ++ c_sp :: F ++ c_sp :: render_nat ts) =
               escape_tag name ++ T ++ c_sp :: F ++ c_sp :: render_nat ts).
  { rewrite Eh. cbn [app]. apply drop_while_head. apply Hlead. exact Hfirst. }
  rewrite Hd. rewrite app_assoc.
  rewrite (transp_split c_sp (escape_tag name ++ T)).
  2:{ apply transp_app; [apply transp_escape_tag; reflexivity | apply transp_sp_tags]. }
  assert (HF : exists fh ft, F = fh :: ft /\ is_sp fh = false).
  { unfold F. destruct fs as [|[k v] r]; [congruence|].
    inversion Hfs as [|x y [[Hk _] _] _]; subst.
    destruct (escape_tag_head k Hk) as [kh [kt [Ek [Hsp _]]]].
    cbn [map]. unfold render_field at 1. cbn [fst snd]. rewrite Ek.
    destruct (map render_field r); cbn [join_fields app]; eexists; eexists; split; try reflexivity; exact Hsp. }
  destruct HF as [fh [ft [EF Hfh]]].
  assert (Hd2 : drop_while is_sp (F ++ c_sp :: render_nat ts) = F ++ c_sp :: render_nat ts).
  { rewrite EF. cbn [app]. apply drop_while_head. exact Hfh. }
  rewrite Hd2. unfold T.
  match goal with |- bind ?X _ = _ =>
    replace X with (@Ok (bytes * list (bytes * bytes)) (escape_tag name, sort_tags tags))
      by (symmetry; apply mtags_render; exact Htags) end.
  cbn [bind fst snd].
  rewrite unescape_escape_tag.
  assert (Hl : Nat.ltb max_name_len (List.length name) = false) by (apply Nat.ltb_ge; exact Hlen).
  rewrite Hl.
  assert (HT : transq c_sp F).
  { unfold F. apply transq_join; [reflexivity|]. apply Forall_map. eapply Forall_impl; [|exact Hfs].
    intros [k v] [_ [Hq Hv]]. apply (transq_render_field dec2f); [right; reflexivity | exact Hq | exact Hv]. }
  rewrite (HT (c_sp :: render_nat ts)). cbn [split_unq]. rewrite N.eqb_refl. cbn [andb negb lift]. rewrite app_nil_r.
  unfold F. rewrite (parse_fields_render dec2f fs Hne Hfs). cbn [bind].
  rewrite parse_ts_drop_sp, (parse_ts_render_nat ts Hts). reflexivity.
Qed.

End RenderFull.

(* the hypothesis about the third-party decimal -> binary64 conversion, and what it buys *)
Section Dec2fCorrect.
Variable dec2f : bytes -> f64.
Hypothesis dec2f_correct : forall s, valid_number s = true -> dec2f s = dec2f_exact s.

Lemma float_stored_correctly_rounded : forall lit,
  valid_number lit = true -> f64_is_finite (dec2f_exact lit) = true ->
  parse_value dec2f cfg_repaired lit = Ok (VFloat lit (dec2f_exact lit)).
Proof.
  intros lit Hv Hf.
  pose proof (parse_value_render dec2f (PFloat lit)) as H. cbn [valid_val render_val store_val] in H.
  rewrite (dec2f_correct lit Hv) in H. apply H. split; assumption.
Qed.

Lemma store_fields_exact : forall fs, Forall (valid_pfield dec2f) fs ->
  map (store_field dec2f) fs = map (store_field dec2f_exact) fs.
Proof.
  intros fs H. induction H as [|[k v] r [_ [_ Hv]] Hr IH]; [reflexivity|].
  cbn [map]. rewrite IH. f_equal. unfold store_field. cbn [fst snd]. f_equal.
  destruct v as [n|lit|b|s]; cbn [store_val]; try reflexivity.
  destruct Hv as [Hv _]. rewrite (dec2f_correct lit Hv). reflexivity.
Qed.

(* parse of render with the stored floats spelled out as the correctly rounded values *)
Theorem parse_render_exact : forall p, valid dec2f p ->
  parse_line dec2f cfg_repaired (render p) = Ok (store dec2f_exact p).
Proof.
  intros p H. rewrite (parse_render dec2f p H). unfold store. f_equal. f_equal.
  destruct H as [_ [_ [_ [Hf _]]]]. apply store_fields_exact. exact Hf.
Qed.
End Dec2fCorrect.
