(* C06 - executable model of the line-protocol write path of openGemini.

   Mirrors lib/util/lifted/vm/protoparser/influx/parser.go (Row.unmarshal, unmarshalTags, Tag.unmarshal,
   unmarshalInfluxFields, Field.unmarshal, unescapeTagValue, parseFieldStrValue, parseFieldNumValue,
   nextUnescapedChar, nextUnquotedChar, nextTimestamp, unmarshalRows, unmarshalRow), valid_number.go
   (IsValidNumber), streamparser.go (unmarshalWork.Unmarshal: CheckValid and timestamp scaling) and
   lib/record/record_group.go (AppendFieldToCol: every non-string value travels as float64 and is converted
   back by declared type).

   Bytes are N (< 256 for well-formed input; nothing depends on the bound).  Definitions only; total; computable.

   A configuration record [cfg] selects, defect by defect, between the behaviour of today's code ([true]) and
   the minimal repair ([false]); [cfg_current] is today's code, [cfg_repaired] the repaired parser. *)
From Coq Require Import ZArith NArith List Bool.
Import ListNotations.
Open Scope Z_scope.

Definition bytes := list N.

Inductive result (A : Type) : Type := Ok (a : A) | Err.
Arguments Ok {A} a.
Arguments Err {A}.

Definition bind {A B} (r : result A) (f : A -> result B) : result B :=
  match r with Ok a => f a | Err => Err end.

(* ------------------------------------------------------------------------------------------------ *)
(* characters *)
Definition c_bs : N := 92%N.      (* backslash *)
Definition c_sp : N := 32%N.
Definition c_comma : N := 44%N.
Definition c_eq : N := 61%N.
Definition c_quote : N := 34%N.
Definition c_nl : N := 10%N.
Definition c_cr : N := 13%N.
Definition c_hash : N := 35%N.
Definition c_tab : N := 9%N.
Definition ch_minus : N := 45%N.
Definition ch_plus : N := 43%N.
Definition c_dot : N := 46%N.

Definition is_digit (c : N) : bool := (48 <=? c)%N && (c <=? 57)%N.
Definition digit_val (c : N) : Z := Z.of_N (c - 48).

(* the characters a backslash escapes in measurement / tag key / tag value / field key *)
Definition is_esc (c : N) : bool :=
  (c =? c_sp)%N || (c =? c_comma)%N || (c =? c_eq)%N || (c =? c_bs)%N.

(* ------------------------------------------------------------------------------------------------ *)
(* nextUnescapedChar: first occurrence of ch preceded by an even number of backslashes.
   [par] = parity of the run of backslashes immediately before the current position.
   Returns the text before and after that occurrence. *)
Fixpoint split_unesc (ch : N) (par : bool) (s : bytes) : option (bytes * bytes) :=
  match s with
  | [] => None
  | c :: r =>
      if (c =? ch)%N && negb par then Some ([], r)
      else match split_unesc ch (if (c =? c_bs)%N then negb par else false) r with
           | Some (a, b) => Some (c :: a, b)
           | None => None
           end
  end.

Definition next_unescaped (ch : N) (s : bytes) : option nat :=
  match split_unesc ch false s with Some (a, _) => Some (length a) | None => None end.

(* nextUnquotedChar: same, but occurrences between unescaped double quotes do not count *)
Fixpoint split_unq (ch : N) (inq par : bool) (s : bytes) : option (bytes * bytes) :=
  match s with
  | [] => None
  | c :: r =>
      if (c =? ch)%N && negb par && negb inq then Some ([], r)
      else
        let inq' := if (c =? c_quote)%N && negb par then negb inq else inq in
        let par' := if (c =? c_bs)%N then negb par else false in
        match split_unq ch inq' par' r with
        | Some (a, b) => Some (c :: a, b)
        | None => None
        end
  end.

(* split a string at every unescaped, unquoted ch; fuel = length bound *)
Fixpoint split_all_unq (fuel : nat) (ch : N) (s : bytes) : list bytes :=
  match fuel with
  | O => [s]
  | S f => match split_unq ch false false s with
           | None => [s]
           | Some (a, b) => a :: split_all_unq f ch b
           end
  end.

Fixpoint split_all_unesc (fuel : nat) (ch : N) (s : bytes) : list bytes :=
  match fuel with
  | O => [s]
  | S f => match split_unesc ch false s with
           | None => [s]
           | Some (a, b) => a :: split_all_unesc f ch b
           end
  end.

(* unescapeTagValue *)
Fixpoint unescape_tag (s : bytes) : bytes :=
  match s with
  | [] => []
  | c :: r =>
      if (c =? c_bs)%N then
        match r with
        | [] => [c_bs]
        | d :: r' => if is_esc d then d :: unescape_tag r' else c_bs :: d :: unescape_tag r'
        end
      else c :: unescape_tag r
  end.

(* the inverse used by the canonical renderer: a backslash before space, comma, '=' and backslash *)
Fixpoint escape_tag (s : bytes) : bytes :=
  match s with
  | [] => []
  | c :: r => if is_esc c then c_bs :: c :: escape_tag r else c :: escape_tag r
  end.

(* body of parseFieldStrValue between the outer quotes. k = number of pending backslashes. *)
Fixpoint unesc_str (k : nat) (s : bytes) : bytes :=
  match s with
  | [] => repeat c_bs (Nat.div2 (S k))
  | c :: r =>
      if (c =? c_bs)%N then unesc_str (S k) r
      else if (c =? c_quote)%N && negb (Nat.eqb k 0) then repeat c_bs (Nat.div2 k) ++ c_quote :: unesc_str 0 r
      else repeat c_bs (Nat.div2 (S k)) ++ c :: unesc_str 0 r
  end.

Fixpoint escape_str (s : bytes) : bytes :=
  match s with
  | [] => []
  | c :: r => if (c =? c_quote)%N || (c =? c_bs)%N then c_bs :: c :: escape_str r else c :: escape_str r
  end.

Definition has_unesc_quote (s : bytes) : bool :=
  match split_unesc c_quote false s with Some _ => true | None => false end.

(* ------------------------------------------------------------------------------------------------ *)
(* binary64 *)
Inductive f64 : Type :=
| FFin (neg : bool) (m : Z) (e : Z)   (* (-1)^neg * m * 2^e ; 0 <= m < 2^53 ; -1074 <= e <= 971 ; m < 2^52 -> e = -1074 *)
| FInf (neg : bool)
| FNaN.

Definition f64_is_finite (x : f64) : bool := match x with FFin _ _ _ => true | _ => false end.

Definition f64_bits (x : f64) : Z :=
  match x with
  | FFin neg m e =>
      (if neg then 2 ^ 63 else 0) +
      (if m <? 2 ^ 52 then m else (e + 1075) * 2 ^ 52 + (m - 2 ^ 52))
  | FInf neg => (if neg then 2 ^ 63 else 0) + 2047 * 2 ^ 52
  | FNaN => 2047 * 2 ^ 52 + 2 ^ 51 + 1
  end.

Definition f64_zero (neg : bool) : f64 := FFin neg 0 (-1074).

(* correctly rounded (nearest, ties to even) binary64 of num/den, num > 0, den > 0 *)
Definition round_ratio (neg : bool) (num den : Z) : f64 :=
  let e0 := Z.log2 num - Z.log2 den in
  let ge := if 0 <=? e0 then den * 2 ^ e0 <=? num else den <=? num * 2 ^ (- e0) in
  let e := if ge then e0 else e0 - 1 in
  let sh := Z.max (e - 52) (-1074) in
  let n' := if 0 <=? sh then num else num * 2 ^ (- sh) in
  let d' := if 0 <=? sh then den * 2 ^ sh else den in
  let q := n' / d' in
  let r := n' mod d' in
  let up := (d' <? 2 * r) || ((2 * r =? d') && Z.odd q) in
  let q' := if up then q + 1 else q in
  let m := if q' =? 2 ^ 53 then 2 ^ 52 else q' in
  let ex := if q' =? 2 ^ 53 then sh + 1 else sh in
  if 971 <? ex then FInf neg else FFin neg m ex.

(* int64 -> float64 (Go: float64(n)); written out directly: keep the top 53 bits, round half to even *)
Definition round53 (a : Z) : Z * Z :=       (* a > 0 ; returns (m, e) with value m * 2^e *)
  let k := Z.log2 a in
  if k <=? 52 then (a * 2 ^ (52 - k), k - 52)
  else
    let sh := k - 52 in
    let q := a / 2 ^ sh in
    let r := a mod 2 ^ sh in
    let half := 2 ^ (sh - 1) in
    let up := (half <? r) || ((r =? half) && Z.odd q) in
    let q' := if up then q + 1 else q in
    if q' =? 2 ^ 53 then (2 ^ 52, sh + 1) else (q', sh).

Definition z_to_f64 (n : Z) : f64 :=
  if n =? 0 then f64_zero false
  else let '(m, e) := round53 (Z.abs n) in FFin (n <? 0) m e.

Definition min_int64 : Z := - 2 ^ 63.
Definition max_int64 : Z := 2 ^ 63 - 1.
Definition in_int64 (n : Z) : bool := (min_int64 <=? n) && (n <=? max_int64).

(* float64 -> int64 (Go: int64(f)) as amd64 does it (CVTTSD2SQ): truncation toward zero; NaN, infinities and
   values outside the int64 range give 0x8000000000000000 *)
Definition f64_to_z (x : f64) : Z :=
  match x with
  | FFin neg m e =>
      let v := if 0 <=? e then m * 2 ^ e else m / 2 ^ (- e) in
      let sv := if neg then - v else v in
      if in_int64 sv then sv else min_int64
  | _ => min_int64
  end.

(* a 53-bit integer times a non-negative power of two *)
Definition representable53 (n : Z) : Prop := exists m e, 0 <= e /\ Z.abs m < 2 ^ 53 /\ n = m * 2 ^ e.

(* ------------------------------------------------------------------------------------------------ *)
(* numbers *)
Fixpoint all_digits (s : bytes) : bool :=
  match s with [] => true | c :: r => is_digit c && all_digits r end.

Definition dec_val (s : bytes) : Z := fold_left (fun a c => a * 10 + digit_val c) s 0.

(* fastfloat.ParseInt64: optional '-', at least one digit, digits only, value within int64 *)
Definition parse_int64 (s : bytes) : result Z :=
  match s with
  | [] => Err
  | c :: r =>
      let neg := (c =? ch_minus)%N in
      let ds := if neg then r else s in
      match ds with
      | [] => Err
      | _ => if all_digits ds then
               let v := dec_val ds in
               let sv := if neg then - v else v in
               if in_int64 sv then Ok sv else Err
             else Err
      end
  end.

(* IsValidNumber: the automaton of valid_number.go *)
Inductive nst := SInit | SSign | SInt | SPoint | SPointNoInt | SFrac | SExp | SExpSign | SExpNum.

Definition is_e (c : N) : bool := (c =? 101)%N || (c =? 69)%N.
Definition is_sign (c : N) : bool := (c =? ch_plus)%N || (c =? ch_minus)%N.

Definition nstep (st : nst) (c : N) : option nst :=
  if is_digit c then
    match st with
    | SInit | SSign | SInt => Some SInt
    | SPoint | SPointNoInt | SFrac => Some SFrac
    | SExp | SExpSign | SExpNum => Some SExpNum
    end
  else if is_e c then match st with SInt | SPoint | SFrac => Some SExp | _ => None end
  else if (c =? c_dot)%N then
    match st with SInit | SSign => Some SPointNoInt | SInt => Some SPoint | _ => None end
  else if is_sign c then match st with SInit => Some SSign | SExp => Some SExpSign | _ => None end
  else None.

Fixpoint nrun (st : nst) (s : bytes) : option nst :=
  match s with
  | [] => Some st
  | c :: r => match nstep st c with Some st' => nrun st' r | None => None end
  end.

Definition valid_number (s : bytes) : bool :=
  match nrun SInit s with
  | Some SInt | Some SPoint | Some SFrac | Some SExpNum => true
  | _ => false
  end.

(* the value a valid decimal literal denotes, as sign, decimal mantissa, decimal exponent *)
Record decnum := { d_neg : bool; d_mant : Z; d_frac : Z; d_eneg : bool; d_exp : Z }.

Fixpoint dec_scan (st : nst) (s : bytes) (d : decnum) : decnum :=
  match s with
  | [] => d
  | c :: r =>
      match nstep st c with
      | None => d
      | Some st' =>
          let d' :=
            match st' with
            | SSign => {| d_neg := (c =? ch_minus)%N; d_mant := d_mant d; d_frac := d_frac d; d_eneg := d_eneg d; d_exp := d_exp d |}
            | SInt => {| d_neg := d_neg d; d_mant := d_mant d * 10 + digit_val c; d_frac := d_frac d; d_eneg := d_eneg d; d_exp := d_exp d |}
            | SFrac => {| d_neg := d_neg d; d_mant := d_mant d * 10 + digit_val c; d_frac := d_frac d + 1; d_eneg := d_eneg d; d_exp := d_exp d |}
            | SExpSign => {| d_neg := d_neg d; d_mant := d_mant d; d_frac := d_frac d; d_eneg := (c =? ch_minus)%N; d_exp := d_exp d |}
            | SExpNum => {| d_neg := d_neg d; d_mant := d_mant d; d_frac := d_frac d; d_eneg := d_eneg d; d_exp := d_exp d * 10 + digit_val c |}
            | _ => d
            end in
          dec_scan st' r d'
      end
  end.

Definition dec_parse (s : bytes) : decnum :=
  dec_scan SInit s {| d_neg := false; d_mant := 0; d_frac := 0; d_eneg := false; d_exp := 0 |}.

(* number of decimal digits of m > 0 *)
Fixpoint ndig (fuel : nat) (m : Z) : Z :=
  match fuel with
  | O => 0
  | S f => if m <? 10 then 1 else 1 + ndig f (m / 10)
  end.
Definition ndigits (m : Z) : Z := ndig (S (Z.to_nat (Z.log2 m))) m.

(* the value of the literal as a ratio of integers: mantissa * 10^e10 *)
Definition dec_e10 (d : decnum) : Z := (if d_eneg d then - d_exp d else d_exp d) - d_frac d.
Definition dec_ratio (d : decnum) : Z * Z :=
  if 0 <=? dec_e10 d then (d_mant d * 10 ^ dec_e10 d, 1) else (d_mant d, 10 ^ (- dec_e10 d)).

(* correctly rounded decimal -> binary64 without any shortcut *)
Definition dec2f_full (s : bytes) : f64 :=
  let d := dec_parse s in
  if d_mant d =? 0 then f64_zero (d_neg d)
  else round_ratio (d_neg d) (fst (dec_ratio d)) (snd (dec_ratio d)).

(* correctly rounded decimal -> binary64 (the reference meaning of a float literal). Magnitudes far outside the binary64
   range are decided from the number of digits without computing the power of ten: a value of at least 10^310 is beyond
   the largest binary64, a value below 10^-400 is below half the smallest one (ProofsFloatAll.dec2f_exact_full: equal to
   dec2f_full for every text) *)
Definition dec2f_exact (s : bytes) : f64 :=
  let d := dec_parse s in
  let m := d_mant d in
  if m =? 0 then f64_zero (d_neg d)
  else
    let e10 := dec_e10 d in
    let nd := ndigits m in
    if 310 <=? nd - 1 + e10 then FInf (d_neg d)
    else if nd + e10 <=? -400 then f64_zero (d_neg d)
    else round_ratio (d_neg d) (fst (dec_ratio d)) (snd (dec_ratio d)).

Definition has_exp_part (s : bytes) : bool := existsb is_e s.

(* ------------------------------------------------------------------------------------------------ *)
(* configuration: which of today's deviations are present *)
Record cfg := {
  c_int53 : bool;    (* integer values travel through float64 (Field.NumValue) *)
  c_fsuffix : bool;  (* "...f" value: best-effort parse without validation *)
  c_batch : bool;    (* unmarshalRows overwrites the error line by line *)
  c_plus : bool;     (* a float literal with a leading '+' is accepted and read as 0 *)
  c_strq : bool;     (* a value containing a quote but not starting with one is accepted as "" *)
  c_negdot : bool;   (* "-ddd." (trailing point, at most 17 digits) loses its sign *)
  c_tswrap : bool    (* timestamp * precision factor wraps around int64 instead of being refused *)
}.
Definition cfg_current : cfg := {| c_int53 := true; c_fsuffix := true; c_batch := true; c_plus := true; c_strq := true; c_negdot := true; c_tswrap := true |}.
Definition cfg_repaired : cfg := {| c_int53 := false; c_fsuffix := false; c_batch := false; c_plus := false; c_strq := false; c_negdot := false; c_tswrap := false |}.

(* field values: what is stored for the field *)
Inductive fval : Type :=
| VInt (text stored : Z)              (* integer literal, value finally stored in the int64 column *)
| VFloat (lit : bytes) (x : f64)      (* float denoted by the literal *)
| VFloatBits (x : f64)                (* a float the text does not denote (today's '+' behaviour: 0) *)
| VFloatJunk                          (* accepted as float although the text denotes no number *)
| VBool (b : bool)
| VStr (s : bytes).

Definition store_int (c : cfg) (n : Z) : Z := if c_int53 c then f64_to_z (z_to_f64 n) else n.

Definition list_beq (a b : bytes) : bool :=
  (fix go (a b : bytes) : bool :=
     match a, b with
     | [], [] => true
     | x :: a', y :: b' => (x =? y)%N && go a' b'
     | _, _ => false
     end) a b.

Definition is_true_text (s : bytes) : bool :=
  list_beq s [116%N] || list_beq s [84%N] || list_beq s [116;114;117;101]%N ||
  list_beq s [84;114;117;101]%N || list_beq s [84;82;85;69]%N.
Definition is_false_text (s : bytes) : bool :=
  list_beq s [102%N] || list_beq s [70%N] || list_beq s [102;97;108;115;101]%N ||
  list_beq s [70;97;108;115;101]%N || list_beq s [70;65;76;83;69]%N.

Section WithDec2f.
Variable dec2f : bytes -> f64.

Definition f64_abs (x : f64) : f64 :=
  match x with FFin _ m e => FFin false m e | FInf _ => FInf false | FNaN => FNaN end.

(* today's fastfloat.ParseBestEffort on a valid number: a leading '+' gives 0; "-ddd." returns before the sign is
   applied (unless the 19th character is reached, where it falls back to strconv) *)
Definition float_of_valid (c : cfg) (s : bytes) : fval :=
  if c_plus c && (match s with h :: _ => (h =? ch_plus)%N | [] => false end) then VFloatBits (f64_zero false)
  else if c_negdot c && (match s with h :: _ => (h =? ch_minus)%N | [] => false end)
          && (match rev s with l :: _ => (l =? c_dot)%N | [] => false end)
          && (Z.of_nat (length s) <=? 19) then VFloatBits (f64_abs (dec2f s))
  else VFloat s (dec2f s).
Definition fval_finite (v : fval) : bool :=
  match v with VFloat _ x => f64_is_finite x | VFloatBits x => f64_is_finite x | _ => true end.

(* parseFieldNumValue *)
Definition parse_num_field (c : cfg) (s : bytes) : result fval :=
  match rev s with
  | [] => Err
  | last :: rinit =>
      let init := rev rinit in
      if (last =? 105)%N then                       (* 'i' *)
        bind (parse_int64 init) (fun n => Ok (VInt n (store_int c n)))
      else if (last =? 117)%N then Err              (* 'u' *)
      else if (last =? 102)%N && negb (match init with [] => true | _ => false end) then   (* 'f', len > 1 *)
        if valid_number init then
          let v := float_of_valid c init in
          if fval_finite v || c_fsuffix c then Ok v else Err
        else if c_fsuffix c then Ok VFloatJunk else Err
      else if is_true_text s then Ok (VBool true)
      else if is_false_text s then Ok (VBool false)
      else if valid_number s then
        let v := float_of_valid c s in
        if fval_finite v then Ok v else Err
      else Err
  end.

(* parseFieldStrValue *)
Definition parse_str_field (c : cfg) (s : bytes) : result fval :=
  match s with
  | [] => Err
  | h :: t =>
      if (h =? c_quote)%N then
        match rev t with
        | [] => Err
        | l :: rbody => if (l =? c_quote)%N then Ok (VStr (unesc_str 0 (rev rbody))) else Err
        end
      else if c_strq c then Ok (VStr []) else Err
  end.

Definition max_name_len : nat := 250.      (* util.MaxMeasurementLength *)
Definition max_key_len : nat := 255.       (* util.MaxTagNameLength, util.MaxFieldNameLength *)
Definition max_tagval_len : Z := 65536.  (* util.MaxTagValueLength *)

(* the value part of Field.unmarshal: the string path is taken as soon as the text contains an unescaped quote *)
Definition parse_value (c : cfg) (v : bytes) : result fval :=
  if has_unesc_quote v then parse_str_field c v else parse_num_field c v.

(* Field.unmarshal *)
Definition parse_field (c : cfg) (s : bytes) : result (bytes * fval) :=
  match split_unesc c_eq false s with
  | None => Err
  | Some (kraw, v) =>
      let k := unescape_tag kraw in
      match k with
      | [] => Err
      | _ =>
          if Nat.ltb max_key_len (length k) then Err
          else bind (parse_value c v) (fun x => Ok (k, x))
      end
  end.

Fixpoint map_result {A B} (f : A -> result B) (l : list A) : result (list B) :=
  match l with
  | [] => Ok []
  | a :: r => bind (f a) (fun b => bind (map_result f r) (fun bs => Ok (b :: bs)))
  end.

(* unmarshalInfluxFields *)
Definition parse_fields (c : cfg) (s : bytes) : result (list (bytes * fval)) :=
  map_result (parse_field c) (split_all_unq (length s) c_comma s).

(* Tag.unmarshal: Ok None = empty key or value, the tag is skipped *)
Definition parse_tag (s : bytes) : result (option (bytes * bytes)) :=
  match split_unesc c_eq false s with
  | None => Err
  | Some (kraw, vraw) =>
      let k := unescape_tag kraw in
      if Nat.ltb max_key_len (length k) then Err
      else
        let v := unescape_tag vraw in
        if max_tagval_len <? Z.of_nat (length v) then Err
        else match k, v with
             | [], _ | _, [] => Ok None
             | _, _ => Ok (Some (k, v))
             end
  end.

Fixpoint somes {A} (l : list (option A)) : list A :=
  match l with [] => [] | Some a :: r => a :: somes r | None :: r => somes r end.

(* unmarshalTags *)
Definition parse_tags (s : bytes) : result (list (bytes * bytes)) :=
  bind (map_result parse_tag (split_all_unesc (length s) c_comma s)) (fun l => Ok (somes l)).

(* byte-wise lexicographic order (Go string comparison) *)
Fixpoint bytes_leb (a b : bytes) : bool :=
  match a, b with
  | [], _ => true
  | _ :: _, [] => false
  | x :: a', y :: b' => if (x <? y)%N then true else if (y <? x)%N then false else bytes_leb a' b'
  end.

Fixpoint insert_tag (t : bytes * bytes) (l : list (bytes * bytes)) : list (bytes * bytes) :=
  match l with
  | [] => [t]
  | u :: r => if bytes_leb (fst t) (fst u) then t :: l else u :: insert_tag t r
  end.
(* sort.Sort by key; stable here, the library sort is not - callers compare modulo the order of equal keys *)
Definition sort_tags (l : list (bytes * bytes)) : list (bytes * bytes) := fold_right insert_tag [] l.

Definition is_ascii_ws (c : N) : bool :=
  (c =? 32)%N || (c =? 9)%N || (c =? 10)%N || (c =? 11)%N || (c =? 12)%N || (c =? 13)%N.
Fixpoint drop_while (p : N -> bool) (s : bytes) : bytes :=
  match s with [] => [] | c :: r => if p c then drop_while p r else s end.
(* strings.TrimSpace: besides the ASCII white space it removes the other Unicode White_Space characters, UTF-8 encoded:
   U+0085, U+00A0 (two bytes), U+1680, U+2000..U+200A, U+2028, U+2029, U+202F, U+205F, U+3000 (three bytes); a byte
   sequence that is not the encoding of one of them stops the trimming (also an invalid one) *)
Definition is_uws2 (a b : N) : bool := (a =? 194)%N && ((b =? 133)%N || (b =? 160)%N).
Definition is_uws3 (a b c : N) : bool :=
  ((a =? 225)%N && (b =? 154)%N && (c =? 128)%N) ||
  ((a =? 226)%N && (b =? 128)%N && (((128 <=? c)%N && (c <=? 138)%N) || (c =? 168)%N || (c =? 169)%N || (c =? 175)%N)) ||
  ((a =? 226)%N && (b =? 129)%N && (c =? 159)%N) ||
  ((a =? 227)%N && (b =? 128)%N && (c =? 128)%N).
(* fwd = true: from the left; fwd = false: [s] is the reversed text and the sequences are read backwards *)
Fixpoint trim_sp (fwd : bool) (s : bytes) : bytes :=
  match s with
  | [] => []
  | c :: r =>
      if is_ascii_ws c then trim_sp fwd r
      else match r with
           | d :: r2 =>
               if (if fwd then is_uws2 c d else is_uws2 d c) then trim_sp fwd r2
               else match r2 with
                    | e :: r3 => if (if fwd then is_uws3 c d e else is_uws3 e d c) then trim_sp fwd r3 else s
                    | [] => s
                    end
           | [] => s
           end
  end.
Definition trim_ws (s : bytes) : bytes := rev (trim_sp false (rev (trim_sp true s))).

(* nextTimestamp: None = no timestamp given (the server's clock is used) *)
Definition parse_ts (s : bytes) : result (option Z) :=
  match trim_ws s with
  | [] => Ok None
  | t => if all_digits t then
           let v := dec_val t in if v <=? max_int64 then Ok (Some v) else Err
         else Err
  end.

Record row := { r_name : bytes; r_tags : list (bytes * bytes); r_fields : list (bytes * fval); r_ts : option Z }.

Definition is_lead_ws (c : N) : bool := (c =? 32)%N || (c =? 9)%N || (c =? 0)%N.   (* checkWhitespace *)
Definition is_sp (c : N) : bool := (c =? 32)%N.                                    (* stripLeadingWhitespace *)

(* Row.unmarshal *)
Definition parse_line (c : cfg) (s0 : bytes) : result row :=
  let s := drop_while is_lead_ws s0 in
  match split_unesc c_sp false s with
  | None => Err
  | Some (mt, rest0) =>
      let rest := drop_while is_sp rest0 in
      let mtags :=
        match split_unesc c_comma false mt with
        | Some (m, tagstr) => bind (parse_tags tagstr) (fun tags => Ok (m, sort_tags tags))
        | None => Ok (mt, [])
        end in
      bind mtags (fun mt' =>
        let name := unescape_tag (fst mt') in
        if Nat.ltb max_name_len (length name) then Err
        else
          match split_unq c_sp false false rest with
          | None =>
              bind (parse_fields c rest) (fun fs =>
                Ok {| r_name := name; r_tags := snd mt'; r_fields := fs; r_ts := None |})
          | Some (fstr, tsr) =>
              bind (parse_fields c fstr) (fun fs =>
                bind (parse_ts (drop_while is_sp tsr)) (fun ts =>
                  Ok {| r_name := name; r_tags := snd mt'; r_fields := fs; r_ts := ts |}))
          end)
  end.

(* ------------------------------------------------------------------------------------------------ *)
(* batches: unmarshalRows / unmarshalRow *)
Fixpoint split_lines_aux (cur : bytes) (s : bytes) : list bytes :=
  match s with
  | [] => match cur with [] => [] | _ => [rev cur] end     (* no segment after a final newline *)
  | c :: r => if (c =? c_nl)%N then rev cur :: split_lines_aux [] r else split_lines_aux (c :: cur) r
  end.
Definition split_lines (s : bytes) : list bytes := split_lines_aux [] s.

Definition strip_cr (s : bytes) : bytes :=
  match rev s with
  | c :: r => if (c =? c_cr)%N then rev r else s
  | [] => s
  end.

(* None = skipped line (empty or comment) *)
Definition parse_row (c : cfg) (l : bytes) : option (result row) :=
  match strip_cr l with
  | [] => None
  | h :: t => if (h =? c_hash)%N then None else Some (parse_line c (h :: t))
  end.

(* rows parsed so far (in order), error flag *)
Fixpoint batch_go (c : cfg) (ls : list bytes) (acc : list row) (err : bool) : list row * bool :=
  match ls with
  | [] => (rev acc, err)
  | l :: r =>
      match parse_row c l with
      | None => batch_go c r acc (if c_batch c then false else err)
      | Some (Ok x) => batch_go c r (x :: acc) (if c_batch c then false else err)
      | Some Err => batch_go c r acc true
      end
  end.

Definition parse_batch (c : cfg) (s : bytes) : list row * bool := batch_go c (split_lines s) [] false.

(* unmarshalWork.Unmarshal + the write callback of serveWrite: a block with a reported parse error or with a row
   without measurement name is rejected as a whole (nothing of it is stored); otherwise every row is stored with
   its timestamp multiplied by the precision factor (today: wrapping int64 multiplication; repaired: a product beyond
   int64 refuses the block). *)
Definition wrap64 (z : Z) : Z := (z + 2 ^ 63) mod 2 ^ 64 - 2 ^ 63.

Definition scale_row (c : cfg) (mult : Z) (r : row) : result row :=
  match r_ts r with
  | None => Ok r
  | Some t =>
      let v := t * mult in
      if c_tswrap c then
        Ok {| r_name := r_name r; r_tags := r_tags r; r_fields := r_fields r; r_ts := Some (wrap64 v) |}
      else if v <=? max_int64 then
        Ok {| r_name := r_name r; r_tags := r_tags r; r_fields := r_fields r; r_ts := Some v |}
      else Err
  end.

Definition accept_block (c : cfg) (mult : Z) (s : bytes) : result (list row) :=
  let '(rows, err) := parse_batch c s in
  if err then Err
  else if existsb (fun r => match r_name r with [] => true | _ => false end) rows then Err
  else map_result (scale_row c mult) rows.

End WithDec2f.

Definition parse_batch_current := parse_batch dec2f_exact cfg_current.
Definition parse_batch_repaired := parse_batch dec2f_exact cfg_repaired.

(* ------------------------------------------------------------------------------------------------ *)
(* reference side: a point and its canonical rendering (the escaper of the line-protocol documentation) *)
Inductive pval : Type :=
| PInt (n : Z)
| PFloat (lit : bytes)      (* a decimal literal; the value is the correctly rounded binary64 of it *)
| PBool (b : bool)
| PStr (s : bytes).

Record point := { p_name : bytes; p_tags : list (bytes * bytes); p_fields : list (bytes * pval); p_ts : Z }.

Fixpoint nat_digits (fuel : nat) (n : Z) (acc : bytes) : bytes :=
  match fuel with
  | O => acc
  | S f => let acc' := (48 + Z.to_N (n mod 10))%N :: acc in
           if n / 10 =? 0 then acc' else nat_digits f (n / 10) acc'
  end.
Definition render_nat (n : Z) : bytes := nat_digits (S (Z.to_nat (Z.log2 n))) n [].
Definition render_int (n : Z) : bytes := if n <? 0 then ch_minus :: render_nat (- n) else render_nat n.

Definition render_val (v : pval) : bytes :=
  match v with
  | PInt n => render_int n ++ [105%N]
  | PFloat lit => lit
  | PBool true => [116;114;117;101]%N
  | PBool false => [102;97;108;115;101]%N
  | PStr s => c_quote :: escape_str s ++ [c_quote]
  end.

Definition render_tag (t : bytes * bytes) : bytes := c_comma :: escape_tag (fst t) ++ c_eq :: escape_tag (snd t).
Definition render_field (f : bytes * pval) : bytes := escape_tag (fst f) ++ c_eq :: render_val (snd f).

Fixpoint join_fields (l : list bytes) : bytes :=
  match l with
  | [] => []
  | [x] => x
  | x :: r => x ++ c_comma :: join_fields r
  end.

Definition render (p : point) : bytes :=
  escape_tag (p_name p) ++ concat (map render_tag (p_tags p)) ++
  c_sp :: join_fields (map render_field (p_fields p)) ++ c_sp :: render_nat (p_ts p).
