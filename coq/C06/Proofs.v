(* C06 lemmas: escaping round trips, batch error reporting. (Integer passage: ProofsInt.v; rendering: ProofsRender.v) *)
From Coq Require Import ZArith NArith List Bool Lia String Ascii.
From OG Require Import C06.Model.
Import ListNotations.
Open Scope Z_scope.

(* byte strings from Coq string literals (for witnesses and Examples) *)
Definition bs (s : string) : bytes := map N_of_ascii (list_ascii_of_string s).

(* ------------------------------------------------------------------------------------------------ *)
(* tag / measurement / field-key escaping *)

Lemma is_esc_bs : is_esc c_bs = true.
Proof. reflexivity. Qed.

Lemma not_esc_not_bs : forall c, is_esc c = false -> (c =? c_bs)%N = false.
Proof.
  intros c H. unfold is_esc in H.
  destruct (c =? c_bs)%N; [ rewrite !orb_true_r in H; discriminate | reflexivity ].
Qed.

Lemma unescape_escape_tag : forall s, unescape_tag (escape_tag s) = s.
Proof.
  induction s as [|c r IH]; [reflexivity|].
  cbn [escape_tag]. destruct (is_esc c) eqn:E.
  - cbn [unescape_tag]. rewrite N.eqb_refl. rewrite E. now rewrite IH.
  - cbn [unescape_tag]. rewrite (not_esc_not_bs c E). now rewrite IH.
Qed.

(* the escaped text contains no unescaped delimiter: the scan stops exactly at the delimiter that follows it *)
Lemma split_unesc_escape_tag : forall ch s r,
  is_esc ch = true -> (ch =? c_bs)%N = false ->
  split_unesc ch false (escape_tag s ++ ch :: r) = Some (escape_tag s, r).
Proof.
  intros ch s r Hesc Hbs. induction s as [|c t IH].
  - cbn. rewrite N.eqb_refl. reflexivity.
  - cbn [escape_tag]. destruct (is_esc c) eqn:E.
    + cbn [app split_unesc].
      assert (Hb : (c_bs =? ch)%N = false) by (rewrite N.eqb_sym; exact Hbs).
      rewrite Hb. cbn [andb]. rewrite N.eqb_refl. cbn [negb].
      rewrite andb_false_r.
      assert (Hp : (if (c =? c_bs)%N then false else false) = false) by (destruct (c =? c_bs)%N; reflexivity).
      rewrite Hp. rewrite IH. reflexivity.
    + cbn [app split_unesc].
      assert (Hc : (c =? ch)%N = false).
      { destruct (c =? ch)%N eqn:Q; [|reflexivity]. apply N.eqb_eq in Q. subst. congruence. }
      rewrite Hc. cbn [andb]. rewrite (not_esc_not_bs c E). rewrite IH. reflexivity.
Qed.

(* an escaped text followed by nothing contains no unescaped delimiter at all *)
Lemma split_unesc_escape_tag_none : forall ch s,
  is_esc ch = true -> (ch =? c_bs)%N = false ->
  split_unesc ch false (escape_tag s) = None.
Proof.
  intros ch s Hesc Hbs. induction s as [|c t IH]; [reflexivity|].
  cbn [escape_tag]. destruct (is_esc c) eqn:E.
  - cbn [split_unesc].
    assert (Hb : (c_bs =? ch)%N = false) by (rewrite N.eqb_sym; exact Hbs).
    rewrite Hb. cbn [andb]. rewrite N.eqb_refl. cbn [negb]. rewrite andb_false_r.
    assert (Hp : (if (c =? c_bs)%N then false else false) = false) by (destruct (c =? c_bs)%N; reflexivity).
    rewrite Hp, IH. reflexivity.
  - cbn [split_unesc].
    assert (Hc : (c =? ch)%N = false).
    { destruct (c =? ch)%N eqn:Q; [|reflexivity]. apply N.eqb_eq in Q. subst. congruence. }
    rewrite Hc. cbn [andb]. rewrite (not_esc_not_bs c E), IH. reflexivity.
Qed.

(* ------------------------------------------------------------------------------------------------ *)
(* string field escaping *)

Lemma repeat_snoc_app : forall (A : Type) (x : A) j l, repeat x (S j) ++ l = repeat x j ++ x :: l.
Proof.
  intros A x j l. induction j as [|j IH]; [reflexivity|].
  change (repeat x (S (S j))) with (x :: repeat x (S j)). cbn [app]. rewrite IH. reflexivity.
Qed.

Lemma div2_double' : forall j, Nat.div2 (2 * j) = j.
Proof. intro j. apply Nat.div2_double. Qed.
Lemma div2_succ_double' : forall j, Nat.div2 (S (2 * j)) = j.
Proof. intro j. apply Nat.div2_succ_double. Qed.

Lemma unesc_escape_str_gen : forall s j, unesc_str (2 * j) (escape_str s) = repeat c_bs j ++ s.
Proof.
  induction s as [|c r IH]; intro j.
  - cbn [escape_str unesc_str]. rewrite div2_succ_double'. now rewrite app_nil_r.
  - cbn [escape_str]. destruct (c =? c_quote)%N eqn:Q.
    + apply N.eqb_eq in Q. subst c. cbn [orb].
      cbn [unesc_str]. rewrite N.eqb_refl.
      change (c_quote =? c_bs)%N with false. change (c_quote =? c_quote)%N with true. cbn [andb negb Nat.eqb].
      change (Nat.div2 (S (2 * j))) with (Nat.div2 (S (2 * j))). rewrite div2_succ_double'.
      specialize (IH 0%nat). change (2 * 0)%nat with 0%nat in IH. rewrite IH. reflexivity.
    + cbn [orb]. destruct (c =? c_bs)%N eqn:S'.
      * apply N.eqb_eq in S'. subst c. cbn [unesc_str]. rewrite N.eqb_refl.
        replace (S (S (2 * j))) with (2 * S j)%nat by lia.
        rewrite IH. apply repeat_snoc_app.
      * cbn [unesc_str]. rewrite S', Q. cbn [andb]. rewrite div2_succ_double'.
        specialize (IH 0%nat). change (2 * 0)%nat with 0%nat in IH. rewrite IH. reflexivity.
Qed.

Lemma unesc_escape_str : forall s, unesc_str 0 (escape_str s) = s.
Proof. intro s. apply (unesc_escape_str_gen s 0). Qed.

(* ------------------------------------------------------------------------------------------------ *)
(* batches *)

Definition line_fails (d : bytes -> f64) (c : cfg) (l : bytes) : bool :=
  match parse_row d c l with Some Err => true | _ => false end.
Definition line_rows (d : bytes -> f64) (c : cfg) (l : bytes) : list row :=
  match parse_row d c l with Some (Ok r) => [r] | _ => [] end.

Lemma batch_go_rows : forall d c ls acc e,
  fst (batch_go d c ls acc e) = rev acc ++ flat_map (line_rows d c) ls.
Proof.
  intros d c ls. induction ls as [|l r IH]; intros acc e.
  - cbn. now rewrite app_nil_r.
  - cbn [batch_go flat_map]. unfold line_rows at 1.
    destruct (parse_row d c l) as [[x|]|].
    + rewrite IH. cbn [rev]. rewrite <- app_assoc. reflexivity.
    + rewrite IH. reflexivity.
    + rewrite IH. reflexivity.
Qed.

Lemma batch_go_err_sticky : forall d c ls acc e,
  c_batch c = false ->
  snd (batch_go d c ls acc e) = e || existsb (line_fails d c) ls.
Proof.
  intros d c ls. induction ls as [|l r IH]; intros acc e Hc.
  - cbn. now rewrite orb_false_r.
  - cbn [batch_go existsb]. unfold line_fails at 1.
    destruct (parse_row d c l) as [[x|]|]; rewrite ?Hc.
    + rewrite IH by exact Hc. reflexivity.
    + rewrite IH by exact Hc. cbn. now rewrite orb_true_r.
    + rewrite IH by exact Hc. reflexivity.
Qed.

Lemma batch_repaired_reports : forall d c s l,
  c_batch c = false ->
  In l (split_lines s) -> parse_row d c l = Some Err ->
  snd (parse_batch d c s) = true.
Proof.
  intros d c s l Hc Hin Hl. unfold parse_batch. rewrite batch_go_err_sticky by exact Hc.
  cbn [orb]. apply existsb_exists. exists l. split; [exact Hin|].
  unfold line_fails. now rewrite Hl.
Qed.

Lemma batch_no_error_all_ok : forall d c s,
  c_batch c = false -> snd (parse_batch d c s) = false ->
  forall l, In l (split_lines s) -> parse_row d c l <> Some Err.
Proof.
  intros d c s Hc Hs l Hin Hl. rewrite (batch_repaired_reports d c s l Hc Hin Hl) in Hs. discriminate.
Qed.

Lemma batch_rows_exact : forall d c s,
  fst (parse_batch d c s) = flat_map (line_rows d c) (split_lines s).
Proof. intros. unfold parse_batch. now rewrite batch_go_rows. Qed.

(* a block containing a refused line stores nothing at all once the error is reported *)
Lemma accept_block_rejects : forall d c mult s l,
  c_batch c = false -> In l (split_lines s) -> parse_row d c l = Some Err ->
  accept_block d c mult s = Err.
Proof.
  intros d c mult s l Hc Hin Hl. unfold accept_block.
  pose proof (batch_repaired_reports d c s l Hc Hin Hl) as H.
  destruct (parse_batch d c s) as [rows err]. cbn in H. subst err. reflexivity.
Qed.
