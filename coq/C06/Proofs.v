(* C06 lemmas: escaping round trips, batch error reporting. (Integer passage: ProofsInt.v; rendering: ProofsRender.v) *)
From Coq Require Import ZArith NArith List Bool Lia String Ascii.
From OG Require Import C06.Model.
Import ListNotations.
Open Scope Z_scope.

(* byte strings from Coq string literals (for witnesses and Examples) *)
Definition bs (s : string) : bytes := map N_of_ascii (list_ascii_of_string s).

(* ------------------------------------------------------------------------------------------------ *)
(* tag / measurement / field-key escaping *)

Lemma is_esc_bs : is_esc c_bs = true.
Proof. reflexivity. Qed.

Lemma not_esc_not_bs : forall c, is_esc c = false -> (c =? c_bs)%N = false.
Proof.
  intros c H. unfold is_esc in H.
  destruct (c =? c_bs)%N; [ rewrite !orb_true_r in H; discriminate | reflexivity ].
Qed.

Lemma unescape_escape_tag : forall s, unescape_tag (escape_tag s) = s.
Proof.
  induction s as [|c r IH]; [reflexivity|].
  cbn [escape_tag]. destruct (is_esc c) eqn:E.
  - cbn [unescape_tag]. rewrite N.eqb_refl. rewrite E. now rewrite IH.
  - cbn [unescape_tag]. rewrite (not_esc_not_bs c E). now rewrite IH.
Qed.

(* the escaped text contains no unescaped delimiter: the scan stops exactly at the delimiter that follows it *)
Lemma split_unesc_escape_tag : forall ch s r,
  is_esc ch = true -> (ch =? c_bs)%N = false ->
  split_unesc ch false (escape_tag s ++ ch :: r) = Some (escape_tag s, r).
Proof.
  intros ch s r Hesc Hbs. induction s as [|c t IH].
  - cbn. rewrite N.eqb_refl. reflexivity.
  - cbn [escape_tag]. destruct (is_esc c) eqn:E.
    + cbn [app split_unesc].
      assert (Hb : (c_bs =? ch)%N = false) by (rewrite N.eqb_sym; exact Hbs).
      rewrite Hb. cbn [andb]. rewrite N.eqb_refl. cbn [negb].
      rewrite andb_false_r.
      assert (Hp : (if (c =? c_bs)%N then false else false) = false) by (destruct (c =? c_bs)%N; reflexivity).
      rewrite Hp. rewrite IH. reflexivity.
    + cbn [app split_unesc].
      assert (Hc : (c =? ch)%N = false).
      { destruct (c =? ch)%N eqn:Q; [|reflexivity]. apply N.eqb_eq in Q. subst. congruence. }
      rewrite Hc. cbn [andb]. rewrite (not_esc_not_bs c E). rewrite IH. reflexivity.
Qed.

(* an escaped text followed by nothing contains no unescaped delimiter at all *)
Lemma split_unesc_escape_tag_none : forall ch s,
  is_esc ch = true -> (ch =? c_bs)%N = false ->
  split_unesc ch false (escape_tag s) = None.
Proof.
  intros ch s Hesc Hbs. induction s as [|c t IH]; [reflexivity|].
  cbn [escape_tag]. destruct (is_esc c) eqn:E.
  - cbn [split_unesc].
    assert (Hb : (c_bs =? ch)%N = false) by (rewrite N.eqb_sym; exact Hbs).
    rewrite Hb. cbn [andb]. rewrite N.eqb_refl. cbn [negb]. rewrite andb_false_r.
    assert (Hp : (if (c =? c_bs)%N then false else false) = false) by (destruct (c =? c_bs)%N; reflexivity).
    rewrite Hp, IH. reflexivity.
  - cbn [split_unesc].
    assert (Hc : (c =? ch)%N = false).
    { destruct (c =? ch)%N eqn:Q; [|reflexivity]. apply N.eqb_eq in Q. subst. congruence. }
    rewrite Hc. cbn [andb]. rewrite (not_esc_not_bs c E), IH. reflexivity.
Qed.

(* ------------------------------------------------------------------------------------------------ *)
(* string field escaping *)

Lemma repeat_snoc_app : forall (A : Type) (x : A) j l, repeat x (S j) ++ l = repeat x j ++ x :: l.
Proof.
  intros A x j l. induction j as [|j IH]; [reflexivity|].
  change (repeat x (S (S j))) with (x :: repeat x (S j)). cbn [app]. rewrite IH. reflexivity.
Qed.

Lemma div2_double' : forall j, Nat.div2 (2 * j) = j.
Proof. intro j. apply Nat.div2_double. Qed.
Lemma div2_succ_double' : forall j, Nat.div2 (S (2 * j)) = j.
Proof. intro j. apply Nat.div2_succ_double. Qed.

Lemma unesc_escape_str_gen : forall s j, unesc_str (2 * j) (escape_str s) = repeat c_bs j ++ s.
Proof.
  induction s as [|c r IH]; intro j.
  - cbn [escape_str unesc_str]. rewrite div2_succ_double'. now rewrite app_nil_r.
  - cbn [escape_str]. destruct (c =? c_quote)%N eqn:Q.
    + apply N.eqb_eq in Q. subst c. cbn [orb].
      cbn [unesc_str]. rewrite N.eqb_refl.
      change (c_quote =? c_bs)%N with false. change (c_quote =? c_quote)%N with true. cbn [andb negb Nat.eqb].
      change (Nat.div2 (S (2 * j))) with (Nat.div2 (S (2 * j))). rewrite div2_succ_double'.
      specialize (IH 0%nat). change (2 * 0)%nat with 0%nat in IH. rewrite IH. reflexivity.
    + cbn [orb]. destruct (c =? c_bs)%N eqn:S'.
      * apply N.eqb_eq in S'. subst c. cbn [unesc_str]. rewrite N.eqb_refl.
        replace (S (S (2 * j))) with (2 * S j)%nat by lia.
        rewrite IH. apply repeat_snoc_app.
      * cbn [unesc_str]. rewrite S', Q. cbn [andb]. rewrite div2_succ_double'.
        specialize (IH 0%nat). change (2 * 0)%nat with 0%nat in IH. rewrite IH. reflexivity.
Qed.

Lemma unesc_escape_str : forall s, unesc_str 0 (escape_str s) = s.
Proof. intro s. apply (unesc_escape_str_gen s 0). Qed.

(* ------------------------------------------------------------------------------------------------ *)
(* batches *)

Definition line_fails (d : bytes -> f64) (c : cfg) (l : bytes) : bool :=
  match parse_row d c l with Some Err => true | _ => false end.
Definition line_rows (d : bytes -> f64) (c : cfg) (l : bytes) : list row :=
  match parse_row d c l with Some (Ok r) => [r] | _ => [] end.

Lemma batch_go_rows : forall d c ls acc e,
  fst (batch_go d c ls acc e) = rev acc ++ flat_map (line_rows d c) ls.
Proof.
  intros d c ls. induction ls as [|l r IH]; intros acc e.
  - cbn. now rewrite app_nil_r.
  - cbn [batch_go flat_map]. unfold line_rows at 1.
    destruct (parse_row d c l) as [[x|]|].
    + rewrite IH. cbn [rev]. rewrite <- app_assoc. reflexivity.
    + rewrite IH. reflexivity.
    + rewrite IH. reflexivity.
Qed.

Lemma batch_go_err_sticky : forall d c ls acc e,
  c_batch c = false ->
  snd (batch_go d c ls acc e) = e || existsb (line_fails d c) ls.
Proof.
  intros d c ls. induction ls as [|l r IH]; intros acc e Hc.
  - cbn. now rewrite orb_false_r.
  - cbn [batch_go existsb]. unfold line_fails at 1.
    destruct (parse_row d c l) as [[x|]|]; rewrite ?Hc.
    + rewrite IH by exact Hc. reflexivity.
    + rewrite IH by exact Hc. cbn. now rewrite orb_true_r.
    + rewrite IH by exact Hc. reflexivity.
Qed.

Lemma batch_repaired_reports : forall d c s l,
  c_batch c = false ->
  In l (split_lines s) -> parse_row d c l = Some Err ->
  snd (parse_batch d c s) = true.
Proof.
  intros d c s l Hc Hin Hl. unfold parse_batch. rewrite batch_go_err_sticky by exact Hc.
  cbn [orb]. apply existsb_exists. exists l. split; [exact Hin|].
  unfold line_fails. now rewrite Hl.
Qed.

Lemma batch_no_error_all_ok : forall d c s,
  c_batch c = false -> snd (parse_batch d c s) = false ->
  forall l, In l (split_lines s) -> parse_row d c l <> Some Err.
Proof.
  intros d c s Hc Hs l Hin Hl. rewrite (batch_repaired_reports d c s l Hc Hin Hl) in Hs. discriminate.
Qed.

Lemma batch_rows_exact : forall d c s,
  fst (parse_batch d c s) = flat_map (line_rows d c) (split_lines s).
Proof. intros. unfold parse_batch. now rewrite batch_go_rows. Qed.

(* a block containing a refused line stores nothing at all once the error is reported *)
Lemma accept_block_rejects : forall d c mult s l,
  c_batch c = false -> In l (split_lines s) -> parse_row d c l = Some Err ->
  accept_block d c mult s = Err.
Proof.
  intros d c mult s l Hc Hin Hl. unfold accept_block.
  pose proof (batch_repaired_reports d c s l Hc Hin Hl) as H.
  destruct (parse_batch d c s) as [rows err]. cbn in H. subst err. reflexivity.
Qed.

(* ------------------------------------------------------------------------------------------------ *)
(* accepted means written: what the repaired parser accepts as a field value is what the text denotes *)

Lemma split_unesc_sound : forall ch s par a b, split_unesc ch par s = Some (a, b) -> s = a ++ ch :: b.
Proof.
  intros ch. induction s as [|c r IH]; intros par a b H; [discriminate|].
  cbn [split_unesc] in H. destruct ((c =? ch)%N && negb par) eqn:E.
  - inversion H; subst. apply andb_true_iff in E. destruct E as [E _]. apply N.eqb_eq in E. subst. reflexivity.
  - destruct (split_unesc ch (if (c =? c_bs)%N then negb par else false) r) as [[x y]|] eqn:S; [|discriminate].
    inversion H; subst. cbn. f_equal. eapply IH; eauto.
Qed.

Lemma split_unq_sound : forall ch s inq par a b, split_unq ch inq par s = Some (a, b) -> s = a ++ ch :: b.
Proof.
  intros ch. induction s as [|c r IH]; intros inq par a b H; [discriminate|].
  cbn [split_unq] in H. destruct ((c =? ch)%N && negb par && negb inq) eqn:E.
  - inversion H; subst. apply andb_true_iff in E. destruct E as [E _]. apply andb_true_iff in E. destruct E as [E _].
    apply N.eqb_eq in E. subst. reflexivity.
  - match type of H with match ?X with _ => _ end = _ => destruct X as [[x y]|] eqn:S; [|discriminate] end.
    inversion H; subst. cbn. f_equal. eapply IH; eauto.
Qed.

Lemma rev_cons_eq : forall (A : Type) (s : list A) l r, rev s = l :: r -> s = rev r ++ [l].
Proof. intros A s l r H. rewrite <- (rev_involutive s), H. reflexivity. Qed.

(* the value a field text denotes (line-protocol reference; [d] is the decimal -> binary64 conversion) *)
Inductive denotes (d : bytes -> f64) : bytes -> fval -> Prop :=
| den_int : forall t n, parse_int64 t = Ok n -> denotes d (t ++ [105%N]) (VInt n n)
| den_float : forall t, valid_number t = true -> f64_is_finite (d t) = true -> denotes d t (VFloat t (d t))
| den_float_f : forall t, valid_number t = true -> f64_is_finite (d t) = true -> denotes d (t ++ [102%N]) (VFloat t (d t))
| den_true : forall t, is_true_text t = true -> denotes d t (VBool true)
| den_false : forall t, is_false_text t = true -> denotes d t (VBool false)
| den_str : forall body, denotes d (c_quote :: body ++ [c_quote]) (VStr (unesc_str 0 body)).

Lemma parse_num_field_repaired_sound : forall d v x,
  parse_num_field d cfg_repaired v = Ok x -> denotes d v x.
Proof.
  intros d v x H. unfold parse_num_field in H.
  destruct (rev v) as [|l rinit] eqn:R; [discriminate|].
  apply rev_cons_eq in R. subst v.
  destruct (l =? 105)%N eqn:Ei.
  - apply N.eqb_eq in Ei. subst l.
    destruct (parse_int64 (rev rinit)) as [n|] eqn:P; [|discriminate].
    cbn in H. inversion H; subst. apply den_int. exact P.
  - destruct (l =? 117)%N eqn:Eu; [discriminate|].
    destruct ((l =? 102)%N && negb match rev rinit with [] => true | _ :: _ => false end) eqn:Ef.
    + apply andb_true_iff in Ef. destruct Ef as [Ef _]. apply N.eqb_eq in Ef. subst l.
      destruct (valid_number (rev rinit)) eqn:V.
      * unfold float_of_valid in H. cbn [cfg_repaired c_plus c_negdot c_fsuffix andb] in H.
        cbn [fval_finite] in H. rewrite orb_false_r in H.
        destruct (f64_is_finite (d (rev rinit))) eqn:F; [|discriminate].
        inversion H; subst. apply den_float_f; assumption.
      * cbn in H. discriminate.
    + destruct (is_true_text (rev rinit ++ [l])) eqn:T.
      * inversion H; subst. apply den_true. exact T.
      * destruct (is_false_text (rev rinit ++ [l])) eqn:Fa.
        -- inversion H; subst. apply den_false. exact Fa.
        -- destruct (valid_number (rev rinit ++ [l])) eqn:V; [|discriminate].
           unfold float_of_valid in H. cbn [cfg_repaired c_plus c_negdot andb] in H. cbn [fval_finite] in H.
           destruct (f64_is_finite (d (rev rinit ++ [l]))) eqn:F; [|discriminate].
           inversion H; subst. apply den_float; assumption.
Qed.

Lemma parse_str_field_repaired_sound : forall d v x,
  parse_str_field cfg_repaired v = Ok x -> denotes d v x.
Proof.
  intros d v x H. unfold parse_str_field in H.
  destruct v as [|h t]; [discriminate|].
  destruct (h =? c_quote)%N eqn:Q.
  - apply N.eqb_eq in Q. subst h.
    destruct (rev t) as [|l rbody] eqn:R; [discriminate|].
    apply rev_cons_eq in R. subst t.
    destruct (l =? c_quote)%N eqn:Q2; [|discriminate].
    apply N.eqb_eq in Q2. subst l. inversion H; subst. apply den_str.
  - cbn in H. discriminate.
Qed.

Lemma parse_value_repaired_sound : forall d v x,
  parse_value d cfg_repaired v = Ok x -> denotes d v x.
Proof.
  intros d v x H. unfold parse_value in H. destruct (has_unesc_quote v).
  - eapply parse_str_field_repaired_sound; eauto.
  - eapply parse_num_field_repaired_sound; eauto.
Qed.

Lemma parse_field_repaired_sound : forall d seg k x,
  parse_field d cfg_repaired seg = Ok (k, x) ->
  exists kraw vtxt, seg = kraw ++ c_eq :: vtxt /\ k = unescape_tag kraw /\ k <> [] /\ denotes d vtxt x.
Proof.
  intros d seg k x H. unfold parse_field in H.
  destruct (split_unesc c_eq false seg) as [[kraw v]|] eqn:S; [|discriminate].
  apply split_unesc_sound in S.
  destruct (unescape_tag kraw) as [|k0 kr] eqn:K; [discriminate|].
  destruct (Nat.ltb max_key_len (List.length (k0 :: kr))); [discriminate|].
  destruct (parse_value d cfg_repaired v) as [y|] eqn:P; [|discriminate].
  cbn in H. inversion H; subst. exists kraw, v. repeat split; auto. discriminate.
  eapply parse_value_repaired_sound; eauto.
Qed.

Lemma map_result_ok : forall (A B : Type) (f : A -> result B) l bs,
  map_result f l = Ok bs -> Forall2 (fun a b => f a = Ok b) l bs.
Proof.
  intros A B f. induction l as [|a r IH]; intros bs H.
  - inversion H. constructor.
  - cbn in H. destruct (f a) as [b|] eqn:F; [|discriminate]. cbn in H.
    destruct (map_result f r) as [bs'|] eqn:M; [|discriminate]. cbn in H. inversion H; subst.
    constructor; auto.
Qed.

Lemma map_result_err : forall (A B : Type) (f : A -> result B) l a,
  In a l -> f a = Err -> map_result f l = Err.
Proof.
  intros A B f. induction l as [|x r IH]; intros a Hin Hf; [destruct Hin|].
  cbn. destruct Hin as [->|Hin].
  - rewrite Hf. reflexivity.
  - destruct (f x); [|reflexivity]. cbn. rewrite (IH a Hin Hf). reflexivity.
Qed.

(* the pieces of a line as the parser cuts it *)
Definition line_field_text (s : bytes) : option bytes :=
  match split_unesc c_sp false (drop_while is_lead_ws s) with
  | None => None
  | Some (_, rest0) =>
      let rest := drop_while is_sp rest0 in
      match split_unq c_sp false false rest with
      | None => Some rest
      | Some (fstr, _) => Some fstr
      end
  end.
Definition line_field_segments (s : bytes) : list bytes :=
  match line_field_text s with Some f => split_all_unq (List.length f) c_comma f | None => [] end.

Lemma parse_line_fields : forall d c s r,
  parse_line d c s = Ok r ->
  Forall2 (fun seg kv => parse_field d c seg = Ok kv) (line_field_segments s) (r_fields r).
Proof.
  intros d c s r H. unfold parse_line in H. unfold line_field_segments, line_field_text.
  destruct (split_unesc c_sp false (drop_while is_lead_ws s)) as [[mt rest0]|]; [|discriminate].
  match type of H with bind ?X _ = _ => destruct X as [mt'|]; [|discriminate] end. cbn [bind] in H.
  destruct (Nat.ltb max_name_len (List.length (unescape_tag (fst mt')))); [discriminate|].
  destruct (split_unq c_sp false false (drop_while is_sp rest0)) as [[fstr tsr]|].
  - destruct (parse_fields d c fstr) as [fs|] eqn:PF; [|discriminate]. cbn [bind] in H.
    destruct (parse_ts (drop_while is_sp tsr)) as [ts|]; [|discriminate]. cbn [bind] in H.
    inversion H; subst. cbn [r_fields]. apply map_result_ok. exact PF.
  - destruct (parse_fields d c (drop_while is_sp rest0)) as [fs|] eqn:PF; [|discriminate]. cbn [bind] in H.
    inversion H; subst. cbn [r_fields]. apply map_result_ok. exact PF.
Qed.

(* accepted_means_written *)
Lemma accepted_means_written : forall d s r,
  parse_line d cfg_repaired s = Ok r ->
  Forall2 (fun seg kv => exists kraw vtxt, seg = kraw ++ c_eq :: vtxt /\ fst kv = unescape_tag kraw /\ denotes d vtxt (snd kv))
          (line_field_segments s) (r_fields r).
Proof.
  intros d s r H. apply parse_line_fields in H.
  induction H as [|seg kv segs kvs Hh Ht IH]; constructor; auto.
  destruct kv as [k x]. apply parse_field_repaired_sound in Hh.
  destruct Hh as [kraw [vtxt [H1 [H2 [_ H3]]]]]. exists kraw, vtxt. auto.
Qed.

(* malformed classes *)
Lemma no_field_section_rejected : forall d c s,
  split_unesc c_sp false (drop_while is_lead_ws s) = None -> parse_line d c s = Err.
Proof. intros d c s H. unfold parse_line. rewrite H. reflexivity. Qed.

Lemma bad_field_rejected : forall d c s seg,
  In seg (line_field_segments s) -> parse_field d c seg = Err -> parse_line d c s = Err.
Proof.
  intros d c s seg Hin Hf. unfold line_field_segments, line_field_text in Hin. unfold parse_line.
  destruct (split_unesc c_sp false (drop_while is_lead_ws s)) as [[mt rest0]|]; [|reflexivity].
  match goal with |- bind ?X _ = _ => destruct X as [mt'|]; [|reflexivity] end. cbn [bind].
  destruct (Nat.ltb max_name_len (List.length (unescape_tag (fst mt')))); [reflexivity|].
  destruct (split_unq c_sp false false (drop_while is_sp rest0)) as [[fstr tsr]|].
  - unfold parse_fields. rewrite (map_result_err _ _ _ _ _ Hin Hf). reflexivity.
  - unfold parse_fields. rewrite (map_result_err _ _ _ _ _ Hin Hf). reflexivity.
Qed.

(* a value text without denotation makes its field, hence the line, fail: bad numbers, unterminated quotes *)
Lemma undenoted_value_rejected : forall d kraw v,
  (forall x, ~ denotes d v x) -> split_unesc c_eq false (kraw ++ c_eq :: v) = Some (kraw, v) ->
  parse_field d cfg_repaired (kraw ++ c_eq :: v) = Err.
Proof.
  intros d kraw v Hno Hs.
  destruct (parse_field d cfg_repaired (kraw ++ c_eq :: v)) as [[k x]|] eqn:P; [|reflexivity].
  exfalso. unfold parse_field in P. rewrite Hs in P.
  destruct (unescape_tag kraw) as [|k0 kr]; [discriminate|].
  destruct (Nat.ltb max_key_len (List.length (k0 :: kr))); [discriminate|].
  destruct (parse_value d cfg_repaired v) as [y|] eqn:PV; [|discriminate].
  apply parse_value_repaired_sound in PV. exact (Hno y PV).
Qed.

Lemma bad_timestamp_rejected : forall d c s mt rest0 fstr tsr,
  split_unesc c_sp false (drop_while is_lead_ws s) = Some (mt, rest0) ->
  split_unq c_sp false false (drop_while is_sp rest0) = Some (fstr, tsr) ->
  parse_ts (drop_while is_sp tsr) = Err ->
  parse_line d c s = Err.
Proof.
  intros d c s mt rest0 fstr tsr H1 H2 H3. unfold parse_line. rewrite H1.
  match goal with |- bind ?X _ = _ => destruct X as [mt'|]; [|reflexivity] end. cbn [bind].
  destruct (Nat.ltb max_name_len (List.length (unescape_tag (fst mt')))); [reflexivity|].
  rewrite H2. destruct (parse_fields d c fstr); [|reflexivity]. cbn [bind]. rewrite H3. reflexivity.
Qed.

(* ------------------------------------------------------------------------------------------------ *)
(* the block reader: cutting a body at a newline does not change the rows it denotes *)
Lemma split_lines_aux_cut : forall a cur b,
  split_lines_aux cur (a ++ c_nl :: b) = split_lines_aux cur (a ++ [c_nl]) ++ split_lines b.
Proof.
  induction a as [|c r IH]; intros cur b.
  - cbn [app split_lines_aux]. rewrite N.eqb_refl. reflexivity.
  - cbn [app split_lines_aux]. destruct (c =? c_nl)%N.
    + rewrite IH. reflexivity.
    + apply IH.
Qed.

Lemma rows_cut_at_newline : forall d c a b,
  fst (parse_batch d c (a ++ c_nl :: b)) = fst (parse_batch d c (a ++ [c_nl])) ++ fst (parse_batch d c b).
Proof.
  intros d c a b. rewrite !batch_rows_exact. unfold split_lines. rewrite split_lines_aux_cut.
  apply flat_map_app.
Qed.

(* the repaired scaling never stores another instant than the one written *)
Lemma scale_row_repaired_exact : forall mult r r',
  scale_row cfg_repaired mult r = Ok r' ->
  r_name r' = r_name r /\ r_tags r' = r_tags r /\ r_fields r' = r_fields r /\
  match r_ts r with
  | None => r_ts r' = None
  | Some t => r_ts r' = Some (t * mult) /\ t * mult <= max_int64
  end.
Proof.
  intros mult r r' H. unfold scale_row in H. destruct (r_ts r) as [t|] eqn:E.
  - cbn [cfg_repaired c_tswrap] in H. destruct (t * mult <=? max_int64) eqn:L; [|discriminate].
    inversion H; subst. cbn. apply Z.leb_le in L. auto.
  - inversion H; subst. rewrite E. auto.
Qed.
