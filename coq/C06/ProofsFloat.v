(* C06 - the reference conversion: round_ratio (Model.v) returns num/den rounded to the nearest multiple of the spacing of
   binary64 in the binade of num/den, ties to even.  All arithmetic on Z, quotients by cross-multiplication. *)
From Coq Require Import ZArith Bool Lia.
From OG Require Import C06.Model.
Open Scope Z_scope.

(* num/den / 2^k = An num k / Bd den k for every integer k *)
Definition An (num k : Z) : Z := if k <? 0 then num * 2 ^ (- k) else num.
Definition Bd (den k : Z) : Z := if k <? 0 then den else den * 2 ^ k.

Lemma pow2_pos' : forall k, 0 <= k -> 0 < 2 ^ k.
Proof. intros. apply Z.pow_pos_nonneg; lia. Qed.

Lemma An_pos : forall a k, 0 < a -> 0 < An a k.
Proof.
  intros a k Ha. unfold An. destruct (k <? 0) eqn:E; [|exact Ha].
  apply Z.ltb_lt in E. pose proof (pow2_pos' (- k) ltac:(lia)). nia.
Qed.
Lemma Bd_pos : forall a k, 0 < a -> 0 < Bd a k.
Proof.
  intros a k Ha. unfold Bd. destruct (k <? 0) eqn:E; [exact Ha|].
  apply Z.ltb_ge in E. pose proof (pow2_pos' k E). nia.
Qed.

(* (num/den)/2^k = 2^j * (num/den)/2^(k+j) *)
Lemma shift : forall num den k j, 0 <= j ->
  An num k * Bd den (k + j) = 2 ^ j * (An num (k + j) * Bd den k).
Proof.
  intros num den k j Hj. unfold An, Bd.
  destruct (k <? 0) eqn:E1; destruct (k + j <? 0) eqn:E2;
    try apply Z.ltb_lt in E1; try apply Z.ltb_lt in E2; try apply Z.ltb_ge in E1; try apply Z.ltb_ge in E2; try lia.
  - assert (2 ^ (- k) = 2 ^ j * 2 ^ (- (k + j))) as H by (rewrite <- Z.pow_add_r by lia; f_equal; lia). rewrite H. ring.
  - assert (2 ^ j = 2 ^ (- k) * 2 ^ (k + j)) as H by (rewrite <- Z.pow_add_r by lia; f_equal; lia). rewrite H. ring.
  - rewrite Z.pow_add_r by lia. ring.
Qed.

(* ------------------------------------------------------------------------------------------------ *)
(* the binade *)
Lemma log2_bounds : forall a, 0 < a -> 0 <= Z.log2 a /\ 2 ^ Z.log2 a <= a < 2 ^ (Z.log2 a + 1).
Proof.
  intros a Ha. split; [apply Z.log2_nonneg|]. pose proof (Z.log2_spec a Ha) as H.
  replace (Z.log2 a + 1) with (Z.succ (Z.log2 a)) by lia. exact H.
Qed.

(* num/den >= 2^(e0-1) and < 2^(e0+1) for e0 = log2 num - log2 den *)
Lemma binade_low : forall num den, 0 < num -> 0 < den ->
  Bd den (Z.log2 num - Z.log2 den - 1) <= An num (Z.log2 num - Z.log2 den - 1).
Proof.
  intros num den Hn Hd. destruct (log2_bounds num Hn) as [Ha0 [Ha1 Ha2]]. destruct (log2_bounds den Hd) as [Hb0 [Hb1 Hb2]].
  set (a := Z.log2 num) in *. set (b := Z.log2 den) in *. unfold An, Bd.
  destruct (a - b - 1 <? 0) eqn:E1; [apply Z.ltb_lt in E1|apply Z.ltb_ge in E1].
  - (* den <= num * 2^(b+1-a) *)
    replace (- (a - b - 1)) with (b + 1 - a) by lia.
    assert (2 ^ a * 2 ^ (b + 1 - a) <= num * 2 ^ (b + 1 - a)) by (pose proof (pow2_pos' (b + 1 - a) ltac:(lia)); nia).
    rewrite <- Z.pow_add_r in H by lia. replace (a + (b + 1 - a)) with (b + 1) in H by lia. lia.
  - (* den * 2^(a-b-1) <= num *)
    assert (den * 2 ^ (a - b - 1) < 2 ^ (b + 1) * 2 ^ (a - b - 1)) by (pose proof (pow2_pos' (a - b - 1) ltac:(lia)); nia).
    rewrite <- Z.pow_add_r in H by lia. replace (b + 1 + (a - b - 1)) with a in H by lia. lia.
Qed.

Lemma binade_high : forall num den, 0 < num -> 0 < den ->
  An num (Z.log2 num - Z.log2 den + 1) < Bd den (Z.log2 num - Z.log2 den + 1).
Proof.
  intros num den Hn Hd. destruct (log2_bounds num Hn) as [Ha0 [Ha1 Ha2]]. destruct (log2_bounds den Hd) as [Hb0 [Hb1 Hb2]].
  set (a := Z.log2 num) in *. set (b := Z.log2 den) in *. unfold An, Bd.
  destruct (a - b + 1 <? 0) eqn:E1; [apply Z.ltb_lt in E1|apply Z.ltb_ge in E1].
  - (* num * 2^(b-a-1) < den *)
    replace (- (a - b + 1)) with (b - a - 1) by lia.
    assert (num * 2 ^ (b - a - 1) < 2 ^ (a + 1) * 2 ^ (b - a - 1)) by (pose proof (pow2_pos' (b - a - 1) ltac:(lia)); nia).
    rewrite <- Z.pow_add_r in H by lia. replace (a + 1 + (b - a - 1)) with b in H by lia. lia.
  - (* num < den * 2^(a-b+1) *)
    assert (2 ^ b * 2 ^ (a - b + 1) <= den * 2 ^ (a - b + 1)) by (pose proof (pow2_pos' (a - b + 1) ltac:(lia)); nia).
    rewrite <- Z.pow_add_r in H by lia. replace (b + (a - b + 1)) with (a + 1) in H by lia. lia.
Qed.

(* the exponent round_ratio computes *)
Definition rr_exp (num den : Z) : Z :=
  let e0 := Z.log2 num - Z.log2 den in
  let ge := if 0 <=? e0 then den * 2 ^ e0 <=? num else den <=? num * 2 ^ (- e0) in
  if ge then e0 else e0 - 1.

Lemma ge_test : forall num den e0,
  (if 0 <=? e0 then den * 2 ^ e0 <=? num else den <=? num * 2 ^ (- e0)) = (Bd den e0 <=? An num e0).
Proof.
  intros num den e0. unfold An, Bd.
  destruct (0 <=? e0) eqn:E1; destruct (e0 <? 0) eqn:E2;
    try apply Z.leb_le in E1; try apply Z.ltb_lt in E2; try apply Z.leb_gt in E1; try apply Z.ltb_ge in E2; try lia; reflexivity.
Qed.

(* 2^e <= num/den < 2^(e+1) *)
Lemma rr_exp_binade : forall num den, 0 < num -> 0 < den ->
  Bd den (rr_exp num den) <= An num (rr_exp num den) /\ An num (rr_exp num den + 1) < Bd den (rr_exp num den + 1).
Proof.
  intros num den Hn Hd. unfold rr_exp. rewrite ge_test.
  set (e0 := Z.log2 num - Z.log2 den).
  destruct (Bd den e0 <=? An num e0) eqn:G.
  - apply Z.leb_le in G. split; [exact G|]. apply binade_high; assumption.
  - apply Z.leb_gt in G. split.
    + apply binade_low; assumption.
    + replace (e0 - 1 + 1) with e0 by lia. exact G.
Qed.

(* ------------------------------------------------------------------------------------------------ *)
(* the rounding step *)
Definition nearest_even (n d q : Z) : Prop :=
  Z.abs (2 * n - 2 * q * d) <= d /\ (Z.abs (2 * n - 2 * q * d) = d -> Z.even q = true).

Lemma round_step : forall n d, 0 <= n -> 0 < d ->
  let q := n / d in let r := n mod d in
  let up := (d <? 2 * r) || ((2 * r =? d) && Z.odd q) in
  nearest_even n d (if up then q + 1 else q).
Proof.
  intros n d Hn Hd q r up. pose proof (Z.div_mod n d ltac:(lia)) as Hdm. pose proof (Z.mod_pos_bound n d Hd) as Hr.
  fold q in Hdm. fold r in Hdm, Hr. unfold nearest_even. subst up.
  destruct (d <? 2 * r) eqn:E1; cbn [orb].
  - apply Z.ltb_lt in E1. split; [|intro H]; nia.
  - apply Z.ltb_ge in E1. destruct (2 * r =? d) eqn:E2; cbn [andb].
    + apply Z.eqb_eq in E2. destruct (Z.odd q) eqn:O.
      * split; [nia|]. intros _. rewrite Z.even_add. rewrite <- Z.negb_odd, O. reflexivity.
      * split; [nia|]. intros _. rewrite <- Z.negb_odd, O. reflexivity.
    + apply Z.eqb_neq in E2. split; [|intro H]; nia.
Qed.

(* ------------------------------------------------------------------------------------------------ *)
(* the whole function *)
Lemma scaled_num : forall num sh, (if 0 <=? sh then num else num * 2 ^ (- sh)) = An num sh.
Proof.
  intros num sh. unfold An.
  destruct (0 <=? sh) eqn:E1; destruct (sh <? 0) eqn:E2;
    try apply Z.leb_le in E1; try apply Z.ltb_lt in E2; try apply Z.leb_gt in E1; try apply Z.ltb_ge in E2; try lia; reflexivity.
Qed.

Lemma scaled_den : forall den sh, (if 0 <=? sh then den * 2 ^ sh else den) = Bd den sh.
Proof.
  intros den sh. unfold Bd.
  destruct (0 <=? sh) eqn:E1; destruct (sh <? 0) eqn:E2;
    try apply Z.leb_le in E1; try apply Z.ltb_lt in E2; try apply Z.leb_gt in E1; try apply Z.ltb_ge in E2; try lia; reflexivity.
Qed.

Theorem round_ratio_correct : forall neg num den, 0 < num -> 0 < den ->
  exists e q,
    let sh := Z.max (e - 52) (-1074) in
    (Bd den e <= An num e /\ An num (e + 1) < Bd den (e + 1)) /\
    nearest_even (An num sh) (Bd den sh) q /\
    0 <= q <= 2 ^ 53 /\ (-1074 <= e - 52 -> 2 ^ 52 <= q) /\
    round_ratio neg num den =
      (if q =? 2 ^ 53 then (if 971 <? sh + 1 then FInf neg else FFin neg (2 ^ 52) (sh + 1))
       else if 971 <? sh then FInf neg else FFin neg q sh).
Proof.
  intros neg num den Hn Hd.
  pose proof (rr_exp_binade num den Hn Hd) as [Hlo Hhi].
  set (e := rr_exp num den) in *. set (sh := Z.max (e - 52) (-1074)).
  pose proof (An_pos num sh Hn) as HA. pose proof (Bd_pos den sh Hd) as HB.
  set (n' := An num sh) in *. set (d' := Bd den sh) in *.
  set (q := n' / d'). set (r := n' mod d').
  set (up := (d' <? 2 * r) || ((2 * r =? d') && Z.odd q)).
  exists e, (if up then q + 1 else q). fold sh. fold n'. fold d'.
  pose proof (round_step n' d' ltac:(lia) HB) as Hne. cbn zeta in Hne. fold q in Hne. fold r in Hne. fold up in Hne.
  (* range of q *)
  assert (Hq0 : 0 <= q) by (apply Z.div_pos; lia).
  assert (Hq53 : q < 2 ^ 53).
  { (* num/den/2^sh < 2^(e+1-sh) <= 2^53 *)
    apply Z.div_lt_upper_bound; [exact HB|].
    destruct (Z_le_gt_dec sh (e + 1)) as [L|G].
    - pose proof (shift num den sh (e + 1 - sh) ltac:(lia)) as S. replace (sh + (e + 1 - sh)) with (e + 1) in S by lia.
      fold n' in S. fold d' in S.
      pose proof (Bd_pos den (e + 1) Hd) as HB1.
      assert (2 ^ (e + 1 - sh) <= 2 ^ 53) by (apply Z.pow_le_mono_r; lia).
      pose proof (pow2_pos' (e + 1 - sh) ltac:(lia)).
      assert (n' * Bd den (e + 1) < 2 ^ (e + 1 - sh) * (Bd den (e + 1) * d')) by nia.
      assert (n' < 2 ^ (e + 1 - sh) * d') by nia. nia.
    - (* sh > e + 1: num/den < 2^(e+1) < 2^sh *)
      pose proof (shift num den (e + 1) (sh - (e + 1)) ltac:(lia)) as S. replace (e + 1 + (sh - (e + 1))) with sh in S by lia.
      fold n' in S. fold d' in S.
      pose proof (pow2_pos' (sh - (e + 1)) ltac:(lia)).
      pose proof (Bd_pos den (e + 1) Hd) as HB1.
      assert (n' * 1 <= 2 ^ (sh - (e + 1)) * n') by nia.
      assert (2 ^ (sh - (e + 1)) * (n' * Bd den (e + 1)) < Bd den (e + 1) * d') by nia.
      assert (n' < d') by nia. pose proof (pow2_pos' 53 ltac:(lia)). nia. }
  assert (Hq52 : -1074 <= e - 52 -> 2 ^ 52 <= q).
  { intro Hs. assert (sh = e - 52) by (unfold sh; lia).
    apply Z.div_le_lower_bound; [exact HB|].
    pose proof (shift num den sh 52 ltac:(lia)) as S. replace (sh + 52) with e in S by lia.
    fold n' in S. fold d' in S.
    pose proof (Bd_pos den e Hd) as HBe. nia. }
  split; [split; assumption|]. split; [exact Hne|].
  split; [destruct up; lia|]. split; [intro Hs; specialize (Hq52 Hs); destruct up; lia|].
  (* the function *)
  unfold round_ratio. fold (rr_exp num den). fold e. fold sh.
  rewrite scaled_num, scaled_den. fold n'. fold d'. fold q. fold r. fold up.
  destruct ((if up then q + 1 else q) =? 2 ^ 53); reflexivity.
Qed.
