(* C06 correspondence evaluator.  For every harness case (precision factor, request block, what the real
   unmarshalWork.Unmarshal + AppendFieldToCol produced) find the configuration of the model with the fewest
   of today's deviations that reproduces the implementation's observables exactly.
     code m        (0 <= m < 128)   : configuration m matches (bit 1 int53, 2 fsuffix, 4 batch, 8 plus, 16 strq, 32 negdot, 64 tswrap);
                                     0 = the repaired parser
     code 100 + m                  : matches except for float fields written with an exponent part whose bits differ
     code 999                      : no configuration matches *)
From Coq Require Import ZArith NArith List Bool String Ascii.
From OG Require Import C06.Model C06.ModelStream C06.ModelWriter.
Import ListNotations.
Open Scope Z_scope.

Definition ifield := (bytes * Z * Z * Z * bytes)%type.       (* key, Field.Type, bits of NumValue, stored int64, StrValue *)
Definition irow := (bytes * list (bytes * bytes) * list ifield * option Z)%type.   (* ts None = server clock *)
Definition icase := (Z * bytes * option (list irow))%type.   (* None = block rejected with an error *)

Definition cfg_of_mask (m : Z) : cfg :=
  {| c_int53 := Z.testbit m 0; c_fsuffix := Z.testbit m 1; c_batch := Z.testbit m 2;
     c_plus := Z.testbit m 3; c_strq := Z.testbit m 4; c_negdot := Z.testbit m 5; c_tswrap := Z.testbit m 6 |}.

(* masks ordered by number of deviations *)
Definition masks : list Z :=
  [0; 1; 2; 4; 8; 16; 32; 64; 3; 5; 6; 9; 10; 12; 17; 18; 20; 24; 33; 34; 36; 40; 48; 65; 66; 68; 72; 80; 96; 7; 11; 13; 14; 19; 21; 22; 25; 26; 28; 35; 37; 38; 41; 42; 44; 49; 50; 52; 56; 67; 69; 70; 73; 74; 76; 81; 82; 84; 88; 97; 98; 100; 104; 112; 15; 23; 27; 29; 30; 39; 43; 45; 46; 51; 53; 54; 57; 58; 60; 71; 75; 77; 78; 83; 85; 86; 89; 90; 92; 99; 101; 102; 105; 106; 108; 113; 114; 116; 120; 31; 47; 55; 59; 61; 62; 79; 87; 91; 93; 94; 103; 107; 109; 110; 115; 117; 118; 121; 122; 124; 63; 95; 111; 119; 123; 125; 126; 127].

Definition bits_one : Z := 1023 * 2 ^ 52.    (* 1.0 *)

(* 0 same, 1 same up to an exponent-form float, 2 different *)
Definition cmp_field (mf : bytes * fval) (f : ifield) : Z :=
  let '(k, ty, nb, st, sv) := f in
  if negb (list_beq (fst mf) k) then 2 else
  match snd mf with
  | VInt text stored => if (ty =? 1) && (st =? stored) then 0 else 2
  | VFloat lit x => if negb (ty =? 3) then 2 else if nb =? f64_bits x then 0 else if has_exp_part lit && (Z.abs (nb - f64_bits x) <=? 2) then 1 else 2
  | VFloatBits x => if (ty =? 3) && (nb =? f64_bits x) then 0 else 2
  | VFloatJunk => if ty =? 3 then 0 else 2
  | VBool b => if (ty =? 5) && (nb =? (if b then bits_one else 0)) then 0 else 2
  | VStr s => if (ty =? 4) && list_beq s sv then 0 else 2
  end.

Fixpoint cmp_list {A B} (f : A -> B -> Z) (a : list A) (b : list B) : Z :=
  match a, b with
  | [], [] => 0
  | x :: a', y :: b' => Z.max (f x y) (cmp_list f a' b')
  | _, _ => 2
  end.

Definition pair_leb (a b : bytes * bytes) : bool :=
  if list_beq (fst a) (fst b) then bytes_leb (snd a) (snd b) else bytes_leb (fst a) (fst b).
Fixpoint insert_pair (t : bytes * bytes) (l : list (bytes * bytes)) :=
  match l with
  | [] => [t]
  | u :: r => if pair_leb t u then t :: l else u :: insert_pair t r
  end.
Definition sort_pairs (l : list (bytes * bytes)) := fold_right insert_pair [] l.

Definition cmp_tag (a b : bytes * bytes) : Z :=
  if list_beq (fst a) (fst b) && list_beq (snd a) (snd b) then 0 else 2.

Definition cmp_row (m : row) (r : irow) : Z :=
  let '(name, tags, fields, ts) := r in
  if negb (list_beq (r_name m) name) then 2 else
  if negb (match r_ts m, ts with Some a, Some b => a =? b | None, None => true | _, _ => false end) then 2 else
  Z.max (cmp_list cmp_tag (sort_pairs (r_tags m)) (sort_pairs tags)) (cmp_list cmp_field (r_fields m) fields).

Definition cmp_case (c : cfg) (cs : icase) : Z :=
  let '(mult, input, impl) := cs in
  match accept_block dec2f_exact c mult input, impl with
  | Err, None => 0
  | Ok rows, Some irows => cmp_list cmp_row rows irows
  | _, _ => 2
  end.

Fixpoint first_mask (want : Z) (ms : list Z) (cs : icase) : option Z :=
  match ms with
  | [] => None
  | m :: r => if cmp_case (cfg_of_mask m) cs <=? want then Some m else first_mask want r cs
  end.

Definition classify (cs : icase) : Z :=
  match first_mask 0 masks cs with
  | Some m => m
  | None => match first_mask 1 masks cs with Some m => 100 + m | None => 999 end
  end.

(* (case index, code) for every case whose code is not 0 *)
Fixpoint codes_from (k : nat) (cs : list icase) : list (nat * Z) :=
  match cs with
  | [] => []
  | c :: r => let x := classify c in if x =? 0 then codes_from (S k) r else (k, x) :: codes_from (S k) r
  end.
Definition codes := codes_from 0.

(* ------------------------------------------------------------------------------------------------ *)
(* the block reader.  What the theorems need of it is the cutting discipline proved of the model
   (C06_blocks_cut_only_at_newlines): the delivered blocks, joined by newlines, are a prefix of the stream that ends at
   a newline, or - only at a regular end - the whole stream.  That is checked on every observed run (code 1 when
   violated).  Beyond it the model is run with the capacities the harness replayed and must deliver exactly the observed
   blocks (bytes and final buffer capacity) and end the same way; a difference there alone (code 2) says that the
   cutting strategy of the code is no longer the modelled one, not that anything is lost. *)
Definition scase := (Z * Z * list (list Z) * bytes * list (bytes * Z) * bool)%type.   (* end (0 EOF, 1 error), max-line-size, schedule, stream, blocks, clean end *)

Fixpoint blocks_eq (a : list (bytes * nat)) (b : list (bytes * Z)) : bool :=
  match a, b with
  | [], [] => true
  | (x, cx) :: a', (y, cy) :: b' => list_beq x y && (Z.of_nat cx =? cy) && blocks_eq a' b'
  | _, _ => false
  end.

Fixpoint is_prefix (a s : bytes) : option bytes :=      (* Some rest when s = a ++ rest *)
  match a, s with
  | [], _ => Some s
  | x :: a', y :: s' => if (x =? y)%N then is_prefix a' s' else None
  | _ :: _, [] => None
  end.

(* every block is followed by a newline in the stream; returns what is left of the stream *)
Fixpoint strip_blocks (blocks : list bytes) (s : bytes) : option bytes :=
  match blocks with
  | [] => Some s
  | b :: r => match is_prefix b s with
              | Some (c :: s') => if (c =? c_nl)%N then strip_blocks r s' else None
              | _ => None
              end
  end.

(* all but the last block are followed by a newline, the last one is the rest of the stream (non-empty) *)
Fixpoint strip_blocks_last (blocks : list bytes) (s : bytes) : bool :=
  match blocks with
  | [] => match s with [] => true | _ => false end
  | [b] => match b with [] => false | _ => list_beq b s end
  | b :: r => match is_prefix b s with
              | Some (c :: s') => (c =? c_nl)%N && strip_blocks_last r s'
              | _ => false
              end
  end.

Definition valid_cut (e : Z) (body : bytes) (blocks : list bytes) (ok : bool) : bool :=
  if ok then (e =? 0) && (strip_blocks_last blocks body || match strip_blocks blocks body with Some [] => true | _ => false end)
  else match strip_blocks blocks body with Some _ => true | None => false end.

Definition check_stream (sc : scase) : Z :=
  let '(e, maxline, sched, body, blocks, ok) := sc in
  if negb (valid_cut e body (map fst blocks) ok) then 1
  else
    let '(bl, ok') := read_blocks (if e =? 0 then EndEOF else EndErr) (Z.to_nat maxline)
                                  (map (fun ch => (map Z.to_nat ch, false)) sched) [] body in
    if Bool.eqb ok ok' && blocks_eq bl blocks then 0 else 2.

Fixpoint scodes_from (k : nat) (cs : list scase) : list (nat * Z) :=
  match cs with
  | [] => []
  | c :: r => let x := check_stream c in if x =? 0 then scodes_from (S k) r else (k, x) :: scodes_from (S k) r
  end.
Definition scodes := scodes_from 0.

(* ------------------------------------------------------------------------------------------------ *)
(* the write endpoint against serve_write.  By C06_acceptable_body_acknowledged and C06_acknowledged_write_stores_every_line the
   answer does not depend on the schedule of capacities: acknowledged iff the declared length and (for a body that is not
   gzip-encoded) the streamed length are within max-body-size, the stream does not break off, and the body is acceptable as
   one block - then with exactly those rows; by C06_write_stores_whole_lines_only a refused request leaves rows of complete
   lines of the body only, in order. *)
Definition hcase := (Z * option Z * option Z * bool * bool * bytes * bool * list irow)%type.
   (* factor, max-body-size, Content-Length, gzip, the stream breaks off, decoded body, acknowledged, stored rows in line order *)

Definition line_stored (c : cfg) (mult : Z) (l : bytes) : list row :=
  match parse_row dec2f_exact c l with
  | Some (Ok r) => match scale_row c mult r with Ok r' => [r'] | Err => [] end
  | _ => []
  end.

Fixpoint subseq_rows (rows : list row) (irows : list irow) {struct rows} : bool :=
  match irows with
  | [] => true
  | ir :: irs =>
      match rows with
      | [] => false
      | r :: rs => if cmp_row r ir =? 0 then subseq_rows rs irs else subseq_rows rs irows
      end
  end.

Definition cmp_hcase (c : cfg) (hc : hcase) : Z :=
  let '(mult, limit, declared, gz, broken, body, ack, irows) := hc in
  let toobig := match limit, declared with Some n, Some d => n <? d | _, _ => false end in
  let over := match limit with Some n => negb gz && (n <? Z.of_nat (List.length body)) | None => false end in
  let expect := if toobig || over || broken then Err else accept_block dec2f_exact c mult body in
  match expect, ack with
  | Ok rows, true => cmp_list cmp_row rows irows
  | Err, false => if subseq_rows (flat_map (line_stored c mult) (split_lines body)) irows then 0 else 2
  | _, _ => 2
  end.

Fixpoint first_hmask (want : Z) (ms : list Z) (hc : hcase) : option Z :=
  match ms with
  | [] => None
  | m :: r => if cmp_hcase (cfg_of_mask m) hc <=? want then Some m else first_hmask want r hc
  end.

(* bodies are long: only configurations with at most two deviations are tried *)
Definition hmasks : list Z := firstn 29 masks.

Definition hclassify (hc : hcase) : Z :=
  match first_hmask 0 hmasks hc with
  | Some m => m
  | None => match first_hmask 1 hmasks hc with Some m => 100 + m | None => 999 end
  end.

Fixpoint hcodes_from (k : nat) (cs : list hcase) : list (nat * Z) :=
  match cs with
  | [] => []
  | c :: r => let x := hclassify c in if x =? 0 then hcodes_from (S k) r else (k, x) :: hcodes_from (S k) r
  end.
Definition hcodes := hcodes_from 0.

(* ------------------------------------------------------------------------------------------------ *)
(* the points writer's per-row glue: the lines of a request go through the parser model and then, row by row against the
   evolving schema, through writer_rows; per row the reported error, whether the row is handed on, and the row handed on
   must be the observed ones.  code = parser mask + 1000 * (1 if a field named time is dropped silently) + 2000 * (1 if a
   row is handed on without its tag named time); 999 = nothing matches *)
Definition wobs := (bool * bool * option irow)%type.                (* dropped, error reported, row handed on *)
Definition wcase := (bytes * list wobs)%type.

Definition cmp_wout (o : wout) (w : wobs) : Z :=
  let '(dropped, err, ir) := w in
  if negb (Bool.eqb (wo_err o) err) then 2 else
  match wo_row o, ir with
  | None, None => if dropped then 0 else 2
  | Some r, Some i => if dropped then 2 else cmp_row r i
  | _, _ => 2
  end.

Definition cmp_wcase (c : cfg) (wc : wcfg) (cs : wcase) : Z :=
  let '(body, obs) := cs in
  match accept_block dec2f_exact c 1 body with
  | Err => 2
  | Ok rows => cmp_list cmp_wout (snd (writer_rows wc [] rows)) obs
  end.

Definition wcfg_of (w : Z) : wcfg := {| w_timefield := Z.testbit w 0; w_timetag := Z.testbit w 1 |}.

Fixpoint first_wmask (ws ms : list Z) (cs : wcase) : option Z :=
  match ws with
  | [] => None
  | w :: wr =>
      match (fix go (ms : list Z) : option Z :=
               match ms with
               | [] => None
               | m :: r => if cmp_wcase (cfg_of_mask m) (wcfg_of w) cs =? 0 then Some (m + 1000 * w) else go r
               end) ms with
      | Some x => Some x
      | None => first_wmask wr ms cs
      end
  end.

Definition wclassify (cs : wcase) : Z :=
  match first_wmask [0; 1; 2; 3] [0; 1] cs with Some x => x | None => 999 end.

Fixpoint wcodes_from (k : nat) (cs : list wcase) : list (nat * Z) :=
  match cs with
  | [] => []
  | c :: r => let x := wclassify c in if x =? 0 then wcodes_from (S k) r else (k, x) :: wcodes_from (S k) r
  end.
Definition wcodes := wcodes_from 0.

(* helpers for the generated case files (everything in Z scope) *)
Definition B (l : list Z) : bytes := map Z.to_N l.

(* bytes written as a string of lower-case hex digits (much cheaper to read in than a list of numerals) *)
Definition hexv (a : ascii) : N := let n := N_of_ascii a in if (n <? 58)%N then (n - 48)%N else (n - 87)%N.
Fixpoint H (s : string) : bytes :=
  match s with
  | String a (String b r) => (16 * hexv a + hexv b)%N :: H r
  | _ => []
  end.
