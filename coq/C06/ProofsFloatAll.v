(* C06 - round_ratio returns the binary64 nearest to num/den among ALL binary64 values (or infinity exactly from the IEEE
   overflow threshold on).  Distances are compared in units of 2^-1074 (every binary64 is an integer multiple of it),
   multiplied by den: with N = num * 2^1074 the distance of num/den to the value k * 2^-1074 is |N - k * den| / (den * 2^1074). *)
From Coq Require Import ZArith Bool Lia.
From OG Require Import C06.Model C06.ProofsFloat.
Open Scope Z_scope.

Lemma pow_split : forall a b, 0 <= a -> 0 <= b -> 2 ^ (a + b) = 2 ^ a * 2 ^ b.
Proof. intros. now rewrite Z.pow_add_r. Qed.

(* N * Bd(sh) = 2^(sh+1074) * An(sh) * den *)
Lemma scale_N : forall num den sh, -1074 <= sh ->
  (num * 2 ^ 1074) * Bd den sh = 2 ^ (sh + 1074) * (An num sh * den).
Proof.
  intros num den sh Hs. unfold An, Bd. destruct (sh <? 0) eqn:E; [apply Z.ltb_lt in E|apply Z.ltb_ge in E].
  - assert (2 ^ 1074 = 2 ^ (sh + 1074) * 2 ^ (- sh)) as H by (rewrite <- pow_split by lia; f_equal; lia). rewrite H. ring.
  - rewrite (pow_split sh 1074) by lia. ring.
Qed.

(* nearest among the multiples of the spacing, in the scaled units *)
Lemma nearest_multiple : forall num den sh q k, 0 < den -> -1074 <= sh ->
  nearest_even (An num sh) (Bd den sh) q -> 0 < Bd den sh ->
  Z.abs (num * 2 ^ 1074 - q * 2 ^ (sh + 1074) * den) <= Z.abs (num * 2 ^ 1074 - k * 2 ^ (sh + 1074) * den).
Proof.
  intros num den sh q k Hd Hs [Hn _] HB.
  pose proof (scale_N num den sh Hs) as S.
  set (N := num * 2 ^ 1074) in *. set (A := An num sh) in *. set (B := Bd den sh) in *. set (T := 2 ^ (sh + 1074)) in *.
  assert (HT : 0 < T) by (apply Z.pow_pos_nonneg; lia).
  (* (N - j T den) * B = T den (A - j B) *)
  assert (Hq : (N - q * T * den) * B = T * den * (A - q * B)) by nia.
  assert (Hk : (N - k * T * den) * B = T * den * (A - k * B)) by nia.
  assert (Hab : Z.abs (A - q * B) <= Z.abs (A - k * B)).
  { destruct (Z.eq_dec k q) as [->|Hne]; [lia|].
    assert (B <= Z.abs ((k - q) * B)) by (rewrite Z.abs_mul; assert (1 <= Z.abs (k - q)) by lia; nia).
    assert (2 * Z.abs (A - q * B) <= B) by (replace (2 * A - 2 * q * B) with (2 * (A - q * B)) in Hn by ring; rewrite Z.abs_mul in Hn; lia).
    replace (A - k * B) with ((A - q * B) - (k - q) * B) by ring. lia. }
  assert (Z.abs (N - q * T * den) * B <= Z.abs (N - k * T * den) * B).
  { replace (Z.abs (N - q * T * den) * B) with (Z.abs ((N - q * T * den) * B)) by (rewrite Z.abs_mul; rewrite (Z.abs_eq B) by lia; reflexivity).
    replace (Z.abs (N - k * T * den) * B) with (Z.abs ((N - k * T * den) * B)) by (rewrite Z.abs_mul; rewrite (Z.abs_eq B) by lia; reflexivity).
    rewrite Hq, Hk, !Z.abs_mul. assert (0 <= Z.abs (T * den)) by lia. rewrite <- !Z.abs_mul.
    rewrite !Z.abs_mul. apply Z.mul_le_mono_nonneg_l; [lia|exact Hab]. }
  nia.
Qed.

(* num/den >= 2^e in the scaled units *)
Lemma binade_N : forall num den e, 0 < den -> -1074 <= e -> Bd den e <= An num e ->
  2 ^ (e + 1074) * den <= num * 2 ^ 1074.
Proof.
  intros num den e Hd He H. unfold An, Bd in H. destruct (e <? 0) eqn:E; [apply Z.ltb_lt in E|apply Z.ltb_ge in E].
  - assert (2 ^ 1074 = 2 ^ (e + 1074) * 2 ^ (- e)) as X by (rewrite <- pow_split by lia; f_equal; lia). rewrite X.
    assert (0 < 2 ^ (e + 1074)) by (apply Z.pow_pos_nonneg; lia).
    replace (num * (2 ^ (e + 1074) * 2 ^ (- e))) with (2 ^ (e + 1074) * (num * 2 ^ (- e))) by ring.
    apply Z.mul_le_mono_nonneg_l; lia.
  - rewrite (pow_split e 1074) by lia. assert (0 < 2 ^ 1074) by (apply Z.pow_pos_nonneg; lia).
    replace (2 ^ e * 2 ^ 1074 * den) with (2 ^ 1074 * (den * 2 ^ e)) by ring.
    replace (num * 2 ^ 1074) with (2 ^ 1074 * num) by ring.
    apply Z.mul_le_mono_nonneg_l; lia.
Qed.

Theorem round_ratio_nearest_double : forall neg num den, 0 < num -> 0 < den ->
  match round_ratio neg num den with
  | FFin s m ex =>
      s = neg /\ 0 <= m < 2 ^ 53 /\ -1074 <= ex <= 971 /\
      forall m2 e2, 0 <= m2 < 2 ^ 53 -> -1074 <= e2 <= 971 ->
        Z.abs (num * 2 ^ 1074 - m * 2 ^ (ex + 1074) * den) <= Z.abs (num * 2 ^ 1074 - m2 * 2 ^ (e2 + 1074) * den)
  | FInf s => s = neg /\ (2 ^ 54 - 1) * 2 ^ 2044 * den <= num * 2 ^ 1074
  | FNaN => False
  end.
Proof.
  intros neg num den Hn Hd.
  destruct (round_ratio_correct neg num den Hn Hd) as (e & q & H). cbn zeta in H.
  set (sh := Z.max (e - 52) (-1074)) in *.
  destruct H as ((Hlo & Hhi) & Hne & (Hq0 & Hq53) & Hq52 & Hr).
  assert (Hs : -1074 <= sh) by (unfold sh; lia).
  pose proof (Bd_pos den sh Hd) as HB.
  set (N := num * 2 ^ 1074) in *.
  assert (HT : 0 < 2 ^ (sh + 1074)) by (apply Z.pow_pos_nonneg; lia).
  (* the value q * 2^sh against any binary64 *)
  assert (Hall : sh <= 971 -> forall m2 e2, 0 <= m2 < 2 ^ 53 -> -1074 <= e2 <= 971 ->
            Z.abs (N - q * 2 ^ (sh + 1074) * den) <= Z.abs (N - m2 * 2 ^ (e2 + 1074) * den)).
  { intros Hsh m2 e2 Hm2 He2. destruct (Z_le_gt_dec sh e2) as [L|G].
    - (* a multiple of the spacing *)
      replace (m2 * 2 ^ (e2 + 1074) * den) with ((m2 * 2 ^ (e2 - sh)) * 2 ^ (sh + 1074) * den).
      + apply nearest_multiple; assumption.
      + replace (e2 + 1074) with ((e2 - sh) + (sh + 1074)) by lia. rewrite (pow_split (e2 - sh) (sh + 1074)) by lia. ring.
    - (* finer than the spacing: then it lies below 2^e, and 2^e = 2^52 * 2^sh is a multiple *)
      assert (Hsh52 : sh = e - 52) by (unfold sh in *; lia).
      assert (He : -1074 <= e) by lia.
      pose proof (binade_N num den e Hd He Hlo) as HbN. fold N in HbN.
      pose proof (nearest_multiple num den sh q (2 ^ 52) Hd Hs Hne HB) as Hm. fold N in Hm.
      assert (E52 : 2 ^ 52 * 2 ^ (sh + 1074) = 2 ^ (e + 1074)) by (rewrite <- (pow_split 52 (sh + 1074)) by lia; f_equal; lia).
      replace (2 ^ 52 * 2 ^ (sh + 1074) * den) with (2 ^ (e + 1074) * den) in Hm by (rewrite <- E52; ring).
      assert (Hd2 : m2 * 2 ^ (e2 + 1074) < 2 ^ (e + 1074)).
      { assert (2 ^ (e2 + 1074) * 2 ^ 53 <= 2 ^ (e + 1074)).
        { rewrite <- (pow_split (e2 + 1074) 53) by lia. apply Z.pow_le_mono_r; lia. }
        assert (0 < 2 ^ (e2 + 1074)) by (apply Z.pow_pos_nonneg; lia). nia. }
      assert (m2 * 2 ^ (e2 + 1074) * den < 2 ^ (e + 1074) * den) by nia.
      lia. }
  rewrite Hr. destruct (q =? 2 ^ 53) eqn:Q.
  - apply Z.eqb_eq in Q. destruct (971 <? sh + 1) eqn:O.
    + (* overflow by rounding up to 2^1024 or beyond *)
      apply Z.ltb_lt in O. split; [reflexivity|].
      destruct Hne as [Hn1 _]. subst q.
      pose proof (scale_N num den sh Hs) as S. fold N in S.
      (* 2A >= (2^54 - 1) B *)
      assert (HA : (2 ^ 54 - 1) * Bd den sh <= 2 * An num sh) by (change (2 ^ 54) with (2 * 2 ^ 53); lia).
      assert (2 ^ 2044 <= 2 ^ (sh + 1074 - 1)) by (apply Z.pow_le_mono_r; lia).
      assert (E2 : 2 ^ (sh + 1074) = 2 * 2 ^ (sh + 1074 - 1)) by (replace (sh + 1074) with (1 + (sh + 1074 - 1)) at 1 by lia; rewrite (pow_split 1 (sh + 1074 - 1)) by lia; reflexivity).
      assert (0 < 2 ^ (sh + 1074 - 1)) by (apply Z.pow_pos_nonneg; lia).
      (* N * B = 2^t A den = 2^(t-1) (2A) den >= 2^(t-1) (2^54-1) B den *)
      assert (HK : 0 < 2 ^ 54 - 1) by (change (2 ^ 54) with 18014398509481984; lia).
      set (P := 2 ^ (sh + 1074 - 1)) in *. set (B := Bd den sh) in *. set (A := An num sh) in *.
      remember (2 ^ 54 - 1) as K eqn:EK. remember (2 ^ 2044) as C eqn:EC. clear Hall Hq52 Hn1 Hr Hlo Hhi.
      assert (S' : N * B = P * (2 * A) * den) by (rewrite S, E2; ring).
      assert (L1 : P * (K * B) * den <= P * (2 * A) * den).
      { apply Z.mul_le_mono_nonneg_r; [lia|]. apply Z.mul_le_mono_nonneg_l; lia. }
      assert (L2 : (P * K * den) * B <= N * B) by (rewrite S'; replace (P * K * den * B) with (P * (K * B) * den) by ring; exact L1).
      apply Z.mul_le_mono_pos_r in L2; [|exact HB].
      assert (L3 : C * K * den <= P * K * den).
      { apply Z.mul_le_mono_nonneg_r; [lia|]. apply Z.mul_le_mono_nonneg_r; lia. }
      replace (K * C * den) with (C * K * den) by ring. lia.
    + apply Z.ltb_ge in O. split; [reflexivity|]. split; [change (2 ^ 52) with 4503599627370496; change (2 ^ 53) with 9007199254740992; lia|].
      split; [lia|]. intros m2 e2 Hm2 He2.
      replace (2 ^ 52 * 2 ^ (sh + 1 + 1074) * den) with (q * 2 ^ (sh + 1074) * den).
      * apply Hall; [lia|assumption|assumption].
      * subst q. replace (sh + 1 + 1074) with (1 + (sh + 1074)) by lia. rewrite (pow_split 1 (sh + 1074)) by lia.
        change (2 ^ 53) with (2 ^ 52 * 2 ^ 1). ring.
  - apply Z.eqb_neq in Q. destruct (971 <? sh) eqn:O.
    + (* the binade itself is beyond the largest exponent: num/den >= 2^1024 *)
      apply Z.ltb_lt in O. split; [reflexivity|].
      assert (Hsh52 : sh = e - 52) by (unfold sh in *; lia).
      pose proof (binade_N num den e Hd ltac:(lia) Hlo) as HbN. fold N in HbN.
      assert (L1 : 2 ^ 2098 <= 2 ^ (e + 1074)) by (apply Z.pow_le_mono_r; lia).
      assert (L2 : (2 ^ 54 - 1) * 2 ^ 2044 <= 2 ^ 2098).
      { replace 2098 with (54 + 2044) by reflexivity. rewrite (pow_split 54 2044) by lia.
        apply Z.mul_le_mono_nonneg_r; [apply Z.pow_nonneg; lia|lia]. }
      remember ((2 ^ 54 - 1) * 2 ^ 2044) as C1. remember (2 ^ 2098) as C2. remember (2 ^ (e + 1074)) as C3.
      assert (C1 * den <= C3 * den) by (apply Z.mul_le_mono_nonneg_r; lia). lia.
    + apply Z.ltb_ge in O. split; [reflexivity|]. split; [lia|]. split; [lia|].
      intros m2 e2 Hm2 He2. apply Hall; assumption.
Qed.

(* ------------------------------------------------------------------------------------------------ *)
(* the magnitude shortcuts of dec2f_exact *)

(* num/den >= 2^1024: infinity *)
Lemma round_ratio_huge : forall neg num den, 0 < num -> 0 < den ->
  2 ^ 2098 * den <= num * 2 ^ 1074 -> round_ratio neg num den = FInf neg.
Proof.
  intros neg num den Hn Hd Hbig.
  destruct (round_ratio_correct neg num den Hn Hd) as (e & q & H). cbn zeta in H.
  set (sh := Z.max (e - 52) (-1074)) in *.
  destruct H as ((Hlo & Hhi) & Hne & (Hq0 & Hq53) & Hq52 & Hr).
  assert (He : 1024 <= e).
  { destruct (Z_lt_ge_dec e 1024) as [L|G]; [exfalso|lia].
    (* num/den < 2^(e+1) <= 2^1024 *)
    pose proof (shift num den (e + 1) (1024 - (e + 1)) ltac:(lia)) as S. replace (e + 1 + (1024 - (e + 1))) with 1024 in S by lia.
    pose proof (Bd_pos den (e + 1) Hd) as HB1. pose proof (Bd_pos den 1024 Hd) as HB2. pose proof (An_pos num 1024 Hn) as HA2.
    assert (HP : 0 < 2 ^ (1024 - (e + 1))) by (apply Z.pow_pos_nonneg; lia).
    (* An(1024) < Bd(1024) *)
    assert (L1 : An num 1024 * Bd den (e + 1) <= 2 ^ (1024 - (e + 1)) * (An num 1024 * Bd den (e + 1))) by nia.
    assert (L2 : An num 1024 * Bd den (e + 1) < Bd den (e + 1) * Bd den 1024) by nia.
    assert (L3 : An num 1024 < Bd den 1024) by nia.
    unfold An, Bd in L3. cbn in L3.
    assert (X : 2 ^ 2098 = 2 ^ 1024 * 2 ^ 1074) by (rewrite <- pow_split by lia; reflexivity).
    rewrite X in Hbig. assert (0 < 2 ^ 1074) by (apply Z.pow_pos_nonneg; lia).
    change (2 ^ 1024) with (2 ^ 1024) in *. remember (2 ^ 1024) as C. remember (2 ^ 1074) as D. nia. }
  assert (Hsh : 972 <= sh) by (unfold sh; lia).
  rewrite Hr. destruct (q =? 2 ^ 53).
  - destruct (971 <? sh + 1) eqn:O; [reflexivity|apply Z.ltb_ge in O; lia].
  - destruct (971 <? sh) eqn:O; [reflexivity|apply Z.ltb_ge in O; lia].
Qed.

(* num/den < 2^-1076: zero *)
Lemma round_ratio_tiny : forall neg num den, 0 < num -> 0 < den ->
  4 * (num * 2 ^ 1074) < den -> round_ratio neg num den = FFin neg 0 (-1074).
Proof.
  intros neg num den Hn Hd Hsmall.
  destruct (round_ratio_correct neg num den Hn Hd) as (e & q & H). cbn zeta in H.
  set (sh := Z.max (e - 52) (-1074)) in *.
  destruct H as ((Hlo & Hhi) & Hne & (Hq0 & Hq53) & Hq52 & Hr).
  assert (Hs : -1074 <= sh) by (unfold sh; lia).
  pose proof (Bd_pos den sh Hd) as HB. pose proof (An_pos num sh Hn) as HA.
  pose proof (scale_N num den sh Hs) as S.
  assert (HT : 1 <= 2 ^ (sh + 1074)) by (assert (0 < 2 ^ (sh + 1074)) by (apply Z.pow_pos_nonneg; lia); lia).
  set (N := num * 2 ^ 1074) in *. set (A := An num sh) in *. set (B := Bd den sh) in *. set (T := 2 ^ (sh + 1074)) in *.
  (* 4 A < B *)
  assert (L1 : A * den <= T * (A * den)) by nia.
  assert (L2 : 4 * (A * den) < den * B) by nia.
  assert (L3 : 4 * A < B) by nia.
  destruct Hne as [Hn1 _].
  assert (Hq : q = 0).
  { destruct (Z.eq_dec q 0) as [->|Hne]; [reflexivity|]. exfalso. assert (1 <= q) by lia.
    assert (2 * q * B >= 2 * B) by nia. lia. }
  assert (Hsh : sh = -1074).
  { destruct (Z.eq_dec sh (-1074)) as [->|Hne]; [reflexivity|]. exfalso.
    assert (-1074 <= e - 52) by (unfold sh in *; lia). specialize (Hq52 H).
    assert (0 < 2 ^ 52) by (apply Z.pow_pos_nonneg; lia). lia. }
  rewrite Hr, Hq, Hsh. reflexivity.
Qed.

(* the number of decimal digits *)
Lemma ndig_spec : forall fuel m, 0 < m -> m < 2 ^ Z.of_nat fuel ->
  10 ^ (ndig fuel m - 1) <= m < 10 ^ ndig fuel m /\ 1 <= ndig fuel m.
Proof.
  induction fuel as [|f IH]; intros m Hm Hf.
  - cbn in Hf. lia.
  - cbn [ndig]. destruct (m <? 10) eqn:E; [apply Z.ltb_lt in E|apply Z.ltb_ge in E].
    + cbn. lia.
    + assert (Hd : 0 < m / 10) by (apply Z.div_str_pos; lia).
      assert (Hf' : m / 10 < 2 ^ Z.of_nat f).
      { rewrite Nat2Z.inj_succ, Z.pow_succ_r in Hf by lia.
        assert (m / 10 <= m / 2) by (apply Z.div_le_compat_l; lia).
        assert (m / 2 < 2 ^ Z.of_nat f) by (apply Z.div_lt_upper_bound; lia). lia. }
      destruct (IH (m / 10) Hd Hf') as [[L U] P]. set (k := ndig f (m / 10)) in *.
      pose proof (Z.div_mod m 10 ltac:(lia)) as DM. pose proof (Z.mod_pos_bound m 10 ltac:(lia)) as MB.
      replace (1 + k - 1) with (1 + (k - 1)) by lia.
      rewrite (Z.pow_add_r 10 1 (k - 1)) by lia. rewrite (Z.pow_add_r 10 1 k) by lia. change (10 ^ 1) with 10.
      split; [|lia]. split; lia.
Qed.

Lemma ndigits_spec : forall m, 0 < m -> 10 ^ (ndigits m - 1) <= m < 10 ^ ndigits m /\ 1 <= ndigits m.
Proof.
  intros m Hm. unfold ndigits. apply ndig_spec; [exact Hm|].
  rewrite Nat2Z.inj_succ, Z2Nat.id by apply Z.log2_nonneg.
  pose proof (Z.log2_spec m Hm). lia.
Qed.

Lemma pow10_pos : forall k, 0 <= k -> 0 < 10 ^ k.
Proof. intros. apply Z.pow_pos_nonneg; lia. Qed.

Lemma dec_scan_mant_nonneg : forall s st d, 0 <= d_mant d -> 0 <= d_mant (dec_scan st s d).
Proof.
  induction s as [|c r IH]; intros st d H; [exact H|].
  cbn [dec_scan]. destruct (nstep st c) as [st'|]; [|exact H].
  apply IH. assert (0 <= digit_val c) by (unfold digit_val; lia).
  destruct st'; cbn [d_mant]; try exact H; lia.
Qed.

Lemma dec_mant_nonneg : forall s, 0 <= d_mant (dec_parse s).
Proof. intro s. unfold dec_parse. apply dec_scan_mant_nonneg. cbn. lia. Qed.

(* the shortcuts change nothing: dec2f_exact is dec2f_full, for every text *)
Theorem dec2f_exact_full : forall s, dec2f_exact s = dec2f_full s.
Proof.
  intro s. unfold dec2f_exact, dec2f_full. set (d := dec_parse s).
  destruct (d_mant d =? 0) eqn:Z0; [reflexivity|]. apply Z.eqb_neq in Z0.
  pose proof (dec_mant_nonneg s) as Pos. fold d in Pos.
  assert (Hm : 0 < d_mant d) by lia.
  destruct (ndigits_spec (d_mant d) Hm) as [[NL NU] N1]. set (nd := ndigits (d_mant d)) in *.
  set (e10 := dec_e10 d) in *.
  destruct (310 <=? nd - 1 + e10) eqn:A.
  - apply Z.leb_le in A. symmetry. unfold dec_ratio. fold e10.
    assert (C310 : 2 ^ 1024 <= 10 ^ 310) by (apply Z.leb_le; vm_compute; reflexivity).
    assert (X : 2 ^ 2098 = 2 ^ 1024 * 2 ^ 1074) by (rewrite <- pow_split by lia; reflexivity).
    assert (P1074 : 0 < 2 ^ 1074) by (apply Z.pow_pos_nonneg; lia).
    destruct (0 <=? e10) eqn:E; cbn [fst snd]; [apply Z.leb_le in E|apply Z.leb_gt in E].
    + apply round_ratio_huge; [pose proof (pow10_pos e10 E); nia|lia|].
      (* m * 10^e10 >= 10^(nd-1+e10) >= 10^310 *)
      assert (10 ^ 310 <= 10 ^ (nd - 1 + e10)) by (apply Z.pow_le_mono_r; lia).
      assert (10 ^ (nd - 1 + e10) = 10 ^ (nd - 1) * 10 ^ e10) by (apply Z.pow_add_r; lia).
      pose proof (pow10_pos e10 E).
      assert (10 ^ (nd - 1) * 10 ^ e10 <= d_mant d * 10 ^ e10) by (apply Z.mul_le_mono_nonneg_r; lia).
      rewrite X, Z.mul_1_r. remember (2 ^ 1024) as C1. remember (2 ^ 1074) as C2. remember (10 ^ 310) as C3.
      remember (d_mant d * 10 ^ e10) as V.
      assert (C1 * C2 <= V * C2) by (apply Z.mul_le_mono_nonneg_r; lia). lia.
    + apply round_ratio_huge; [lia|apply pow10_pos; lia|].
      (* m >= 10^(nd-1) >= 10^310 * 10^(-e10) *)
      assert (10 ^ (310 + - e10) <= 10 ^ (nd - 1)) by (apply Z.pow_le_mono_r; lia).
      assert (10 ^ (310 + - e10) = 10 ^ 310 * 10 ^ (- e10)) by (apply Z.pow_add_r; lia).
      pose proof (pow10_pos (- e10) ltac:(lia)).
      rewrite X. remember (2 ^ 1024) as C1. remember (2 ^ 1074) as C2. remember (10 ^ 310) as C3. remember (10 ^ (- e10)) as Dn.
      assert (C1 * Dn <= C3 * Dn) by (apply Z.mul_le_mono_nonneg_r; lia).
      assert (C1 * Dn * C2 <= d_mant d * C2) by (apply Z.mul_le_mono_nonneg_r; lia).
      replace (C1 * C2 * Dn) with (C1 * Dn * C2) by ring. lia.
  - apply Z.leb_gt in A. destruct (nd + e10 <=? -400) eqn:B; [|reflexivity].
    apply Z.leb_le in B. symmetry. unfold dec_ratio. fold e10.
    assert (E : (0 <=? e10) = false) by (apply Z.leb_gt; lia). rewrite E. cbn [fst snd].
    change (f64_zero (d_neg d)) with (FFin (d_neg d) 0 (-1074)).
    apply round_ratio_tiny; [lia|apply pow10_pos; lia|].
    (* 4 m 2^1074 < 4 * 10^nd * 2^1074 <= 10^nd * 10^400 <= 10^(-e10) *)
    assert (C400 : 4 * 2 ^ 1074 <= 10 ^ 400) by (apply Z.leb_le; vm_compute; reflexivity).
    assert (10 ^ (nd + 400) <= 10 ^ (- e10)) by (apply Z.pow_le_mono_r; lia).
    assert (10 ^ (nd + 400) = 10 ^ nd * 10 ^ 400) by (apply Z.pow_add_r; lia).
    pose proof (pow10_pos nd ltac:(lia)).
    remember (2 ^ 1074) as C2. remember (10 ^ 400) as C4. remember (10 ^ nd) as Pn. remember (10 ^ (- e10)) as Dn.
    assert (0 < C2) by (subst C2; apply Z.pow_pos_nonneg; lia).
    assert (4 * (d_mant d * C2) < 4 * (Pn * C2)) by nia.
    assert (Pn * (4 * C2) <= Pn * C4) by (apply Z.mul_le_mono_nonneg_l; lia).
    lia.
Qed.

(* ------------------------------------------------------------------------------------------------ *)
(* ONE statement, no premise: for every text, dec2f_exact is zero (with the literal's sign) when the mantissa dec_parse
   reads is zero, and otherwise - with num/den = mantissa * 10^(exponent - fraction digits) as dec_ratio writes it - the
   binary64 nearest to num/den among all binary64 values, or infinity exactly when num/den is at or beyond the IEEE
   overflow threshold (2^53 - 1/2) * 2^971 *)
Theorem dec2f_exact_nearest_double : forall s,
  let d := dec_parse s in
  if d_mant d =? 0 then dec2f_exact s = f64_zero (d_neg d)
  else
    let num := fst (dec_ratio d) in let den := snd (dec_ratio d) in
    0 < num /\ 0 < den /\
    match dec2f_exact s with
    | FFin sg m ex =>
        sg = d_neg d /\ 0 <= m < 2 ^ 53 /\ -1074 <= ex <= 971 /\
        forall m2 e2, 0 <= m2 < 2 ^ 53 -> -1074 <= e2 <= 971 ->
          Z.abs (num * 2 ^ 1074 - m * 2 ^ (ex + 1074) * den) <= Z.abs (num * 2 ^ 1074 - m2 * 2 ^ (e2 + 1074) * den)
    | FInf sg => sg = d_neg d /\ (2 ^ 54 - 1) * 2 ^ 2044 * den <= num * 2 ^ 1074
    | FNaN => False
    end.
Proof.
  intro s. cbn zeta. rewrite dec2f_exact_full. unfold dec2f_full.
  destruct (d_mant (dec_parse s) =? 0) eqn:Z0; [reflexivity|]. apply Z.eqb_neq in Z0.
  pose proof (dec_mant_nonneg s) as Pos.
  assert (Hnum : 0 < fst (dec_ratio (dec_parse s)) /\ 0 < snd (dec_ratio (dec_parse s))).
  { unfold dec_ratio. destruct (0 <=? dec_e10 (dec_parse s)) eqn:E; cbn [fst snd].
    - apply Z.leb_le in E. pose proof (pow10_pos _ E). split; [nia|lia].
    - apply Z.leb_gt in E. split; [lia|apply pow10_pos; lia]. }
  destruct Hnum as [Hn Hd]. split; [exact Hn|]. split; [exact Hd|].
  exact (round_ratio_nearest_double (d_neg (dec_parse s)) _ _ Hn Hd).
Qed.
