(* C13 - executable model of dropping. On top of the series index of C10 (entries = series key -> id, postings):
   the deleted-id set, the read paths as separate functions (all of a measurement, by tag filter through the scan,
   by regex alternatives through exact-value lookups, listings), each in a _current variant (what today's code
   subtracts) and a _repaired variant (every path subtracts the deleted set); DROP SERIES as "search ids by predicate,
   record them as deleted"; writes after a drop; measurement versions for DROP MEASUREMENT + re-creation.
   Strings are interned as N (0 = empty string); regex atoms are a parameter as in C10. *)
From Coq Require Import NArith List Bool.
From OG Require Import C10.Model.
Import ListNotations.
Open Scope N_scope.

Definition live (del ids : list N) : list N := diff ids del.

(* ---- leaf sets of the select path.
   all-of-measurement (getTSIDsByMeasurementName -> updateTSIDsForPrefix): the deleted set is subtracted after the scan
   loop, but the loop RETURNS as soon as it meets an item outside the measurement's prefix; so the subtraction happens only
   when the measurement's items are the last ones of the tag->ids namespace. [later T m] = some item sorts after the
   items of m ([ord m m'] = measurement m' sorts after m: longer name, or same length and greater bytes). *)
Definition later (ord : N -> N -> bool) (T : list titem) (m : N) : bool := existsb (fun t => ord m (t_m t)) T.
Definition all_current (ord : N -> N -> bool) (T : list titem) (del : list N) (m : N) : list N :=
  if later ord T m then all_ids T m else live del (all_ids T m).
Definition all_repaired (T : list titem) (del : list N) (m : N) : list N := live del (all_ids T m).

Section ReadPaths.
  Variable am : N -> N -> bool.          (* what a regex atom matches *)
  Variable orv : N -> bool.              (* the pattern is translated into exact-value lookups (alternation / class) *)
  Variable allf : list titem -> list N -> N -> list N.   (* all-of-measurement leaf *)
  Variable sub_orv : bool.               (* do the exact-value lookups subtract the deleted set? *)

  (* leaves that go through the tag-filter scan (scanTSIDsForTagFilter): its hook skips deleted ids - correct today *)
  Definition l_post (T : list titem) (del : list N) (m k v : N) := live del (post T m k v).
  Definition l_haskey (T : list titem) (del : list N) (m k : N) := live del (haskey T m k).
  (* regex leaf: the scan, or - for patterns translated into alternatives - exact-value lookups (updateTSIDsByOrSuffixes) *)
  Definition re_leaf (T : list titem) (del : list N) (m k p : N) : list N :=
    if orv p && negb sub_orv then scan am T m k p else live del (scan am T m k p).
  Definition re_set (T : list titem) (del : list N) (m k p : N) : list N :=
    (if am p 0 then diff (allf T del m) (l_haskey T del m k) else []) ++ re_leaf T del m k p.

  (* the select path (seriesByExprIterator) with the deleted set *)
  Fixpoint dsearch (T : list titem) (del : list N) (m : N) (e : expr) : list N :=
    match e with
    | And a b => inter (dsearch T del m a) (dsearch T del m b)
    | Or a b => dsearch T del m a ++ dsearch T del m b
    | Paren a => dsearch T del m a
    | Atom k Eq v => if v =? 0 then diff (allf T del m) (l_haskey T del m k) else l_post T del m k v
    | Atom k Neq v => if v =? 0 then l_haskey T del m k else diff (allf T del m) (l_post T del m k v)
    | Atom k Re p => re_set T del m k p
    | Atom k Nre p => diff (allf T del m) (re_set T del m k p)
    end.
End ReadPaths.

Definition dsearch_current (am : N -> N -> bool) (orv : N -> bool) (ord : N -> N -> bool) :=
  dsearch am orv (all_current ord) false.
Definition dsearch_repaired (am : N -> N -> bool) :=
  dsearch am (fun _ => false) all_repaired true.

(* read shapes. None = no tag predicate (plain select, field filter, group by tag, group by time, aggregates: all of them
   start from all-of-measurement); Some e = tag predicate *)
Definition read_current am orv ord (T : list titem) (del : list N) (m : N) (q : option expr) : list N :=
  match q with None => all_current ord T del m | Some e => dsearch_current am orv ord T del m e end.
Definition read_repaired am (T : list titem) (del : list N) (m : N) (q : option expr) : list N :=
  match q with None => all_repaired T del m | Some e => dsearch_repaired am T del m e end.

(* the show-series / tag-value listing path and DROP SERIES itself (searchTSIDs): the set algebra of C10, deleted ids
   subtracted once at the end - correct today *)
Definition list_ids (am : N -> N -> bool) (T : list titem) (del : list N) (m : N) (q : option expr) : list N :=
  live del (match q with None => all_ids T m | Some e => search am T m e end).

(* conditioned tag-value listing (SHOW TAG VALUES ... WITH KEY = k WHERE q; searchTagValues): the values of key k carried by
   the tag->ids rows of the measurement that have a series which is not dropped and is selected by the condition. (The code
   builds the eligible set with searchTSIDsInternal, WITHOUT subtracting dropped ids, and leaves the dropped-id test to the row
   check IsExpectedTag; the model subtracts once, in list_ids - both sites together must amount to this.) *)
Definition list_tag_values_where (am : N -> N -> bool) (T : list titem) (del : list N) (m k : N) (q : option expr) : list N :=
  map t_v (filter (fun t => (t_m t =? m) && (t_k t =? k) && mem (t_id t) (list_ids am T del m q)) T).
Definition list_tag_keys_where (am : N -> N -> bool) (T : list titem) (del : list N) (m : N) (q : option expr) : list N :=
  map t_k (filter (fun t => (t_m t =? m) && negb (t_k t =? 0) && mem (t_id t) (list_ids am T del m q)) T).

(* ---- state and operations *)
Record dstate := mkD {
  d_L : list entry;        (* key -> id items *)
  d_del : list N;          (* deleted ids *)
  d_next : N;              (* id generator *)
  d_dead : list N          (* physical measurement names (name+version) that were dropped *)
}.
Definition d_T (s : dstate) := postings (d_L s).

(* key lookup on write: a hit on a deleted id does not count (getSeriesIdBySeriesKey) *)
Definition lookup_live (s : dstate) (k : series) : option N :=
  match find (fun e => series_eqb (fst e) k && negb (mem (snd e) (d_del s))) (d_L s) with
  | Some e => Some (snd e) | None => None end.
Definition write (s : dstate) (k : series) : dstate * N :=
  match lookup_live s k with
  | Some id => (s, id)
  | None => let id := d_next s + 1 in (mkD (d_L s ++ [(k, id)]) (d_del s) id (d_dead s), id)
  end.

Definition drop_series (am : N -> N -> bool) (s : dstate) (m : N) (q : option expr) : dstate :=
  mkD (d_L s) (d_del s ++ list_ids am (d_T s) (d_del s) m q) (d_next s) (d_dead s).

(* DROP MEASUREMENT on the physical name m (logical name + version): the stores delete its files and index items; the
   catalogue keeps the version counter, so a re-creation gets another physical name *)
Definition drop_measurement (s : dstate) (m : N) : dstate :=
  mkD (filter (fun e => negb (s_mst (fst e) =? m)) (d_L s)) (d_del s) (d_next s) (m :: d_dead s).

Inductive dop :=
| DWrite (k : series)
| DDropSeries (m : N) (q : option expr)
| DDropMeasurement (m : N)
| DNoop.                                  (* flush, compaction, restart, kill -9: no effect on what reads may return *)

Definition dstep (am : N -> N -> bool) (s : dstate) (o : dop) : dstate :=
  match o with
  | DWrite k => fst (write s k)
  | DDropSeries m q => drop_series am s m q
  | DDropMeasurement m => drop_measurement s m
  | DNoop => s
  end.
Definition drun (am : N -> N -> bool) (s : dstate) (os : list dop) : dstate := fold_left (dstep am) os s.

(* rows are stored under the id they were written with; a read returns the rows of the ids it selects *)
Definition rows_of (rows : list (N * N * N)) (ids : list N) : list (N * N * N) :=
  filter (fun r => mem (fst (fst r)) ids) rows.

(* the specification object: entries that are not dropped *)
Definition live_entries (L : list entry) (del : list N) : list entry := filter (fun e => negb (mem (snd e) del)) L.
Definition spec_ids (am : N -> N -> bool) (L : list entry) (del : list N) (m : N) (q : option expr) : list N :=
  match q with
  | None => map snd (filter (fun e => s_mst (fst e) =? m) (live_entries L del))
  | Some e => bruteforce am (live_entries L del) m e
  end.

(* catalogue side of DROP MEASUREMENT: version suffix of the physical name *)
Definition next_version (v : N) : N := (v + 1) mod 65536.

(* the meaning of an optional tag predicate on one tag set, and its well-formedness *)
Definition evalq (am : N -> N -> bool) (q : option expr) (ts : tagset) : bool :=
  match q with None => true | Some e => eval am e ts end.
Definition okq (q : option expr) : Prop := match q with None => True | Some e => expr_ok e end.
