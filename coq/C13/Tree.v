(* C13 - the whole statement as one machine: databases -> retention policies -> measurements (incarnations) -> series index
   with the deleted-id set -> points in memtable / files. Two machines over the same operations:
   * the SYSTEM model [tstate]: per (database, policy) a [policy] record = the catalogue's live measurements with, per index
     group (one series index per week of data), the physical identity of their current incarnation in that index (name_version
     inside that index: a re-created measurement gets identities that were never used before), the series indexes of
     C13.Model (entries, the policy's deleted ids, id generator), which indexes exist and whether each is wired to the policy's
     deleted-series table (an index that is not wired consults an empty set), the durable copy of that table, memtable rows and
     immutable files (rows are stored under physical identity + series id; a read merges files and memtable, newest wins).
     Flush, compaction, restart (wiring, WAL replay) and the persistence of the deleted-series table are real steps.
   * the REFERENCE machine [sstate]: per (database, policy) the list of visible rows (measurement name, tags, time, value) -
     exactly the reference map of the black-box harness. Drops filter it, flush / compaction / restart do not touch it.
   TreeProofs.v proves that every read of the system model equals the read of the reference for every operation sequence.
   Every row carries the stamp [w] of the write operation that produced it (ghost: nothing depends on it); it lets the
   theorems say "the data that was dropped" as opposed to equal-looking data written later. *)
From Coq Require Import NArith List Bool.
From OG Require Import C10.Model C13.Model.
Import ListNotations.
Open Scope N_scope.

(* ---- association lists keyed by (database, policy) *)
Definition key := (N * N)%type.
Definition key_eqb (a b : key) : bool := (fst a =? fst b) && (snd a =? snd b).
Definition kget {V} (k : key) (l : list (key * V)) : option V :=
  match find (fun kv => key_eqb (fst kv) k) l with Some kv => Some (snd kv) | None => None end.
Definition kupd {V} (k : key) (f : V -> V) (l : list (key * V)) : list (key * V) :=
  map (fun kv => if key_eqb (fst kv) k then (fst kv, f (snd kv)) else kv) l.
Definition kdel {V} (P : key -> bool) (l : list (key * V)) : list (key * V) := filter (fun kv => negb (P (fst kv))) l.
Definition khas {V} (k : key) (l : list (key * V)) : bool := existsb (fun kv => key_eqb (fst kv) k) l.
Definition kins {V} (k : key) (v : V) (l : list (key * V)) : list (key * V) := if khas k l then l else l ++ [(k, v)].

(* ---- stored rows: physical measurement, series id, time, value, stamp of the write *)
Record prow := mkR { r_m : N; r_id : N; r_t : N; r_v : N; r_w : N }.
Definition same_pt (a b : prow) : bool := (r_m a =? r_m b) && (r_id a =? r_id b) && (r_t a =? r_t b).
(* merged view of a sequence of rows, oldest first: the newest row of a point wins *)
Fixpoint lww (l : list prow) : list prow :=
  match l with
  | [] => []
  | x :: r => if existsb (same_pt x) r then lww r else x :: lww r
  end.

(* one series index per index time range ("index group": a week of data by default); the harness shifts its times so that the
   model's ranges are the server's *)
Definition index_span : N := 604800.
Definition grp (t : N) : N := t / index_span.

Definition ckey := (N * N)%type.                       (* measurement name, index group *)
Definition ckey_eqb (a b : ckey) : bool := (fst a =? fst b) && (snd a =? snd b).

Record policy := mkP {
  p_cur : list (ckey * N);       (* live measurements, per index group: (name, group) -> physical identity of the incarnation's
                                    items in that group's index (name_version inside that index; never reused) *)
  p_nextm : N;                   (* generator of physical identities *)
  p_ix : dstate;                 (* the series indexes of the policy (all groups; a physical identity belongs to one group):
                                    key -> id entries, the policy's deleted ids (in memory), id generator *)
  p_table : bool;                (* the policy's deleted-series table exists (created by the first DROP SERIES that finds
                                    something, or opened at a restart with data) *)
  p_idx : list (N * bool);       (* the index groups that exist: group, wired to the deleted-series table? An index that is not
                                    wired consults an empty deleted set *)
  p_deld : list N;               (* deleted ids that have reached a part of the deleted-series table on disk *)
  p_mem : list prow;             (* memtable (covered by the WAL: acknowledged rows survive a crash) *)
  p_files : list (list prow)     (* immutable files, oldest first *)
}.
Definition empty_policy : policy := mkP [] 0 (mkD [] [] 0 []) false [] [] [] [].
Definition p_all (p : policy) : list prow := concat (p_files p) ++ p_mem p.
Definition cur (p : policy) (k : ckey) : option N :=
  match find (fun x => ckey_eqb (fst x) k) (p_cur p) with Some x => Some (snd x) | None => None end.
(* the incarnation's (group, physical identity) pairs *)
Definition pms (p : policy) (n : N) : list (N * N) :=
  map (fun x => (snd (fst x), snd x)) (filter (fun x => fst (fst x) =? n) (p_cur p)).
Definition wiredb (p : policy) (g : N) : bool := existsb (fun x => (fst x =? g) && snd x) (p_idx p).
(* the deleted set the searches of group g's index consult *)
Definition eff (p : policy) (g : N) : list N := if wiredb p g then d_del (p_ix p) else [].
Definition wire_all (l : list (N * bool)) : list (N * bool) := map (fun x => (fst x, true)) l.

(* a write goes to the index of its time's group: the index is created if it does not exist ([wirenew] = wired to the policy's
   deleted-series table at creation when that table exists: _repaired; never: _current), the measurement gets an identity in that
   index if it has none, the series key is looked up (a dropped id does not count: C13.Model.write), the row goes to the memtable *)
Definition ensure_idx (wirenew : bool) (p : policy) (g : N) : policy :=
  if existsb (fun x => fst x =? g) (p_idx p) then p
  else mkP (p_cur p) (p_nextm p) (p_ix p) (p_table p) (p_idx p ++ [(g, wirenew && p_table p)]) (p_deld p) (p_mem p) (p_files p).
Definition ensure_mst (p : policy) (k : ckey) : policy * N :=
  match cur p k with
  | Some pm => (p, pm)
  | None => let pm := p_nextm p + 1 in
            (mkP (p_cur p ++ [(k, pm)]) pm (p_ix p) (p_table p) (p_idx p) (p_deld p) (p_mem p) (p_files p), pm)
  end.
Definition p_write (wirenew : bool) (p : policy) (n : N) (tags : tagset) (t v w : N) : policy :=
  let p0 := ensure_idx wirenew p (grp t) in
  let p1 := fst (ensure_mst p0 (n, grp t)) in
  let pm := snd (ensure_mst p0 (n, grp t)) in
  let r := write (p_ix p1) (mkS pm tags) in
  mkP (p_cur p1) (p_nextm p1) (fst r) (p_table p1) (p_idx p1) (p_deld p1) (p_mem p1 ++ [mkR pm (snd r) t v w]) (p_files p1).

Definition p_flush (p : policy) : policy :=
  mkP (p_cur p) (p_nextm p) (p_ix p) (p_table p) (p_idx p) (p_deld p) [] (p_files p ++ [p_mem p]).

(* DROP SERIES: every index of the policy is searched (the listing path, with the deleted set that index consults) and the ids
   found are recorded in the policy's deleted-series table - which is created, and wired to the indexes that exist, when there is
   none yet and something was found. [durable] = the ids are in a part on disk before the statement is acknowledged (_repaired)
   or only after the next flush of the table, [p_sync] (_current); [flushfirst] = the memtable is flushed before the ids are
   searched and recorded (_repaired: no row written before the drop is left in the WAL) or not (_current) *)
Definition p_drop_series (durable flushfirst : bool) (am : N -> N -> bool) (p0 : policy) (n : N) (q : option expr) : policy :=
  let p := if flushfirst then p_flush p0 else p0 in
  let ids := flat_map (fun gm : N * N => list_ids am (d_T (p_ix p)) (eff p (fst gm)) (snd gm) q) (pms p n) in
  match ids with
  | [] => p
  | _ => mkP (p_cur p) (p_nextm p)
             (mkD (d_L (p_ix p)) (d_del (p_ix p) ++ ids) (d_next (p_ix p)) (d_dead (p_ix p)))
             true (if p_table p then p_idx p else wire_all (p_idx p))
             (if durable then p_deld p ++ ids else p_deld p) (p_mem p) (p_files p)
  end.
Definition p_sync (p : policy) : policy :=
  mkP (p_cur p) (p_nextm p) (p_ix p) (p_table p) (p_idx p) (d_del (p_ix p)) (p_mem p) (p_files p).

(* DROP MEASUREMENT: the catalogue forgets the incarnation, the store deletes its memtable rows and files; its index items
   stay (they are purged lazily) - they are unreachable because no later incarnation has the same physical identities *)
Definition p_drop_mst (p : policy) (n : N) : policy :=
  let dead := map snd (pms p n) in
  let keep := fun r : prow => negb (mem (r_m r) dead) in
  mkP (filter (fun x => negb (fst (fst x) =? n)) (p_cur p)) (p_nextm p) (p_ix p) (p_table p) (p_idx p) (p_deld p)
      (filter keep (p_mem p)) (map (filter keep) (p_files p)).

(* compaction / merge of k adjacent files starting at file i into one file holding the newest row of every point *)
Definition p_compact (p : policy) (i k : nat) : policy :=
  let fs := p_files p in
  mkP (p_cur p) (p_nextm p) (p_ix p) (p_table p) (p_idx p) (p_deld p) (p_mem p)
      (firstn i fs ++ [lww (concat (firstn k (skipn i fs)))] ++ skipn k (skipn i fs)).
(* restart (clean or kill -9): the deleted-series table is opened when the policy has an index, every index is wired to it, the
   in-memory deleted set is reloaded from the table on disk; the memtable is rebuilt by replaying the WAL: a WAL row carries its
   series KEY, and the replay looks the key up like any write - a row whose id is recorded as deleted gets a fresh id. (Index
   entries and files are on disk.) *)
Definition replay_row (st : dstate * list prow) (x : prow) : dstate * list prow :=
  match key_of (d_L (fst st)) (r_id x) with
  | k :: _ => let r := write (fst st) k in (fst r, snd st ++ [mkR (r_m x) (snd r) (r_t x) (r_v x) (r_w x)])
  | [] => (fst st, snd st ++ [x])
  end.
Definition p_restart (p : policy) : policy :=
  let ix0 := mkD (d_L (p_ix p)) (p_deld p) (d_next (p_ix p)) (d_dead (p_ix p)) in
  let st := fold_left replay_row (p_mem p) (ix0, []) in
  mkP (p_cur p) (p_nextm p) (fst st)
      (match p_idx p with [] => p_table p | _ => true end) (match p_idx p with [] => [] | l => wire_all l end)
      (p_deld p) (snd st) (p_files p).

(* a read of measurement n with tag predicate q (None: plain select / field filter / group by / aggregates): for every index
   group in which the measurement has an identity, the rows of the merged view that belong to it and whose id the read path of
   that index selects; reported with the tags of the id *)
Definition orow := (tagset * N * N * N)%type.            (* tags, time, value, stamp *)
Definition p_read (am : N -> N -> bool) (p : policy) (n : N) (q : option expr) : list orow :=
  flat_map (fun gm : N * N =>
    let ids := read_repaired am (d_T (p_ix p)) (eff p (fst gm)) (snd gm) q in
    flat_map (fun r => map (fun k => (s_tags k, r_t r, r_v r, r_w r)) (key_of (d_L (p_ix p)) (r_id r)))
             (filter (fun r => (r_m r =? snd gm) && mem (r_id r) ids) (lww (p_all p))))
    (pms p n).
(* the listing path (show series / tag values / tag keys start from it): series keys of the ids it selects, in every index *)
Definition p_list (am : N -> N -> bool) (p : policy) (n : N) (q : option expr) : list tagset :=
  flat_map (fun gm : N * N =>
    flat_map (fun id => map s_tags (key_of (d_L (p_ix p)) id)) (list_ids am (d_T (p_ix p)) (eff p (fst gm)) (snd gm) q))
    (pms p n).

(* ---- the system *)
Record tstate := mkTS { t_dbs : list N; t_pols : list (key * policy) }.
Definition t0 : tstate := mkTS [] [].

Inductive top :=
| TCreateDB (d : N)
| TCreateRP (d r : N)
| TWrite (d r n : N) (tags : tagset) (t v w : N)
| TDropSeries (d r n : N) (q : option expr)
| TDropMst (d r n : N)
| TDropRP (d r : N)
| TDropDB (d : N)
| TFlush (d r : N)
| TCompact (d r : N) (i k : nat)
| TSync (d r : N)                     (* the deleted-id table of the policy flushes its pending items *)
| TRestart (d r : N).

Definition tstep (durable flushfirst wirenew : bool) (am : N -> N -> bool) (s : tstate) (o : top) : tstate :=
  match o with
  | TCreateDB d => if mem d (t_dbs s) then s else mkTS (t_dbs s ++ [d]) (t_pols s)
  | TCreateRP d r => if mem d (t_dbs s) then mkTS (t_dbs s) (kins (d, r) empty_policy (t_pols s)) else s
  | TWrite d r n tags t v w => mkTS (t_dbs s) (kupd (d, r) (fun p => p_write wirenew p n tags t v w) (t_pols s))
  | TDropSeries d r n q => mkTS (t_dbs s) (kupd (d, r) (fun p => p_drop_series durable flushfirst am p n q) (t_pols s))
  | TDropMst d r n => mkTS (t_dbs s) (kupd (d, r) (fun p => p_drop_mst p n) (t_pols s))
  | TDropRP d r => mkTS (t_dbs s) (kdel (key_eqb (d, r)) (t_pols s))
  | TDropDB d => mkTS (filter (fun x => negb (x =? d)) (t_dbs s)) (kdel (fun k => fst k =? d) (t_pols s))
  | TFlush d r => mkTS (t_dbs s) (kupd (d, r) p_flush (t_pols s))
  | TCompact d r i k => mkTS (t_dbs s) (kupd (d, r) (fun p => p_compact p i k) (t_pols s))
  | TSync d r => mkTS (t_dbs s) (kupd (d, r) p_sync (t_pols s))
  | TRestart d r => mkTS (t_dbs s) (kupd (d, r) p_restart (t_pols s))
  end.
Definition trun (durable flushfirst wirenew : bool) (am : N -> N -> bool) (s : tstate) (os : list top) : tstate :=
  fold_left (tstep durable flushfirst wirenew am) os s.

Definition tread (am : N -> N -> bool) (s : tstate) (d r n : N) (q : option expr) : list orow :=
  match kget (d, r) (t_pols s) with Some p => p_read am p n q | None => [] end.
Definition tlist (am : N -> N -> bool) (s : tstate) (d r n : N) (q : option expr) : list tagset :=
  match kget (d, r) (t_pols s) with Some p => p_list am p n q | None => [] end.

(* ---- the reference machine *)
Record lrow := mkL { l_n : N; l_tags : tagset; l_t : N; l_v : N; l_w : N }.
Definition tagset_eqb (a b : tagset) : bool := if tagset_eq_dec a b then true else false.
Definition same_lpt (n : N) (tags : tagset) (t : N) (x : lrow) : bool := (l_n x =? n) && tagset_eqb (l_tags x) tags && (l_t x =? t).
Definition s_write (R : list lrow) (n : N) (tags : tagset) (t v w : N) : list lrow :=
  filter (fun x => negb (same_lpt n tags t x)) R ++ [mkL n tags t v w].
Definition named (am : N -> N -> bool) (n : N) (q : option expr) (x : lrow) : bool := (l_n x =? n) && evalq am q (l_tags x).
Definition s_drop_series (am : N -> N -> bool) (R : list lrow) (n : N) (q : option expr) : list lrow :=
  filter (fun x => negb (named am n q x)) R.
Definition s_drop_mst (R : list lrow) (n : N) : list lrow := filter (fun x => negb (l_n x =? n)) R.

Record sstate := mkSS { s_dbs : list N; s_pols : list (key * list lrow) }.
Definition s0 : sstate := mkSS [] [].
Definition sstep (am : N -> N -> bool) (s : sstate) (o : top) : sstate :=
  match o with
  | TCreateDB d => if mem d (s_dbs s) then s else mkSS (s_dbs s ++ [d]) (s_pols s)
  | TCreateRP d r => if mem d (s_dbs s) then mkSS (s_dbs s) (kins (d, r) [] (s_pols s)) else s
  | TWrite d r n tags t v w => mkSS (s_dbs s) (kupd (d, r) (fun R => s_write R n tags t v w) (s_pols s))
  | TDropSeries d r n q => mkSS (s_dbs s) (kupd (d, r) (fun R => s_drop_series am R n q) (s_pols s))
  | TDropMst d r n => mkSS (s_dbs s) (kupd (d, r) (fun R => s_drop_mst R n) (s_pols s))
  | TDropRP d r => mkSS (s_dbs s) (kdel (key_eqb (d, r)) (s_pols s))
  | TDropDB d => mkSS (filter (fun x => negb (x =? d)) (s_dbs s)) (kdel (fun k => fst k =? d) (s_pols s))
  | TFlush _ _ | TCompact _ _ _ _ | TSync _ _ | TRestart _ _ => s
  end.
Definition srun (am : N -> N -> bool) (s : sstate) (os : list top) : sstate := fold_left (sstep am) os s.

Definition s_read (am : N -> N -> bool) (R : list lrow) (n : N) (q : option expr) : list orow :=
  map (fun x => (l_tags x, l_t x, l_v x, l_w x)) (filter (named am n q) R).
Definition sread (am : N -> N -> bool) (s : sstate) (d r n : N) (q : option expr) : list orow :=
  match kget (d, r) (s_pols s) with Some R => s_read am R n q | None => [] end.
Definition slist (am : N -> N -> bool) (s : sstate) (d r n : N) (q : option expr) : list tagset :=
  match kget (d, r) (s_pols s) with Some R => map l_tags (filter (named am n q) R) | None => [] end.

(* every row of the reference state with its location: (database, policy, row) *)
Definition srows (s : sstate) : list (key * lrow) := flat_map (fun kv => map (fun x => (fst kv, x)) (snd kv)) (s_pols s).

(* what an operation is allowed to carry: well-formed tag sets / predicates (as the parser and the line protocol guarantee) *)
Definition top_ok (o : top) : Prop :=
  match o with
  | TWrite _ _ _ tags _ _ _ => wf_tags tags
  | TDropSeries _ _ _ q => okq q
  | _ => True
  end.
Definition stamp_of (o : top) : list N := match o with TWrite _ _ _ _ _ _ w => [w] | _ => [] end.

(* which rows (by location and tags) a drop names *)
Definition is_drop (o : top) : bool :=
  match o with TDropSeries _ _ _ _ | TDropMst _ _ _ | TDropRP _ _ | TDropDB _ => true | _ => false end.
Definition hit (am : N -> N -> bool) (o : top) (d' r' n' : N) (tags : tagset) : bool :=
  match o with
  | TDropSeries d r n q => key_eqb (d, r) (d', r') && (n =? n') && evalq am q tags
  | TDropMst d r n => key_eqb (d, r) (d', r') && (n =? n')
  | TDropRP d r => key_eqb (d, r) (d', r')
  | TDropDB d => d =? d'
  | _ => false
  end.
(* operations no read may notice *)
Definition invisible (o : top) : bool :=
  match o with TFlush _ _ | TCompact _ _ _ _ | TSync _ _ | TRestart _ _ => true | _ => false end.
Definition o_tags (x : orow) : tagset := fst (fst (fst x)).
Definition o_stamp (x : orow) : N := snd x.
