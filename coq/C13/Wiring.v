(* C13 - which deleted-id set the searches of one index consult (finding C13-drop-ignored-by-new-index).
   A retention policy of a database partition has one deleted-id table (engine/partition.go: delIndexBuilderMap[rp]) and one
   series index per index time range. A search consults the table its index was WIRED to (MergeSetIndex.deleteMergeSet,
   set by SetDeleteMergeSet); an index that is not wired sees the empty set (GetDeletedTSIDs). Wiring happens in
   SetDelMergeSetForEachMergeSet, called (a) when the partition's indexes are opened at start and (b) by the first DROP SERIES that
   has to create the table - for the indexes that exist at that moment.
   _current: an index created later (NewShard -> NewMergeSetIndex, a write into a new time range) is never wired until the next
   restart.  _repaired: a new index is wired at creation when the policy's table exists. *)
From Coq Require Import NArith List Bool.
Import ListNotations.
Open Scope N_scope.

Record wstate := mkW {
  w_table : bool;                 (* the policy's deleted-id table exists *)
  w_del : list N;                 (* its ids (in memory; persistence is the business of Tree.v) *)
  w_idx : list (N * bool)         (* the policy's indexes: id, wired to the table? *)
}.
Definition w0 : wstate := mkW false [] [].

Inductive wop :=
| WNewIndex (i : N)               (* first write into a new index time range *)
| WDrop (ids : list N)            (* DROP SERIES found these ids (in whatever indexes) *)
| WRestart.

Definition wire_all (l : list (N * bool)) : list (N * bool) := map (fun x => (fst x, true)) l.

Definition wstep (repaired : bool) (s : wstate) (o : wop) : wstate :=
  match o with
  | WNewIndex i => mkW (w_table s) (w_del s) (w_idx s ++ [(i, repaired && w_table s)])
  | WDrop ids =>
      match ids with
      | [] => s                                                     (* storeTsids returns at once *)
      | _ => if w_table s then mkW true (w_del s ++ ids) (w_idx s)
             else mkW true (w_del s ++ ids) (wire_all (w_idx s))    (* creates the table, wires what exists *)
      end
  | WRestart => match w_idx s with
                | [] => s                                           (* no index directory: OpenIndexes returns early *)
                | _ => mkW true (w_del s) (wire_all (w_idx s))
                end
  end.
Definition wrun (repaired : bool) (s : wstate) (os : list wop) : wstate := fold_left (wstep repaired) os s.

(* the deleted set the searches of an index consult *)
Definition eff (s : wstate) (wired : bool) : list N := if wired then w_del s else [].

(* ---- proofs *)
Definition winv (s : wstate) : Prop :=
  (w_table s = false -> w_del s = []) /\ (w_table s = true -> forall x, In x (w_idx s) -> snd x = true).

Lemma wire_all_wired l x : In x (wire_all l) -> snd x = true.
Proof. unfold wire_all. rewrite in_map_iff. intros (y & <- & _). reflexivity. Qed.

Lemma wstep_inv s o : winv s -> winv (wstep true s o).
Proof.
  intros [H1 H2]. destruct o as [i | ids |]; simpl.
  - split; simpl; auto. intros Ht x Hx. apply in_app_iff in Hx. destruct Hx as [Hx | [<- | []]]; auto.
  - destruct ids as [| a r]; [split; auto |]. destruct (w_table s) eqn:Et; split; simpl; auto; try discriminate.
    intros _ x Hx. eapply wire_all_wired; eauto.
  - destruct (w_idx s) as [| a r] eqn:Ei.
    + split; auto. intros Ht x Hx. rewrite Ei in Hx. destruct Hx.
    + split; simpl; try discriminate. intros _ x Hx. eapply (wire_all_wired (a :: r)); eauto.
Qed.
Lemma wrun_inv os : forall s, winv s -> winv (wrun true s os).
Proof. induction os as [| o r IH]; simpl; auto. intros s H. apply IH. apply wstep_inv. exact H. Qed.

(* repaired: whatever the history, every index of the policy consults exactly the policy's deleted set *)
Theorem wired_repaired os i b : In (i, b) (w_idx (wrun true w0 os)) -> eff (wrun true w0 os) b = w_del (wrun true w0 os).
Proof.
  intros Hin. assert (H : winv (wrun true w0 os)) by (apply wrun_inv; split; simpl; auto; discriminate).
  destruct H as [H1 H2]. unfold eff. destruct (w_table (wrun true w0 os)) eqn:Et.
  - rewrite (H2 eq_refl _ Hin : b = true). reflexivity.
  - rewrite H1; auto. destruct b; reflexivity.
Qed.
