(* C13 - lemmas. Everything is reduced to the search theorem of C10 applied to the entries that are not dropped. *)
From Coq Require Import NArith List Bool Lia.
From OG Require Import C10.Model C10.Proofs C13.Model.
Import ListNotations.
Open Scope N_scope.


Lemma nmem_iff x l : negb (mem x l) = true <-> ~ In x l.
Proof.
  rewrite negb_true_iff. split.
  - intros E H. apply mem_spec in H. congruence.
  - intros H. destruct (mem x l) eqn:E; auto. apply mem_spec in E. contradiction.
Qed.

Lemma in_live del ids id : In id (live del ids) <-> In id ids /\ ~ In id del.
Proof. unfold live. apply in_diff. Qed.

Lemma in_live_entries L del s id : In (s, id) (live_entries L del) <-> In (s, id) L /\ ~ In id del.
Proof. unfold live_entries. rewrite filter_In. simpl. rewrite nmem_iff. tauto. Qed.

Lemma nodup_map_filter {A B} (f : A -> B) (g : A -> bool) (l : list A) : NoDup (map f l) -> NoDup (map f (filter g l)).
Proof.
  induction l as [| x r IH]; simpl; intros H; [constructor |]. inversion H as [| ? ? Hni Hnd]; subst.
  destruct (g x); simpl; auto. constructor; auto. intros Hin. apply Hni. apply in_map_iff in Hin.
  destruct Hin as (y & E & Hy). apply filter_In in Hy. destruct Hy as [Hy _]. rewrite <- E. apply in_map. exact Hy.
Qed.
Lemma wfL_filter g L : wfL L -> wfL (filter g L).
Proof.
  intros [Hnd Hf]. split; [apply nodup_map_filter; exact Hnd |].
  rewrite Forall_forall in *. intros e He. apply filter_In in He. destruct He as [He _]. auto.
Qed.
Lemma wfL_live L del : wfL L -> wfL (live_entries L del).
Proof. apply wfL_filter. Qed.

(* a leaf of the index restricted to live ids = the same leaf of the index of the live entries *)
Lemma leaf_live f L del id :
  In id (live del (ids_where f (postings L))) <-> In id (ids_where f (postings (live_entries L del))).
Proof.
  rewrite in_live, !in_ids_where_postings. split.
  - intros [(s & Hin & Ht) Hn]. exists s. split; auto. apply in_live_entries; auto.
  - intros (s & Hin & Ht). apply in_live_entries in Hin. destruct Hin. split; eauto.
Qed.

Lemma re_set_live am L del m k p id :
  In id (re_set am (fun _ => false) all_repaired true (postings L) del m k p) <->
  In id (re_ids am (postings (live_entries L del)) m k p).
Proof.
  unfold re_set, re_ids, re_leaf, nokey, l_haskey, all_repaired. simpl.
  rewrite !in_app_iff. destruct (am p 0).
  - rewrite !in_diff. unfold all_ids, haskey, scan. rewrite !leaf_live. tauto.
  - simpl. unfold scan. rewrite leaf_live. tauto.
Qed.

Lemma dsearch_repaired_live am L del m e : forall id,
  In id (dsearch_repaired am (postings L) del m e) <-> In id (search am (postings (live_entries L del)) m e).
Proof.
  unfold dsearch_repaired. induction e as [a IHa b IHb | a IHa b IHb | a IHa | k c v]; simpl; intros id.
  - rewrite !in_inter, IHa, IHb. tauto.
  - rewrite !in_app_iff, IHa, IHb. tauto.
  - apply IHa.
  - destruct c.
    + destruct (v =? 0).
      * unfold nokey, l_haskey, all_repaired. rewrite !in_diff. unfold all_ids, haskey. rewrite !leaf_live. tauto.
      * unfold l_post, post. apply leaf_live.
    + destruct (v =? 0).
      * unfold l_haskey, haskey. apply leaf_live.
      * unfold l_post, all_repaired. rewrite !in_diff. unfold all_ids, post. rewrite !leaf_live. tauto.
    + apply re_set_live.
    + rewrite !in_diff. rewrite re_set_live. unfold all_repaired, all_ids. rewrite leaf_live. tauto.
Qed.

(* characterisation of the specification object *)
Lemma spec_char am L del m q id :
  In id (spec_ids am L del m q) <->
  exists s, In (s, id) L /\ ~ In id del /\ s_mst s = m /\ evalq am q (s_tags s) = true.
Proof.
  destruct q as [e |]; simpl.
  - rewrite bruteforce_sel. split.
    + intros (s & Hin & Hm & He). apply in_live_entries in Hin. destruct Hin. exists s. auto.
    + intros (s & Hin & Hn & Hm & He). exists s. repeat split; auto. apply in_live_entries. auto.
  - rewrite in_map_iff. split.
    + intros ([s i] & E & H). simpl in E. subst i. apply filter_In in H. destruct H as [Hin Hm]. simpl in Hm.
      apply N.eqb_eq in Hm. apply in_live_entries in Hin. destruct Hin. exists s. auto.
    + intros (s & Hin & Hn & Hm & _). exists (s, id). split; auto. apply filter_In. split.
      * apply in_live_entries. auto.
      * simpl. apply N.eqb_eq. exact Hm.
Qed.

Theorem read_repaired_exact am L del m q id : wfL L -> okq q ->
  In id (read_repaired am (postings L) del m q) <-> In id (spec_ids am L del m q).
Proof.
  intros Hwf Hok. destruct q as [e |]; simpl.
  - rewrite dsearch_repaired_live. apply search_is_bruteforce; auto. apply wfL_live. exact Hwf.
  - unfold all_repaired, all_ids. rewrite leaf_live. fold (all_ids (postings (live_entries L del)) m).
    rewrite sel_all. rewrite in_map_iff. split.
    + intros (s & Hin & Hm & _). exists (s, id). split; auto. apply filter_In. split; auto. simpl. apply N.eqb_eq. exact Hm.
    + intros ([s i] & E & H). simpl in E. subst i. apply filter_In in H. destruct H as [Hin Hm]. simpl in Hm.
      apply N.eqb_eq in Hm. exists s. auto.
Qed.

(* the listing / drop path is exact already today *)
Theorem list_ids_exact am L del m q id : wfL L -> okq q ->
  In id (list_ids am (postings L) del m q) <-> In id (spec_ids am L del m q).
Proof.
  intros Hwf Hok. unfold list_ids. rewrite in_live, spec_char. destruct q as [e |]; simpl.
  - rewrite search_is_bruteforce, bruteforce_sel; auto. split.
    + intros [(s & Hin & Hm & He) Hn]. exists s. auto.
    + intros (s & Hin & Hn & Hm & He). split; auto. exists s. auto.
  - rewrite sel_all. split.
    + intros [(s & Hin & Hm & _) Hn]. exists s. auto.
    + intros (s & Hin & Hn & Hm & _). split; auto. exists s. auto.
Qed.

(* conditioned tag-value / tag-key listings are exact: a value (key) is listed iff some series that is not dropped, belongs to
   the measurement and satisfies the condition carries it *)
Theorem list_tag_values_where_exact am L del m k q v : wfL L -> okq q -> k <> 0 ->
  In v (list_tag_values_where am (postings L) del m k q) <->
  exists s id, In (s, id) L /\ ~ In id del /\ s_mst s = m /\ evalq am q (s_tags s) = true /\ In (k, v) (s_tags s).
Proof.
  intros Hwf Hq Hk. unfold list_tag_values_where. rewrite in_map_iff. split.
  - intros (t & Ev & Ht). apply filter_In in Ht. destruct Ht as [Ht Hf]. apply andb_true_iff in Hf. destruct Hf as [Hf Hmem].
    apply andb_true_iff in Hf. destruct Hf as [Hm Hkk]. apply N.eqb_eq in Hm. apply N.eqb_eq in Hkk.
    apply mem_spec in Hmem. rewrite (list_ids_exact am L del m q (t_id t) Hwf Hq) in Hmem. rewrite spec_char in Hmem.
    destruct Hmem as (s1 & Hin1 & Hn & Hm1 & He).
    apply in_tagitems in Ht. destruct Ht as (s & id & Hin & [-> | (k' & v' & Hkv & ->)]).
    + exfalso. apply Hk. symmetry. exact Hkk.
    + unfold t_m, t_k, t_v, t_id in *. simpl in *. subst. destruct Hwf as [Hnd _].
      rewrite (uniq_id _ _ _ _ Hnd Hin1 Hin) in *. exists s, id. auto.
  - intros (s & id & Hin & Hn & Hm & He & Hkv). exists (s_mst s, k, v, id). split; [reflexivity |]. apply filter_In. split.
    + apply in_tagitems. exists s, id. split; auto. right. eauto.
    + unfold t_m, t_k, t_id. simpl. subst m. rewrite !N.eqb_refl. simpl. apply mem_spec.
      rewrite (list_ids_exact am L del (s_mst s) q id Hwf Hq). rewrite spec_char. exists s. auto.
Qed.

Theorem list_tag_keys_where_exact am L del m q k : wfL L -> okq q ->
  In k (list_tag_keys_where am (postings L) del m q) <->
  exists s id v, In (s, id) L /\ ~ In id del /\ s_mst s = m /\ evalq am q (s_tags s) = true /\ In (k, v) (s_tags s).
Proof.
  intros Hwf Hq. unfold list_tag_keys_where. rewrite in_map_iff. split.
  - intros (t & Ek & Ht). apply filter_In in Ht. destruct Ht as [Ht Hf]. apply andb_true_iff in Hf. destruct Hf as [Hf Hmem].
    apply andb_true_iff in Hf. destruct Hf as [Hm Hnz]. apply N.eqb_eq in Hm. apply negb_true_iff in Hnz. apply N.eqb_neq in Hnz.
    apply mem_spec in Hmem. rewrite (list_ids_exact am L del m q (t_id t) Hwf Hq) in Hmem. rewrite spec_char in Hmem.
    destruct Hmem as (s1 & Hin1 & Hn & Hm1 & He).
    apply in_tagitems in Ht. destruct Ht as (s & id & Hin & [-> | (k' & v' & Hkv & ->)]).
    + exfalso. apply Hnz. reflexivity.
    + unfold t_m, t_k, t_id in *. simpl in *. destruct Hwf as [Hnd _].
      rewrite (uniq_id _ _ _ _ Hnd Hin1 Hin) in *. exists s, id, v'. subst. auto.
  - intros (s & id & v & Hin & Hn & Hm & He & Hkv). exists (s_mst s, k, v, id). split; [reflexivity |]. apply filter_In. split.
    + apply in_tagitems. exists s, id. split; auto. right. eauto.
    + unfold t_m, t_k, t_id. simpl. subst m. rewrite N.eqb_refl. simpl.
      assert (Hk0 : k <> 0) by (apply (wf_tags_val _ _ _ (wfL_tags _ _ _ Hwf Hin) Hkv)).
      apply N.eqb_neq in Hk0. rewrite Hk0. simpl. apply mem_spec.
      rewrite (list_ids_exact am L del (s_mst s) q id Hwf Hq). rewrite spec_char. exists s. auto.
Qed.

Lemma spec_ids_app am L del D m q id :
  In id (spec_ids am L (del ++ D) m q) <-> In id (spec_ids am L del m q) /\ ~ In id D.
Proof.
  rewrite !spec_char. split.
  - intros (s & Hin & Hn & Hm & He). rewrite in_app_iff in Hn. split; [exists s; repeat split; auto | tauto].
  - intros [(s & Hin & Hn & Hm & He) HD]. exists s. repeat split; auto. rewrite in_app_iff. tauto.
Qed.

(* DROP SERIES: afterwards every read returns what it returned before minus exactly the series the predicate named *)
Theorem drop_series_consistent am s m q m' q' id : wfL (d_L s) -> okq q -> okq q' ->
  let s' := drop_series am s m q in
  In id (read_repaired am (d_T s') (d_del s') m' q') <->
  In id (read_repaired am (d_T s) (d_del s) m' q') /\ ~ In id (spec_ids am (d_L s) (d_del s) m q).
Proof.
  intros Hwf Hq Hq' s'. unfold s', drop_series, d_T. simpl.
  rewrite !read_repaired_exact; auto. rewrite spec_ids_app. rewrite (list_ids_exact am (d_L s) (d_del s) m q id Hwf Hq). tauto.
Qed.

(* ... in particular reads of other measurements are unchanged *)
Theorem drop_series_other_unchanged am s m q m' q' id : wfL (d_L s) -> okq q -> okq q' -> m' <> m ->
  let s' := drop_series am s m q in
  In id (read_repaired am (d_T s') (d_del s') m' q') <-> In id (read_repaired am (d_T s) (d_del s) m' q').
Proof.
  intros Hwf Hq Hq' Hne s'. unfold s'. rewrite drop_series_consistent; auto. split; [tauto |]. intros H. split; auto.
  unfold d_T in H. rewrite read_repaired_exact in H; auto. rewrite spec_char in *. destruct H as (s1 & Hin1 & _ & Hm1 & _).
  intros (s2 & Hin2 & _ & Hm2 & _). destruct Hwf as [Hnd _]. rewrite (uniq_id _ _ _ _ Hnd Hin1 Hin2) in Hm1. congruence.
Qed.

(* a dropped id is never returned by any repaired read path *)
Theorem repaired_never_returns_dropped am s m q id : wfL (d_L s) -> okq q ->
  In id (d_del s) -> ~ In id (read_repaired am (d_T s) (d_del s) m q).
Proof.
  intros Hwf Hq Hd H. unfold d_T in H. rewrite read_repaired_exact in H; auto. rewrite spec_char in H.
  destruct H as (_ & _ & Hn & _). contradiction.
Qed.

(* flush, compaction, restart and kill -9 are no-ops on what a read may return *)
Theorem noop_stable am s n : drun am s (repeat DNoop n) = s.
Proof. induction n as [| n IH]; simpl; auto. Qed.

(* ---- writes after a drop *)
Definition dwf (s : dstate) : Prop :=
  wfL (d_L s) /\ (forall e, In e (d_L s) -> snd e <= d_next s) /\ (forall id, In id (d_del s) -> id <= d_next s).

Lemma lookup_live_none s k : lookup_live s k = None -> forall id, In (k, id) (d_L s) -> In id (d_del s).
Proof.
  unfold lookup_live.
  destruct (find (fun e => series_eqb (fst e) k && negb (mem (snd e) (d_del s))) (d_L s)) eqn:E; [discriminate |]. intros _ id Hin.
  apply (find_none _ _ E) in Hin. simpl in Hin. assert (Hs : series_eqb k k = true) by (apply series_eqb_true; reflexivity).
  rewrite Hs in Hin. simpl in Hin. apply negb_false_iff in Hin. apply mem_spec. exact Hin.
Qed.
Lemma lookup_live_some s k id : lookup_live s k = Some id -> In (k, id) (d_L s) /\ ~ In id (d_del s).
Proof.
  unfold lookup_live.
  destruct (find (fun e => series_eqb (fst e) k && negb (mem (snd e) (d_del s))) (d_L s)) as [[k' i'] |] eqn:E; [| discriminate].
  intros H. inversion H; subst.
  apply find_some in E. destruct E as [Hin Hb]. simpl in Hb. apply andb_true_iff in Hb. destruct Hb as [Hk Hn].
  apply series_eqb_true in Hk. subst. split; auto. apply nmem_iff. exact Hn.
Qed.

Lemma write_dwf s k : dwf s -> wf_tags (s_tags k) -> dwf (fst (write s k)).
Proof.
  intros (Hwf & Hb & Hd) Hk. unfold write. destruct (lookup_live s k) eqn:E; simpl; [exact (conj Hwf (conj Hb Hd)) |].
  destruct Hwf as [Hnd Hf]. repeat split; simpl.
  - rewrite map_app. simpl. apply nodup_snoc; auto. intros Hin. apply in_map_iff in Hin. destruct Hin as (e & Ee & Hin).
    apply Hb in Hin. rewrite Ee in Hin. lia.
  - apply Forall_app. split; auto.
  - intros e Hin. apply in_app_iff in Hin. destruct Hin as [Hin | [<- | []]]; simpl; [apply Hb in Hin; lia | lia].
  - intros id Hin. apply Hd in Hin. lia.
Qed.

(* writing to a key all of whose ids were dropped creates a FRESH series: a new id, not dropped, distinct from every earlier id
   of the key, visible to the reads whose predicate its tags satisfy - while the old ids stay hidden (previous theorem) *)
Theorem write_dropped_key_is_fresh am s k q : dwf s -> wf_tags (s_tags k) -> okq q ->
  (forall id, In (k, id) (d_L s) -> In id (d_del s)) ->
  evalq am q (s_tags k) = true ->
  let r := write s k in
  snd r = d_next s + 1 /\ ~ In (snd r) (d_del (fst r)) /\ (forall id0, In (k, id0) (d_L s) -> id0 <> snd r) /\
  In (snd r) (read_repaired am (d_T (fst r)) (d_del (fst r)) (s_mst k) q).
Proof.
  intros Hd Hk Hq Hall Hev r. pose proof (write_dwf s k Hd Hk) as Hd'. fold r in Hd'.
  destruct Hd as (Hwf & Hb & Hdel). unfold r, write in *.
  destruct (lookup_live s k) as [id |] eqn:E.
  - exfalso. apply lookup_live_some in E. destruct E as [Hin Hn]. apply Hn. apply Hall. exact Hin.
  - simpl in *. repeat split.
    + intros Hin. apply Hdel in Hin. lia.
    + intros id0 Hin. apply Hb in Hin. simpl in Hin. lia.
    + destruct Hd' as (Hwf' & _). unfold d_T. simpl. rewrite read_repaired_exact; auto. rewrite spec_char.
      exists k. repeat split; auto.
      * apply in_app_iff. right. left. reflexivity.
      * intros Hin. apply Hdel in Hin. lia.
Qed.

(* a write to a key that has a live id goes to that id (no new series) *)
Theorem write_live_key_same s k id : lookup_live s k = Some id -> write s k = (s, id).
Proof. intros E. unfold write. rewrite E. reflexivity. Qed.

(* ---- DROP MEASUREMENT *)
Theorem drop_measurement_exact am s m m' q id : wfL (d_L s) -> okq q ->
  let s' := drop_measurement s m in
  In id (read_repaired am (d_T s') (d_del s') m' q) <-> m' <> m /\ In id (read_repaired am (d_T s) (d_del s) m' q).
Proof.
  intros Hwf Hq s'. unfold s', drop_measurement, d_T. simpl.
  rewrite !read_repaired_exact; auto; [| apply wfL_filter; exact Hwf]. rewrite !spec_char. split.
  - intros (k & Hin & Hn & Hm & He). apply filter_In in Hin. destruct Hin as [Hin Hf]. simpl in Hf.
    apply negb_true_iff in Hf. apply N.eqb_neq in Hf. split; [congruence | exists k; auto].
  - intros [Hne (k & Hin & Hn & Hm & He)]. exists k. repeat split; auto. apply filter_In. split; auto. simpl.
    apply negb_true_iff. apply N.eqb_neq. congruence.
Qed.

(* a measurement re-created under the same logical name gets another physical name (version), under which nothing is visible -
   whether or not the files and index items of the old physical name have been purged yet *)
Lemma next_version_differs v : v < 65536 -> next_version v <> v.
Proof.
  unfold next_version. intros Hv E. destruct (N.eq_dec v 65535) as [-> | Hne]; [discriminate E |].
  rewrite N.mod_small in E by lia. lia.
Qed.
Theorem recreate_is_fresh am s m2 q id : wfL (d_L s) -> okq q ->
  (forall e, In e (d_L s) -> s_mst (fst e) <> m2) ->
  ~ In id (read_repaired am (d_T s) (d_del s) m2 q).
Proof.
  intros Hwf Hq Hno H. unfold d_T in H. rewrite read_repaired_exact in H; auto. rewrite spec_char in H.
  destruct H as (k & Hin & _ & Hm & _). apply (Hno _ Hin). exact Hm.
Qed.
