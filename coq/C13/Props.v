(* C13 property theorems. Nothing but statements closed by `exact lemma` and Print Assumptions, plus Examples. *)
From Coq Require Import NArith List Bool.
From OG Require Import C10.Model C10.Proofs C13.Model C13.Proofs C13.Tree C13.TreeLemmas C13.TreeProofs.
Import ListNotations.
Open Scope N_scope.

(* every read path of the repaired model (no predicate = plain select / field filter / group by tag / group by time /
   aggregates; tag predicate of any shape) returns exactly the series that are not dropped and satisfy the predicate *)
Theorem C13_read_paths_exact : forall am L del m q id, wfL L -> okq q ->
  In id (read_repaired am (postings L) del m q) <-> In id (spec_ids am L del m q).
Proof. exact read_repaired_exact. Qed.
Print Assumptions C13_read_paths_exact.

(* so do the listings and the id search DROP SERIES itself uses (already today) *)
Theorem C13_listing_path_exact : forall am L del m q id, wfL L -> okq q ->
  In id (list_ids am (postings L) del m q) <-> In id (spec_ids am L del m q).
Proof. exact list_ids_exact. Qed.
Print Assumptions C13_listing_path_exact.

(* SHOW TAG VALUES ... WITH KEY = k WHERE q and SHOW TAG KEYS ... WHERE q: a value / key is listed iff a series that is not
   dropped, of the measurement, satisfying q carries it - a dropped series contributes nothing, also when it satisfies q *)
Theorem C13_list_tag_values_where_exact : forall am L del m k q v, wfL L -> okq q -> k <> 0 ->
  In v (list_tag_values_where am (postings L) del m k q) <->
  exists s id, In (s, id) L /\ ~ In id del /\ s_mst s = m /\ evalq am q (s_tags s) = true /\ In (k, v) (s_tags s).
Proof. exact list_tag_values_where_exact. Qed.
Theorem C13_list_tag_keys_where_exact : forall am L del m q k, wfL L -> okq q ->
  In k (list_tag_keys_where am (postings L) del m q) <->
  exists s id v, In (s, id) L /\ ~ In id del /\ s_mst s = m /\ evalq am q (s_tags s) = true /\ In (k, v) (s_tags s).
Proof. exact list_tag_keys_where_exact. Qed.
Print Assumptions C13_list_tag_values_where_exact.
Print Assumptions C13_list_tag_keys_where_exact.

(* DROP SERIES with predicate q on measurement m: afterwards EVERY read (any measurement m', any shape q') returns what it
   returned before minus exactly the series q named - nothing else changes *)
Theorem C13_drop_series_consistent : forall am s m q m' q' id, wfL (d_L s) -> okq q -> okq q' ->
  let s' := drop_series am s m q in
  In id (read_repaired am (d_T s') (d_del s') m' q') <->
  In id (read_repaired am (d_T s) (d_del s) m' q') /\ ~ In id (spec_ids am (d_L s) (d_del s) m q).
Proof. exact drop_series_consistent. Qed.
Print Assumptions C13_drop_series_consistent.

Theorem C13_drop_series_other_measurements_unchanged : forall am s m q m' q' id, wfL (d_L s) -> okq q -> okq q' -> m' <> m ->
  let s' := drop_series am s m q in
  In id (read_repaired am (d_T s') (d_del s') m' q') <-> In id (read_repaired am (d_T s) (d_del s) m' q').
Proof. exact drop_series_other_unchanged. Qed.
Print Assumptions C13_drop_series_other_measurements_unchanged.

(* dropped data never reappears: a dropped id is returned by no read path, in any later state in which it is still recorded
   as dropped; flush / compaction / restart / kill -9 do not change the state reads depend on *)
Theorem C13_dropped_never_returned : forall am s m q id, wfL (d_L s) -> okq q ->
  In id (d_del s) -> ~ In id (read_repaired am (d_T s) (d_del s) m q).
Proof. exact repaired_never_returns_dropped. Qed.
Theorem C13_stable_under_flush_compact_restart : forall am s n, drun am s (repeat DNoop n) = s.
Proof. exact noop_stable. Qed.
Print Assumptions C13_dropped_never_returned.

(* a later write to a dropped key behaves as a write to a fresh series *)
Theorem C13_write_after_drop_is_fresh : forall am s k q, dwf s -> wf_tags (s_tags k) -> okq q ->
  (forall id, In (k, id) (d_L s) -> In id (d_del s)) ->
  evalq am q (s_tags k) = true ->
  let r := write s k in
  snd r = d_next s + 1 /\ ~ In (snd r) (d_del (fst r)) /\ (forall id0, In (k, id0) (d_L s) -> id0 <> snd r) /\
  In (snd r) (read_repaired am (d_T (fst r)) (d_del (fst r)) (s_mst k) q).
Proof. exact write_dropped_key_is_fresh. Qed.
Print Assumptions C13_write_after_drop_is_fresh.

(* DROP MEASUREMENT removes exactly that (physical) measurement from every read *)
Theorem drop_measurement_exact : forall am s m m' q id, wfL (d_L s) -> okq q ->
  let s' := drop_measurement s m in
  In id (read_repaired am (d_T s') (d_del s') m' q) <-> m' <> m /\ In id (read_repaired am (d_T s) (d_del s) m' q).
Proof. exact C13.Proofs.drop_measurement_exact. Qed.
Print Assumptions drop_measurement_exact.

(* re-creation: the version suffix changes, and under a physical name without items nothing is visible *)
Theorem recreate_is_fresh : forall am s m2 q id, wfL (d_L s) -> okq q ->
  (forall e, In e (d_L s) -> s_mst (fst e) <> m2) -> ~ In id (read_repaired am (d_T s) (d_del s) m2 q).
Proof. exact C13.Proofs.recreate_is_fresh. Qed.
Theorem recreate_version_differs : forall v, v < 65536 -> next_version v <> v.
Proof. exact next_version_differs. Qed.
Print Assumptions recreate_is_fresh.

(* non-vacuity: measurements 1 and 2; key host=1, values a=1 b=2; ids 5,6 in measurement 1 and 7 in measurement 2.
   drop series from 1 where host = a; then write host=a again. *)
Example C13_example :
  let am := fun _ _ => false in
  let s0 := mkD [(mkS 1 [(1, 1)], 5); (mkS 1 [(1, 2)], 6); (mkS 2 [(1, 1)], 7)] [] 7 [] in
  let s1 := drop_series am s0 1 (Some (Atom 1 Eq 1)) in
  let r := write s1 (mkS 1 [(1, 1)]) in
  d_del s1 = [5] /\
  read_repaired am (d_T s1) (d_del s1) 1 None = [6; 6] /\
  read_repaired am (d_T s1) (d_del s1) 1 (Some (Atom 1 Neq 2)) = [] /\
  read_repaired am (d_T s1) (d_del s1) 2 None = [7; 7] /\
  snd r = 8 /\ read_repaired am (d_T (fst r)) (d_del (fst r)) 1 (Some (Atom 1 Eq 1)) = [8] /\
  read_repaired am (d_T (drop_measurement s1 1)) (d_del s1) 1 None = [].
Proof. vm_compute. repeat split. Qed.

(* =====================================================================================================================
   THE WHOLE STATEMENT as one machine (C13/Tree.v): databases -> retention policies -> measurement incarnations -> series index
   with deleted ids -> memtable / files; operations: create database / policy, write, DROP SERIES / MEASUREMENT / RETENTION POLICY /
   DATABASE, flush, compaction, sync of the deleted-id table, restart.  [trun true true true] = an acknowledged DROP SERIES is on
   disk, the memtable was flushed before it, a new series index is wired to the policy's deleted-series table at creation (the
   _repaired variants; Refuted.v refutes [trun false _ _], [trun _ false _] and [trun _ _ false]). *)

(* refinement: after ANY operation sequence, EVERY read shape (None = plain select / field filter / group by / aggregates;
   Some e = any tag predicate) of every (database, policy, measurement) returns exactly the rows of the reference machine -
   the reference map the black-box oracle uses: drops filter it, flush / compaction / restart do not touch it *)
Theorem C13_tree_refines_reference : forall am os d r n q x, Forall top_ok os -> okq q ->
  In x (tread am (trun true true true am t0 os) d r n q) <-> In x (sread am (srun am s0 os) d r n q).
Proof. exact tree_refines. Qed.
Print Assumptions C13_tree_refines_reference.
(* ... and so does every listing (show series; tag values / tag keys are projections of it) *)
Theorem C13_tree_listing_refines_reference : forall am os d r n q tg, Forall top_ok os -> okq q ->
  In tg (tlist am (trun true true true am t0 os) d r n q) <-> In tg (slist am (srun am s0 os) d r n q).
Proof. exact tree_list_refines. Qed.
Print Assumptions C13_tree_listing_refines_reference.

(* each of the four drops removes exactly what it names, for every read of every location: the answer after the drop is the
   answer before it minus the rows named ([hit]: same policy + measurement + predicate / same policy + measurement / same
   policy / same database); everything else is unchanged *)
Theorem C13_every_drop_removes_exactly_what_it_names : forall am ops X d r n q x,
  Forall top_ok (ops ++ [X]) -> okq q -> is_drop X = true ->
  In x (tread am (trun true true true am t0 (ops ++ [X])) d r n q) <->
  In x (tread am (trun true true true am t0 ops) d r n q) /\ hit am X d r n (o_tags x) = false.
Proof. exact drop_exact. Qed.
Print Assumptions C13_every_drop_removes_exactly_what_it_names.

(* for good, and re-creation is fresh: after a drop X and ANY later operations (writes, re-creation of the database / policy /
   measurement / series, flushes, compactions, restarts, further drops), whatever any read returns from inside what X named was
   written after X - it carries the stamp of a later write *)
Theorem C13_after_a_drop_only_later_writes_are_visible_inside : forall am ops1 X ops2 d r n q x,
  Forall top_ok (ops1 ++ X :: ops2) -> okq q ->
  In x (tread am (trun true true true am t0 (ops1 ++ X :: ops2)) d r n q) -> hit am X d r n (o_tags x) = true ->
  In (o_stamp x) (flat_map stamp_of ops2).
Proof. exact after_drop_fresh. Qed.
Print Assumptions C13_after_a_drop_only_later_writes_are_visible_inside.
Theorem C13_dropped_never_reappears : forall am ops1 X ops2 d r n q x,
  Forall top_ok (ops1 ++ X :: ops2) -> okq q ->
  hit am X d r n (o_tags x) = true -> ~ In (o_stamp x) (flat_map stamp_of ops2) ->
  ~ In x (tread am (trun true true true am t0 (ops1 ++ X :: ops2)) d r n q).
Proof. exact dropped_never_reappears. Qed.
Print Assumptions C13_dropped_never_reappears.

(* several series indexes per policy (one per week of data) inside the same machine: in every reachable state every index of every
   policy consults exactly the policy's deleted set - so the refinement above already speaks about a DROP SERIES that spans indexes,
   about indexes created after the deleted-series table, and about restarts *)
Theorem C13_tree_every_index_consults_the_deleted_set : forall am os d r p g, Forall top_ok os ->
  kget (d, r) (t_pols (trun true true true am t0 os)) = Some p -> In g (map fst (p_idx p)) -> eff p g = d_del (p_ix p).
Proof. exact tree_wiring. Qed.
Print Assumptions C13_tree_every_index_consults_the_deleted_set.

(* flush, compaction, restart and the table sync, anywhere in a history, change no read at any later time *)
Theorem C13_flush_compact_restart_invisible : forall am ops1 o ops2 d r n q x,
  Forall top_ok (ops1 ++ o :: ops2) -> okq q -> invisible o = true ->
  In x (tread am (trun true true true am t0 (ops1 ++ o :: ops2)) d r n q) <-> In x (tread am (trun true true true am t0 (ops1 ++ ops2)) d r n q).
Proof. exact invisible_ops. Qed.
Print Assumptions C13_flush_compact_restart_invisible.

(* a write into an existing policy - whatever was dropped there before - is visible, with its value, to every read whose
   predicate its tags satisfy *)
Theorem C13_write_after_any_history_is_visible : forall am ops d r n tags t v w q,
  Forall top_ok ops -> wf_tags tags -> okq q ->
  kget (d, r) (t_pols (trun true true true am t0 ops)) <> None -> evalq am q tags = true ->
  In (tags, t, v, w) (tread am (trun true true true am t0 (ops ++ [TWrite d r n tags t v w])) d r n q).
Proof. exact write_visible. Qed.
Print Assumptions C13_write_after_any_history_is_visible.

(* non-vacuity: database 1, policy 1, measurement 5, tag host=1 with values a=1, b=2. Writes, flush, DROP SERIES host=a, a new
   write to host=a, compaction, restart, DROP MEASUREMENT + re-creation, DROP DATABASE + re-creation. *)
Definition ex_ops : list top :=
  [TCreateDB 1; TCreateRP 1 1; TWrite 1 1 5 [(1, 1)] 10 7 100; TWrite 1 1 5 [(1, 2)] 10 8 101; TFlush 1 1;
   TDropSeries 1 1 5 (Some (Atom 1 Eq 1)); TWrite 1 1 5 [(1, 1)] 11 9 102; TFlush 1 1; TCompact 1 1 0 2; TRestart 1 1].
(* two index groups (times 10.. and 700000..): the series host=a lives in both indexes with two ids; DROP SERIES removes both *)
Example C13_tree_two_indexes_example :
  let am := fun (_ _ : N) => false in
  let os := [TCreateDB 1; TCreateRP 1 1; TWrite 1 1 5 [(1, 1)] 10 7 100; TDropSeries 1 1 5 (Some (Atom 1 Eq 2));
             TDropSeries 1 1 5 (Some (Atom 1 Eq 1)); TWrite 1 1 5 [(1, 1)] 700000 8 101; TWrite 1 1 5 [(1, 2)] 700001 9 102;
             TWrite 1 1 5 [(1, 1)] 11 6 103] in
  (tread am (trun true true true am t0 os) 1 1 5 None = [([(1, 1)], 11, 6, 103); ([(1, 1)], 700000, 8, 101); ([(1, 2)], 700001, 9, 102)]) /\
  (tread am (trun true true true am t0 (os ++ [TDropSeries 1 1 5 (Some (Atom 1 Eq 1))])) 1 1 5 None = [([(1, 2)], 700001, 9, 102)]).
Proof. vm_compute. split; reflexivity. Qed.

Example C13_tree_example :
  let am := fun (_ _ : N) => false in
  Forall top_ok ex_ops /\
  (tread am (trun true true true am t0 ex_ops) 1 1 5 None = [([(1, 2)], 10, 8, 101); ([(1, 1)], 11, 9, 102)]) /\
  (tlist am (trun true true true am t0 ex_ops) 1 1 5 None = [[(1, 2)]; [(1, 2)]; [(1, 1)]; [(1, 1)]]) /\
  (tread am (trun true true true am t0 (ex_ops ++ [TDropMst 1 1 5; TWrite 1 1 5 [(1, 2)] 12 1 103])) 1 1 5 None = [([(1, 2)], 12, 1, 103)]) /\
  (tread am (trun true true true am t0 (ex_ops ++ [TDropDB 1; TCreateDB 1; TCreateRP 1 1])) 1 1 5 None = []) /\
  (tread am (trun true true true am t0 (ex_ops ++ [TDropRP 1 1; TCreateRP 1 1; TWrite 1 1 5 [(1, 1)] 10 3 104])) 1 1 5 None = [([(1, 1)], 10, 3, 104)]).
Proof.
  intros am. split.
  - unfold ex_ops. repeat (apply Forall_cons; [simpl; try exact I |]); try apply Forall_nil.
    all: try (split; [repeat constructor; intros [] | repeat constructor; discriminate]).
    discriminate.
  - vm_compute. repeat split; reflexivity.
Qed.

(* =====================================================================================================================
   which deleted set a search consults (C13/Wiring.v; finding C13-drop-ignored-by-new-index): with a new index wired to the
   policy's deleted-id table at creation, every index of the policy consults exactly the policy's deleted set after any history
   of index creations, DROP SERIES statements and restarts *)
From OG Require Import C13.Wiring C13.Purge.
Theorem C13_every_index_consults_the_deleted_set : forall os i b,
  In (i, b) (w_idx (wrun true w0 os)) -> eff (wrun true w0 os) b = w_del (wrun true w0 os).
Proof. exact wired_repaired. Qed.
Print Assumptions C13_every_index_consults_the_deleted_set.
Example C13_wiring_example :
  let s := wrun true w0 [WNewIndex 1; WDrop [5]; WNewIndex 2; WDrop [6]; WRestart; WNewIndex 3] in
  w_idx s = [(1, true); (2, true); (3, true)] /\ w_del s = [5; 6].
Proof. vm_compute. split; reflexivity. Qed.

(* the physical purge of dropped series from an index part (C13/Purge.v; finding C13-purge-loses-live-items): with the item that
   did not fit re-added after the block flush, and tag->ids rows rewritten id by id, the new part holds exactly the items of the
   old one with exactly their ids that are not deleted, in order - for all item lists, item sizes and block capacities - and no
   block exceeds the capacity when every single item fits *)
Theorem C13_purge_keeps_exactly_the_live_items : forall (H : Type) (hsz : H -> N) (del : N -> bool) (cap : N) (l : list (item H)),
  purge_repaired H hsz del cap l = purge_spec H del l.
Proof. exact purge_repaired_exact. Qed.
Print Assumptions C13_purge_keeps_exactly_the_live_items.
Theorem C13_purge_blocks_fit : forall (H : Type) (hsz : H -> N) (del : N -> bool) (cap : N) (l : list (item H)),
  (forall x y, In x l -> keep_repaired H del x = Some y -> isz H hsz y <= cap) ->
  Forall (fun b => bsz H hsz b <= cap) (pack H hsz cap true (keep_repaired H del) l [] 0 []).
Proof. exact purge_repaired_blocks_fit. Qed.
Print Assumptions C13_purge_blocks_fit.
Example C13_purge_example :
  purge_repaired N (fun h => h) (fun i => i =? 2) 30 [(4, [1]); (4, [2]); (4, [3]); (4, [4]); (2, [1; 2; 3]); (2, [2])]
  = [(4, [1]); (4, [3]); (4, [4]); (2, [1; 3])].
Proof. vm_compute. reflexivity. Qed.

(* the purge pass over a whole table (C13/Purge.v PurgePass; finding C13-purge-forgets-ids-of-skipped-parts): when the ids are kept
   in the deleted-series table unless every part was filtered, the pass never makes a dropped id visible - whatever parts are being
   merged - and never hides a live one *)
Theorem C13_purge_pass_never_unhides_dropped : forall t id, In id (pt_deleted t) -> ~ In id (visible_ids (purge_pass true t)).
Proof. exact purge_pass_hides. Qed.
Theorem C13_purge_pass_keeps_live : forall k t id, ~ In id (pt_deleted t) -> In id (flat_map snd (pt_parts t)) ->
  In id (visible_ids (purge_pass k t)).
Proof. exact purge_pass_keeps_live. Qed.
Print Assumptions C13_purge_pass_never_unhides_dropped.
Print Assumptions C13_purge_pass_keeps_live.
Example C13_purge_pass_example :
  visible_ids (purge_pass true (mkPT [(true, [1; 2; 3]); (false, [2; 4])] [2])) = [1; 3; 4] /\
  visible_ids (purge_pass true (mkPT [(false, [1; 2; 3]); (false, [2; 4])] [2])) = [1; 3; 4].
Proof. vm_compute. split; reflexivity. Qed.

(* =====================================================================================================================
   DROP DATABASE / RETENTION POLICY / MEASUREMENT as the phases the code runs (C13/Phases.v): mark in the catalogue (the
   acknowledgement), file-by-file deletion on every store, finalisation only when every store is empty; any crash between steps.
   [pnext true] = today's guard on the finalisation. *)
From OG Require Import C13.Phases.
(* not dropped before the acknowledgement: crashes, stray store messages and finalisation attempts change nothing of a live object *)
Theorem C13_phases_live_object_untouched : forall g s os, ps_cat s = Live -> forallb background os = true -> prun g s os = s.
Proof. exact live_untouched. Qed.
(* dropped at every crash point after it: nothing is readable until the name is created again, and that is refused while marked *)
Theorem C13_phases_dropped_at_every_point : forall g s os, ps_cat s <> Live -> forallb not_create os = true -> pvisible (prun g s os) = [].
Proof. exact dropped_at_every_point. Qed.
Theorem C13_phases_create_refused_while_marked : forall g s, ps_cat s = Marked -> pnext g s PCreate = s.
Proof. exact create_refused_while_marked. Qed.
(* a re-run completes from every crash point: after any part of the deletion, one more round frees the name and empties every store *)
Theorem C13_phases_rerun_completes : forall s os, ps_cat s = Marked -> forallb deletion_step os = true ->
  ps_cat (pround true (prun true s os)) = Absent /\ all_empty (ps_files (pround true (prun true s os))) = true.
Proof. exact rerun_completes. Qed.
(* re-creation is fresh in every reachable state: no file of an earlier object of the name is ever visible, and a free name has no files *)
Theorem C13_phases_recreated_is_fresh : forall n os x, In x (pvisible (prun true (p0 n) os)) -> x = ps_inc (prun true (p0 n) os).
Proof. exact recreated_is_fresh. Qed.
Theorem C13_phases_free_name_has_no_files : forall n os, ps_cat (prun true (p0 n) os) = Absent -> all_empty (ps_files (prun true (p0 n) os)) = true.
Proof. exact free_name_has_no_files. Qed.
Print Assumptions C13_phases_live_object_untouched.
Print Assumptions C13_phases_dropped_at_every_point.
Print Assumptions C13_phases_rerun_completes.
Print Assumptions C13_phases_recreated_is_fresh.
Print Assumptions C13_phases_free_name_has_no_files.
Example C13_phases_example :
  let s := prun true (p0 2) [PCreate; PWrite 0; PWrite 1; PWrite 1; PMark; PStoreDelete 1; PCrash; PFinalize; PCreate; PWrite 0] in
  ps_cat s = Marked /\ pvisible s = [] /\ ps_files s = [[1]; [1]] /\
  pvisible (prun true (pround true s) [PCreate; PWrite 0]) = [2].
Proof. vm_compute. repeat split; reflexivity. Qed.
(* listings and selects agree at every point when the listing's catalogue walk skips marked objects as well *)
Theorem C13_phases_listing_agrees_with_select : forall s, plisted true s = pvisible s.
Proof. exact listed_consistent. Qed.
Print Assumptions C13_phases_listing_agrees_with_select.
