(* C13 property theorems. Nothing but statements closed by `exact lemma` and Print Assumptions, plus Examples. *)
From Coq Require Import NArith List Bool.
From OG Require Import C10.Model C10.Proofs C13.Model C13.Proofs.
Import ListNotations.
Open Scope N_scope.

(* every read path of the repaired model (no predicate = plain select / field filter / group by tag / group by time /
   aggregates; tag predicate of any shape) returns exactly the series that are not dropped and satisfy the predicate *)
Theorem C13_read_paths_exact : forall am L del m q id, wfL L -> okq q ->
  In id (read_repaired am (postings L) del m q) <-> In id (spec_ids am L del m q).
Proof. exact read_repaired_exact. Qed.
Print Assumptions C13_read_paths_exact.

(* so do the listings and the id search DROP SERIES itself uses (already today) *)
Theorem C13_listing_path_exact : forall am L del m q id, wfL L -> okq q ->
  In id (list_ids am (postings L) del m q) <-> In id (spec_ids am L del m q).
Proof. exact list_ids_exact. Qed.
Print Assumptions C13_listing_path_exact.

(* SHOW TAG VALUES ... WITH KEY = k WHERE q and SHOW TAG KEYS ... WHERE q: a value / key is listed iff a series that is not
   dropped, of the measurement, satisfying q carries it - a dropped series contributes nothing, also when it satisfies q *)
Theorem C13_list_tag_values_where_exact : forall am L del m k q v, wfL L -> okq q -> k <> 0 ->
  In v (list_tag_values_where am (postings L) del m k q) <->
  exists s id, In (s, id) L /\ ~ In id del /\ s_mst s = m /\ evalq am q (s_tags s) = true /\ In (k, v) (s_tags s).
Proof. exact list_tag_values_where_exact. Qed.
Theorem C13_list_tag_keys_where_exact : forall am L del m q k, wfL L -> okq q ->
  In k (list_tag_keys_where am (postings L) del m q) <->
  exists s id v, In (s, id) L /\ ~ In id del /\ s_mst s = m /\ evalq am q (s_tags s) = true /\ In (k, v) (s_tags s).
Proof. exact list_tag_keys_where_exact. Qed.
Print Assumptions C13_list_tag_values_where_exact.
Print Assumptions C13_list_tag_keys_where_exact.

(* DROP SERIES with predicate q on measurement m: afterwards EVERY read (any measurement m', any shape q') returns what it
   returned before minus exactly the series q named - nothing else changes *)
Theorem C13_drop_series_consistent : forall am s m q m' q' id, wfL (d_L s) -> okq q -> okq q' ->
  let s' := drop_series am s m q in
  In id (read_repaired am (d_T s') (d_del s') m' q') <->
  In id (read_repaired am (d_T s) (d_del s) m' q') /\ ~ In id (spec_ids am (d_L s) (d_del s) m q).
Proof. exact drop_series_consistent. Qed.
Print Assumptions C13_drop_series_consistent.

Theorem C13_drop_series_other_measurements_unchanged : forall am s m q m' q' id, wfL (d_L s) -> okq q -> okq q' -> m' <> m ->
  let s' := drop_series am s m q in
  In id (read_repaired am (d_T s') (d_del s') m' q') <-> In id (read_repaired am (d_T s) (d_del s) m' q').
Proof. exact drop_series_other_unchanged. Qed.
Print Assumptions C13_drop_series_other_measurements_unchanged.

(* dropped data never reappears: a dropped id is returned by no read path, in any later state in which it is still recorded
   as dropped; flush / compaction / restart / kill -9 do not change the state reads depend on *)
Theorem C13_dropped_never_returned : forall am s m q id, wfL (d_L s) -> okq q ->
  In id (d_del s) -> ~ In id (read_repaired am (d_T s) (d_del s) m q).
Proof. exact repaired_never_returns_dropped. Qed.
Theorem C13_stable_under_flush_compact_restart : forall am s n, drun am s (repeat DNoop n) = s.
Proof. exact noop_stable. Qed.
Print Assumptions C13_dropped_never_returned.

(* a later write to a dropped key behaves as a write to a fresh series *)
Theorem C13_write_after_drop_is_fresh : forall am s k q, dwf s -> wf_tags (s_tags k) -> okq q ->
  (forall id, In (k, id) (d_L s) -> In id (d_del s)) ->
  evalq am q (s_tags k) = true ->
  let r := write s k in
  snd r = d_next s + 1 /\ ~ In (snd r) (d_del (fst r)) /\ (forall id0, In (k, id0) (d_L s) -> id0 <> snd r) /\
  In (snd r) (read_repaired am (d_T (fst r)) (d_del (fst r)) (s_mst k) q).
Proof. exact write_dropped_key_is_fresh. Qed.
Print Assumptions C13_write_after_drop_is_fresh.

(* DROP MEASUREMENT removes exactly that (physical) measurement from every read *)
Theorem drop_measurement_exact : forall am s m m' q id, wfL (d_L s) -> okq q ->
  let s' := drop_measurement s m in
  In id (read_repaired am (d_T s') (d_del s') m' q) <-> m' <> m /\ In id (read_repaired am (d_T s) (d_del s) m' q).
Proof. exact C13.Proofs.drop_measurement_exact. Qed.
Print Assumptions drop_measurement_exact.

(* re-creation: the version suffix changes, and under a physical name without items nothing is visible *)
Theorem recreate_is_fresh : forall am s m2 q id, wfL (d_L s) -> okq q ->
  (forall e, In e (d_L s) -> s_mst (fst e) <> m2) -> ~ In id (read_repaired am (d_T s) (d_del s) m2 q).
Proof. exact C13.Proofs.recreate_is_fresh. Qed.
Theorem recreate_version_differs : forall v, v < 65536 -> next_version v <> v.
Proof. exact next_version_differs. Qed.
Print Assumptions recreate_is_fresh.

(* non-vacuity: measurements 1 and 2; key host=1, values a=1 b=2; ids 5,6 in measurement 1 and 7 in measurement 2.
   drop series from 1 where host = a; then write host=a again. *)
Example C13_example :
  let am := fun _ _ => false in
  let s0 := mkD [(mkS 1 [(1, 1)], 5); (mkS 1 [(1, 2)], 6); (mkS 2 [(1, 1)], 7)] [] 7 [] in
  let s1 := drop_series am s0 1 (Some (Atom 1 Eq 1)) in
  let r := write s1 (mkS 1 [(1, 1)]) in
  d_del s1 = [5] /\
  read_repaired am (d_T s1) (d_del s1) 1 None = [6; 6] /\
  read_repaired am (d_T s1) (d_del s1) 1 (Some (Atom 1 Neq 2)) = [] /\
  read_repaired am (d_T s1) (d_del s1) 2 None = [7; 7] /\
  snd r = 8 /\ read_repaired am (d_T (fst r)) (d_del (fst r)) 1 (Some (Atom 1 Eq 1)) = [8] /\
  read_repaired am (d_T (drop_measurement s1 1)) (d_del s1) 1 None = [].
Proof. vm_compute. repeat split. Qed.
