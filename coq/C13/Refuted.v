(* C13: what today's code does not satisfy. Witnesses closed by vm_compute. *)
From Coq Require Import NArith List Bool.
From OG Require Import C10.Model C13.Model.
Import ListNotations.
Open Scope N_scope.

(* After `drop series from m where host='a'` the listing path no longer returns the series, but every read that starts from
   "all series of the measurement" (plain select, field filter, group by, aggregates, != and !~ filters) still does -
   whenever the index holds a measurement that sorts after m. Measurements 1 < 2; ids 5 (host=a), 6 (host=b) in 1; 7 in 2. *)
Theorem C13_current_refuted :
  exists (am : N -> N -> bool) (orv : N -> bool) (ord : N -> N -> bool) (s : dstate) (m : N) (q : option expr) (id : N),
    let s' := drop_series am s m q in
    ~ In id (list_ids am (d_T s') (d_del s') m None) /\
    In id (read_current am orv ord (d_T s') (d_del s') m None) /\
    In id (read_current am orv ord (d_T s') (d_del s') m (Some (Atom 1 Neq 2))).
Proof.
  exists (fun _ _ => false), (fun _ => false), (fun a b => a <? b),
         (mkD [(mkS 1 [(1, 1)], 5); (mkS 1 [(1, 2)], 6); (mkS 2 [(1, 1)], 7)] [] 7 []), 1, (Some (Atom 1 Eq 1)), 5.
  vm_compute. repeat split.
  - intros [H | [H | []]]; discriminate.
  - left. reflexivity.
  - left. reflexivity.
Qed.
Print Assumptions C13_current_refuted.

(* a regex tag filter that is translated into exact-value lookups (host =~ /a|b/) does not consult the deleted set at all,
   even for the last measurement of the index *)
Theorem C13_current_refuted_alternatives :
  exists (am : N -> N -> bool) (orv : N -> bool) (ord : N -> N -> bool) (s : dstate) (id : N),
    In id (d_del s) /\ In id (read_current am orv ord (d_T s) (d_del s) 1 (Some (Atom 1 Re 1))).
Proof.
  exists (fun p v => (p =? 1) && ((v =? 1) || (v =? 2))), (fun p => p =? 1), (fun a b => a <? b),
         (mkD [(mkS 1 [(1, 1)], 5); (mkS 1 [(1, 2)], 6)] [5] 6 []), 5.
  vm_compute. split; left; reflexivity.
Qed.
Print Assumptions C13_current_refuted_alternatives.
