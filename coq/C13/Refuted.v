(* C13: what today's code does not satisfy. Witnesses closed by vm_compute. *)
From Coq Require Import NArith List Bool.
From OG Require Import C10.Model C13.Model.
Import ListNotations.
Open Scope N_scope.

(* After `drop series from m where host='a'` the listing path no longer returns the series, but every read that starts from
   "all series of the measurement" (plain select, field filter, group by, aggregates, != and !~ filters) still does -
   whenever the index holds a measurement that sorts after m. Measurements 1 < 2; ids 5 (host=a), 6 (host=b) in 1; 7 in 2. *)
Theorem C13_current_refuted :
  exists (am : N -> N -> bool) (orv : N -> bool) (ord : N -> N -> bool) (s : dstate) (m : N) (q : option expr) (id : N),
    let s' := drop_series am s m q in
    ~ In id (list_ids am (d_T s') (d_del s') m None) /\
    In id (read_current am orv ord (d_T s') (d_del s') m None) /\
    In id (read_current am orv ord (d_T s') (d_del s') m (Some (Atom 1 Neq 2))).
Proof.
  exists (fun _ _ => false), (fun _ => false), (fun a b => a <? b),
         (mkD [(mkS 1 [(1, 1)], 5); (mkS 1 [(1, 2)], 6); (mkS 2 [(1, 1)], 7)] [] 7 []), 1, (Some (Atom 1 Eq 1)), 5.
  vm_compute. repeat split.
  - intros [H | [H | []]]; discriminate.
  - left. reflexivity.
  - left. reflexivity.
Qed.
Print Assumptions C13_current_refuted.

(* a regex tag filter that is translated into exact-value lookups (host =~ /a|b/) does not consult the deleted set at all,
   even for the last measurement of the index *)
Theorem C13_current_refuted_alternatives :
  exists (am : N -> N -> bool) (orv : N -> bool) (ord : N -> N -> bool) (s : dstate) (id : N),
    In id (d_del s) /\ In id (read_current am orv ord (d_T s) (d_del s) 1 (Some (Atom 1 Re 1))).
Proof.
  exists (fun p v => (p =? 1) && ((v =? 1) || (v =? 2))), (fun p => p =? 1), (fun a b => a <? b),
         (mkD [(mkS 1 [(1, 1)], 5); (mkS 1 [(1, 2)], 6)] [5] 6 []), 5.
  vm_compute. split; left; reflexivity.
Qed.
Print Assumptions C13_current_refuted_alternatives.

(* ---- persistence of the deleted-id table (finding C13-drop-lost-on-crash): with today's DROP SERIES ([trun false true true]: the ids are
   in the in-memory set and in the table's raw items when the statement is acknowledged, in a part on disk only after the table's
   next flush) a restart right after the drop brings the dropped series back - the system model then returns a row the reference
   does not hold. Database 1, policy 1, measurement 5, series host=a (stamp 100) and host=b (101). *)
From OG Require Import C13.Tree.
Definition crash_ops : list top :=
  [TCreateDB 1; TCreateRP 1 1; TWrite 1 1 5 [(1, 1)] 10 7 100; TWrite 1 1 5 [(1, 2)] 10 8 101; TFlush 1 1;
   TDropSeries 1 1 5 (Some (Atom 1 Eq 1)); TRestart 1 1].
Theorem C13_drop_lost_on_crash_current_refuted :
  exists (am : N -> N -> bool) (os : list top) (x : orow),
    In x (tread am (trun false true true am t0 os) 1 1 5 None) /\ ~ In x (sread am (srun am s0 os) 1 1 5 None).
Proof.
  exists (fun _ _ => false), crash_ops, ([(1, 1)], 10, 7, 100). vm_compute. split.
  - left. reflexivity.
  - intros [H | []]. discriminate.
Qed.
Print Assumptions C13_drop_lost_on_crash_current_refuted.
(* the window closes with the next flush of the table: the same history with the sync before the restart agrees with the reference *)
Example C13_drop_survives_after_table_flush_current :
  let am := fun (_ _ : N) => false in
  let os := [TCreateDB 1; TCreateRP 1 1; TWrite 1 1 5 [(1, 1)] 10 7 100; TWrite 1 1 5 [(1, 2)] 10 8 101; TFlush 1 1;
             TDropSeries 1 1 5 (Some (Atom 1 Eq 1)); TSync 1 1; TRestart 1 1] in
  tread am (trun false true true am t0 os) 1 1 5 None = sread am (srun am s0 os) 1 1 5 None.
Proof. vm_compute. reflexivity. Qed.

(* ---- finding C13-drop-ignored-by-new-index: today an index created after the policy's deleted-id table exists is not wired to
   it; a later DROP SERIES records ids that the searches of that index never consult (until the next restart) *)
From OG Require Import C13.Wiring C13.Purge.
Theorem C13_new_index_not_wired_current_refuted :
  exists (os : list wop) (i : N) (b : bool),
    In (i, b) (w_idx (wrun false w0 os)) /\ eff (wrun false w0 os) b <> w_del (wrun false w0 os).
Proof. exists [WNewIndex 1; WDrop [5]; WNewIndex 2; WDrop [6]], 2, false. vm_compute. split; [right; left; reflexivity | discriminate]. Qed.
Print Assumptions C13_new_index_not_wired_current_refuted.
(* ... and the next restart wires it *)
Example C13_new_index_wired_by_restart_current :
  w_idx (wrun false w0 [WNewIndex 1; WDrop [5]; WNewIndex 2; WDrop [6]; WRestart]) = [(1, true); (2, true)].
Proof. vm_compute. reflexivity. Qed.

(* ---- finding C13-purge-loses-live-items: today's block-full path loses the item that did not fit (three live items of 12 bytes,
   blocks of 30 bytes: the third is gone), and a tag->ids row is judged by its last id only *)
Theorem C13_purge_current_refuted :
  exists (hsz : N -> N) (del : N -> bool) (cap : N) (l : list (item N)),
    purge_current N hsz del cap l <> purge_spec N del l.
Proof. exists (fun h => h), (fun _ => false), 30, [(4, [1]); (4, [2]); (4, [3])]. vm_compute. discriminate. Qed.
Theorem C13_purge_rows_current_refuted :
  exists (del : N -> bool) (l : list (item N)),
    purge_current N (fun h => h) del 1000 l <> purge_spec N del l /\
    purge_current N (fun h => h) del 1000 l = [(0, [2; 1])] /\ purge_spec N del l = [(0, [1]); (0, [1])].
Proof. exists (fun i => i =? 2), [(0, [1; 2]); (0, [2; 1])]. vm_compute. repeat split; discriminate. Qed.
Print Assumptions C13_purge_current_refuted.

(* ---- finding C13-dropped-rows-replayed-from-wal: today DROP SERIES leaves the rows written before it in the memtable and in the
   WAL ([trun _ false _]); after a crash the WAL replay looks their series keys up like new writes, the dropped id does not count,
   and the rows come back under a fresh series id - even when the drop itself is durable ([trun true _ _], or [TSync] before the crash) *)
Definition wal_ops : list top :=
  [TCreateDB 1; TCreateRP 1 1; TWrite 1 1 5 [(1, 1)] 10 7 100; TWrite 1 1 5 [(1, 2)] 10 8 101;
   TDropSeries 1 1 5 (Some (Atom 1 Eq 1)); TSync 1 1; TRestart 1 1].
Theorem C13_dropped_rows_replayed_from_wal_current_refuted :
  exists (am : N -> N -> bool) (os : list top) (x : orow),
    In x (tread am (trun true false true am t0 os) 1 1 5 None) /\ In x (tread am (trun false false true am t0 os) 1 1 5 None) /\
    ~ In x (sread am (srun am s0 os) 1 1 5 None).
Proof.
  exists (fun _ _ => false), wal_ops, ([(1, 1)], 10, 7, 100). vm_compute. repeat split.
  - left. reflexivity.
  - left. reflexivity.
  - intros [H | []]. discriminate.
Qed.
Print Assumptions C13_dropped_rows_replayed_from_wal_current_refuted.

(* ---- finding C13-purge-forgets-ids-of-skipped-parts: today the purge pass discards the flushed part of the deleted-series table
   also when it left a part alone because it was being merged; the dropped id 2 of that part is visible again (after the restart) *)
Theorem C13_purge_pass_current_refuted :
  exists (t : ptable) (id : N), In id (pt_deleted t) /\ In id (visible_ids (purge_pass false t)).
Proof. exists (mkPT [(true, [1; 2; 3]); (false, [2; 4])] [2]), 2. vm_compute. split; [left | right; left]; reflexivity. Qed.
Print Assumptions C13_purge_pass_current_refuted.

(* ---- what the guard of the finalisation is for (C13/Phases.v): were the Drop command applied right after the mark, a file of the
   dropped object would be visible in the object created next under the same name *)
From OG Require Import C13.Phases.
Theorem C13_phases_unguarded_finalisation_refuted :
  exists (os : list pstep) (x : N), In x (pvisible (prun false (p0 1) os)) /\ x <> ps_inc (prun false (p0 1) os).
Proof. exists [PCreate; PWrite 0; PMark; PFinalize; PCreate], 1. vm_compute. split; [left; reflexivity | discriminate]. Qed.
Print Assumptions C13_phases_unguarded_finalisation_refuted.

(* ---- the same finding inside the tree model ([trun _ _ false]: a new index is not wired): series host=a at time 10 (index group
   0) is dropped - the table is created and index 0 wired; host=b is written at time 700000 (a new index group) and dropped: the ids
   are recorded, the new index consults nothing, every read still returns b; a restart wires the index *)
Definition newidx_ops : list top :=
  [TCreateDB 1; TCreateRP 1 1; TWrite 1 1 5 [(1, 1)] 10 7 100; TFlush 1 1; TDropSeries 1 1 5 (Some (Atom 1 Eq 1));
   TWrite 1 1 5 [(1, 2)] 700000 8 101; TFlush 1 1; TDropSeries 1 1 5 (Some (Atom 1 Eq 2))].
Theorem C13_tree_new_index_not_wired_current_refuted :
  exists (am : N -> N -> bool) (os : list top) (x : orow),
    In x (tread am (trun true true false am t0 os) 1 1 5 None) /\ ~ In x (sread am (srun am s0 os) 1 1 5 None) /\
    ~ In x (tread am (trun true true false am t0 (os ++ [TRestart 1 1])) 1 1 5 None).
Proof.
  exists (fun _ _ => false), newidx_ops, ([(1, 2)], 700000, 8, 101). vm_compute. repeat split.
  - left. reflexivity.
  - intros [].
  - intros [].
Qed.
Print Assumptions C13_tree_new_index_not_wired_current_refuted.

(* ---- finding C13-marked-policy-still-listed: between the mark of a retention policy and the stores' deletion the listing still shows
   what the select already refuses *)
Theorem C13_phases_marked_policy_still_listed_current_refuted :
  exists (os : list pstep), plisted false (prun true (p0 1) os) <> pvisible (prun true (p0 1) os).
Proof. exists [PCreate; PWrite 0; PMark]. vm_compute. discriminate. Qed.
Print Assumptions C13_phases_marked_policy_still_listed_current_refuted.
