(* C13 - lemmas about the merged view (newest row of a point wins) and about association lists related entry by entry. *)
From Coq Require Import NArith List Bool Lia.
From OG Require Import C10.Model C10.Proofs C13.Model C13.Tree.
Import ListNotations.
Open Scope N_scope.

(* ---- same_pt is an equivalence *)
Lemma same_pt_iff a b : same_pt a b = true <-> r_m a = r_m b /\ r_id a = r_id b /\ r_t a = r_t b.
Proof. unfold same_pt. rewrite !andb_true_iff, !N.eqb_eq. tauto. Qed.
Lemma same_pt_refl a : same_pt a a = true.
Proof. apply same_pt_iff. auto. Qed.
Lemma same_pt_sym a b : same_pt a b = same_pt b a.
Proof.
  destruct (same_pt a b) eqn:E1, (same_pt b a) eqn:E2; auto.
  - apply same_pt_iff in E1. assert (same_pt b a = true) by (apply same_pt_iff; intuition congruence). congruence.
  - apply same_pt_iff in E2. assert (same_pt a b = true) by (apply same_pt_iff; intuition congruence). congruence.
Qed.
Lemma same_pt_trans a b c : same_pt a b = true -> same_pt b c = true -> same_pt a c = true.
Proof. rewrite !same_pt_iff. intuition congruence. Qed.
Lemma same_pt_congr a b c : same_pt a b = true -> same_pt a c = same_pt b c.
Proof.
  intros H. destruct (same_pt b c) eqn:E.
  - eapply same_pt_trans; eauto.
  - destruct (same_pt a c) eqn:E2; auto. rewrite same_pt_sym in H. rewrite (same_pt_trans _ _ _ H E2) in E. discriminate.
Qed.

Lemma existsb_same_congr a b l : same_pt a b = true -> existsb (same_pt a) l = existsb (same_pt b) l.
Proof. intros H. induction l as [| y r IH]; simpl; auto. rewrite IH, (same_pt_congr _ _ y H). reflexivity. Qed.

Lemma lww_in x l : In x (lww l) -> In x l.
Proof.
  induction l as [| y r IH]; simpl; auto. destruct (existsb (same_pt y) r).
  - intros H. right. auto.
  - intros [H | H]; auto.
Qed.

Lemma existsb_same_lww x l : existsb (same_pt x) (lww l) = existsb (same_pt x) l.
Proof.
  induction l as [| y r IH]; simpl; auto. destruct (existsb (same_pt y) r) eqn:E.
  - rewrite IH. destruct (same_pt x y) eqn:Exy; simpl; auto.
    rewrite (existsb_same_congr _ _ r Exy). exact E.
  - simpl. rewrite IH. reflexivity.
Qed.

(* appending a row: it replaces the visible row of its point *)
Lemma lww_snoc l x : lww (l ++ [x]) = filter (fun y => negb (same_pt y x)) (lww l) ++ [x].
Proof.
  induction l as [| y r IH]; simpl; auto.
  rewrite existsb_app. simpl. rewrite orb_false_r.
  destruct (existsb (same_pt y) r) eqn:E; simpl; auto.
  destruct (same_pt y x) eqn:Eyx; simpl; rewrite ?Eyx; simpl; auto. rewrite IH. reflexivity.
Qed.

Lemma lww_lww_app b c : lww (lww b ++ c) = lww (b ++ c).
Proof.
  induction b as [| y r IH]; simpl; auto.
  destruct (existsb (same_pt y) r) eqn:E.
  - rewrite existsb_app, E. simpl. exact IH.
  - simpl. rewrite !existsb_app, existsb_same_lww, E. simpl. rewrite IH. reflexivity.
Qed.
(* compaction: replacing a run of adjacent files by their merged view does not change the merged view of everything *)
Lemma lww_compact a b c : lww (a ++ lww b ++ c) = lww (a ++ b ++ c).
Proof.
  induction a as [| y r IH]; simpl; [apply lww_lww_app |].
  rewrite !existsb_app, existsb_same_lww, IH. reflexivity.
Qed.

Lemma existsb_same_filter (P : prow -> bool) y l :
  (forall a b, same_pt a b = true -> P a = P b) -> P y = true ->
  existsb (same_pt y) (filter P l) = existsb (same_pt y) l.
Proof.
  intros HP Hy. induction l as [| z r IH]; simpl; auto.
  destruct (P z) eqn:Ez; simpl; rewrite IH; auto.
  destruct (same_pt y z) eqn:E; simpl; auto. rewrite (HP _ _ E) in Hy. congruence.
Qed.
(* deleting whole points (a predicate that does not separate rows of one point) commutes with the merged view *)
Lemma lww_filter (P : prow -> bool) l :
  (forall a b, same_pt a b = true -> P a = P b) -> lww (filter P l) = filter P (lww l).
Proof.
  intros HP. induction l as [| y r IH]; simpl; auto.
  destruct (P y) eqn:Ey; simpl.
  - rewrite existsb_same_filter by auto. destruct (existsb (same_pt y) r); simpl; rewrite ?Ey, IH; auto.
  - destruct (existsb (same_pt y) r); simpl; rewrite ?Ey; auto.
Qed.

Lemma concat_map_filter {A} (P : A -> bool) (ls : list (list A)) : concat (map (filter P) ls) = filter P (concat ls).
Proof. induction ls as [| l r IH]; simpl; auto. rewrite filter_app, IH. reflexivity. Qed.

Lemma firstn_skipn_split {A} (l : list A) i k : l = firstn i l ++ firstn k (skipn i l) ++ skipn k (skipn i l).
Proof. rewrite (firstn_skipn k (skipn i l)). symmetry. apply firstn_skipn. Qed.

(* ---- association lists related entry by entry *)
Definition krel {A B} (R : A -> B -> Prop) (l1 : list (key * A)) (l2 : list (key * B)) : Prop :=
  Forall2 (fun a b => fst a = fst b /\ R (snd a) (snd b)) l1 l2.

Lemma krel_kupd {A B} (R : A -> B -> Prop) k f g l1 l2 :
  krel R l1 l2 -> (forall a b, R a b -> R (f a) (g b)) -> krel R (kupd k f l1) (kupd k g l2).
Proof.
  intros H Hf. induction H as [| [k1 a] [k2 b] r1 r2 [Hk HR] _ IH]; simpl; [constructor |].
  simpl in Hk. subst k2. constructor; auto. destruct (key_eqb k1 k); simpl; auto.
Qed.
Lemma krel_kdel {A B} (R : A -> B -> Prop) P l1 l2 : krel R l1 l2 -> krel R (kdel P l1) (kdel P l2).
Proof.
  intros H. induction H as [| [k1 a] [k2 b] r1 r2 [Hk HR] _ IH]; simpl; [constructor |].
  simpl in Hk. subst k2. destruct (P k1); simpl; auto. constructor; auto.
Qed.
Lemma krel_khas {A B} (R : A -> B -> Prop) k l1 l2 : krel R l1 l2 -> khas k l1 = khas k l2.
Proof.
  intros H. unfold khas. induction H as [| [k1 a] [k2 b] r1 r2 [Hk HR] _ IH]; simpl; auto.
  simpl in Hk. subst k2. rewrite IH. reflexivity.
Qed.
Lemma krel_kins {A B} (R : A -> B -> Prop) k a b l1 l2 : krel R l1 l2 -> R a b -> krel R (kins k a l1) (kins k b l2).
Proof.
  intros H HR. unfold kins. rewrite (krel_khas R k l1 l2 H). destruct (khas k l2); auto.
  apply Forall2_app; [exact H |]. constructor; [split; auto | constructor].
Qed.
Lemma krel_kget {A B} (R : A -> B -> Prop) k l1 l2 : krel R l1 l2 ->
  match kget k l1, kget k l2 with Some a, Some b => R a b | None, None => True | _, _ => False end.
Proof.
  intros H. unfold kget. induction H as [| [k1 a] [k2 b] r1 r2 [Hk HR] _ IH]; simpl; auto.
  simpl in Hk. subst k2. destruct (key_eqb k1 k); simpl; auto.
Qed.

Lemma key_eqb_eq a b : key_eqb a b = true <-> a = b.
Proof. unfold key_eqb. rewrite andb_true_iff, !N.eqb_eq. destruct a, b; simpl. split; [intros [-> ->]; auto | intros E; inversion E; auto]. Qed.
Lemma key_eqb_refl a : key_eqb a a = true.
Proof. apply key_eqb_eq. reflexivity. Qed.

(* reading an association list after the generic updates *)
Lemma kget_kupd_same {V} k (f : V -> V) l : kget k (kupd k f l) = option_map f (kget k l).
Proof.
  unfold kget, kupd. induction l as [| [k1 a] r IH]; simpl; auto.
  destruct (key_eqb k1 k) eqn:E; simpl; rewrite ?E; simpl; auto.
Qed.
Lemma kget_kupd_other {V} k k' (f : V -> V) l : k' <> k -> kget k' (kupd k f l) = kget k' l.
Proof.
  intros Hne. unfold kget, kupd. induction l as [| [k1 a] r IH]; simpl; auto.
  destruct (key_eqb k1 k) eqn:E; simpl.
  - apply key_eqb_eq in E. subst k1. destruct (key_eqb k k') eqn:E2; [apply key_eqb_eq in E2; congruence | exact IH].
  - destruct (key_eqb k1 k'); auto.
Qed.
Lemma kget_kdel {V} (P : key -> bool) k (l : list (key * V)) : kget k (kdel P l) = if P k then None else kget k l.
Proof.
  unfold kget, kdel. induction l as [| [k1 a] r IH]; simpl; [destruct (P k); auto |].
  destruct (P k1) eqn:E1; simpl.
  - rewrite IH. destruct (key_eqb k1 k) eqn:E; auto. apply key_eqb_eq in E. subst. rewrite E1. reflexivity.
  - destruct (key_eqb k1 k) eqn:E; auto. apply key_eqb_eq in E. subst. rewrite E1. reflexivity.
Qed.
Lemma kget_kins_same {V} k (v : V) l : kget k (kins k v l) = match kget k l with Some x => Some x | None => Some v end.
Proof.
  unfold kins, khas, kget. induction l as [| [k1 a] r IH]; simpl; [rewrite key_eqb_refl; auto |].
  destruct (key_eqb k1 k) eqn:E; simpl; rewrite ?E; auto.
  destruct (existsb (fun kv => key_eqb (fst kv) k) r) eqn:Ex; simpl; rewrite ?E; auto.
Qed.
Lemma find_app_ {A} (f : A -> bool) (a b : list A) :
  find f (a ++ b) = match find f a with Some x => Some x | None => find f b end.
Proof. induction a as [| x r IH]; simpl; auto. destruct (f x); auto. Qed.
Lemma kget_kins_other {V} k k' (v : V) l : k' <> k -> kget k' (kins k v l) = kget k' l.
Proof.
  intros Hne. unfold kins. destruct (khas k l); auto. unfold kget. rewrite find_app_.
  destruct (find (fun kv => key_eqb (fst kv) k') l); auto. simpl.
  destruct (key_eqb k k') eqn:E; auto. apply key_eqb_eq in E. congruence.
Qed.
