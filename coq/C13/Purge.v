(* C13 - the physical purge of dropped series from one part of the index table
   (lib/util/lifted/vm/mergeset/table.go: genTempPart, isDeleted; finding C13-purge-loses-live-items).
   The part's items are read in order; an item that is "deleted" is skipped, the others are appended to an in-memory block of at
   most [cap] bytes; when an item does not fit the block is flushed to the new part.
   * block-full path. _current: after the flush the loop CONTINUES - the item that did not fit is never added.
                      _repaired: the item is added to the emptied block.
   * tag->ids rows hold up to 64 ids. _current: a row is deleted iff its LAST id is deleted (isDeleted looks at the last 8 bytes).
                      _repaired: the row is rewritten with its ids that are not deleted and dropped when none is left.
   An item is (head, ids): its size is [hsz head + 8 * length ids]; key->id and id->key items have one id, other items none. *)
From Coq Require Import NArith List Bool Lia.
Import ListNotations.
Open Scope N_scope.

Section Purge.
  Variable H : Type.                        (* the bytes of an item that are not ids *)
  Variable hsz : H -> N.
  Variable del : N -> bool.                 (* the deleted-id set *)
  Variable cap : N.

  Definition item := (H * list N)%type.
  Definition isz (x : item) : N := hsz (fst x) + 8 * N.of_nat (length (snd x)).

  (* what happens to one item *)
  Definition keep_current (x : item) : option item :=
    match rev (snd x) with
    | last :: _ => if del last then None else Some x
    | [] => Some x
    end.
  Definition keep_repaired (x : item) : option item :=
    match snd x with
    | [] => Some x
    | ids => match filter (fun i => negb (del i)) ids with [] => None | l => Some (fst x, l) end
    end.

  (* the block loop: [blk] current block (reversed), [used] its bytes, [out] flushed blocks (reversed) *)
  Fixpoint pack (readd : bool) (keep : item -> option item) (l : list item) (blk : list item) (used : N) (out : list (list item))
    : list (list item) :=
    match l with
    | [] => rev (rev blk :: out)
    | x :: r =>
        match keep x with
        | None => pack readd keep r blk used out
        | Some y =>
            if used + isz y <=? cap then pack readd keep r (y :: blk) (used + isz y) out
            else if readd then pack readd keep r [y] (isz y) (rev blk :: out)
                 else pack readd keep r [] 0 (rev blk :: out)
        end
    end.
  Definition purge_current (l : list item) : list item := concat (pack false keep_current l [] 0 []).
  Definition purge_repaired (l : list item) : list item := concat (pack true keep_repaired l [] 0 []).

  (* the specification: every item with exactly its ids that are not deleted, in order; rows left without ids disappear *)
  Definition purge_spec (l : list item) : list item := flat_map (fun x => match keep_repaired x with Some y => [y] | None => [] end) l.

  Lemma concat_rev_cons (out : list (list item)) blk :
    concat (rev (blk :: out)) = concat (rev out) ++ blk.
  Proof. simpl. rewrite concat_app. simpl. rewrite app_nil_r. reflexivity. Qed.

  Lemma pack_repaired l : forall blk used out,
    concat (pack true keep_repaired l blk used out) = concat (rev out) ++ rev blk ++ purge_spec l.
  Proof.
    induction l as [| x r IH]; intros blk used out; simpl.
    - rewrite concat_app. simpl. rewrite !app_nil_r. reflexivity.
    - destruct (keep_repaired x) as [y |]; simpl; [| apply IH].
      destruct (used + isz y <=? cap).
      + rewrite IH. simpl. rewrite <- !app_assoc. reflexivity.
      + rewrite IH. simpl. rewrite concat_app. simpl. rewrite app_nil_r, <- !app_assoc. reflexivity.
  Qed.

  (* REPAIRED: the purge writes exactly the live content, whatever the items, their sizes and the block capacity *)
  Theorem purge_repaired_exact l : purge_repaired l = purge_spec l.
  Proof. unfold purge_repaired. rewrite pack_repaired. reflexivity. Qed.

  (* ... and no flushed block exceeds the capacity as long as every single item fits *)
  Definition bsz (b : list item) : N := fold_right (fun x a => isz x + a) 0 b.
  Lemma bsz_rev_cons y blk : bsz (rev (y :: blk)) = bsz (rev blk) + isz y.
  Proof.
    simpl. generalize (rev blk). intros l. induction l as [| a r IH]; simpl; [lia |]. rewrite IH. lia.
  Qed.
  Lemma pack_blocks l : forall blk used out,
    (forall x y, In x l -> keep_repaired x = Some y -> isz y <= cap) ->
    used = bsz (rev blk) -> used <= cap -> Forall (fun b => bsz b <= cap) out ->
    Forall (fun b => bsz b <= cap) (pack true keep_repaired l blk used out).
  Proof.
    induction l as [| x r IH]; intros blk used out Hfit Hu Hc Ho; simpl.
    - apply Forall_app. split; [apply Forall_rev; exact Ho |]. constructor; auto. rewrite <- Hu. exact Hc.
    - destruct (keep_repaired x) as [y |] eqn:Ek.
      + destruct (used + isz y <=? cap) eqn:E.
        * apply IH; auto.
          -- intros a b Ha. apply Hfit. right. exact Ha.
          -- rewrite bsz_rev_cons. lia.
          -- apply N.leb_le. exact E.
        * apply IH; auto.
          -- intros a b Ha. apply Hfit. right. exact Ha.
          -- simpl. lia.
          -- apply (Hfit x y); auto. left. reflexivity.
          -- constructor; auto. rewrite <- Hu. exact Hc.
      + apply IH; auto. intros a b Ha. apply Hfit. right. exact Ha.
  Qed.
  Theorem purge_repaired_blocks_fit l :
    (forall x y, In x l -> keep_repaired x = Some y -> isz y <= cap) ->
    Forall (fun b => bsz b <= cap) (pack true keep_repaired l [] 0 []).
  Proof. intros Hfit. apply pack_blocks; auto; simpl; try lia; try apply N.le_0_l. Qed.
End Purge.

(* ---- the purge pass over a whole table and the deleted-series table (finding C13-purge-forgets-ids-of-skipped-parts).
   A part that is being merged is left alone by the pass (RemoveItemsByDelTsidsFromParts skips isInMerge parts); afterwards
   IndexBuilder.DropSeries discards the flushed part of the deleted-series table (RemoveDeletedPart).
   _current: it discards it whenever the pass returned no error - also when parts were skipped: their items of dropped series are
   then no longer hidden after the next restart.  _repaired: it keeps the ids unless every part was filtered. *)
Section PurgePass.
  Definition tpart := (bool * list N)%type.            (* being merged?, the series ids its items carry *)
  Record ptable := mkPT { pt_parts : list tpart; pt_deleted : list N }.   (* index parts, ids in the deleted-series table on disk *)
  Definition nmem (x : N) (l : list N) : bool := existsb (N.eqb x) l.

  Definition purge_pass (keep_when_skipped : bool) (t : ptable) : ptable :=
    let del := pt_deleted t in
    let parts' := map (fun p : tpart => if fst p then p else (false, filter (fun i => negb (nmem i del)) (snd p))) (pt_parts t) in
    let skipped := existsb (fun p : tpart => fst p) (pt_parts t) in
    mkPT parts' (if keep_when_skipped && skipped then del else []).

  (* what a search returns after a restart: the ids of the parts that the deleted-series table does not hide *)
  Definition visible_ids (t : ptable) : list N := filter (fun i => negb (nmem i (pt_deleted t))) (flat_map snd (pt_parts t)).

  Lemma nmem_in x l : nmem x l = true <-> In x l.
  Proof.
    unfold nmem. rewrite existsb_exists. split.
    - intros (y & Hy & E). apply N.eqb_eq in E. subst. exact Hy.
    - intros Hin. exists x. split; auto. apply N.eqb_refl.
  Qed.

  (* REPAIRED: the pass never makes a dropped id visible, whatever parts are being merged *)
  Theorem purge_pass_hides t id : In id (pt_deleted t) -> ~ In id (visible_ids (purge_pass true t)).
  Proof.
    intros Hdel Hvis. unfold visible_ids, purge_pass in Hvis. simpl in Hvis.
    apply filter_In in Hvis. destruct Hvis as [Hin Hn]. apply negb_true_iff in Hn.
    destruct (existsb (fun p : tpart => fst p) (pt_parts t)) eqn:Esk; simpl in Hn.
    - assert (nmem id (pt_deleted t) = true) by (apply nmem_in; exact Hdel). congruence.
    - (* no part was skipped: every part was filtered *)
      apply in_flat_map in Hin. destruct Hin as (p' & Hp' & Hid). apply in_map_iff in Hp'. destruct Hp' as (p & <- & Hp).
      assert (fst p = false).
      { destruct (fst p) eqn:E; auto. assert (existsb (fun q : tpart => fst q) (pt_parts t) = true) by (apply existsb_exists; exists p; auto). congruence. }
      rewrite H in Hid. simpl in Hid. apply filter_In in Hid. destruct Hid as [_ Hf]. apply negb_true_iff in Hf.
      assert (nmem id (pt_deleted t) = true) by (apply nmem_in; exact Hdel). congruence.
  Qed.
  (* ... and it changes nothing else: an id that is not dropped stays visible *)
  Theorem purge_pass_keeps_live k t id : ~ In id (pt_deleted t) -> In id (flat_map snd (pt_parts t)) -> In id (visible_ids (purge_pass k t)).
  Proof.
    intros Hn Hin. assert (Hnm : nmem id (pt_deleted t) = false).
    { destruct (nmem id (pt_deleted t)) eqn:E; auto. apply nmem_in in E. contradiction. }
    unfold visible_ids, purge_pass. simpl. apply filter_In. split.
    - apply in_flat_map in Hin. destruct Hin as (p & Hp & Hid). apply in_flat_map.
      exists (if fst p then p else (false, filter (fun i => negb (nmem i (pt_deleted t))) (snd p))). split.
      + apply in_map_iff. exists p. auto.
      + destruct (fst p); simpl; auto. apply filter_In. split; auto. rewrite Hnm. reflexivity.
    - destruct (k && existsb (fun p : tpart => fst p) (pt_parts t)); simpl; auto. rewrite Hnm. reflexivity.
  Qed.
End PurgePass.
