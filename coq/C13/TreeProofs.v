(* C13 - the system model refines the reference machine: for every operation sequence every read of the system model
   (index + deleted set + incarnations + memtable / files) returns exactly what the reference returns. *)
From Coq Require Import NArith List Bool Lia.
From OG Require Import C10.Model C10.Proofs C13.Model C13.Proofs C13.Tree C13.TreeLemmas.
Import ListNotations.
Open Scope N_scope.

(* ---- the catalogue of live incarnations, keyed by (measurement name, index group) *)
Definition curl (l : list (ckey * N)) (k : ckey) : option N :=
  match find (fun x => ckey_eqb (fst x) k) l with Some x => Some (snd x) | None => None end.
Lemma ckey_eqb_eq a b : ckey_eqb a b = true <-> a = b.
Proof. unfold ckey_eqb. rewrite andb_true_iff, !N.eqb_eq. destruct a, b; simpl. split; [intros [-> ->]; auto | intros E; inversion E; auto]. Qed.
Lemma ckey_eqb_refl a : ckey_eqb a a = true.
Proof. apply ckey_eqb_eq. reflexivity. Qed.
Lemma cur_curl p k : cur p k = curl (p_cur p) k.
Proof. reflexivity. Qed.
Lemma curl_in l k pm : curl l k = Some pm -> In (k, pm) l.
Proof.
  unfold curl. destruct (find (fun x => ckey_eqb (fst x) k) l) as [[a b] |] eqn:E; [| discriminate]. intros H. inversion H; subst.
  apply find_some in E. destruct E as [Hin Hb]. simpl in Hb. apply ckey_eqb_eq in Hb. subst. exact Hin.
Qed.
Lemma curl_of_in l k pm : NoDup (map fst l) -> In (k, pm) l -> curl l k = Some pm.
Proof.
  unfold curl. induction l as [| [a b] r IH]; simpl; intros Hnd Hin; [destruct Hin |]. inversion Hnd as [| ? ? Hni Hnd']; subst.
  destruct Hin as [E | Hin].
  - inversion E; subst. rewrite ckey_eqb_refl. reflexivity.
  - destruct (ckey_eqb a k) eqn:Ek; [| apply IH; auto]. apply ckey_eqb_eq in Ek. subst a. exfalso. apply Hni.
    apply in_map_iff. exists (k, pm). auto.
Qed.
Lemma curl_snoc l k0 pm0 k :
  curl (l ++ [(k0, pm0)]) k = match curl l k with Some y => Some y | None => if ckey_eqb k0 k then Some pm0 else None end.
Proof.
  unfold curl. rewrite find_app_. destruct (find (fun x => ckey_eqb (fst x) k) l); auto. simpl. destruct (ckey_eqb k0 k); auto.
Qed.
Lemma curl_filter l n0 k :
  curl (filter (fun x => negb (fst (fst x) =? n0)) l) k = if fst k =? n0 then None else curl l k.
Proof.
  unfold curl. induction l as [| [a b] r IH]; simpl; [destruct (fst k =? n0); auto |].
  destruct (fst a =? n0) eqn:E0; simpl.
  - rewrite IH. destruct (fst k =? n0) eqn:E; auto. destruct (ckey_eqb a k) eqn:E1; auto.
    apply ckey_eqb_eq in E1. subst. congruence.
  - destruct (ckey_eqb a k) eqn:E1; simpl.
    + apply ckey_eqb_eq in E1. subst. rewrite E0. reflexivity.
    + exact IH.
Qed.
Lemma in_pms p n g pm : In (g, pm) (pms p n) <-> In ((n, g), pm) (p_cur p).
Proof.
  unfold pms. rewrite in_map_iff. split.
  - intros ([[n' g'] pm'] & E & Hin). apply filter_In in Hin. destruct Hin as [Hin Hn]. simpl in *. apply N.eqb_eq in Hn.
    inversion E; subst. exact Hin.
  - intros Hin. exists ((n, g), pm). split; auto. apply filter_In. split; auto. simpl. apply N.eqb_refl.
Qed.

(* ---- facts about the index write *)
Lemma write_facts s k : dwf s ->
  d_del (fst (write s k)) = d_del s /\ In (k, snd (write s k)) (d_L (fst (write s k))) /\ ~ In (snd (write s k)) (d_del s) /\
  (d_L (fst (write s k)) = d_L s \/
   (d_L (fst (write s k)) = d_L s ++ [(k, snd (write s k))] /\ d_next s < snd (write s k) /\
    d_next (fst (write s k)) = snd (write s k) /\
    (forall id, In (k, id) (d_L s) -> In id (d_del s)))) /\
  d_next s <= d_next (fst (write s k)).
Proof.
  intros (Hwf & Hb & Hd). unfold write. destruct (lookup_live s k) as [id |] eqn:E; simpl.
  - apply lookup_live_some in E. destruct E as [Hin Hn]. repeat split; auto. lia.
  - repeat split; auto.
    + apply in_app_iff. right. left. reflexivity.
    + intros Hin. apply Hd in Hin. lia.
    + right. repeat split; auto; try lia. apply lookup_live_none. exact E.
    + lia.
Qed.

(* ---- the local invariant: one policy of the system model against its reference rows *)
Record LI (p : policy) (R : list lrow) : Prop := mkLI {
  li_dwf : dwf (p_ix p);
  li_deld : p_deld p = d_del (p_ix p);
  li_one : forall k i1 i2, In (k, i1) (d_L (p_ix p)) -> In (k, i2) (d_L (p_ix p)) ->
                           ~ In i1 (d_del (p_ix p)) -> ~ In i2 (d_del (p_ix p)) -> i1 = i2;
  li_rows : forall x, In x (p_all p) -> exists tags, In (mkS (r_m x) tags, r_id x) (d_L (p_ix p));
  li_memlive : forall x, In x (p_mem p) ->
                         exists tags, In (mkS (r_m x) tags, r_id x) (d_L (p_ix p)) /\ ~ In (r_id x) (d_del (p_ix p));
  li_mbound : forall e, In e (d_L (p_ix p)) -> s_mst (fst e) <= p_nextm p;
  li_cbound : forall x, In x (p_cur p) -> snd x <= p_nextm p;
  li_cnodup : NoDup (map fst (p_cur p));
  li_cinj : forall k1 k2 pm, cur p k1 = Some pm -> cur p k2 = Some pm -> k1 = k2;
  (* the indexes: every identity lives in an existing index; every index consults the policy's deleted set *)
  li_curidx : forall k pm, cur p k = Some pm -> In (snd k) (map fst (p_idx p));
  li_wired : (p_table p = false -> d_del (p_ix p) = []) /\ (p_table p = true -> forall x, In x (p_idx p) -> snd x = true);
  li_rowgrp : forall x k, In x (p_all p) -> cur p k = Some (r_m x) -> grp (r_t x) = snd k;
  li_hasrow : forall k id ck, In (k, id) (d_L (p_ix p)) -> ~ In id (d_del (p_ix p)) -> cur p ck = Some (s_mst k) ->
                              exists t v w, In (mkR (s_mst k) id t v w) (lww (p_all p));
  li_abs : forall n tags t v w, In (mkL n tags t v w) R <->
     exists pm id, cur p (n, grp t) = Some pm /\ In (mkS pm tags, id) (d_L (p_ix p)) /\ ~ In id (d_del (p_ix p)) /\
                   In (mkR pm id t v w) (lww (p_all p))
}.

Lemma LI_empty : LI empty_policy [].
Proof.
  constructor; simpl; try (intros; contradiction); auto.
  all: try (repeat split; simpl; try constructor; intros; try contradiction; discriminate).
  intros. split; [intros [] | intros (pm & id & H & _)]. discriminate.
Qed.

Lemma cur_in_iff p R k pm : LI p R -> (cur p k = Some pm <-> In (k, pm) (p_cur p)).
Proof. intros H. rewrite cur_curl. split; [apply curl_in | apply curl_of_in; apply (li_cnodup _ _ H)]. Qed.

(* every index that exists consults exactly the policy's deleted set (the wiring theorem, inside the refinement) *)
Lemma eff_ok p R g : LI p R -> In g (map fst (p_idx p)) -> eff p g = d_del (p_ix p).
Proof.
  intros H Hg. destruct (li_wired _ _ H) as [Hf Ht]. unfold eff. destruct (p_table p) eqn:Et.
  - assert (wiredb p g = true); [| rewrite H0; reflexivity].
    unfold wiredb. apply existsb_exists. apply in_map_iff in Hg. destruct Hg as ([g' b] & E & Hin). simpl in E. subst g'.
    exists (g, b). split; auto. simpl. rewrite N.eqb_refl. simpl. apply (Ht eq_refl (g, b) Hin).
  - rewrite (Hf eq_refl). destruct (wiredb p g); reflexivity.
Qed.

Definition entry_eq_dec : forall a b : entry, {a = b} + {a <> b}.
Proof. decide equality; [apply N.eq_dec | apply series_eq_dec]. Defined.

Lemma dwf_uniq s k1 k2 id : dwf s -> In (k1, id) (d_L s) -> In (k2, id) (d_L s) -> k1 = k2.
Proof. intros ((Hnd & _) & _) H1 H2. exact (uniq_id _ _ _ _ Hnd H1 H2). Qed.

Lemma tagset_eqb_eq a b : tagset_eqb a b = true <-> a = b.
Proof. unfold tagset_eqb. destruct (tagset_eq_dec a b); split; auto; discriminate. Qed.
Lemma same_lpt_iff n tags t x : same_lpt n tags t x = true <-> l_n x = n /\ l_tags x = tags /\ l_t x = t.
Proof. unfold same_lpt. rewrite !andb_true_iff, !N.eqb_eq, tagset_eqb_eq. tauto. Qed.

(* ---- WRITE *)
Lemma LI_write p R n0 tags0 t0 v0 w0 : LI p R -> wf_tags tags0 ->
  LI (p_write true p n0 tags0 t0 v0 w0) (s_write R n0 tags0 t0 v0 w0).
Proof.
  intros H Htags. set (g0 := grp t0). set (c0 := (n0, g0)).
  (* the index of the group *)
  set (pz := ensure_idx true p g0).
  assert (Hz : p_cur pz = p_cur p /\ p_nextm pz = p_nextm p /\ p_ix pz = p_ix p /\ p_table pz = p_table p /\
               p_deld pz = p_deld p /\ p_mem pz = p_mem p /\ p_files pz = p_files p).
  { unfold pz, ensure_idx. destruct (existsb (fun x => fst x =? g0) (p_idx p)); simpl; repeat split. }
  destruct Hz as (Zc & Zn & Zi & Zt & Zd & Zm & Zf).
  assert (Zcur : forall k, cur pz k = cur p k) by (intros k; unfold cur; rewrite Zc; reflexivity).
  assert (Zidx : forall g, In g (map fst (p_idx pz)) <-> In g (map fst (p_idx p)) \/ g = g0).
  { intros g. unfold pz, ensure_idx. destruct (existsb (fun x => fst x =? g0) (p_idx p)) eqn:E; simpl.
    - split; auto. intros [A | ->]; auto. apply existsb_exists in E. destruct E as (x & Hx & Ex). apply N.eqb_eq in Ex.
      apply in_map_iff. exists x. auto.
    - rewrite map_app, in_app_iff. simpl. intuition. }
  assert (Zwired : (p_table pz = false -> d_del (p_ix pz) = []) /\ (p_table pz = true -> forall x, In x (p_idx pz) -> snd x = true)).
  { destruct (li_wired _ _ H) as [Hf Ht]. rewrite Zt, Zi. split; auto. intros Et x Hx.
    unfold pz, ensure_idx in Hx. destruct (existsb (fun y => fst y =? g0) (p_idx p)); simpl in Hx; [apply (Ht Et x Hx) |].
    apply in_app_iff in Hx. destruct Hx as [Hx | [<- | []]]; [apply (Ht Et x Hx) | simpl; rewrite Et; reflexivity]. }
  (* the measurement's identity in that index *)
  set (p1 := fst (ensure_mst pz c0)). set (pm := snd (ensure_mst pz c0)).
  assert (Hix1 : p_ix p1 = p_ix p) by (unfold p1, ensure_mst; destruct (cur pz c0); simpl; auto).
  assert (Hdeld1 : p_deld p1 = p_deld p) by (unfold p1, ensure_mst; destruct (cur pz c0); simpl; auto).
  assert (Hmem1 : p_mem p1 = p_mem p) by (unfold p1, ensure_mst; destruct (cur pz c0); simpl; auto).
  assert (Hfiles1 : p_files p1 = p_files p) by (unfold p1, ensure_mst; destruct (cur pz c0); simpl; auto).
  assert (Htab1 : p_table p1 = p_table pz) by (unfold p1, ensure_mst; destruct (cur pz c0); simpl; auto).
  assert (Hidx1 : p_idx p1 = p_idx pz) by (unfold p1, ensure_mst; destruct (cur pz c0); simpl; auto).
  assert (Hcur1 : forall k, cur p1 k = match cur p k with Some y => Some y | None => if ckey_eqb c0 k then Some pm else None end).
  { intros k. unfold p1, pm, ensure_mst. rewrite (Zcur c0). destruct (cur p c0) eqn:E; simpl.
    - rewrite Zcur. destruct (cur p k) eqn:E2; auto. destruct (ckey_eqb c0 k) eqn:E3; auto. apply ckey_eqb_eq in E3. subst. congruence.
    - rewrite !cur_curl. simpl. rewrite Zc. apply curl_snoc. }
  assert (Hpm : cur p1 c0 = Some pm).
  { rewrite Hcur1. unfold pm, ensure_mst. rewrite (Zcur c0). destruct (cur p c0) eqn:E; simpl; auto. rewrite ckey_eqb_refl. reflexivity. }
  assert (Hnext1 : p_nextm p <= p_nextm p1) by (unfold p1, ensure_mst; destruct (cur pz c0); simpl; lia).
  assert (Hfresh : cur p c0 = None -> pm = p_nextm p + 1 /\ p_nextm p1 = pm /\ p_cur p1 = p_cur p ++ [(c0, pm)]).
  { intros E. unfold pm, p1, ensure_mst. rewrite (Zcur c0), E. simpl. rewrite Zn, Zc. auto. }
  assert (Hkept : forall pm', cur p c0 = Some pm' -> pm = pm' /\ p_cur p1 = p_cur p /\ p_nextm p1 = p_nextm p).
  { intros pm' E. unfold pm, p1, ensure_mst. rewrite (Zcur c0), E. simpl. auto. }
  assert (Hpmb : pm <= p_nextm p1).
  { destruct (cur p c0) eqn:E.
    - destruct (Hkept _ eq_refl) as (-> & _ & ->). rewrite cur_curl in E. apply curl_in in E. apply (li_cbound _ _ H) in E. exact E.
    - destruct (Hfresh eq_refl) as (_ & -> & _). lia. }
  assert (Hcinj1 : forall k1 k2 m, cur p1 k1 = Some m -> cur p1 k2 = Some m -> k1 = k2).
  { intros k1 k2 m. rewrite !Hcur1. destruct (cur p k1) eqn:E1, (cur p k2) eqn:E2; intros A B.
    - inversion A; inversion B; subst. eapply (li_cinj _ _ H); eauto.
    - destruct (ckey_eqb c0 k2) eqn:E; [| discriminate]. apply ckey_eqb_eq in E. subst k2. destruct (Hfresh E2) as (Hp & _).
      inversion A; inversion B; subst. rewrite cur_curl in E1. apply curl_in in E1. apply (li_cbound _ _ H) in E1. simpl in E1. lia.
    - destruct (ckey_eqb c0 k1) eqn:E; [| discriminate]. apply ckey_eqb_eq in E. subst k1. destruct (Hfresh E1) as (Hp & _).
      inversion A; inversion B; subst. rewrite cur_curl in E2. apply curl_in in E2. apply (li_cbound _ _ H) in E2. simpl in E2. lia.
    - destruct (ckey_eqb c0 k1) eqn:Ea; [| discriminate]. destruct (ckey_eqb c0 k2) eqn:Eb; [| discriminate].
      apply ckey_eqb_eq in Ea, Eb. congruence. }
  (* a key that has an identity in p1 and whose identity is not above the old bound had it before *)
  assert (Hcold : forall k m, cur p1 k = Some m -> m <= p_nextm p -> cur p k = Some m).
  { intros k m Hc Hm. rewrite Hcur1 in Hc. destruct (cur p k) eqn:E; auto. destruct (ckey_eqb c0 k) eqn:E0; [| discriminate].
    apply ckey_eqb_eq in E0. subst k. destruct (Hfresh E) as (Hp & _). inversion Hc. lia. }
  (* the index write *)
  pose proof (li_dwf _ _ H) as Hdwf.
  set (k0 := mkS pm tags0).
  pose proof (write_facts (p_ix p) k0 Hdwf) as (Wdel & Win & Wlive & Wcase & Wnext).
  pose proof (write_dwf (p_ix p) k0 Hdwf Htags) as Hdwf'.
  set (ix' := fst (write (p_ix p) k0)) in *. set (id0 := snd (write (p_ix p) k0)) in *.
  assert (HL' : forall e, In e (d_L ix') <-> In e (d_L (p_ix p)) \/ (e = (k0, id0) /\ In e (d_L ix'))).
  { intros e. destruct Wcase as [E | (E & _)]; rewrite E.
    - tauto.
    - rewrite in_app_iff. simpl. split; [intros [A | [A | []]]; auto; right; split; auto; rewrite E; apply in_app_iff; right; left; auto | tauto]. }
  assert (Hnew : forall k id, In (k, id) (d_L ix') -> ~ In (k, id) (d_L (p_ix p)) -> k = k0 /\ id = id0 /\ d_next (p_ix p) < id0).
  { intros k id Hin Hn. destruct Wcase as [E | (E & Hlt & _)]; rewrite E in Hin; [contradiction |].
    apply in_app_iff in Hin. destruct Hin as [Hin | [Hin | []]]; [contradiction |]. inversion Hin; subst. auto. }
  assert (Hone' : forall k i1 i2, In (k, i1) (d_L ix') -> In (k, i2) (d_L ix') ->
                                  ~ In i1 (d_del (p_ix p)) -> ~ In i2 (d_del (p_ix p)) -> i1 = i2).
  { intros k i1 i2 H1 H2 N1 N2.
    destruct (in_dec entry_eq_dec (k, i1) (d_L (p_ix p))) as [A1 | A1];
    destruct (in_dec entry_eq_dec (k, i2) (d_L (p_ix p))) as [A2 | A2].
    + eapply (li_one _ _ H); eauto.
    + destruct (Hnew _ _ H2 A2) as (-> & -> & _). destruct Wcase as [E | (_ & _ & _ & Hall)]; [rewrite E in H2; contradiction |].
      exfalso. apply N1. apply Hall. exact A1.
    + destruct (Hnew _ _ H1 A1) as (-> & -> & _). destruct Wcase as [E | (_ & _ & _ & Hall)]; [rewrite E in H1; contradiction |].
      exfalso. apply N2. apply Hall. exact A2.
    + destruct (Hnew _ _ H1 A1) as (_ & -> & _). destruct (Hnew _ _ H2 A2) as (_ & -> & _). reflexivity. }
  unfold p_write. fold g0 c0 pz p1 pm. rewrite Hix1. fold k0 ix' id0.
  set (x0 := mkR pm id0 t0 v0 w0).
  set (pN := mkP (p_cur p1) (p_nextm p1) ix' (p_table p1) (p_idx p1) (p_deld p1) (p_mem p1 ++ [x0]) (p_files p1)).
  assert (Hallnew : p_all pN = p_all p ++ [x0]).
  { unfold p_all, pN. simpl. rewrite Hmem1, Hfiles1, app_assoc. reflexivity. }
  assert (HcurN : forall k, cur pN k = cur p1 k) by reflexivity.
  constructor; fold pN.
  - exact Hdwf'.
  - simpl. rewrite Hdeld1, Wdel. apply (li_deld _ _ H).
  - simpl. rewrite Wdel. exact Hone'.
  - (* rows are known to the index *)
    rewrite Hallnew. simpl. intros x Hx. apply in_app_iff in Hx. destruct Hx as [Hx | [<- | []]].
    + destruct (li_rows _ _ H x Hx) as (tg & Hin). exists tg. apply HL'. left. exact Hin.
    + exists tags0. exact Win.
  - (* memtable rows have live ids *)
    simpl. rewrite Wdel, Hmem1. intros x Hx. apply in_app_iff in Hx. destruct Hx as [Hx | [<- | []]].
    + destruct (li_memlive _ _ H x Hx) as (tg & Hin & Hl). exists tg. split; auto. apply HL'. left. exact Hin.
    + exists tags0. split; [exact Win | exact Wlive].
  - simpl. intros e He. apply HL' in He. destruct He as [He | [-> _]]; simpl.
    + apply (li_mbound _ _ H) in He. lia.
    + exact Hpmb.
  - simpl. intros x Hx. destruct (cur p c0) eqn:E.
    + destruct (Hkept _ eq_refl) as (_ & Ec & En). rewrite Ec in Hx. rewrite En. apply (li_cbound _ _ H x Hx).
    + destruct (Hfresh eq_refl) as (Ep & En & Ec). rewrite Ec in Hx. apply in_app_iff in Hx.
      destruct Hx as [Hx | [<- | []]]; simpl; [apply (li_cbound _ _ H) in Hx |]; lia.
  - (* keys of the catalogue are distinct *)
    simpl. destruct (cur p c0) eqn:E.
    + destruct (Hkept _ eq_refl) as (_ & Ec & _). rewrite Ec. apply (li_cnodup _ _ H).
    + destruct (Hfresh eq_refl) as (_ & _ & Ec). rewrite Ec, map_app. simpl. apply nodup_snoc; [apply (li_cnodup _ _ H) |].
      intros Hin. apply in_map_iff in Hin. destruct Hin as ([k m] & Ek & Hin). simpl in Ek. subst k.
      rewrite (curl_of_in _ _ _ (li_cnodup _ _ H) Hin : cur p c0 = Some m) in E. discriminate.
  - intros k1 k2 m. rewrite !HcurN. apply Hcinj1.
  - (* every identity lives in an existing index *)
    intros k m. rewrite HcurN, Hcur1. simpl. rewrite Hidx1. intros Hc. apply Zidx. destruct (cur p k) eqn:E.
    + left. apply (li_curidx _ _ H k n E).
    + destruct (ckey_eqb c0 k) eqn:E0; [| discriminate]. apply ckey_eqb_eq in E0. subst k. right. reflexivity.
  - simpl. rewrite Htab1, Hidx1, Wdel. rewrite <- Zi. exact Zwired.
  - (* a row's time lies in the group of its identity *)
    rewrite Hallnew. intros x k Hx. rewrite HcurN. intros Hc. apply in_app_iff in Hx. destruct Hx as [Hx | [<- | []]].
    + apply (li_rowgrp _ _ H x k Hx). apply Hcold; auto.
      destruct (li_rows _ _ H x Hx) as (tg & Hin). apply (li_mbound _ _ H) in Hin. exact Hin.
    + simpl in *. assert (k = c0) by (apply (Hcinj1 k c0 pm); auto). subst k. reflexivity.
  - (* a live series of a live incarnation has a visible row *)
    rewrite Hallnew, lww_snoc. simpl. rewrite Wdel. intros k id ck Hin Hlive Hc.
    change (cur pN ck) with (cur p1 ck) in Hc.
    destruct (in_dec entry_eq_dec (k, id) (d_L (p_ix p))) as [A | A].
    + assert (Hc0 : cur p ck = Some (s_mst k)) by (apply Hcold; auto; apply (li_mbound _ _ H) in A; exact A).
      destruct (li_hasrow _ _ H k id ck A Hlive Hc0) as (t & v & w & Hrow).
      destruct (same_pt (mkR (s_mst k) id t v w) x0) eqn:Es.
      * apply same_pt_iff in Es. simpl in Es. destruct Es as (Em & Ei & Et). exists t0, v0, w0.
        apply in_app_iff. right. left. unfold x0. congruence.
      * exists t, v, w. apply in_app_iff. left. apply filter_In. split; auto. rewrite Es. reflexivity.
    + destruct (Hnew _ _ Hin A) as (-> & -> & _). exists t0, v0, w0. apply in_app_iff. right. left. reflexivity.
  - (* abstraction *)
    intros n tags t v w. rewrite Hallnew, lww_snoc. simpl. rewrite Wdel. unfold s_write. rewrite in_app_iff, filter_In. simpl.
    change (cur pN (n, grp t)) with (cur p1 (n, grp t)).
    split.
    + intros [[HR Hns] | [Heq | []]].
      * (* an old row that is not overwritten *)
        apply (li_abs _ _ H) in HR. destruct HR as (m & id & Hc & Hin & Hlive & Hrow).
        exists m, id. repeat split; auto.
        -- rewrite Hcur1, Hc. reflexivity.
        -- apply HL'. left. exact Hin.
        -- apply in_app_iff. left. apply filter_In. split; auto. apply negb_true_iff.
           destruct (same_pt (mkR m id t v w) x0) eqn:Es; auto. exfalso.
           apply same_pt_iff in Es. simpl in Es. destruct Es as (Em & Ei & Et). subst m id t.
           assert (Ek : (n, grp t0) = c0) by (apply (Hcinj1 _ c0 pm); auto; rewrite Hcur1, Hc; reflexivity).
           inversion Ek; subst n.
           assert (Hk : mkS pm tags = k0) by (apply (dwf_uniq ix' _ _ id0 Hdwf'); auto; apply HL'; left; exact Hin).
           inversion Hk; subst tags. apply negb_true_iff in Hns.
           assert (same_lpt n0 tags0 t0 (mkL n0 tags0 t0 v w) = true) by (apply same_lpt_iff; simpl; auto). congruence.
      * inversion Heq; subst. exists pm, id0. repeat split; auto. apply in_app_iff. right. left. reflexivity.
    + intros (m & id & Hc & Hin & Hlive & Hrow). apply in_app_iff in Hrow. destruct Hrow as [Hrow | [Hrow | []]].
      * apply filter_In in Hrow. destruct Hrow as [Hrow Hns]. apply negb_true_iff in Hns.
        (* the entry is an old one: its id is the id of a stored row *)
        assert (Hold : In (mkS m tags, id) (d_L (p_ix p))).
        { destruct (li_rows _ _ H _ (lww_in _ _ Hrow)) as (tg & Hin0). simpl in Hin0.
          assert (mkS m tg = mkS m tags) by (apply (dwf_uniq ix' _ _ id Hdwf'); auto; apply HL'; left; exact Hin0).
          congruence. }
        assert (Hc0 : cur p (n, grp t) = Some m) by (apply Hcold; auto; apply (li_mbound _ _ H) in Hold; exact Hold).
        left. split.
        -- apply (li_abs _ _ H). exists m, id. auto.
        -- apply negb_true_iff. destruct (same_lpt n0 tags0 t0 (mkL n tags t v w)) eqn:Es; auto. exfalso.
           apply same_lpt_iff in Es. simpl in Es. destruct Es as (-> & -> & ->).
           assert (m = pm) by (fold g0 c0 in Hc; congruence). subst m.
           assert (id = id0) by (apply (Hone' k0 id id0); auto; apply HL'; left; exact Hold).
           subst id. assert (same_pt (mkR pm id0 t0 v w) x0 = true) by (apply same_pt_iff; simpl; auto). congruence.
      * right. left. unfold x0 in Hrow. inversion Hrow; subst m id t v w.
        assert (Ek : (n, grp t0) = c0) by (apply (Hcinj1 _ c0 pm); auto). inversion Ek; subst n.
        assert (Hk : mkS pm tags = k0) by (apply (dwf_uniq ix' _ _ id0 Hdwf'); auto).
        inversion Hk; subst. reflexivity.
Qed.

(* ---- steps that change neither the catalogue nor what the index and the merged view say *)
Lemma LI_ext p p' R :
  p_cur p' = p_cur p -> p_nextm p' = p_nextm p -> d_L (p_ix p') = d_L (p_ix p) -> d_del (p_ix p') = d_del (p_ix p) ->
  d_next (p_ix p') = d_next (p_ix p) -> p_deld p' = d_del (p_ix p') ->
  lww (p_all p') = lww (p_all p) -> (forall x, In x (p_all p') -> In x (p_all p)) ->
  (forall x, In x (p_mem p') -> In x (p_mem p)) ->
  map fst (p_idx p') = map fst (p_idx p) ->
  ((p_table p' = false -> d_del (p_ix p') = []) /\ (p_table p' = true -> forall x, In x (p_idx p') -> snd x = true)) ->
  LI p R -> LI p' R.
Proof.
  intros Ec En EL Ed Ex Edd Elww Hin Hmem Eidx Hw H.
  assert (Hcur : forall k, cur p' k = cur p k) by (intros k; unfold cur; rewrite Ec; reflexivity).
  constructor; rewrite ?EL, ?Ed, ?En, ?Elww.
  - destruct (li_dwf _ _ H) as (A & B & C). unfold dwf. rewrite EL, Ed, Ex. auto.
  - rewrite Edd, Ed. reflexivity.
  - apply (li_one _ _ H).
  - intros x Hx. apply (li_rows _ _ H). auto.
  - intros x Hx. apply (li_memlive _ _ H). auto.
  - apply (li_mbound _ _ H).
  - rewrite Ec. apply (li_cbound _ _ H).
  - rewrite Ec. apply (li_cnodup _ _ H).
  - intros k1 k2 pm. rewrite !Hcur. apply (li_cinj _ _ H).
  - intros k pm. rewrite Hcur, Eidx. apply (li_curidx _ _ H).
  - rewrite <- Ed. exact Hw.
  - intros x k Hx. rewrite Hcur. apply (li_rowgrp _ _ H). auto.
  - intros k id ck. rewrite Hcur. apply (li_hasrow _ _ H).
  - intros n tags t v w. rewrite (li_abs _ _ H). setoid_rewrite Hcur. reflexivity.
Qed.

Lemma LI_flush p R : LI p R -> LI (p_flush p) R.
Proof.
  intros H. assert (E : p_all (p_flush p) = p_all p).
  { unfold p_all, p_flush. simpl. rewrite concat_app. simpl. rewrite !List.app_nil_r. reflexivity. }
  apply (LI_ext p); auto; try reflexivity.
  - simpl. apply (li_deld _ _ H).
  - rewrite E. reflexivity.
  - rewrite E. auto.
  - simpl. intros x [].
  - apply (li_wired _ _ H).
Qed.

Lemma LI_compact p R i k : LI p R -> LI (p_compact p i k) R.
Proof.
  intros H. set (fs := p_files p).
  assert (Ea : p_all p = concat (firstn i fs) ++ concat (firstn k (skipn i fs)) ++ (concat (skipn k (skipn i fs)) ++ p_mem p)).
  { unfold p_all. fold fs. rewrite (firstn_skipn_split fs i k) at 1. rewrite !concat_app, <- !app_assoc. reflexivity. }
  assert (Eb : p_all (p_compact p i k) =
               concat (firstn i fs) ++ lww (concat (firstn k (skipn i fs))) ++ (concat (skipn k (skipn i fs)) ++ p_mem p)).
  { unfold p_all, p_compact. simpl. fold fs. rewrite !concat_app. simpl. rewrite ?List.app_nil_r, <- ?app_assoc. reflexivity. }
  apply (LI_ext p); auto; try reflexivity.
  - simpl. apply (li_deld _ _ H).
  - rewrite Ea, Eb. apply lww_compact.
  - intros x. rewrite Ea, Eb, !in_app_iff. intros [A | [A | A]]; auto. right. left. apply lww_in. exact A.
  - apply (li_wired _ _ H).
Qed.

Lemma LI_sync p R : LI p R -> LI (p_sync p) R.
Proof. intros H. apply (LI_ext p); auto; try reflexivity. apply (li_wired _ _ H). Qed.

(* the WAL replay finds for every memtable row the id it has: the one live id of its key *)
Lemma lookup_live_the s k id : NoDup (map snd (d_L s)) ->
  (forall k0 i1 i2, In (k0, i1) (d_L s) -> In (k0, i2) (d_L s) -> ~ In i1 (d_del s) -> ~ In i2 (d_del s) -> i1 = i2) ->
  In (k, id) (d_L s) -> ~ In id (d_del s) -> lookup_live s k = Some id.
Proof.
  intros Hnd Hone Hin Hlive. destruct (lookup_live s k) as [id' |] eqn:E.
  - apply lookup_live_some in E. destruct E as [Hin' Hl']. f_equal. eapply Hone; eauto.
  - exfalso. apply Hlive. eapply lookup_live_none; eauto.
Qed.
Lemma replay_id s rows acc : NoDup (map snd (d_L s)) ->
  (forall k0 i1 i2, In (k0, i1) (d_L s) -> In (k0, i2) (d_L s) -> ~ In i1 (d_del s) -> ~ In i2 (d_del s) -> i1 = i2) ->
  (forall x, In x rows -> exists tags, In (mkS (r_m x) tags, r_id x) (d_L s) /\ ~ In (r_id x) (d_del s)) ->
  fold_left replay_row rows (s, acc) = (s, acc ++ rows).
Proof.
  intros Hnd Hone. revert acc. induction rows as [| x r IH]; intros acc Hrows; simpl; [rewrite app_nil_r; reflexivity |].
  destruct (Hrows x (or_introl eq_refl)) as (tags & Hin & Hlive).
  unfold replay_row at 2. simpl. rewrite (key_of_in _ _ _ Hnd Hin). unfold write.
  rewrite (lookup_live_the s _ _ Hnd Hone Hin Hlive). simpl.
  rewrite IH; [| intros y Hy; apply Hrows; right; exact Hy]. rewrite <- app_assoc. simpl. destruct x; reflexivity.
Qed.

Lemma wire_all_fst l : map fst (wire_all l) = map fst l.
Proof. unfold wire_all. rewrite map_map. reflexivity. Qed.
Lemma wire_all_wired l x : In x (wire_all l) -> snd x = true.
Proof. unfold wire_all. rewrite in_map_iff. intros (y & <- & _). reflexivity. Qed.

Lemma LI_restart p R : LI p R -> LI (p_restart p) R.
Proof.
  intros H. pose proof (li_dwf _ _ H) as ((Hnd & _) & _).
  assert (E : p_restart p = mkP (p_cur p) (p_nextm p) (mkD (d_L (p_ix p)) (p_deld p) (d_next (p_ix p)) (d_dead (p_ix p)))
                                (match p_idx p with [] => p_table p | _ => true end)
                                (match p_idx p with [] => [] | l => wire_all l end)
                                (p_deld p) (p_mem p) (p_files p)).
  { unfold p_restart. rewrite replay_id; simpl; auto.
    - rewrite (li_deld _ _ H). apply (li_one _ _ H).
    - rewrite (li_deld _ _ H). apply (li_memlive _ _ H). }
  rewrite E. apply (LI_ext p); auto; try reflexivity; simpl.
  - apply (li_deld _ _ H).
  - destruct (p_idx p) as [| a r]; [reflexivity | simpl; f_equal; apply wire_all_fst].
  - rewrite (li_deld _ _ H). destruct (li_wired _ _ H) as [Hf Ht]. destruct (p_idx p) as [| a r] eqn:Ei.
    + split; auto; intros _ x [].
    + split; [discriminate |]. intros _ x [<- | Hx]; [reflexivity | eapply wire_all_wired; eauto].
Qed.

(* ---- DROP SERIES *)
Lemma list_ids_char am L del m q id : wfL L -> okq q ->
  In id (list_ids am (postings L) del m q) <->
  exists s, In (s, id) L /\ ~ In id del /\ s_mst s = m /\ evalq am q (s_tags s) = true.
Proof. intros Hwf Hq. rewrite (list_ids_exact am L del m q id Hwf Hq). apply spec_char. Qed.

Lemma LI_drop_series am p0 R n0 q : LI p0 R -> okq q ->
  LI (p_drop_series true true am p0 n0 q) (s_drop_series am R n0 q).
Proof.
  intros H0 Hq. unfold p_drop_series. set (p := p_flush p0). assert (H : LI p R) by (apply LI_flush; exact H0).
  assert (Hmem0 : p_mem p = []) by reflexivity. clearbody p. clear H0.
  pose proof (li_dwf _ _ H) as Hdwf. destruct Hdwf as (Hwf & Hb & Hd).
  set (ids := flat_map (fun gm : N * N => list_ids am (d_T (p_ix p)) (eff p (fst gm)) (snd gm) q) (pms p n0)).
  (* the ids found: the live series of the measurement, in whatever index, that satisfy the predicate *)
  assert (Hids : forall id, In id ids <->
            exists g pm s, cur p (n0, g) = Some pm /\ In (s, id) (d_L (p_ix p)) /\ ~ In id (d_del (p_ix p)) /\
                           s_mst s = pm /\ evalq am q (s_tags s) = true).
  { intros id. unfold ids. rewrite in_flat_map. split.
    - intros ([g pm] & Hgm & Hid). simpl in Hid. apply in_pms in Hgm. apply (cur_in_iff _ _ _ _ H) in Hgm.
      rewrite (eff_ok p R g H (li_curidx _ _ H _ _ Hgm)) in Hid. unfold d_T in Hid.
      apply (list_ids_char am _ _ pm q id Hwf Hq) in Hid. destruct Hid as (s & A & B & C & D). exists g, pm, s. auto.
    - intros (g & pm & s & Hc & A & B & C & D). exists (g, pm). split.
      + apply in_pms. apply (cur_in_iff _ _ _ _ H). exact Hc.
      + simpl. rewrite (eff_ok p R g H (li_curidx _ _ H _ _ Hc)). unfold d_T.
        apply (list_ids_char am _ _ pm q id Hwf Hq). exists s. auto. }
  assert (Hkey : forall n tags t pm id, cur p (n, grp t) = Some pm -> In (mkS pm tags, id) (d_L (p_ix p)) ->
                   ~ In id (d_del (p_ix p)) -> (In id ids <-> n = n0 /\ evalq am q tags = true)).
  { intros n tags t pm id Hc Hin Hlive. rewrite Hids. split.
    - intros (g & pm' & s & Hc' & A & _ & C & D).
      assert (s = mkS pm tags) by (apply (uniq_id _ _ _ id (proj1 Hwf)); auto). subst s. simpl in *. subst pm'.
      assert (Ek : (n0, g) = (n, grp t)) by (apply (li_cinj _ _ H _ _ pm); auto). inversion Ek. auto.
    - intros [-> He]. exists (grp t), pm, (mkS pm tags). auto. }
  assert (Habs : forall n tags t v w, In (mkL n tags t v w) (s_drop_series am R n0 q) <->
     exists pm id, cur p (n, grp t) = Some pm /\ In (mkS pm tags, id) (d_L (p_ix p)) /\ ~ In id (d_del (p_ix p) ++ ids) /\
                   In (mkR pm id t v w) (lww (p_all p))).
  { intros n tags t v w. unfold s_drop_series. rewrite filter_In, (li_abs _ _ H). unfold named. simpl. split.
    - intros [(m & id & Hc & Hin & Hlive & Hrow) Hnn]. exists m, id. repeat split; auto.
      intros A. apply in_app_iff in A. destruct A as [A | A]; [contradiction |].
      apply (Hkey n tags t m id Hc Hin Hlive) in A. destruct A as [-> He]. rewrite N.eqb_refl, He in Hnn. discriminate.
    - intros (m & id & Hc & Hin & Hlive & Hrow).
      assert (Hl : ~ In id (d_del (p_ix p))) by (intros A; apply Hlive; apply in_app_iff; auto). split.
      + exists m, id. auto.
      + apply negb_true_iff. destruct (n =? n0) eqn:En; simpl; auto. apply N.eqb_eq in En. subst n.
        destruct (evalq am q tags) eqn:Ee; auto. exfalso. apply Hlive. apply in_app_iff. right.
        apply (Hkey n0 tags t m id Hc Hin Hl). auto. }
  destruct ids as [| i0 ir] eqn:Eids.
  - (* nothing found: nothing happens *)
    constructor; try apply H. intros n tags t v w. rewrite Habs, List.app_nil_r. reflexivity.
  - rewrite <- Eids in *. clear Eids.
    set (p' := mkP (p_cur p) (p_nextm p) (mkD (d_L (p_ix p)) (d_del (p_ix p) ++ ids) (d_next (p_ix p)) (d_dead (p_ix p)))
                   true (if p_table p then p_idx p else wire_all (p_idx p)) (p_deld p ++ ids) (p_mem p) (p_files p)).
    assert (Hcur : forall k, cur p' k = cur p k) by reflexivity.
    assert (Hall : p_all p' = p_all p) by reflexivity.
    constructor; fold p'; rewrite ?Hall; simpl.
    + unfold dwf. simpl. split; [exact Hwf | split; [exact Hb |]].
      intros id Hin. apply in_app_iff in Hin. destruct Hin as [Hin | Hin]; auto.
      apply Hids in Hin. destruct Hin as (_ & _ & s & _ & Hin & _). apply (Hb (s, id) Hin).
    + rewrite (li_deld _ _ H). reflexivity.
    + intros k i1 i2 H1 H2 N1 N2. apply (li_one _ _ H k); auto; intros A; [apply N1 | apply N2]; apply in_app_iff; auto.
    + apply (li_rows _ _ H).
    + rewrite Hmem0. intros x [].
    + apply (li_mbound _ _ H).
    + apply (li_cbound _ _ H).
    + apply (li_cnodup _ _ H).
    + intros k1 k2 pm. rewrite !Hcur. apply (li_cinj _ _ H).
    + intros k pm. rewrite Hcur. intros Hc. destruct (p_table p); [| rewrite wire_all_fst]; apply (li_curidx _ _ H k pm Hc).
    + split; [discriminate |]. intros _ x Hx. destruct (p_table p) eqn:Et.
      * apply (proj2 (li_wired _ _ H) Et x Hx).
      * eapply wire_all_wired; eauto.
    + intros x k Hx. rewrite Hcur. apply (li_rowgrp _ _ H x k Hx).
    + intros k id ck Hin Hlive. rewrite Hcur. intros Hc. apply (li_hasrow _ _ H k id ck); auto.
      intros A. apply Hlive. apply in_app_iff. auto.
    + intros n tags t v w. rewrite Habs. setoid_rewrite Hcur. reflexivity.
Qed.

(* ---- DROP MEASUREMENT *)
Lemma LI_drop_mst p R n0 : LI p R -> LI (p_drop_mst p n0) (s_drop_mst R n0).
Proof.
  intros H. unfold p_drop_mst. set (dead := map snd (pms p n0)).
  set (keep := fun r : prow => negb (mem (r_m r) dead)).
  set (p' := mkP (filter (fun x => negb (fst (fst x) =? n0)) (p_cur p)) (p_nextm p) (p_ix p) (p_table p) (p_idx p) (p_deld p)
                 (filter keep (p_mem p)) (map (filter keep) (p_files p))).
  assert (Eall : p_all p' = filter keep (p_all p)).
  { unfold p_all, p'. simpl. rewrite concat_map_filter, filter_app. reflexivity. }
  assert (Hkeep : forall a b, same_pt a b = true -> keep a = keep b).
  { intros a b E. apply same_pt_iff in E. destruct E as (E & _). unfold keep. rewrite E. reflexivity. }
  assert (Elww : lww (p_all p') = filter keep (lww (p_all p))) by (rewrite Eall; apply lww_filter; exact Hkeep).
  assert (Hcur : forall k, cur p' k = if fst k =? n0 then None else cur p k).
  { intros k. rewrite !cur_curl. unfold p'. simpl. apply curl_filter. }
  (* a row of an identity of the catalogue is deleted exactly when the identity belongs to the dropped measurement *)
  assert (Hkr : forall x k, cur p k = Some (r_m x) -> keep x = negb (fst k =? n0)).
  { intros x k Hc. unfold keep. destruct (mem (r_m x) dead) eqn:Em; simpl.
    - apply mem_spec in Em. unfold dead in Em. apply in_map_iff in Em. destruct Em as ([g pm] & E & Hin). simpl in E. subst pm.
      apply in_pms in Hin. apply (cur_in_iff _ _ _ _ H) in Hin.
      assert (k = (n0, g)) by (apply (li_cinj _ _ H _ _ (r_m x)); auto). subst k. simpl. rewrite N.eqb_refl. reflexivity.
    - destruct (fst k =? n0) eqn:En; auto. exfalso. apply N.eqb_eq in En. destruct k as [n g]. simpl in En. subst n.
      assert (mem (r_m x) dead = true); [| congruence]. apply mem_spec. unfold dead. apply in_map_iff. exists (g, r_m x). split; auto.
      apply in_pms. apply (cur_in_iff _ _ _ _ H). exact Hc. }
  constructor; fold p'.
  - apply (li_dwf _ _ H).
  - apply (li_deld _ _ H).
  - apply (li_one _ _ H).
  - intros x Hx. rewrite Eall in Hx. apply filter_In in Hx. apply (li_rows _ _ H). tauto.
  - intros x Hx. simpl in Hx. apply filter_In in Hx. apply (li_memlive _ _ H). tauto.
  - apply (li_mbound _ _ H).
  - intros x Hx. simpl in Hx. apply filter_In in Hx. apply (li_cbound _ _ H). tauto.
  - simpl. apply nodup_map_filter. apply (li_cnodup _ _ H).
  - intros k1 k2 m. rewrite !Hcur. destruct (fst k1 =? n0); [discriminate |]. destruct (fst k2 =? n0); [discriminate |].
    apply (li_cinj _ _ H).
  - intros k m. rewrite Hcur. destruct (fst k =? n0); [discriminate |]. apply (li_curidx _ _ H).
  - apply (li_wired _ _ H).
  - intros x k Hx. rewrite Eall in Hx. apply filter_In in Hx. rewrite Hcur. destruct (fst k =? n0); [discriminate |].
    apply (li_rowgrp _ _ H). tauto.
  - intros k id ck Hin Hlive Hc. rewrite Hcur in Hc. destruct (fst ck =? n0) eqn:En; [discriminate |].
    destruct (li_hasrow _ _ H k id ck Hin Hlive Hc) as (t & v & w & Hrow). exists t, v, w. rewrite Elww.
    apply filter_In. split; auto. rewrite (Hkr _ ck); simpl; auto. rewrite En. reflexivity.
  - intros n tags t v w. unfold s_drop_mst. rewrite filter_In, (li_abs _ _ H), Elww. simpl. split.
    + intros [(m & id & Hc & Hin & Hlive & Hrow) Hnn]. exists m, id. rewrite Hcur. simpl. apply negb_true_iff in Hnn. rewrite Hnn.
      repeat split; auto. apply filter_In. split; auto. rewrite (Hkr _ (n, grp t)); simpl; auto. rewrite Hnn. reflexivity.
    + intros (m & id & Hc & Hin & Hlive & Hrow). rewrite Hcur in Hc. simpl in Hc. destruct (n =? n0) eqn:En; [discriminate |].
      apply filter_In in Hrow. split; auto. exists m, id. tauto.
Qed.

(* ---- reads *)
Lemma LI_read am p R n q x : LI p R -> okq q -> In x (p_read am p n q) <-> In x (s_read am R n q).
Proof.
  intros H Hq. pose proof (li_dwf _ _ H) as (Hwf & _). unfold p_read, s_read.
  rewrite in_map_iff, in_flat_map. split.
  - intros ([g pm] & Hgm & Hx). simpl in Hx. apply in_pms in Hgm. apply (cur_in_iff _ _ _ _ H) in Hgm.
    rewrite (eff_ok p R g H (li_curidx _ _ H _ _ Hgm)) in Hx.
    apply in_flat_map in Hx. destruct Hx as (row & Hrow & Hx). apply filter_In in Hrow. destruct Hrow as [Hrow Hf].
    apply andb_true_iff in Hf. destruct Hf as [Hm Hid]. apply N.eqb_eq in Hm. apply mem_spec in Hid.
    unfold d_T in Hid. rewrite (read_repaired_exact am _ _ pm q _ Hwf Hq), spec_char in Hid.
    destruct Hid as (s & Hin & Hlive & Hms & He).
    apply in_map_iff in Hx. destruct Hx as (k & Ex & Hk). apply key_of_sound in Hk.
    assert (k = s) by (apply (uniq_id _ _ _ (r_id row) (proj1 Hwf)); auto). subst k.
    assert (Hg : grp (r_t row) = g) by (apply (li_rowgrp _ _ H row (n, g)); [apply lww_in; exact Hrow | rewrite Hm; exact Hgm]).
    destruct row as [m id t v w]. destruct s as [ms tags]. simpl in *. subst m ms g.
    exists (mkL n tags t v w). split; auto. apply filter_In. split.
    + apply (li_abs _ _ H). exists pm, id. auto.
    + unfold named. simpl. rewrite N.eqb_refl, He. reflexivity.
  - intros ([n' tags t v w] & Ex & Hlr). apply filter_In in Hlr. destruct Hlr as [Hin Hnamed].
    unfold named in Hnamed. simpl in *. apply andb_true_iff in Hnamed. destruct Hnamed as [Hn He]. apply N.eqb_eq in Hn. subst n'.
    apply (li_abs _ _ H) in Hin. destruct Hin as (pm & id & Hc & HinL & Hlive & Hrow).
    exists (grp t, pm). split; [apply in_pms; apply (cur_in_iff _ _ _ _ H); exact Hc |]. simpl.
    rewrite (eff_ok p R (grp t) H (li_curidx _ _ H _ _ Hc)).
    apply in_flat_map. exists (mkR pm id t v w). split.
    + apply filter_In. split; auto. simpl. rewrite N.eqb_refl. simpl. apply mem_spec. unfold d_T.
      rewrite (read_repaired_exact am _ _ pm q _ Hwf Hq), spec_char. exists (mkS pm tags). auto.
    + apply in_map_iff. exists (mkS pm tags). split; auto. simpl.
      rewrite (key_of_in _ _ _ (proj1 Hwf) HinL). left. reflexivity.
Qed.

Lemma LI_list am p R n q tg : LI p R -> okq q ->
  In tg (p_list am p n q) <-> In tg (map l_tags (filter (named am n q) R)).
Proof.
  intros H Hq. pose proof (li_dwf _ _ H) as (Hwf & _). unfold p_list.
  rewrite in_map_iff, in_flat_map. split.
  - intros ([g pm] & Hgm & Hx). simpl in Hx. apply in_pms in Hgm. apply (cur_in_iff _ _ _ _ H) in Hgm.
    rewrite (eff_ok p R g H (li_curidx _ _ H _ _ Hgm)) in Hx.
    apply in_flat_map in Hx. destruct Hx as (id & Hid & Hx). unfold d_T in Hid.
    apply (list_ids_char am _ _ pm q id Hwf Hq) in Hid. destruct Hid as (s & Hin & Hlive & Hms & He).
    apply in_map_iff in Hx. destruct Hx as (k & Ex & Hk). apply key_of_sound in Hk.
    assert (k = s) by (apply (uniq_id _ _ _ id (proj1 Hwf)); auto). subst k.
    assert (Hc : cur p (n, g) = Some (s_mst s)) by congruence.
    destruct (li_hasrow _ _ H s id (n, g) Hin Hlive Hc) as (t & v & w & Hrow).
    assert (Hg : grp t = g) by (apply (li_rowgrp _ _ H (mkR (s_mst s) id t v w) (n, g)); [apply lww_in; exact Hrow | exact Hc]).
    destruct s as [ms tags]. simpl in *. subst ms tg g.
    exists (mkL n tags t v w). split; auto. apply filter_In. split.
    + apply (li_abs _ _ H). exists pm, id. auto.
    + unfold named. simpl. rewrite N.eqb_refl, He. reflexivity.
  - intros ([n' tags t v w] & Ex & Hlr). apply filter_In in Hlr. destruct Hlr as [Hin Hnamed].
    unfold named in Hnamed. simpl in *. apply andb_true_iff in Hnamed. destruct Hnamed as [Hn He]. apply N.eqb_eq in Hn. subst n'.
    apply (li_abs _ _ H) in Hin. destruct Hin as (pm & id & Hc & HinL & Hlive & Hrow).
    exists (grp t, pm). split; [apply in_pms; apply (cur_in_iff _ _ _ _ H); exact Hc |]. simpl.
    rewrite (eff_ok p R (grp t) H (li_curidx _ _ H _ _ Hc)).
    apply in_flat_map. exists id. split.
    + unfold d_T. apply (list_ids_char am _ _ pm q id Hwf Hq). exists (mkS pm tags). auto.
    + apply in_map_iff. exists (mkS pm tags). split; auto.
      rewrite (key_of_in _ _ _ (proj1 Hwf) HinL). left. reflexivity.
Qed.

(* ---- the whole system against the whole reference *)
Definition GI (t : tstate) (s : sstate) : Prop := t_dbs t = s_dbs s /\ krel LI (t_pols t) (s_pols s).

Lemma GI_0 : GI t0 s0.
Proof. split; [reflexivity | constructor]. Qed.

Lemma kupd_id {V} k (l : list (key * V)) : kupd k (fun x => x) l = l.
Proof. unfold kupd. induction l as [| [k1 v] r IH]; simpl; auto. rewrite IH. destruct (key_eqb k1 k); reflexivity. Qed.

Lemma GI_step am t s o : GI t s -> top_ok o -> GI (tstep true true true am t o) (sstep am s o).
Proof.
  intros [Hd Hk] Hok. destruct o; simpl in *; rewrite <- ?Hd.
  - destruct (mem d (t_dbs t)); split; simpl; auto; try congruence.
  - destruct (mem d (t_dbs t)); split; simpl; auto. apply krel_kins; auto; apply LI_empty.
  - split; simpl; auto. apply krel_kupd; auto. intros a b Hab. apply LI_write; auto.
  - split; simpl; auto. apply krel_kupd; auto. intros a b Hab. apply LI_drop_series; auto.
  - split; simpl; auto. apply krel_kupd; auto. intros a b Hab. apply LI_drop_mst; auto.
  - split; simpl; auto. apply krel_kdel; auto.
  - split; simpl; [congruence |]. apply krel_kdel; auto.
  - split; simpl; auto. rewrite <- (kupd_id (d, r) (s_pols s)). apply krel_kupd; auto. intros a b Hab. apply LI_flush; auto.
  - split; simpl; auto. rewrite <- (kupd_id (d, r) (s_pols s)). apply krel_kupd; auto. intros a b Hab. apply LI_compact; auto.
  - split; simpl; auto. rewrite <- (kupd_id (d, r) (s_pols s)). apply krel_kupd; auto. intros a b Hab. apply LI_sync; auto.
  - split; simpl; auto. rewrite <- (kupd_id (d, r) (s_pols s)). apply krel_kupd; auto. intros a b Hab. apply LI_restart; auto.
Qed.

Lemma GI_run am os : forall t s, GI t s -> Forall top_ok os -> GI (trun true true true am t os) (srun am s os).
Proof.
  induction os as [| o r IH]; simpl; intros t s H Hok; auto.
  inversion Hok; subst. apply IH; auto. apply GI_step; auto.
Qed.

(* THE REFINEMENT: after any sequence of operations, every read shape on every (database, policy, measurement) returns in the
   system model exactly the rows the reference holds for it; so does every listing *)
Theorem tree_refines am os d r n q x : Forall top_ok os -> okq q ->
  In x (tread am (trun true true true am t0 os) d r n q) <-> In x (sread am (srun am s0 os) d r n q).
Proof.
  intros Hok Hq. pose proof (GI_run am os t0 s0 GI_0 Hok) as [_ Hk].
  unfold tread, sread. pose proof (krel_kget LI (d, r) _ _ Hk) as Hg.
  destruct (kget (d, r) (t_pols (trun true true true am t0 os))), (kget (d, r) (s_pols (srun am s0 os))); try contradiction; [| tauto].
  apply LI_read; auto.
Qed.
Theorem tree_list_refines am os d r n q tg : Forall top_ok os -> okq q ->
  In tg (tlist am (trun true true true am t0 os) d r n q) <-> In tg (slist am (srun am s0 os) d r n q).
Proof.
  intros Hok Hq. pose proof (GI_run am os t0 s0 GI_0 Hok) as [_ Hk].
  unfold tlist, slist. pose proof (krel_kget LI (d, r) _ _ Hk) as Hg.
  destruct (kget (d, r) (t_pols (trun true true true am t0 os))), (kget (d, r) (s_pols (srun am s0 os))); try contradiction; [| tauto].
  apply LI_list; auto.
Qed.

(* =====================================================================================================================
   consequences, first on the reference machine, then transported to the system model by the refinement *)
Lemma trun_app d f w am t a b : trun d f w am t (a ++ b) = trun d f w am (trun d f w am t a) b.
Proof. unfold trun. apply fold_left_app. Qed.
Lemma srun_app am s a b : srun am s (a ++ b) = srun am (srun am s a) b.
Proof. unfold srun. apply fold_left_app. Qed.

Lemma key_eqb_sym a b : key_eqb a b = key_eqb b a.
Proof. unfold key_eqb. rewrite (N.eqb_sym (fst a)), (N.eqb_sym (snd a)). reflexivity. Qed.

Lemma kget_in {V} k (l : list (key * V)) v : kget k l = Some v -> In (k, v) l.
Proof.
  unfold kget. destruct (find (fun kv => key_eqb (fst kv) k) l) as [[k1 v1] |] eqn:E; [| discriminate]. intros H. inversion H; subst.
  apply find_some in E. destruct E as [Hin Hk]. simpl in Hk. apply key_eqb_eq in Hk. subst. exact Hin.
Qed.

Definition rows_of_pols (l : list (key * list lrow)) : list (key * lrow) := flat_map (fun kv => map (fun x => (fst kv, x)) (snd kv)) l.
Lemma in_rows_of_pols l k x : In (k, x) (rows_of_pols l) <-> exists R, In (k, R) l /\ In x R.
Proof.
  unfold rows_of_pols. rewrite in_flat_map. split.
  - intros ([k1 R] & Hin & Hx). simpl in Hx. apply in_map_iff in Hx. destruct Hx as (y & E & Hy). inversion E; subst. eauto.
  - intros (R & Hin & Hx). exists (k, R). split; auto. simpl. apply in_map_iff. eauto.
Qed.
Lemma rows_kupd k0 f l k x : In (k, x) (rows_of_pols (kupd k0 f l)) <->
  exists R, In (k, R) l /\ In x (if key_eqb k k0 then f R else R).
Proof.
  rewrite in_rows_of_pols. unfold kupd. split.
  - intros (R & Hin & Hx). apply in_map_iff in Hin. destruct Hin as ([k1 R1] & E & Hin). simpl in E.
    destruct (key_eqb k1 k0) eqn:Ek; inversion E as [[E1 E2]]; rewrite <- E1; exists R1; rewrite Ek; try (rewrite <- E2 in Hx); auto.
  - intros (R & Hin & Hx). destruct (key_eqb k k0) eqn:Ek.
    + exists (f R). split; auto. apply in_map_iff. exists (k, R). simpl. rewrite Ek. auto.
    + exists R. split; auto. apply in_map_iff. exists (k, R). simpl. rewrite Ek. auto.
Qed.
Lemma rows_kdel P l k x : In (k, x) (rows_of_pols (kdel P l)) <-> P k = false /\ In (k, x) (rows_of_pols l).
Proof.
  rewrite !in_rows_of_pols. unfold kdel. split.
  - intros (R & Hin & Hx). apply filter_In in Hin. destruct Hin as [Hin HP]. simpl in HP. apply negb_true_iff in HP. eauto.
  - intros (HP & R & Hin & Hx). exists R. split; auto. apply filter_In. split; auto. simpl. rewrite HP. reflexivity.
Qed.
Lemma rows_kins k0 l k x : In (k, x) (rows_of_pols (kins k0 [] l)) <-> In (k, x) (rows_of_pols l).
Proof.
  unfold kins. destruct (khas k0 l); [tauto |]. rewrite !in_rows_of_pols. split.
  - intros (R & Hin & Hx). apply in_app_iff in Hin. destruct Hin as [Hin | [E | []]]; eauto. inversion E; subst. contradiction.
  - intros (R & Hin & Hx). exists R. split; auto. apply in_app_iff. auto.
Qed.

(* one step of the reference: a located row of the new state was there before and is not named by the step, or carries the
   stamp of the step (it is the row the step wrote) *)
Lemma sstep_rows am s o k x : In (k, x) (srows (sstep am s o)) ->
  (In (k, x) (srows s) /\ hit am o (fst k) (snd k) (l_n x) (l_tags x) = false) \/ In (l_w x) (stamp_of o).
Proof.
  unfold srows. fold rows_of_pols. destruct o; simpl.
  - destruct (mem d (s_dbs s)); simpl; auto.
  - destruct (mem d (s_dbs s)); simpl; auto. rewrite rows_kins. auto.
  - rewrite rows_kupd. intros (R & Hin & Hx). destruct (key_eqb k (d, r)).
    + unfold s_write in Hx. apply in_app_iff in Hx. destruct Hx as [Hx | [<- | []]]; simpl; auto.
      apply filter_In in Hx. left. split; auto. apply in_rows_of_pols. exists R. tauto.
    + left. split; auto. apply in_rows_of_pols. eauto.
  - rewrite rows_kupd. intros (R & Hin & Hx). left. destruct (key_eqb k (d, r)) eqn:Ek.
    + unfold s_drop_series in Hx. apply filter_In in Hx. destruct Hx as [Hx Hn]. split; [apply in_rows_of_pols; eauto |].
      apply negb_true_iff in Hn. unfold named in Hn. apply key_eqb_eq in Ek. subst k. simpl.
      rewrite key_eqb_refl. simpl. rewrite N.eqb_sym. exact Hn.
    + split; [apply in_rows_of_pols; eauto |]. destruct k as [d' r']. simpl. rewrite key_eqb_sym, Ek. reflexivity.
  - rewrite rows_kupd. intros (R & Hin & Hx). left. destruct (key_eqb k (d, r)) eqn:Ek.
    + unfold s_drop_mst in Hx. apply filter_In in Hx. destruct Hx as [Hx Hn]. split; [apply in_rows_of_pols; eauto |].
      apply negb_true_iff in Hn. apply key_eqb_eq in Ek. subst k. simpl. rewrite key_eqb_refl. simpl. rewrite N.eqb_sym. exact Hn.
    + split; [apply in_rows_of_pols; eauto |]. destruct k as [d' r']. simpl. rewrite key_eqb_sym, Ek. reflexivity.
  - rewrite rows_kdel. intros [HP Hin]. left. split; auto; destruct k as [d' r']; exact HP.
  - rewrite rows_kdel. intros [HP Hin]. left. split; auto; simpl; rewrite N.eqb_sym; exact HP.
  - auto.
  - auto.
  - auto.
  - auto.
Qed.

Lemma srun_rows am os : forall s k x, In (k, x) (srows (srun am s os)) ->
  In (k, x) (srows s) \/ In (l_w x) (flat_map stamp_of os).
Proof.
  induction os as [| o r IH]; simpl; intros s k x H; auto.
  apply IH in H. destruct H as [H | H]; [| right; apply in_app_iff; auto].
  apply sstep_rows in H. destruct H as [[H _] | H]; auto. right. apply in_app_iff. auto.
Qed.

Lemma sread_in_srows am s d r n q x : In x (sread am s d r n q) ->
  In ((d, r), mkL n (o_tags x) (snd (fst (fst x))) (snd (fst x)) (o_stamp x)) (srows s) /\ evalq am q (o_tags x) = true.
Proof.
  unfold sread. destruct (kget (d, r) (s_pols s)) as [R |] eqn:E; [| intros []].
  apply kget_in in E. unfold s_read. rewrite in_map_iff. intros ([n' tags t v w] & Ex & Hin).
  apply filter_In in Hin. destruct Hin as [Hin Hn]. unfold named in Hn. simpl in *.
  apply andb_true_iff in Hn. destruct Hn as [Hn He]. apply N.eqb_eq in Hn. subst n' x. simpl. split; auto.
  unfold srows. apply in_rows_of_pols. eauto.
Qed.

(* RE-CREATION IS FRESH / NEW WRITES TO WHAT WAS DROPPED ARE FRESH (reference): whatever a read returns, at any time after a
   drop, from inside what the drop named, carries the stamp of a write that came after the drop *)
Lemma s_after_drop_fresh am ops1 X ops2 d r n q x :
  In x (sread am (srun am s0 (ops1 ++ X :: ops2)) d r n q) ->
  hit am X d r n (o_tags x) = true ->
  In (o_stamp x) (flat_map stamp_of ops2).
Proof.
  intros Hx Hh. apply sread_in_srows in Hx. destruct Hx as [Hx _]. rewrite srun_app in Hx. simpl in Hx.
  apply srun_rows in Hx. destruct Hx as [Hx | Hx]; auto.
  apply sstep_rows in Hx. simpl in Hx. destruct Hx as [[_ Hf] | Hx]; [congruence |].
  destruct X; simpl in *; try discriminate; contradiction.
Qed.

(* reads of the reference after one more step *)
Lemma s_read_filter am (g : lrow -> bool) (h : tagset -> bool) R n q x :
  (forall row, l_n row = n -> g row = h (l_tags row)) ->
  In x (s_read am (filter g R) n q) <-> In x (s_read am R n q) /\ h (o_tags x) = true.
Proof.
  intros Hg. unfold s_read. rewrite !in_map_iff. split.
  - intros (row & Ex & Hin). apply filter_In in Hin. destruct Hin as [Hin Hn]. apply filter_In in Hin. destruct Hin as [Hin Hgr].
    assert (l_n row = n) by (unfold named in Hn; apply andb_true_iff in Hn; destruct Hn as [Hn _]; apply N.eqb_eq; exact Hn).
    split; [exists row; split; auto; apply filter_In; auto |]. subst x. unfold o_tags. simpl. rewrite <- Hg; auto.
  - intros [(row & Ex & Hin) Hh]. apply filter_In in Hin. destruct Hin as [Hin Hn].
    assert (l_n row = n) by (unfold named in Hn; apply andb_true_iff in Hn; destruct Hn as [Hn _]; apply N.eqb_eq; exact Hn).
    exists row. split; auto. apply filter_In. split; auto. apply filter_In. split; auto. rewrite Hg; auto.
    subst x. exact Hh.
Qed.

(* EACH DROP REMOVES EXACTLY WHAT IT NAMES (reference): every read of every location returns what it returned before minus
   exactly the rows the drop names *)
Lemma s_drop_exact am s X d r n q x : is_drop X = true ->
  In x (sread am (sstep am s X) d r n q) <-> In x (sread am s d r n q) /\ hit am X d r n (o_tags x) = false.
Proof.
  intros HX. unfold sread. destruct X; try discriminate; simpl.
  - (* DROP SERIES *)
    destruct (key_eqb (d0, r0) (d, r)) eqn:Ek.
    + apply key_eqb_eq in Ek. inversion Ek; subst d0 r0. rewrite kget_kupd_same.
      destruct (kget (d, r) (s_pols s)) as [R |]; simpl; [| tauto].
      unfold s_drop_series. rewrite (s_read_filter am _ (fun tags => negb ((n0 =? n) && evalq am q0 tags))).
      * rewrite negb_true_iff. reflexivity.
      * intros row Hn. unfold named. rewrite Hn, (N.eqb_sym n n0). reflexivity.
    + rewrite kget_kupd_other; [tauto |]. intros E. rewrite E, key_eqb_refl in Ek. discriminate.
  - destruct (key_eqb (d0, r0) (d, r)) eqn:Ek.
    + apply key_eqb_eq in Ek. inversion Ek; subst d0 r0. rewrite kget_kupd_same.
      destruct (kget (d, r) (s_pols s)) as [R |]; simpl; [| tauto].
      unfold s_drop_mst. rewrite (s_read_filter am _ (fun tags => negb (n0 =? n))).
      * rewrite negb_true_iff. reflexivity.
      * intros row Hn. rewrite Hn, (N.eqb_sym n n0). reflexivity.
    + rewrite kget_kupd_other; [tauto |]. intros E. rewrite E, key_eqb_refl in Ek. discriminate.
  - rewrite kget_kdel. destruct (key_eqb (d0, r0) (d, r)); [| tauto]. split; [intros [] | intros [_ E]; discriminate].
  - rewrite kget_kdel. simpl. rewrite (N.eqb_sym d d0). destruct (d0 =? d); [| tauto]. split; [intros [] | intros [_ E]; discriminate].
Qed.

(* flush / compaction / restart / table sync anywhere in a history are invisible (reference: by definition) *)
Lemma s_invisible am s o : invisible o = true -> sstep am s o = s.
Proof. destruct o; simpl; auto; discriminate. Qed.

(* a write into an existing policy is visible to every read whose predicate its tags satisfy, with its value *)
Lemma s_write_visible am s d r n tags t v w q : kget (d, r) (s_pols s) <> None -> evalq am q tags = true ->
  In (tags, t, v, w) (sread am (sstep am s (TWrite d r n tags t v w)) d r n q).
Proof.
  intros Hex He. unfold sread. simpl. rewrite kget_kupd_same. destruct (kget (d, r) (s_pols s)) as [R |]; [| congruence]. simpl.
  unfold s_read, s_write. apply in_map_iff. exists (mkL n tags t v w). split; auto. apply filter_In. split.
  - apply in_app_iff. right. left. reflexivity.
  - unfold named. simpl. rewrite N.eqb_refl, He. reflexivity.
Qed.

(* ---- the same for the system model *)
Section Transport.
  Variable am : N -> N -> bool.
  Notation run := (trun true true true am t0).

  Theorem drop_exact ops X d r n q x : Forall top_ok (ops ++ [X]) -> okq q -> is_drop X = true ->
    In x (tread am (run (ops ++ [X])) d r n q) <-> In x (tread am (run ops) d r n q) /\ hit am X d r n (o_tags x) = false.
  Proof.
    intros Hok Hq HX. assert (Hok1 : Forall top_ok ops) by (apply Forall_app in Hok; tauto).
    rewrite !tree_refines; auto. rewrite srun_app. simpl. apply s_drop_exact. exact HX.
  Qed.

  Theorem after_drop_fresh ops1 X ops2 d r n q x : Forall top_ok (ops1 ++ X :: ops2) -> okq q ->
    In x (tread am (run (ops1 ++ X :: ops2)) d r n q) -> hit am X d r n (o_tags x) = true ->
    In (o_stamp x) (flat_map stamp_of ops2).
  Proof. intros Hok Hq Hx. rewrite tree_refines in Hx; auto. eapply s_after_drop_fresh; eauto. Qed.

  Theorem dropped_never_reappears ops1 X ops2 d r n q x : Forall top_ok (ops1 ++ X :: ops2) -> okq q ->
    hit am X d r n (o_tags x) = true -> ~ In (o_stamp x) (flat_map stamp_of ops2) ->
    ~ In x (tread am (run (ops1 ++ X :: ops2)) d r n q).
  Proof. intros Hok Hq Hh Hs Hx. apply Hs. eapply after_drop_fresh; eauto. Qed.

  Theorem invisible_ops ops1 o ops2 d r n q x : Forall top_ok (ops1 ++ o :: ops2) -> okq q -> invisible o = true ->
    In x (tread am (run (ops1 ++ o :: ops2)) d r n q) <-> In x (tread am (run (ops1 ++ ops2)) d r n q).
  Proof.
    intros Hok Hq Ho.
    assert (Hok' : Forall top_ok (ops1 ++ ops2)).
    { apply Forall_app in Hok. destruct Hok as [A B]. inversion B; subst. apply Forall_app. auto. }
    rewrite !tree_refines; auto. rewrite !srun_app. simpl. rewrite s_invisible; auto. reflexivity.
  Qed.

  Theorem write_visible ops d r n tags t v w q : Forall top_ok ops -> wf_tags tags -> okq q ->
    kget (d, r) (t_pols (run ops)) <> None -> evalq am q tags = true ->
    In (tags, t, v, w) (tread am (run (ops ++ [TWrite d r n tags t v w])) d r n q).
  Proof.
    intros Hok Ht Hq Hex He. rewrite tree_refines; auto; [| apply Forall_app; split; auto; constructor; auto; constructor].
    rewrite srun_app. simpl. apply s_write_visible; auto.
    pose proof (GI_run am ops t0 s0 GI_0 Hok) as [_ Hk]. pose proof (krel_kget LI (d, r) _ _ Hk) as Hg.
    destruct (kget (d, r) (t_pols (run ops))); [| congruence]. destruct (kget (d, r) (s_pols (srun am s0 ops))); [discriminate | contradiction].
  Qed.
End Transport.

(* THE WIRING THEOREM INSIDE THE REFINEMENT: in every state the system model can reach, every series index of every policy consults
   exactly the policy's deleted set (new indexes are wired at creation, the first DROP SERIES that creates the table wires what
   exists, a restart wires everything) *)
Theorem tree_wiring am os d r p g : Forall top_ok os ->
  kget (d, r) (t_pols (trun true true true am t0 os)) = Some p -> In g (map fst (p_idx p)) -> eff p g = d_del (p_ix p).
Proof.
  intros Hok Hp Hg. pose proof (GI_run am os t0 s0 GI_0 Hok) as [_ Hk]. pose proof (krel_kget LI (d, r) _ _ Hk) as Hget.
  rewrite Hp in Hget. destruct (kget (d, r) (s_pols (srun am s0 os))) as [R |]; [| contradiction].
  eapply eff_ok; eauto.
Qed.
