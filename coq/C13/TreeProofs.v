(* C13 - the system model refines the reference machine: for every operation sequence every read of the system model
   (index + deleted set + incarnations + memtable / files) returns exactly what the reference returns. *)
From Coq Require Import NArith List Bool Lia.
From OG Require Import C10.Model C10.Proofs C13.Model C13.Proofs C13.Tree C13.TreeLemmas.
Import ListNotations.
Open Scope N_scope.

(* ---- the catalogue of live incarnations *)
Definition curl (l : list (N * N)) (n : N) : option N :=
  match find (fun x => fst x =? n) l with Some x => Some (snd x) | None => None end.
Lemma cur_curl p n : cur p n = curl (p_cur p) n.
Proof. reflexivity. Qed.
Lemma curl_in l n pm : curl l n = Some pm -> In (n, pm) l.
Proof.
  unfold curl. destruct (find (fun x => fst x =? n) l) as [[a b] |] eqn:E; [| discriminate]. intros H. inversion H; subst.
  apply find_some in E. destruct E as [Hin Hb]. simpl in Hb. apply N.eqb_eq in Hb. subst. exact Hin.
Qed.
Lemma curl_snoc l n0 pm0 n :
  curl (l ++ [(n0, pm0)]) n = match curl l n with Some y => Some y | None => if n0 =? n then Some pm0 else None end.
Proof.
  unfold curl. rewrite find_app_. destruct (find (fun x => fst x =? n) l); auto. simpl. destruct (n0 =? n); auto.
Qed.
Lemma curl_filter l n0 n :
  curl (filter (fun x => negb (fst x =? n0)) l) n = if n =? n0 then None else curl l n.
Proof.
  unfold curl. induction l as [| [a b] r IH]; simpl; [destruct (n =? n0); auto |].
  destruct (a =? n0) eqn:E0; simpl.
  - rewrite IH. destruct (n =? n0) eqn:E; auto. destruct (a =? n) eqn:E1; auto.
    apply N.eqb_eq in E0, E1. subst. rewrite N.eqb_refl in E. discriminate.
  - destruct (a =? n) eqn:E1; simpl.
    + apply N.eqb_eq in E1. subst. rewrite E0. reflexivity.
    + exact IH.
Qed.

(* ---- facts about the index write *)
Lemma write_facts s k : dwf s ->
  d_del (fst (write s k)) = d_del s /\ In (k, snd (write s k)) (d_L (fst (write s k))) /\ ~ In (snd (write s k)) (d_del s) /\
  (d_L (fst (write s k)) = d_L s \/
   (d_L (fst (write s k)) = d_L s ++ [(k, snd (write s k))] /\ d_next s < snd (write s k) /\
    d_next (fst (write s k)) = snd (write s k) /\
    (forall id, In (k, id) (d_L s) -> In id (d_del s)))) /\
  d_next s <= d_next (fst (write s k)).
Proof.
  intros (Hwf & Hb & Hd). unfold write. destruct (lookup_live s k) as [id |] eqn:E; simpl.
  - apply lookup_live_some in E. destruct E as [Hin Hn]. repeat split; auto. lia.
  - repeat split; auto.
    + apply in_app_iff. right. left. reflexivity.
    + intros Hin. apply Hd in Hin. lia.
    + right. repeat split; auto; try lia. apply lookup_live_none. exact E.
    + lia.
Qed.

(* ---- the local invariant: one policy of the system model against its reference rows *)
Record LI (p : policy) (R : list lrow) : Prop := mkLI {
  li_dwf : dwf (p_ix p);
  li_deld : p_deld p = d_del (p_ix p);
  li_one : forall k i1 i2, In (k, i1) (d_L (p_ix p)) -> In (k, i2) (d_L (p_ix p)) ->
                           ~ In i1 (d_del (p_ix p)) -> ~ In i2 (d_del (p_ix p)) -> i1 = i2;
  li_rows : forall x, In x (p_all p) -> exists tags, In (mkS (r_m x) tags, r_id x) (d_L (p_ix p));
  li_memlive : forall x, In x (p_mem p) ->
                         exists tags, In (mkS (r_m x) tags, r_id x) (d_L (p_ix p)) /\ ~ In (r_id x) (d_del (p_ix p));
  li_mbound : forall e, In e (d_L (p_ix p)) -> s_mst (fst e) <= p_nextm p;
  li_cbound : forall x, In x (p_cur p) -> snd x <= p_nextm p;
  li_cinj : forall n1 n2 pm, cur p n1 = Some pm -> cur p n2 = Some pm -> n1 = n2;
  li_hasrow : forall k id n, In (k, id) (d_L (p_ix p)) -> ~ In id (d_del (p_ix p)) -> cur p n = Some (s_mst k) ->
                             exists t v w, In (mkR (s_mst k) id t v w) (lww (p_all p));
  li_abs : forall n tags t v w, In (mkL n tags t v w) R <->
     exists pm id, cur p n = Some pm /\ In (mkS pm tags, id) (d_L (p_ix p)) /\ ~ In id (d_del (p_ix p)) /\
                   In (mkR pm id t v w) (lww (p_all p))
}.

Lemma LI_empty : LI empty_policy [].
Proof.
  constructor; simpl; try (intros; contradiction); auto.
  - repeat split; simpl; try constructor; intros; contradiction.
  - intros n1 n2 pm H. discriminate.
  - intros. split; [intros [] | intros (pm & id & H & _)]. discriminate.
Qed.

Definition entry_eq_dec : forall a b : entry, {a = b} + {a <> b}.
Proof. decide equality; [apply N.eq_dec | apply series_eq_dec]. Defined.

Lemma dwf_uniq s k1 k2 id : dwf s -> In (k1, id) (d_L s) -> In (k2, id) (d_L s) -> k1 = k2.
Proof. intros ((Hnd & _) & _) H1 H2. exact (uniq_id _ _ _ _ Hnd H1 H2). Qed.

Lemma tagset_eqb_eq a b : tagset_eqb a b = true <-> a = b.
Proof. unfold tagset_eqb. destruct (tagset_eq_dec a b); split; auto; discriminate. Qed.
Lemma same_lpt_iff n tags t x : same_lpt n tags t x = true <-> l_n x = n /\ l_tags x = tags /\ l_t x = t.
Proof. unfold same_lpt. rewrite !andb_true_iff, !N.eqb_eq, tagset_eqb_eq. tauto. Qed.

(* ---- WRITE *)
Lemma LI_write p R n0 tags0 t0 v0 w0 : LI p R -> wf_tags tags0 ->
  LI (p_write p n0 tags0 t0 v0 w0) (s_write R n0 tags0 t0 v0 w0).
Proof.
  intros H Htags.
  (* the measurement *)
  set (p1 := fst (ensure_mst p n0)). set (pm := snd (ensure_mst p n0)).
  assert (Hix1 : p_ix p1 = p_ix p) by (unfold p1, ensure_mst; destruct (cur p n0); reflexivity).
  assert (Hall1 : p_all p1 = p_all p) by (unfold p1, ensure_mst; destruct (cur p n0); reflexivity).
  assert (Hdeld1 : p_deld p1 = p_deld p) by (unfold p1, ensure_mst; destruct (cur p n0); reflexivity).
  assert (Hmem1 : p_mem p1 = p_mem p) by (unfold p1, ensure_mst; destruct (cur p n0); reflexivity).
  assert (Hfiles1 : p_files p1 = p_files p) by (unfold p1, ensure_mst; destruct (cur p n0); reflexivity).
  assert (Hcur1 : forall n, cur p1 n = match cur p n with Some y => Some y | None => if n0 =? n then Some pm else None end).
  { intros n. unfold p1, pm, ensure_mst. destruct (cur p n0) eqn:E; simpl.
    - destruct (cur p n) eqn:E2; auto. destruct (n0 =? n) eqn:E3; auto. apply N.eqb_eq in E3. subst. congruence.
    - rewrite !cur_curl. simpl. apply curl_snoc. }
  assert (Hpm : cur p1 n0 = Some pm).
  { rewrite Hcur1. unfold pm, ensure_mst. destruct (cur p n0) eqn:E; simpl; auto. rewrite N.eqb_refl. reflexivity. }
  assert (Hnext1 : p_nextm p <= p_nextm p1) by (unfold p1, ensure_mst; destruct (cur p n0); simpl; lia).
  assert (Hfresh : cur p n0 = None -> pm = p_nextm p + 1 /\ p_nextm p1 = pm).
  { intros E. unfold pm, p1, ensure_mst. rewrite E. simpl. auto. }
  assert (Hpmb : pm <= p_nextm p1).
  { destruct (cur p n0) eqn:E.
    - assert (pm = n) by (unfold pm, ensure_mst; rewrite E; reflexivity). subst n.
      rewrite cur_curl in E. apply curl_in in E. apply (li_cbound _ _ H) in E. simpl in E. lia.
    - destruct (Hfresh eq_refl). lia. }
  assert (Hcinj1 : forall n1 n2 m, cur p1 n1 = Some m -> cur p1 n2 = Some m -> n1 = n2).
  { intros n1 n2 m. rewrite !Hcur1. destruct (cur p n1) eqn:E1, (cur p n2) eqn:E2; intros A B.
    - inversion A; inversion B; subst. eapply (li_cinj _ _ H); eauto.
    - destruct (n0 =? n2) eqn:E; [| discriminate]. apply N.eqb_eq in E. subst n2. destruct (Hfresh E2) as [Hp _].
      inversion A; inversion B; subst. rewrite cur_curl in E1. apply curl_in in E1. apply (li_cbound _ _ H) in E1. simpl in E1. lia.
    - destruct (n0 =? n1) eqn:E; [| discriminate]. apply N.eqb_eq in E. subst n1. destruct (Hfresh E1) as [Hp _].
      inversion A; inversion B; subst. rewrite cur_curl in E2. apply curl_in in E2. apply (li_cbound _ _ H) in E2. simpl in E2. lia.
    - destruct (n0 =? n1) eqn:Ea; [| discriminate]. destruct (n0 =? n2) eqn:Eb; [| discriminate].
      apply N.eqb_eq in Ea, Eb. congruence. }
  (* the index write *)
  pose proof (li_dwf _ _ H) as Hdwf.
  set (k0 := mkS pm tags0).
  pose proof (write_facts (p_ix p) k0 Hdwf) as (Wdel & Win & Wlive & Wcase & Wnext).
  pose proof (write_dwf (p_ix p) k0 Hdwf Htags) as Hdwf'.
  set (ix' := fst (write (p_ix p) k0)) in *. set (id0 := snd (write (p_ix p) k0)) in *.
  assert (HL' : forall e, In e (d_L ix') <-> In e (d_L (p_ix p)) \/ (e = (k0, id0) /\ In e (d_L ix'))).
  { intros e. destruct Wcase as [E | (E & _)]; rewrite E.
    - tauto.
    - rewrite in_app_iff. simpl. split; [intros [A | [A | []]]; auto; right; split; auto; rewrite E; apply in_app_iff; right; left; auto | tauto]. }
  assert (Hnew : forall k id, In (k, id) (d_L ix') -> ~ In (k, id) (d_L (p_ix p)) -> k = k0 /\ id = id0 /\ d_next (p_ix p) < id0).
  { intros k id Hin Hn. destruct Wcase as [E | (E & Hlt & _)]; rewrite E in Hin; [contradiction |].
    apply in_app_iff in Hin. destruct Hin as [Hin | [Hin | []]]; [contradiction |]. inversion Hin; subst. auto. }
  assert (Hidb : forall k id, In (k, id) (d_L (p_ix p)) -> id <= d_next (p_ix p)).
  { intros k id Hin. destruct Hdwf as (_ & Hb & _). apply (Hb (k, id) Hin). }
  assert (Hone' : forall k i1 i2, In (k, i1) (d_L ix') -> In (k, i2) (d_L ix') ->
                                  ~ In i1 (d_del (p_ix p)) -> ~ In i2 (d_del (p_ix p)) -> i1 = i2).
  { intros k i1 i2 H1 H2 N1 N2.
    destruct (in_dec entry_eq_dec (k, i1) (d_L (p_ix p))) as [A1 | A1];
    destruct (in_dec entry_eq_dec (k, i2) (d_L (p_ix p))) as [A2 | A2].
    + eapply (li_one _ _ H); eauto.
    + destruct (Hnew _ _ H2 A2) as (-> & -> & _). destruct Wcase as [E | (_ & _ & _ & Hall)]; [rewrite E in H2; contradiction |].
      exfalso. apply N1. apply Hall. exact A1.
    + destruct (Hnew _ _ H1 A1) as (-> & -> & _). destruct Wcase as [E | (_ & _ & _ & Hall)]; [rewrite E in H1; contradiction |].
      exfalso. apply N2. apply Hall. exact A2.
    + destruct (Hnew _ _ H1 A1) as (_ & -> & _). destruct (Hnew _ _ H2 A2) as (_ & -> & _). reflexivity. }
  unfold p_write. fold p1 pm. rewrite Hix1. fold k0 ix' id0.
  set (x0 := mkR pm id0 t0 v0 w0).
  assert (Hallnew : p_all (mkP (p_cur p1) (p_nextm p1) ix' (p_deld p1) (p_mem p1 ++ [x0]) (p_files p1)) = p_all p ++ [x0]).
  { unfold p_all. simpl. rewrite Hmem1, Hfiles1, app_assoc. reflexivity. }
  constructor; simpl.
  - exact Hdwf'.
  - rewrite Hdeld1, Wdel. apply (li_deld _ _ H).
  - rewrite Wdel. exact Hone'.
  - (* rows are known to the index *)
    rewrite Hallnew. intros x Hx. apply in_app_iff in Hx. destruct Hx as [Hx | [<- | []]].
    + destruct (li_rows _ _ H x Hx) as (tg & Hin). exists tg. apply HL'. left. exact Hin.
    + exists tags0. exact Win.
  - (* memtable rows have live ids *)
    rewrite Wdel, Hmem1. intros x Hx. apply in_app_iff in Hx. destruct Hx as [Hx | [<- | []]].
    + destruct (li_memlive _ _ H x Hx) as (tg & Hin & Hl). exists tg. split; auto. apply HL'. left. exact Hin.
    + exists tags0. split; [exact Win | exact Wlive].
  - intros e He. apply HL' in He. destruct He as [He | [-> _]]; simpl.
    + apply (li_mbound _ _ H) in He. lia.
    + exact Hpmb.
  - intros x Hx. unfold p1, ensure_mst in *. destruct (cur p n0) eqn:E; simpl in *.
    + apply (li_cbound _ _ H) in Hx. lia.
    + apply in_app_iff in Hx. destruct Hx as [Hx | [<- | []]]; simpl; [apply (li_cbound _ _ H) in Hx |]; lia.
  - exact Hcinj1.
  - (* a live series of a live incarnation has a visible row *)
    rewrite Hallnew, lww_snoc, Wdel. intros k id n Hin Hlive Hc.
    change (cur (mkP (p_cur p1) (p_nextm p1) ix' (p_deld p1) (p_mem p1 ++ [x0]) (p_files p1)) n) with (cur p1 n) in Hc.
    destruct (in_dec entry_eq_dec (k, id) (d_L (p_ix p))) as [A | A].
    + assert (Hc0 : cur p n = Some (s_mst k)).
      { rewrite Hcur1 in Hc. destruct (cur p n) eqn:E; auto. destruct (n0 =? n) eqn:E0; [| discriminate].
        apply N.eqb_eq in E0. subst n. destruct (Hfresh E) as [Hp _]. inversion Hc as [Hc'].
        apply (li_mbound _ _ H) in A. simpl in A. lia. }
      destruct (li_hasrow _ _ H k id n A Hlive Hc0) as (t & v & w & Hrow).
      destruct (same_pt (mkR (s_mst k) id t v w) x0) eqn:Es.
      * apply same_pt_iff in Es. simpl in Es. destruct Es as (Em & Ei & Et). exists t0, v0, w0.
        apply in_app_iff. right. left. unfold x0. congruence.
      * exists t, v, w. apply in_app_iff. left. apply filter_In. split; auto. rewrite Es. reflexivity.
    + destruct (Hnew _ _ Hin A) as (-> & -> & _). exists t0, v0, w0. apply in_app_iff. right. left. reflexivity.
  - (* abstraction *)
    intros n tags t v w. rewrite Hallnew, lww_snoc, Wdel. unfold s_write. rewrite in_app_iff, filter_In. simpl.
    change (cur (mkP (p_cur p1) (p_nextm p1) ix' (p_deld p1) (p_mem p1 ++ [x0]) (p_files p1)) n) with (cur p1 n).
    split.
    + intros [[HR Hns] | [Heq | []]].
      * (* an old row that is not overwritten *)
        apply (li_abs _ _ H) in HR. destruct HR as (m & id & Hc & Hin & Hlive & Hrow).
        exists m, id. repeat split; auto.
        -- rewrite Hcur1, Hc. reflexivity.
        -- apply HL'. left. exact Hin.
        -- apply in_app_iff. left. apply filter_In. split; auto. apply negb_true_iff.
           destruct (same_pt (mkR m id t v w) x0) eqn:Es; auto. exfalso.
           apply same_pt_iff in Es. simpl in Es. destruct Es as (Em & Ei & Et). subst m id t.
           assert (n = n0) by (apply (Hcinj1 n n0 pm); auto; rewrite Hcur1, Hc; reflexivity). subst n.
           assert (Hk : mkS pm tags = k0) by (apply (dwf_uniq ix' _ _ id0 Hdwf'); auto; apply HL'; left; exact Hin).
           inversion Hk; subst tags. apply negb_true_iff in Hns.
           assert (same_lpt n0 tags0 t0 (mkL n0 tags0 t0 v w) = true) by (apply same_lpt_iff; simpl; auto). congruence.
      * inversion Heq; subst. exists pm, id0. repeat split; auto. apply in_app_iff. right. left. reflexivity.
    + intros (m & id & Hc & Hin & Hlive & Hrow). apply in_app_iff in Hrow. destruct Hrow as [Hrow | [Hrow | []]].
      * apply filter_In in Hrow. destruct Hrow as [Hrow Hns]. apply negb_true_iff in Hns.
        (* the entry is an old one: its id is the id of a stored row *)
        assert (Hold : In (mkS m tags, id) (d_L (p_ix p))).
        { destruct (li_rows _ _ H _ (lww_in _ _ Hrow)) as (tg & Hin0). simpl in Hin0.
          assert (mkS m tg = mkS m tags) by (apply (dwf_uniq ix' _ _ id Hdwf'); auto; apply HL'; left; exact Hin0).
          congruence. }
        assert (Hc0 : cur p n = Some m).
        { rewrite Hcur1 in Hc. destruct (cur p n) eqn:E; auto. destruct (n0 =? n) eqn:E0; [| discriminate].
          apply N.eqb_eq in E0. subst n. destruct (Hfresh E) as [Hp _]. inversion Hc; subst m.
          apply (li_mbound _ _ H) in Hold. simpl in Hold. lia. }
        left. split.
        -- apply (li_abs _ _ H). exists m, id. auto.
        -- apply negb_true_iff. destruct (same_lpt n0 tags0 t0 (mkL n tags t v w)) eqn:Es; auto. exfalso.
           apply same_lpt_iff in Es. simpl in Es. destruct Es as (-> & -> & ->).
           assert (m = pm) by congruence. subst m.
           assert (id = id0) by (apply (Hone' k0 id id0); auto; apply HL'; left; exact Hold).
           subst id. assert (same_pt (mkR pm id0 t0 v w) x0 = true) by (apply same_pt_iff; simpl; auto). congruence.
      * right. left. unfold x0 in Hrow. inversion Hrow; subst m id t v w.
        assert (n = n0) by (apply (Hcinj1 n n0 pm); auto). subst n.
        assert (Hk : mkS pm tags = k0) by (apply (dwf_uniq ix' _ _ id0 Hdwf'); auto).
        inversion Hk; subst. reflexivity.
Qed.

(* ---- steps that change neither the catalogue nor what the index and the merged view say *)
Lemma LI_ext p p' R :
  p_cur p' = p_cur p -> p_nextm p' = p_nextm p -> d_L (p_ix p') = d_L (p_ix p) -> d_del (p_ix p') = d_del (p_ix p) ->
  d_next (p_ix p') = d_next (p_ix p) -> p_deld p' = d_del (p_ix p') ->
  lww (p_all p') = lww (p_all p) -> (forall x, In x (p_all p') -> In x (p_all p)) ->
  (forall x, In x (p_mem p') -> In x (p_mem p)) ->
  LI p R -> LI p' R.
Proof.
  intros Ec En EL Ed Ex Edd Elww Hin Hmem H.
  assert (Hcur : forall n, cur p' n = cur p n) by (intros n; unfold cur; rewrite Ec; reflexivity).
  constructor; rewrite ?EL, ?Ed, ?En, ?Elww.
  - destruct (li_dwf _ _ H) as (A & B & C). unfold dwf. rewrite EL, Ed, Ex. auto.
  - rewrite Edd, Ed. reflexivity.
  - apply (li_one _ _ H).
  - intros x Hx. apply (li_rows _ _ H). auto.
  - intros x Hx. apply (li_memlive _ _ H). auto.
  - apply (li_mbound _ _ H).
  - rewrite Ec. apply (li_cbound _ _ H).
  - intros n1 n2 pm. rewrite !Hcur. apply (li_cinj _ _ H).
  - intros k id n. rewrite Hcur. apply (li_hasrow _ _ H).
  - intros n tags t v w. rewrite (li_abs _ _ H). setoid_rewrite Hcur. reflexivity.
Qed.

Lemma LI_flush p R : LI p R -> LI (p_flush p) R.
Proof.
  intros H. assert (E : p_all (p_flush p) = p_all p).
  { unfold p_all, p_flush. simpl. rewrite concat_app. simpl. rewrite !List.app_nil_r. reflexivity. }
  apply (LI_ext p); auto; try reflexivity.
  - simpl. apply (li_deld _ _ H).
  - rewrite E. reflexivity.
  - rewrite E. auto.
  - simpl. intros x [].
Qed.

Lemma LI_compact p R i k : LI p R -> LI (p_compact p i k) R.
Proof.
  intros H. set (fs := p_files p).
  assert (Ea : p_all p = concat (firstn i fs) ++ concat (firstn k (skipn i fs)) ++ (concat (skipn k (skipn i fs)) ++ p_mem p)).
  { unfold p_all. fold fs. rewrite (firstn_skipn_split fs i k) at 1. rewrite !concat_app, <- !app_assoc. reflexivity. }
  assert (Eb : p_all (p_compact p i k) =
               concat (firstn i fs) ++ lww (concat (firstn k (skipn i fs))) ++ (concat (skipn k (skipn i fs)) ++ p_mem p)).
  { unfold p_all, p_compact. simpl. fold fs. rewrite !concat_app. simpl. rewrite ?List.app_nil_r, <- ?app_assoc. reflexivity. }
  apply (LI_ext p); auto; try reflexivity.
  - simpl. apply (li_deld _ _ H).
  - rewrite Ea, Eb. apply lww_compact.
  - intros x. rewrite Ea, Eb, !in_app_iff. intros [A | [A | A]]; auto. right. left. apply lww_in. exact A.
Qed.

Lemma LI_sync p R : LI p R -> LI (p_sync p) R.
Proof. intros H. apply (LI_ext p); auto; reflexivity. Qed.

(* the WAL replay finds for every memtable row the id it has: the one live id of its key *)
Lemma lookup_live_the s k id : NoDup (map snd (d_L s)) ->
  (forall k0 i1 i2, In (k0, i1) (d_L s) -> In (k0, i2) (d_L s) -> ~ In i1 (d_del s) -> ~ In i2 (d_del s) -> i1 = i2) ->
  In (k, id) (d_L s) -> ~ In id (d_del s) -> lookup_live s k = Some id.
Proof.
  intros Hnd Hone Hin Hlive. destruct (lookup_live s k) as [id' |] eqn:E.
  - apply lookup_live_some in E. destruct E as [Hin' Hl']. f_equal. eapply Hone; eauto.
  - exfalso. apply Hlive. eapply lookup_live_none; eauto.
Qed.
Lemma replay_id s rows acc : NoDup (map snd (d_L s)) ->
  (forall k0 i1 i2, In (k0, i1) (d_L s) -> In (k0, i2) (d_L s) -> ~ In i1 (d_del s) -> ~ In i2 (d_del s) -> i1 = i2) ->
  (forall x, In x rows -> exists tags, In (mkS (r_m x) tags, r_id x) (d_L s) /\ ~ In (r_id x) (d_del s)) ->
  fold_left replay_row rows (s, acc) = (s, acc ++ rows).
Proof.
  intros Hnd Hone. revert acc. induction rows as [| x r IH]; intros acc Hrows; simpl; [rewrite app_nil_r; reflexivity |].
  destruct (Hrows x (or_introl eq_refl)) as (tags & Hin & Hlive).
  unfold replay_row at 2. simpl. rewrite (key_of_in _ _ _ Hnd Hin). unfold write.
  rewrite (lookup_live_the s _ _ Hnd Hone Hin Hlive). simpl.
  rewrite IH; [| intros y Hy; apply Hrows; right; exact Hy]. rewrite <- app_assoc. simpl. destruct x; reflexivity.
Qed.

Lemma LI_restart p R : LI p R -> LI (p_restart p) R.
Proof.
  intros H. pose proof (li_dwf _ _ H) as ((Hnd & _) & _).
  assert (E : p_restart p = mkP (p_cur p) (p_nextm p) (mkD (d_L (p_ix p)) (p_deld p) (d_next (p_ix p)) (d_dead (p_ix p)))
                                (p_deld p) (p_mem p) (p_files p)).
  { unfold p_restart. rewrite replay_id; simpl; auto.
    - rewrite (li_deld _ _ H). apply (li_one _ _ H).
    - rewrite (li_deld _ _ H). apply (li_memlive _ _ H). }
  rewrite E. apply (LI_ext p); auto; try reflexivity; simpl.
  - apply (li_deld _ _ H).
Qed.

(* ---- DROP SERIES *)
Lemma list_ids_char am L del m q id : wfL L -> okq q ->
  In id (list_ids am (postings L) del m q) <->
  exists s, In (s, id) L /\ ~ In id del /\ s_mst s = m /\ evalq am q (s_tags s) = true.
Proof. intros Hwf Hq. rewrite (list_ids_exact am L del m q id Hwf Hq). apply spec_char. Qed.

Lemma LI_drop_series am p0 R n0 q : LI p0 R -> okq q ->
  LI (p_drop_series true true am p0 n0 q) (s_drop_series am R n0 q).
Proof.
  intros H0 Hq. unfold p_drop_series. set (p := p_flush p0). assert (H : LI p R) by (apply LI_flush; exact H0).
  assert (Hmem0 : p_mem p = []) by reflexivity. clearbody p. clear H0.
  pose proof (li_dwf _ _ H) as Hdwf. destruct Hdwf as (Hwf & Hb & Hd).
  destruct (cur p n0) as [pm |] eqn:Ec.
  - set (ids := list_ids am (d_T (p_ix p)) (d_del (p_ix p)) pm q).
    assert (Hids : forall id, In id ids <->
              exists s, In (s, id) (d_L (p_ix p)) /\ ~ In id (d_del (p_ix p)) /\ s_mst s = pm /\ evalq am q (s_tags s) = true).
    { intros id. unfold ids, d_T. apply list_ids_char; auto. }
    constructor; simpl; fold ids.
    + unfold dwf. simpl. split; [exact Hwf | split; [exact Hb |]].
      intros id Hin. apply in_app_iff in Hin. destruct Hin as [Hin | Hin]; auto.
      apply Hids in Hin. destruct Hin as (s & Hin & _). apply (Hb (s, id) Hin).
    + rewrite (li_deld _ _ H). reflexivity.
    + intros k i1 i2 H1 H2 N1 N2. apply (li_one _ _ H k); auto; intros A; [apply N1 | apply N2]; apply in_app_iff; auto.
    + apply (li_rows _ _ H).
    + rewrite Hmem0. intros x [].
    + apply (li_mbound _ _ H).
    + apply (li_cbound _ _ H).
    + apply (li_cinj _ _ H).
    + intros k id n Hin Hlive Hc. apply (li_hasrow _ _ H k id n); auto. intros A. apply Hlive. apply in_app_iff. auto.
    + intros n tags t v w. unfold s_drop_series. rewrite filter_In, (li_abs _ _ H). unfold named. simpl.
      change (cur (mkP (p_cur p) (p_nextm p) (drop_series am (p_ix p) pm q) (p_deld p ++ ids) (p_mem p) (p_files p)) n) with (cur p n).
      split.
      * intros [(m & id & Hc & Hin & Hlive & Hrow) Hnn]. exists m, id. repeat split; auto.
        intros A. apply in_app_iff in A. destruct A as [A | A]; [contradiction |].
        apply Hids in A. destruct A as (s & Hin2 & _ & Hm & He).
        assert (s = mkS m tags) by (apply (uniq_id _ _ _ id (proj1 Hwf)); auto). subst s. simpl in *. subst m.
        assert (n = n0) by (apply (li_cinj _ _ H n n0 pm); auto). subst n.
        rewrite N.eqb_refl, He in Hnn. discriminate.
      * intros (m & id & Hc & Hin & Hlive & Hrow). split.
        -- exists m, id. repeat split; auto. intros A. apply Hlive. apply in_app_iff. auto.
        -- apply negb_true_iff. destruct (n =? n0) eqn:En; simpl; auto. apply N.eqb_eq in En. subst n.
           destruct (evalq am q tags) eqn:Ee; auto. exfalso. apply Hlive. apply in_app_iff. right. apply Hids.
           exists (mkS m tags). repeat split; auto; [intros A; apply Hlive; apply in_app_iff; auto | simpl; congruence].
  - (* the measurement does not exist: nothing happens, and the reference has no row of it *)
    constructor; try apply H.
    intros n tags t v w. unfold s_drop_series. rewrite filter_In, (li_abs _ _ H). unfold named. simpl. split; [tauto |].
    intros (m & id & Hc & Hr). split; [eauto |]. destruct (n =? n0) eqn:En; auto. apply N.eqb_eq in En. subst. congruence.
Qed.

(* ---- DROP MEASUREMENT *)
Lemma LI_drop_mst p R n0 : LI p R -> LI (p_drop_mst p n0) (s_drop_mst R n0).
Proof.
  intros H. unfold p_drop_mst. destruct (cur p n0) as [pm |] eqn:Ec.
  - set (keep := fun r : prow => negb (r_m r =? pm)).
    set (p' := mkP (filter (fun x => negb (fst x =? n0)) (p_cur p)) (p_nextm p) (p_ix p) (p_deld p)
                   (filter keep (p_mem p)) (map (filter keep) (p_files p))).
    assert (Eall : p_all p' = filter keep (p_all p)).
    { unfold p_all, p'. simpl. rewrite concat_map_filter, filter_app. reflexivity. }
    assert (Hkeep : forall a b, same_pt a b = true -> keep a = keep b).
    { intros a b E. apply same_pt_iff in E. destruct E as (E & _). unfold keep. rewrite E. reflexivity. }
    assert (Elww : lww (p_all p') = filter keep (lww (p_all p))) by (rewrite Eall; apply lww_filter; exact Hkeep).
    assert (Hcur : forall n, cur p' n = if n =? n0 then None else cur p n).
    { intros n. rewrite !cur_curl. unfold p'. simpl. apply curl_filter. }
    constructor; try apply H; fold p'.
    + intros x Hx. rewrite Eall in Hx. apply filter_In in Hx. apply (li_rows _ _ H). tauto.
    + intros x Hx. simpl in Hx. apply filter_In in Hx. apply (li_memlive _ _ H). tauto.
    + intros x Hx. simpl in Hx. apply filter_In in Hx. apply (li_cbound _ _ H). tauto.
    + intros n1 n2 m. rewrite !Hcur. destruct (n1 =? n0); [discriminate |]. destruct (n2 =? n0); [discriminate |].
      apply (li_cinj _ _ H).
    + intros k id n Hin Hlive Hc. rewrite Hcur in Hc. destruct (n =? n0) eqn:En; [discriminate |].
      destruct (li_hasrow _ _ H k id n Hin Hlive Hc) as (t & v & w & Hrow). exists t, v, w. rewrite Elww.
      apply filter_In. split; auto. unfold keep. simpl. apply negb_true_iff. apply N.eqb_neq. intros E.
      apply N.eqb_neq in En. apply En. apply (li_cinj _ _ H n n0 pm); congruence.
    + intros n tags t v w. unfold s_drop_mst. rewrite filter_In, (li_abs _ _ H), Elww. simpl.
      change (cur p' n) with (cur p' n). split.
      * intros [(m & id & Hc & Hin & Hlive & Hrow) Hnn]. apply negb_true_iff in Hnn. exists m, id.
        rewrite Hcur, Hnn. repeat split; auto. apply filter_In. split; auto. unfold keep. simpl.
        apply negb_true_iff. apply N.eqb_neq. intros E. subst m. apply N.eqb_neq in Hnn. apply Hnn.
        apply (li_cinj _ _ H n n0 pm); auto.
      * intros (m & id & Hc & Hin & Hlive & Hrow). rewrite Hcur in Hc. destruct (n =? n0) eqn:En; [discriminate |].
        apply filter_In in Hrow. split; auto. exists m, id. tauto.
  - constructor; try apply H.
    intros n tags t v w. unfold s_drop_mst. rewrite filter_In, (li_abs _ _ H). simpl. split; [tauto |].
    intros (m & id & Hc & Hr). split; [eauto |]. apply negb_true_iff. apply N.eqb_neq. intros E. subst. congruence.
Qed.

(* ---- reads *)
Lemma LI_read am p R n q x : LI p R -> okq q -> In x (p_read am p n q) <-> In x (s_read am R n q).
Proof.
  intros H Hq. pose proof (li_dwf _ _ H) as (Hwf & _). unfold p_read, s_read.
  rewrite in_map_iff. destruct (cur p n) as [pm |] eqn:Ec.
  - rewrite in_flat_map. split.
    + intros (row & Hrow & Hx). apply filter_In in Hrow. destruct Hrow as [Hrow Hf].
      apply andb_true_iff in Hf. destruct Hf as [Hm Hid]. apply N.eqb_eq in Hm. apply mem_spec in Hid.
      unfold d_T in Hid. rewrite (read_repaired_exact am _ _ pm q _ Hwf Hq), spec_char in Hid.
      destruct Hid as (s & Hin & Hlive & Hms & He).
      apply in_map_iff in Hx. destruct Hx as (k & Ex & Hk). apply key_of_sound in Hk.
      assert (k = s) by (apply (uniq_id _ _ _ (r_id row) (proj1 Hwf)); auto). subst k.
      destruct row as [m id t v w]. destruct s as [ms tags]. simpl in *. subst m ms.
      exists (mkL n tags t v w). split; auto. apply filter_In. split.
      * apply (li_abs _ _ H). exists pm, id. auto.
      * unfold named. simpl. rewrite N.eqb_refl, He. reflexivity.
    + intros ([n' tags t v w] & Ex & Hlr). apply filter_In in Hlr. destruct Hlr as [Hin Hnamed].
      unfold named in Hnamed. simpl in *. apply andb_true_iff in Hnamed. destruct Hnamed as [Hn He]. apply N.eqb_eq in Hn. subst n'.
      apply (li_abs _ _ H) in Hin. destruct Hin as (m & id & Hc & HinL & Hlive & Hrow).
      assert (m = pm) by congruence. subst m.
      exists (mkR pm id t v w). split.
      * apply filter_In. split; auto. simpl. rewrite N.eqb_refl. simpl. apply mem_spec. unfold d_T.
        rewrite (read_repaired_exact am _ _ pm q _ Hwf Hq), spec_char. exists (mkS pm tags). auto.
      * apply in_map_iff. exists (mkS pm tags). split; auto. simpl.
        rewrite (key_of_in _ _ _ (proj1 Hwf) HinL). left. reflexivity.
  - split; [intros [] |]. intros ([n' tags t v w] & _ & Hlr). apply filter_In in Hlr. destruct Hlr as [Hin Hnamed].
    unfold named in Hnamed. simpl in Hnamed. apply andb_true_iff in Hnamed. destruct Hnamed as [Hn _]. apply N.eqb_eq in Hn. subst n'.
    apply (li_abs _ _ H) in Hin. destruct Hin as (m & id & Hc & _). congruence.
Qed.

Lemma LI_list am p R n q tg : LI p R -> okq q ->
  In tg (p_list am p n q) <-> In tg (map l_tags (filter (named am n q) R)).
Proof.
  intros H Hq. pose proof (li_dwf _ _ H) as (Hwf & _). unfold p_list.
  rewrite in_map_iff. destruct (cur p n) as [pm |] eqn:Ec.
  - rewrite in_flat_map. split.
    + intros (id & Hid & Hx). unfold d_T in Hid. apply (list_ids_char am _ _ pm q id Hwf Hq) in Hid.
      destruct Hid as (s & Hin & Hlive & Hms & He).
      apply in_map_iff in Hx. destruct Hx as (k & Ex & Hk). apply key_of_sound in Hk.
      assert (k = s) by (apply (uniq_id _ _ _ id (proj1 Hwf)); auto). subst k.
      assert (Hc : cur p n = Some (s_mst s)) by congruence.
      destruct (li_hasrow _ _ H s id n Hin Hlive Hc) as (t & v & w & Hrow).
      destruct s as [ms tags]. simpl in *. subst ms tg.
      exists (mkL n tags t v w). split; auto. apply filter_In. split.
      * apply (li_abs _ _ H). exists pm, id. auto.
      * unfold named. simpl. rewrite N.eqb_refl, He. reflexivity.
    + intros ([n' tags t v w] & Ex & Hlr). apply filter_In in Hlr. destruct Hlr as [Hin Hnamed].
      unfold named in Hnamed. simpl in *. apply andb_true_iff in Hnamed. destruct Hnamed as [Hn He]. apply N.eqb_eq in Hn. subst n'.
      apply (li_abs _ _ H) in Hin. destruct Hin as (m & id & Hc & HinL & Hlive & Hrow).
      assert (m = pm) by congruence. subst m.
      exists id. split.
      * unfold d_T. apply (list_ids_char am _ _ pm q id Hwf Hq). exists (mkS pm tags). auto.
      * apply in_map_iff. exists (mkS pm tags). split; auto.
        rewrite (key_of_in _ _ _ (proj1 Hwf) HinL). left. reflexivity.
  - split; [intros [] |]. intros ([n' tags t v w] & _ & Hlr). apply filter_In in Hlr. destruct Hlr as [Hin Hnamed].
    unfold named in Hnamed. simpl in Hnamed. apply andb_true_iff in Hnamed. destruct Hnamed as [Hn _]. apply N.eqb_eq in Hn. subst n'.
    apply (li_abs _ _ H) in Hin. destruct Hin as (m & id & Hc & _). congruence.
Qed.

(* ---- the whole system against the whole reference *)
Definition GI (t : tstate) (s : sstate) : Prop := t_dbs t = s_dbs s /\ krel LI (t_pols t) (s_pols s).

Lemma GI_0 : GI t0 s0.
Proof. split; [reflexivity | constructor]. Qed.

Lemma kupd_id {V} k (l : list (key * V)) : kupd k (fun x => x) l = l.
Proof. unfold kupd. induction l as [| [k1 v] r IH]; simpl; auto. rewrite IH. destruct (key_eqb k1 k); reflexivity. Qed.

Lemma GI_step am t s o : GI t s -> top_ok o -> GI (tstep true true am t o) (sstep am s o).
Proof.
  intros [Hd Hk] Hok. destruct o; simpl in *; rewrite <- ?Hd.
  - destruct (mem d (t_dbs t)); split; simpl; auto; try congruence.
  - destruct (mem d (t_dbs t)); split; simpl; auto. apply krel_kins; auto; apply LI_empty.
  - split; simpl; auto. apply krel_kupd; auto. intros a b Hab. apply LI_write; auto.
  - split; simpl; auto. apply krel_kupd; auto. intros a b Hab. apply LI_drop_series; auto.
  - split; simpl; auto. apply krel_kupd; auto. intros a b Hab. apply LI_drop_mst; auto.
  - split; simpl; auto. apply krel_kdel; auto.
  - split; simpl; [congruence |]. apply krel_kdel; auto.
  - split; simpl; auto. rewrite <- (kupd_id (d, r) (s_pols s)). apply krel_kupd; auto. intros a b Hab. apply LI_flush; auto.
  - split; simpl; auto. rewrite <- (kupd_id (d, r) (s_pols s)). apply krel_kupd; auto. intros a b Hab. apply LI_compact; auto.
  - split; simpl; auto. rewrite <- (kupd_id (d, r) (s_pols s)). apply krel_kupd; auto. intros a b Hab. apply LI_sync; auto.
  - split; simpl; auto. rewrite <- (kupd_id (d, r) (s_pols s)). apply krel_kupd; auto. intros a b Hab. apply LI_restart; auto.
Qed.

Lemma GI_run am os : forall t s, GI t s -> Forall top_ok os -> GI (trun true true am t os) (srun am s os).
Proof.
  induction os as [| o r IH]; simpl; intros t s H Hok; auto.
  inversion Hok; subst. apply IH; auto. apply GI_step; auto.
Qed.

(* THE REFINEMENT: after any sequence of operations, every read shape on every (database, policy, measurement) returns in the
   system model exactly the rows the reference holds for it; so does every listing *)
Theorem tree_refines am os d r n q x : Forall top_ok os -> okq q ->
  In x (tread am (trun true true am t0 os) d r n q) <-> In x (sread am (srun am s0 os) d r n q).
Proof.
  intros Hok Hq. pose proof (GI_run am os t0 s0 GI_0 Hok) as [_ Hk].
  unfold tread, sread. pose proof (krel_kget LI (d, r) _ _ Hk) as Hg.
  destruct (kget (d, r) (t_pols (trun true true am t0 os))), (kget (d, r) (s_pols (srun am s0 os))); try contradiction; [| tauto].
  apply LI_read; auto.
Qed.
Theorem tree_list_refines am os d r n q tg : Forall top_ok os -> okq q ->
  In tg (tlist am (trun true true am t0 os) d r n q) <-> In tg (slist am (srun am s0 os) d r n q).
Proof.
  intros Hok Hq. pose proof (GI_run am os t0 s0 GI_0 Hok) as [_ Hk].
  unfold tlist, slist. pose proof (krel_kget LI (d, r) _ _ Hk) as Hg.
  destruct (kget (d, r) (t_pols (trun true true am t0 os))), (kget (d, r) (s_pols (srun am s0 os))); try contradiction; [| tauto].
  apply LI_list; auto.
Qed.

(* =====================================================================================================================
   consequences, first on the reference machine, then transported to the system model by the refinement *)
Lemma trun_app d f am t a b : trun d f am t (a ++ b) = trun d f am (trun d f am t a) b.
Proof. unfold trun. apply fold_left_app. Qed.
Lemma srun_app am s a b : srun am s (a ++ b) = srun am (srun am s a) b.
Proof. unfold srun. apply fold_left_app. Qed.

Lemma key_eqb_sym a b : key_eqb a b = key_eqb b a.
Proof. unfold key_eqb. rewrite (N.eqb_sym (fst a)), (N.eqb_sym (snd a)). reflexivity. Qed.

Lemma kget_in {V} k (l : list (key * V)) v : kget k l = Some v -> In (k, v) l.
Proof.
  unfold kget. destruct (find (fun kv => key_eqb (fst kv) k) l) as [[k1 v1] |] eqn:E; [| discriminate]. intros H. inversion H; subst.
  apply find_some in E. destruct E as [Hin Hk]. simpl in Hk. apply key_eqb_eq in Hk. subst. exact Hin.
Qed.

Definition rows_of_pols (l : list (key * list lrow)) : list (key * lrow) := flat_map (fun kv => map (fun x => (fst kv, x)) (snd kv)) l.
Lemma in_rows_of_pols l k x : In (k, x) (rows_of_pols l) <-> exists R, In (k, R) l /\ In x R.
Proof.
  unfold rows_of_pols. rewrite in_flat_map. split.
  - intros ([k1 R] & Hin & Hx). simpl in Hx. apply in_map_iff in Hx. destruct Hx as (y & E & Hy). inversion E; subst. eauto.
  - intros (R & Hin & Hx). exists (k, R). split; auto. simpl. apply in_map_iff. eauto.
Qed.
Lemma rows_kupd k0 f l k x : In (k, x) (rows_of_pols (kupd k0 f l)) <->
  exists R, In (k, R) l /\ In x (if key_eqb k k0 then f R else R).
Proof.
  rewrite in_rows_of_pols. unfold kupd. split.
  - intros (R & Hin & Hx). apply in_map_iff in Hin. destruct Hin as ([k1 R1] & E & Hin). simpl in E.
    destruct (key_eqb k1 k0) eqn:Ek; inversion E as [[E1 E2]]; rewrite <- E1; exists R1; rewrite Ek; try (rewrite <- E2 in Hx); auto.
  - intros (R & Hin & Hx). destruct (key_eqb k k0) eqn:Ek.
    + exists (f R). split; auto. apply in_map_iff. exists (k, R). simpl. rewrite Ek. auto.
    + exists R. split; auto. apply in_map_iff. exists (k, R). simpl. rewrite Ek. auto.
Qed.
Lemma rows_kdel P l k x : In (k, x) (rows_of_pols (kdel P l)) <-> P k = false /\ In (k, x) (rows_of_pols l).
Proof.
  rewrite !in_rows_of_pols. unfold kdel. split.
  - intros (R & Hin & Hx). apply filter_In in Hin. destruct Hin as [Hin HP]. simpl in HP. apply negb_true_iff in HP. eauto.
  - intros (HP & R & Hin & Hx). exists R. split; auto. apply filter_In. split; auto. simpl. rewrite HP. reflexivity.
Qed.
Lemma rows_kins k0 l k x : In (k, x) (rows_of_pols (kins k0 [] l)) <-> In (k, x) (rows_of_pols l).
Proof.
  unfold kins. destruct (khas k0 l); [tauto |]. rewrite !in_rows_of_pols. split.
  - intros (R & Hin & Hx). apply in_app_iff in Hin. destruct Hin as [Hin | [E | []]]; eauto. inversion E; subst. contradiction.
  - intros (R & Hin & Hx). exists R. split; auto. apply in_app_iff. auto.
Qed.

(* one step of the reference: a located row of the new state was there before and is not named by the step, or carries the
   stamp of the step (it is the row the step wrote) *)
Lemma sstep_rows am s o k x : In (k, x) (srows (sstep am s o)) ->
  (In (k, x) (srows s) /\ hit am o (fst k) (snd k) (l_n x) (l_tags x) = false) \/ In (l_w x) (stamp_of o).
Proof.
  unfold srows. fold rows_of_pols. destruct o; simpl.
  - destruct (mem d (s_dbs s)); simpl; auto.
  - destruct (mem d (s_dbs s)); simpl; auto. rewrite rows_kins. auto.
  - rewrite rows_kupd. intros (R & Hin & Hx). destruct (key_eqb k (d, r)).
    + unfold s_write in Hx. apply in_app_iff in Hx. destruct Hx as [Hx | [<- | []]]; simpl; auto.
      apply filter_In in Hx. left. split; auto. apply in_rows_of_pols. exists R. tauto.
    + left. split; auto. apply in_rows_of_pols. eauto.
  - rewrite rows_kupd. intros (R & Hin & Hx). left. destruct (key_eqb k (d, r)) eqn:Ek.
    + unfold s_drop_series in Hx. apply filter_In in Hx. destruct Hx as [Hx Hn]. split; [apply in_rows_of_pols; eauto |].
      apply negb_true_iff in Hn. unfold named in Hn. apply key_eqb_eq in Ek. subst k. simpl.
      rewrite key_eqb_refl. simpl. rewrite N.eqb_sym. exact Hn.
    + split; [apply in_rows_of_pols; eauto |]. destruct k as [d' r']. simpl. rewrite key_eqb_sym, Ek. reflexivity.
  - rewrite rows_kupd. intros (R & Hin & Hx). left. destruct (key_eqb k (d, r)) eqn:Ek.
    + unfold s_drop_mst in Hx. apply filter_In in Hx. destruct Hx as [Hx Hn]. split; [apply in_rows_of_pols; eauto |].
      apply negb_true_iff in Hn. apply key_eqb_eq in Ek. subst k. simpl. rewrite key_eqb_refl. simpl. rewrite N.eqb_sym. exact Hn.
    + split; [apply in_rows_of_pols; eauto |]. destruct k as [d' r']. simpl. rewrite key_eqb_sym, Ek. reflexivity.
  - rewrite rows_kdel. intros [HP Hin]. left. split; auto; destruct k as [d' r']; exact HP.
  - rewrite rows_kdel. intros [HP Hin]. left. split; auto; simpl; rewrite N.eqb_sym; exact HP.
  - auto.
  - auto.
  - auto.
  - auto.
Qed.

Lemma srun_rows am os : forall s k x, In (k, x) (srows (srun am s os)) ->
  In (k, x) (srows s) \/ In (l_w x) (flat_map stamp_of os).
Proof.
  induction os as [| o r IH]; simpl; intros s k x H; auto.
  apply IH in H. destruct H as [H | H]; [| right; apply in_app_iff; auto].
  apply sstep_rows in H. destruct H as [[H _] | H]; auto. right. apply in_app_iff. auto.
Qed.

Lemma sread_in_srows am s d r n q x : In x (sread am s d r n q) ->
  In ((d, r), mkL n (o_tags x) (snd (fst (fst x))) (snd (fst x)) (o_stamp x)) (srows s) /\ evalq am q (o_tags x) = true.
Proof.
  unfold sread. destruct (kget (d, r) (s_pols s)) as [R |] eqn:E; [| intros []].
  apply kget_in in E. unfold s_read. rewrite in_map_iff. intros ([n' tags t v w] & Ex & Hin).
  apply filter_In in Hin. destruct Hin as [Hin Hn]. unfold named in Hn. simpl in *.
  apply andb_true_iff in Hn. destruct Hn as [Hn He]. apply N.eqb_eq in Hn. subst n' x. simpl. split; auto.
  unfold srows. apply in_rows_of_pols. eauto.
Qed.

(* RE-CREATION IS FRESH / NEW WRITES TO WHAT WAS DROPPED ARE FRESH (reference): whatever a read returns, at any time after a
   drop, from inside what the drop named, carries the stamp of a write that came after the drop *)
Lemma s_after_drop_fresh am ops1 X ops2 d r n q x :
  In x (sread am (srun am s0 (ops1 ++ X :: ops2)) d r n q) ->
  hit am X d r n (o_tags x) = true ->
  In (o_stamp x) (flat_map stamp_of ops2).
Proof.
  intros Hx Hh. apply sread_in_srows in Hx. destruct Hx as [Hx _]. rewrite srun_app in Hx. simpl in Hx.
  apply srun_rows in Hx. destruct Hx as [Hx | Hx]; auto.
  apply sstep_rows in Hx. simpl in Hx. destruct Hx as [[_ Hf] | Hx]; [congruence |].
  destruct X; simpl in *; try discriminate; contradiction.
Qed.

(* reads of the reference after one more step *)
Lemma s_read_filter am (g : lrow -> bool) (h : tagset -> bool) R n q x :
  (forall row, l_n row = n -> g row = h (l_tags row)) ->
  In x (s_read am (filter g R) n q) <-> In x (s_read am R n q) /\ h (o_tags x) = true.
Proof.
  intros Hg. unfold s_read. rewrite !in_map_iff. split.
  - intros (row & Ex & Hin). apply filter_In in Hin. destruct Hin as [Hin Hn]. apply filter_In in Hin. destruct Hin as [Hin Hgr].
    assert (l_n row = n) by (unfold named in Hn; apply andb_true_iff in Hn; destruct Hn as [Hn _]; apply N.eqb_eq; exact Hn).
    split; [exists row; split; auto; apply filter_In; auto |]. subst x. unfold o_tags. simpl. rewrite <- Hg; auto.
  - intros [(row & Ex & Hin) Hh]. apply filter_In in Hin. destruct Hin as [Hin Hn].
    assert (l_n row = n) by (unfold named in Hn; apply andb_true_iff in Hn; destruct Hn as [Hn _]; apply N.eqb_eq; exact Hn).
    exists row. split; auto. apply filter_In. split; auto. apply filter_In. split; auto. rewrite Hg; auto.
    subst x. exact Hh.
Qed.

(* EACH DROP REMOVES EXACTLY WHAT IT NAMES (reference): every read of every location returns what it returned before minus
   exactly the rows the drop names *)
Lemma s_drop_exact am s X d r n q x : is_drop X = true ->
  In x (sread am (sstep am s X) d r n q) <-> In x (sread am s d r n q) /\ hit am X d r n (o_tags x) = false.
Proof.
  intros HX. unfold sread. destruct X; try discriminate; simpl.
  - (* DROP SERIES *)
    destruct (key_eqb (d0, r0) (d, r)) eqn:Ek.
    + apply key_eqb_eq in Ek. inversion Ek; subst d0 r0. rewrite kget_kupd_same.
      destruct (kget (d, r) (s_pols s)) as [R |]; simpl; [| tauto].
      unfold s_drop_series. rewrite (s_read_filter am _ (fun tags => negb ((n0 =? n) && evalq am q0 tags))).
      * rewrite negb_true_iff. reflexivity.
      * intros row Hn. unfold named. rewrite Hn, (N.eqb_sym n n0). reflexivity.
    + rewrite kget_kupd_other; [tauto |]. intros E. rewrite E, key_eqb_refl in Ek. discriminate.
  - destruct (key_eqb (d0, r0) (d, r)) eqn:Ek.
    + apply key_eqb_eq in Ek. inversion Ek; subst d0 r0. rewrite kget_kupd_same.
      destruct (kget (d, r) (s_pols s)) as [R |]; simpl; [| tauto].
      unfold s_drop_mst. rewrite (s_read_filter am _ (fun tags => negb (n0 =? n))).
      * rewrite negb_true_iff. reflexivity.
      * intros row Hn. rewrite Hn, (N.eqb_sym n n0). reflexivity.
    + rewrite kget_kupd_other; [tauto |]. intros E. rewrite E, key_eqb_refl in Ek. discriminate.
  - rewrite kget_kdel. destruct (key_eqb (d0, r0) (d, r)); [| tauto]. split; [intros [] | intros [_ E]; discriminate].
  - rewrite kget_kdel. simpl. rewrite (N.eqb_sym d d0). destruct (d0 =? d); [| tauto]. split; [intros [] | intros [_ E]; discriminate].
Qed.

(* flush / compaction / restart / table sync anywhere in a history are invisible (reference: by definition) *)
Lemma s_invisible am s o : invisible o = true -> sstep am s o = s.
Proof. destruct o; simpl; auto; discriminate. Qed.

(* a write into an existing policy is visible to every read whose predicate its tags satisfy, with its value *)
Lemma s_write_visible am s d r n tags t v w q : kget (d, r) (s_pols s) <> None -> evalq am q tags = true ->
  In (tags, t, v, w) (sread am (sstep am s (TWrite d r n tags t v w)) d r n q).
Proof.
  intros Hex He. unfold sread. simpl. rewrite kget_kupd_same. destruct (kget (d, r) (s_pols s)) as [R |]; [| congruence]. simpl.
  unfold s_read, s_write. apply in_map_iff. exists (mkL n tags t v w). split; auto. apply filter_In. split.
  - apply in_app_iff. right. left. reflexivity.
  - unfold named. simpl. rewrite N.eqb_refl, He. reflexivity.
Qed.

(* ---- the same for the system model *)
Section Transport.
  Variable am : N -> N -> bool.
  Notation run := (trun true true am t0).

  Theorem drop_exact ops X d r n q x : Forall top_ok (ops ++ [X]) -> okq q -> is_drop X = true ->
    In x (tread am (run (ops ++ [X])) d r n q) <-> In x (tread am (run ops) d r n q) /\ hit am X d r n (o_tags x) = false.
  Proof.
    intros Hok Hq HX. assert (Hok1 : Forall top_ok ops) by (apply Forall_app in Hok; tauto).
    rewrite !tree_refines; auto. rewrite srun_app. simpl. apply s_drop_exact. exact HX.
  Qed.

  Theorem after_drop_fresh ops1 X ops2 d r n q x : Forall top_ok (ops1 ++ X :: ops2) -> okq q ->
    In x (tread am (run (ops1 ++ X :: ops2)) d r n q) -> hit am X d r n (o_tags x) = true ->
    In (o_stamp x) (flat_map stamp_of ops2).
  Proof. intros Hok Hq Hx. rewrite tree_refines in Hx; auto. eapply s_after_drop_fresh; eauto. Qed.

  Theorem dropped_never_reappears ops1 X ops2 d r n q x : Forall top_ok (ops1 ++ X :: ops2) -> okq q ->
    hit am X d r n (o_tags x) = true -> ~ In (o_stamp x) (flat_map stamp_of ops2) ->
    ~ In x (tread am (run (ops1 ++ X :: ops2)) d r n q).
  Proof. intros Hok Hq Hh Hs Hx. apply Hs. eapply after_drop_fresh; eauto. Qed.

  Theorem invisible_ops ops1 o ops2 d r n q x : Forall top_ok (ops1 ++ o :: ops2) -> okq q -> invisible o = true ->
    In x (tread am (run (ops1 ++ o :: ops2)) d r n q) <-> In x (tread am (run (ops1 ++ ops2)) d r n q).
  Proof.
    intros Hok Hq Ho.
    assert (Hok' : Forall top_ok (ops1 ++ ops2)).
    { apply Forall_app in Hok. destruct Hok as [A B]. inversion B; subst. apply Forall_app. auto. }
    rewrite !tree_refines; auto. rewrite !srun_app. simpl. rewrite s_invisible; auto. reflexivity.
  Qed.

  Theorem write_visible ops d r n tags t v w q : Forall top_ok ops -> wf_tags tags -> okq q ->
    kget (d, r) (t_pols (run ops)) <> None -> evalq am q tags = true ->
    In (tags, t, v, w) (tread am (run (ops ++ [TWrite d r n tags t v w])) d r n q).
  Proof.
    intros Hok Ht Hq Hex He. rewrite tree_refines; auto; [| apply Forall_app; split; auto; constructor; auto; constructor].
    rewrite srun_app. simpl. apply s_write_visible; auto.
    pose proof (GI_run am ops t0 s0 GI_0 Hok) as [_ Hk]. pose proof (krel_kget LI (d, r) _ _ Hk) as Hg.
    destruct (kget (d, r) (t_pols (run ops))); [| congruence]. destruct (kget (d, r) (s_pols (srun am s0 ops))); [discriminate | contradiction].
  Qed.
End Transport.
