(* C13 - item-level correspondence of the purge model (C13/Purge.v) with the real mergeset table: the harness dumps the items of every
   part before the purge (head, bytes outside the ids, ids) and the content of the table after it; the model computes, for each of
   its variants, what the new parts hold. Storage details that are not the model's business (adjacent tag->ids rows are merged
   again when a block is flushed; the order of parts) are factored out by comparing the SET of (head, id) pairs (id 0 = an item
   without ids). Heads and ids are interned by the harness (ids from 1). *)
From Coq Require Import NArith List Bool Sorting.Mergesort Orders.
From OG Require Import C10.Model C13.Purge.
Import ListNotations.
Open Scope N_scope.

Definition phead := (N * N)%type.                       (* interned head, number of bytes of the item outside its ids *)
Definition pitem := item phead.
Definition hsz (h : phead) : N := snd h.

Module PairOrder <: TotalLeBool.
  Definition t := (N * N)%type.
  Definition leb (a b : t) : bool := (fst a <? fst b) || ((fst a =? fst b) && (snd a <=? snd b)).
  Theorem leb_total : forall a b, leb a b = true \/ leb b a = true.
  Proof.
    intros [a1 a2] [b1 b2]. unfold leb. simpl.
    destruct (N.ltb_spec a1 b1), (N.ltb_spec b1 a1), (N.eqb_spec a1 b1), (N.eqb_spec b1 a1),
             (N.leb_spec a2 b2), (N.leb_spec b2 a2); simpl; auto;
      try (exfalso; subst; eapply N.lt_irrefl; eauto; fail);
      try (exfalso; eapply N.lt_irrefl; eapply N.lt_le_trans; eauto; fail);
      try (exfalso; eapply N.lt_irrefl; eapply N.lt_trans; eauto; fail);
      try (exfalso; apply N.le_antisymm in H; auto; congruence).
  Qed.
End PairOrder.
Module PairSort := Sort PairOrder.

Fixpoint dedup_sorted (l : list (N * N)) : list (N * N) :=
  match l with
  | a :: ((b :: _) as r) => if (fst a =? fst b) && (snd a =? snd b) then dedup_sorted r else a :: dedup_sorted r
  | _ => l
  end.
Definition canon (l : list (N * N)) : list (N * N) := dedup_sorted (PairSort.sort l).
Fixpoint pairs_eqb (a b : list (N * N)) : bool :=
  match a, b with
  | [], [] => true
  | x :: r, y :: s => (fst x =? fst y) && (snd x =? snd y) && pairs_eqb r s
  | _, _ => false
  end.

Definition flat (l : list pitem) : list (N * N) :=
  flat_map (fun x => match snd x with [] => [(fst (fst x), 0)] | ids => map (fun i => (fst (fst x), i)) ids end) l.

(* cap, deleted ids, the parts' items before the purge, the (head, id) pairs of the table after it *)
Record pcase := mkPC { pc_cap : N; pc_del : list N; pc_parts : list (list pitem); pc_after : list (N * N) }.

(* readd: the item that did not fit is re-added; rows: tag->ids rows are filtered id by id *)
Definition model_after (readd rows : bool) (c : pcase) : list (N * N) :=
  let del := fun i => mem i (pc_del c) in
  flat_map (fun items => flat (concat (pack phead hsz (pc_cap c) readd
                                            (if rows then keep_repaired phead del else keep_current phead del) items [] 0 [])))
           (pc_parts c).
Definition purge_agrees (readd rows : bool) (c : pcase) : bool := pairs_eqb (canon (model_after readd rows c)) (canon (pc_after c)).
(* which variants reproduce the table: (today's code, re-add only, rows only, both repairs), and sizes for the report *)
Definition purge_verdict (c : pcase) : (bool * bool * bool * bool) * (N * N * N) :=
  ((purge_agrees false false c, purge_agrees true false c, purge_agrees false true c, purge_agrees true true c),
   (N.of_nat (length (canon (pc_after c))), N.of_nat (length (canon (model_after false false c))),
    N.of_nat (length (canon (model_after true true c))))).
