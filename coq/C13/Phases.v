(* C13 - DROP DATABASE / DROP RETENTION POLICY / DROP MEASUREMENT as the phases the code runs (Tree.v treats them as one step).
   sql node:    MarkDatabaseDelete / MarkRetentionPolicyDelete / MarkMeasurementDelete through the meta raft log; the statement is
                acknowledged after this step (lib/util/lifted/influx/coordinator/statement_executor.go).
   meta leader: Store.checkDelete (app/ts-meta/meta/store.go) looks, every checkInterval, for marked objects, sends the delete to
                every store that owns a part of the object (NetStore.DeleteDatabase / DeleteRetentionPolicy / DeleteMeasurement) and,
                ONLY when all of them returned no error, applies the Drop command that removes the object from the catalogue.
   store:       EngineImpl.DeleteDatabase / DropRetentionPolicy / DropMeasurement close the shards and remove directories - file
                by file; a crash leaves any subset behind; the call is idempotent.
   catalogue:   a marked object is invisible to reads and writes; a database / policy of the same name cannot be created while the
                old one is marked (CheckCanCreateDatabase: "being deleted"); after the Drop command the name is free again and the
                new object uses the same directories.
   The model: one name; the catalogue state of its current object; for every store the files under the name's directory, each
   tagged with the incarnation that wrote it. Crash = a step that changes nothing (the marks are in the raft log, files are files);
   the interesting part is that any prefix of a round may have happened. *)
From Coq Require Import NArith List Bool Lia.
Import ListNotations.
Open Scope N_scope.

Inductive cstate := Absent | Live | Marked.
Record pstate := mkPS {
  ps_cat : cstate;               (* the catalogue entry of the name *)
  ps_inc : N;                    (* incarnation counter: how many objects of this name were created so far *)
  ps_files : list (list N)       (* per store: the incarnations of the files under the name's directory *)
}.

Inductive pstep :=
| PCreate                        (* CREATE DATABASE / POLICY (or the first write) *)
| PWrite (store : nat)           (* an acknowledged write lands in a file on one store *)
| PMark                          (* the DROP statement: acknowledged when this is in the raft log *)
| PStoreDelete (store : nat)     (* the store removes ONE file of the directory (any crash point inside the removal) *)
| PFinalize                      (* meta leader: Drop command, when every store reported success *)
| PCrash.                        (* kill -9 of any process, restart *)

Definition all_empty (fs : list (list N)) : bool := forallb (fun l => match l with [] => true | _ => false end) fs.
Fixpoint upd_nth {A} (n : nat) (f : A -> A) (l : list A) : list A :=
  match l, n with
  | [], _ => []
  | x :: r, O => f x :: r
  | x :: r, S k => x :: upd_nth k f r
  end.

(* [guard]: the finalisation waits for every store (_repaired = today's code); false = a variant that finalises after the mark
   alone (used to show what the guard is for) *)
Definition pnext (guard : bool) (s : pstate) (o : pstep) : pstate :=
  match o with
  | PCreate => match ps_cat s with
               | Absent => mkPS Live (ps_inc s + 1) (ps_files s)
               | _ => s                                  (* exists already, or "being deleted": refused *)
               end
  | PWrite i => match ps_cat s with
                | Live => mkPS Live (ps_inc s) (upd_nth i (fun l => ps_inc s :: l) (ps_files s))
                | _ => s                                 (* not found *)
                end
  | PMark => match ps_cat s with Live => mkPS Marked (ps_inc s) (ps_files s) | _ => s end
  | PStoreDelete i => match ps_cat s with
                      | Marked => mkPS Marked (ps_inc s) (upd_nth i (fun l => tl l) (ps_files s))
                      | _ => s                           (* stores delete only what the meta leader tells them to *)
                      end
  | PFinalize => match ps_cat s with
                 | Marked => if negb guard || all_empty (ps_files s) then mkPS Absent (ps_inc s) (ps_files s) else s
                 | _ => s
                 end
  | PCrash => s
  end.
Definition prun (guard : bool) (s : pstate) (os : list pstep) : pstate := fold_left (pnext guard) os s.
Definition p0 (nstores : nat) : pstate := mkPS Absent 0 (repeat [] nstores).

(* what a read of the name returns: the files of the current object, when the catalogue shows it *)
Definition pvisible (s : pstate) : list N :=
  match ps_cat s with Live => concat (ps_files s) | _ => [] end.

(* one round of the meta leader for a marked object: every store removes everything, then the Drop command *)
Definition delete_all (s : pstate) : pstate :=
  match ps_cat s with Marked => mkPS Marked (ps_inc s) (map (fun _ => []) (ps_files s)) | _ => s end.
Definition pround (guard : bool) (s : pstate) : pstate := pnext guard (delete_all s) PFinalize.

(* ---- proofs *)
Lemma in_upd_nth {A} (f : A -> A) l : forall n x, In x (upd_nth n f l) -> In x l \/ exists y, In y l /\ x = f y.
Proof.
  induction l as [| a r IH]; intros [| n] x H; simpl in *; auto.
  - destruct H as [<- | H]; [right; exists a; auto | auto].
  - destruct H as [<- | H]; auto. destruct (IH n x H) as [H1 | (y & Hy & E)]; auto. right. exists y. auto.
Qed.
Lemma upd_nth_length {A} (f : A -> A) l : forall n, length (upd_nth n f l) = length l.
Proof. induction l as [| a r IH]; intros [| n]; simpl; auto. Qed.

(* every file under the name's directory belongs to the CURRENT object, and there is none when the name is free *)
Definition files_ok (s : pstate) : Prop :=
  forall l x, In l (ps_files s) -> In x l -> x = ps_inc s /\ ps_cat s <> Absent.

Lemma all_empty_spec fs : all_empty fs = true <-> forall l x, In l fs -> ~ In x l.
Proof.
  unfold all_empty. rewrite forallb_forall. split.
  - intros H l x Hl Hx. specialize (H l Hl). destruct l; [destruct Hx | discriminate].
  - intros H l Hl. destruct l as [| a r]; auto. exfalso. apply (H (a :: r) a Hl). left. reflexivity.
Qed.

Lemma files_ok_p0 n : files_ok (p0 n).
Proof. intros l x Hl Hx. simpl in Hl. apply repeat_spec in Hl. subst. destruct Hx. Qed.

Lemma pnext_ok s o : files_ok s -> files_ok (pnext true s o).
Proof.
  intros H. destruct o; simpl; destruct (ps_cat s) eqn:Ec; auto.
  - (* create: the directory is empty *)
    intros l x Hl Hx. simpl in *. exfalso. destruct (H l x Hl Hx) as [_ Hn]. apply Hn. exact Ec.
  - (* write *)
    intros l x Hl Hx. simpl in *. split; [| discriminate].
    apply in_upd_nth in Hl. destruct Hl as [Hl | (y & Hy & ->)].
    + apply (H l x Hl Hx).
    + destruct Hx as [<- | Hx]; auto. apply (H y x Hy Hx).
  - (* mark *)
    intros l x Hl Hx. simpl in *. split; [apply (H l x Hl Hx) | discriminate].
  - (* a store removes a file *)
    intros l x Hl Hx. simpl in *. split; [| discriminate].
    apply in_upd_nth in Hl. destruct Hl as [Hl | (y & Hy & ->)].
    + apply (H l x Hl Hx).
    + destruct y as [| a r]; [destruct Hx |]. apply (H (a :: r) x Hy). right. exact Hx.
  - (* finalise: only when every store is empty *)
    simpl. destruct (all_empty (ps_files s)) eqn:Ee; [| exact H].
    intros l x Hl Hx. simpl in *. exfalso. rewrite all_empty_spec in Ee. exact (Ee l x Hl Hx).
Qed.
Lemma prun_ok os : forall s, files_ok s -> files_ok (prun true s os).
Proof. induction os as [| o r IH]; simpl; auto. intros s H. apply IH. apply pnext_ok. exact H. Qed.

(* NOT DROPPED before the statement is acknowledged: without a mark, no crash, store message or finalisation changes anything *)
Definition background (o : pstep) : bool := match o with PCrash | PStoreDelete _ | PFinalize => true | _ => false end.
Theorem live_untouched g s os : ps_cat s = Live -> forallb background os = true -> prun g s os = s.
Proof.
  intros Hc. revert s Hc. induction os as [| o r IH]; simpl; intros s Hc Hb; auto.
  apply andb_true_iff in Hb. destruct Hb as [Ho Hr].
  assert (pnext g s o = s) by (destruct o; simpl in *; try discriminate; rewrite ?Hc; reflexivity).
  rewrite H. apply IH; auto.
Qed.

(* DROPPED from the acknowledgement on, at every crash point: once the object is marked (or gone), whatever happens - crashes,
   store deletions in any order and to any extent, finalisation, refused writes, repeated drops - no read returns anything until
   somebody creates the name again (which is refused while the mark is there) *)
Definition not_create (o : pstep) : bool := match o with PCreate => false | _ => true end.
Theorem dropped_at_every_point g s os : ps_cat s <> Live -> forallb not_create os = true -> pvisible (prun g s os) = [].
Proof.
  revert s. induction os as [| o r IH]; simpl; intros s Hc Hb.
  - unfold pvisible. destruct (ps_cat s); auto. congruence.
  - apply andb_true_iff in Hb. destruct Hb as [Ho Hr]. apply IH; auto.
    destruct o; simpl in *; try discriminate; destruct (ps_cat s) eqn:E; simpl; try congruence;
      try (destruct (negb g || all_empty (ps_files s)); simpl; congruence).
Qed.
Theorem create_refused_while_marked g s : ps_cat s = Marked -> pnext g s PCreate = s.
Proof. intros H. simpl. rewrite H. reflexivity. Qed.

(* A RE-RUN COMPLETES from every crash point: whatever part of the deletion happened before (any sequence of store steps and
   crashes after the mark), one more round of the meta leader leaves the name free and every store empty *)
Definition deletion_step (o : pstep) : bool := match o with PCrash | PStoreDelete _ => true | _ => false end.
Lemma marked_stays g s os : ps_cat s = Marked -> forallb deletion_step os = true -> ps_cat (prun g s os) = Marked.
Proof.
  revert s. induction os as [| o r IH]; simpl; intros s Hc Hb; auto.
  apply andb_true_iff in Hb. destruct Hb as [Ho Hr]. apply IH; auto.
  destruct o; simpl in *; try discriminate; rewrite Hc; reflexivity.
Qed.
Lemma all_empty_map_nil {A} (fs : list A) : all_empty (map (fun _ => []) fs) = true.
Proof. induction fs; simpl; auto. Qed.
Theorem rerun_completes s os : ps_cat s = Marked -> forallb deletion_step os = true ->
  ps_cat (pround true (prun true s os)) = Absent /\ all_empty (ps_files (pround true (prun true s os))) = true.
Proof.
  intros Hc Hb. pose proof (marked_stays true s os Hc Hb) as Hm.
  unfold pround, delete_all. rewrite Hm. simpl. rewrite all_empty_map_nil. simpl. split; auto. apply all_empty_map_nil.
Qed.

(* RE-CREATION IS FRESH: in every state reachable from the empty system, whatever a read returns was written into the current
   object - no file of an earlier object of the same name is ever visible again *)
Theorem recreated_is_fresh n os x : In x (pvisible (prun true (p0 n) os)) -> x = ps_inc (prun true (p0 n) os).
Proof.
  intros Hx. pose proof (prun_ok os (p0 n) (files_ok_p0 n)) as Hok. unfold pvisible in Hx.
  destruct (ps_cat (prun true (p0 n) os)); try destruct Hx.
  apply in_concat in Hx. destruct Hx as (l & Hl & Hx). apply (Hok l x Hl Hx).
Qed.
(* ... and the name is free only when no file is left *)
Theorem free_name_has_no_files n os : ps_cat (prun true (p0 n) os) = Absent -> all_empty (ps_files (prun true (p0 n) os)) = true.
Proof.
  intros Hc. pose proof (prun_ok os (p0 n) (files_ok_p0 n)) as Hok. apply all_empty_spec. intros l x Hl Hx.
  destruct (Hok l x Hl Hx) as [_ Hn]. contradiction.
Qed.

(* ---- listings (show series / tag values / tag keys) resolve the measurements of a policy through another catalogue walk than
   selects do (finding C13-marked-policy-still-listed): [checks_mark] = that walk skips a marked object too (_repaired; today it does
   for databases and measurements, not for retention policies) *)
Definition plisted (checks_mark : bool) (s : pstate) : list N :=
  match ps_cat s with
  | Live => concat (ps_files s)
  | Marked => if checks_mark then [] else concat (ps_files s)
  | Absent => []
  end.
(* REPAIRED: every kind of read agrees at every point of every run *)
Theorem listed_consistent s : plisted true s = pvisible s.
Proof. unfold plisted, pvisible. destruct (ps_cat s); reflexivity. Qed.
