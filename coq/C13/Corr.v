(* C13 correspondence evaluator: replays a black-box history on the model and compares, read by read, the set of series keys
   the server returned rows for with the set the model's read path selects. Strings interned by the driver. *)
From Coq Require Import NArith List Bool.
From OG Require Import C10.Model C13.Model.
Import ListNotations.
Open Scope N_scope.

Inductive kop :=
| KWrite (k : series)
| KDropSeries (m : N) (q : option expr)
| KDropMeasurement (m : N)
(* path: 0 = a select-path shape, 1 = a listing; primed: the identical tag filter was evaluated before the last DROP SERIES
   (its cached answer may still be served for some seconds); obs: series keys seen in the answer *)
| KRead (path : N) (primed : bool) (m : N) (q : option expr) (obs : list series)
(* conditioned listings: tag values of key k / tag keys, of the series of m selected by q *)
| KVals (m k : N) (q : option expr) (obs : list N)
| KKeys (m : N) (q : option expr) (obs : list N).

Definition pair_mem (tab : list (N * N)) (a b : N) : bool := existsb (fun x => (fst x =? a) && (snd x =? b)) tab.
Definition smem (s : series) (l : list series) : bool := existsb (series_eqb s) l.
Definition sset_eqb (a b : list series) : bool := forallb (fun x => smem x b) a && forallb (fun x => smem x a) b.
Definition nset_eqb (a b : list N) : bool := forallb (fun x => mem x b) a && forallb (fun x => mem x a) b.
Definition keys_of (L : list entry) (ids : list N) : list series := flat_map (key_of L) ids.

Record ctab := mkT { t_am : list (N * N); t_orv : list N; t_ord : list (N * N) }.

(* ca: all-of-measurement leaf as today; co: exact-value lookups as today *)
Definition model_read (ca co : bool) (t : ctab) (s : dstate) (del : list N) (path m : N) (q : option expr) : list series :=
  let am := pair_mem (t_am t) in
  let ids :=
    if path =? 1 then list_ids am (d_T s) del m q
    else match q with
         | None => if ca then all_current (pair_mem (t_ord t)) (d_T s) del m else all_repaired (d_T s) del m
         | Some e => dsearch am (fun p => mem p (t_orv t)) (if ca then all_current (pair_mem (t_ord t)) else all_repaired)
                            (negb co) (d_T s) del m e
         end in
  keys_of (d_L s) ids.

Fixpoint check_ops (ca co : bool) (t : ctab) (k : nat) (s : dstate) (prev : list N) (os : list kop) : list nat :=
  match os with
  | [] => []
  | KWrite x :: r => check_ops ca co t (S k) (fst (write s x)) prev r
  | KDropSeries m q :: r => check_ops ca co t (S k) (drop_series (pair_mem (t_am t)) s m q) (d_del s) r
  | KDropMeasurement m :: r => check_ops ca co t (S k) (drop_measurement s m) prev r
  | KRead path primed m q obs :: r =>
      let ok := sset_eqb (model_read ca co t s (d_del s) path m q) obs ||
                (primed && sset_eqb (model_read ca co t s prev path m q) obs) in
      (if ok then [] else [k]) ++ check_ops ca co t (S k) s prev r
  | KVals m key q obs :: r =>
      (if nset_eqb (list_tag_values_where (pair_mem (t_am t)) (d_T s) (d_del s) m key q) obs then [] else [k])
      ++ check_ops ca co t (S k) s prev r
  | KKeys m q obs :: r =>
      (if nset_eqb (list_tag_keys_where (pair_mem (t_am t)) (d_T s) (d_del s) m q) obs then [] else [k])
      ++ check_ops ca co t (S k) s prev r
  end.

Definition ccase := (ctab * list kop)%type.
Definition check_case (ca co : bool) (c : ccase) : list nat := check_ops ca co (fst c) 0 (mkD [] [] 0 []) [] (snd c).
Fixpoint mismatches_from (ca co : bool) (k : nat) (cs : list ccase) : list (nat * nat) :=
  match cs with
  | [] => []
  | c :: r => map (fun x => (k, x)) (check_case ca co c) ++ mismatches_from ca co (S k) r
  end.
Definition mismatches (ca co : bool) := mismatches_from ca co 0.
