(* C13 - correspondence evaluator for the tree model: replays a black-box history (as operations of C13/Tree.v) on BOTH machines -
   the system model (repaired variants) and the reference machine - and compares, read by read, their answers (tags, time, value)
   with the expectation the harness's reference map computed for the same read. This ties the Go oracle to the Coq reference machine
   (and, through the refinement theorem, to the system model); the server is compared with the Go oracle by the harness itself. *)
From Coq Require Import NArith List Bool.
From OG Require Import C10.Model C13.Model C13.Tree.
Import ListNotations.
Open Scope N_scope.

Definition wrow := (tagset * N * N)%type.
Inductive tk :=
| TOp (o : top)
| TRead (d r n : N) (q : option expr) (want : list wrow).

Definition proj (x : orow) : wrow := (fst (fst (fst x)), snd (fst (fst x)), snd (fst x)).
Definition wrow_eqb (a b : wrow) : bool :=
  tagset_eqb (fst (fst a)) (fst (fst b)) && (snd (fst a) =? snd (fst b)) && (snd a =? snd b).
Definition wmem (x : wrow) (l : list wrow) : bool := existsb (wrow_eqb x) l.
Definition wset_eqb (a b : list wrow) : bool := forallb (fun x => wmem x b) a && forallb (fun x => wmem x a) b.

Definition pair_mem (tab : list (N * N)) (a b : N) : bool := existsb (fun x => (fst x =? a) && (snd x =? b)) tab.

Fixpoint tcheck (am : N -> N -> bool) (k : nat) (t : tstate) (s : sstate) (l : list tk) : list nat :=
  match l with
  | [] => []
  | TOp o :: r => tcheck am (S k) (tstep true true true am t o) (sstep am s o) r
  | TRead d rp n q want :: r =>
      (if wset_eqb (map proj (tread am t d rp n q)) want && wset_eqb (map proj (sread am s d rp n q)) want then [] else [k])
      ++ tcheck am (S k) t s r
  end.

Definition tcase := (list (N * N) * list tk)%type.
Fixpoint tmismatches_from (k : nat) (cs : list tcase) : list (nat * nat) :=
  match cs with
  | [] => []
  | c :: r => map (fun x => (k, x)) (tcheck (pair_mem (fst c)) 0 t0 s0 (snd c)) ++ tmismatches_from (S k) r
  end.
Definition tmismatches := tmismatches_from 0.
