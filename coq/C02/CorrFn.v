(* C02 function-level tie: lib/record's exported functions called directly (harness cmd/c02 fn.go) against the model's
   functions - ColumnSortHelper.Sort = sort_dedup, Record.MergeRecord / MergeRecordDescend (newer, older) = over. *)
From Coq Require Import ZArith List Bool.
From OG Require Import C02.Model C02.Corr.
Import ListNotations.
Open Scope Z_scope.

(* fn: 0 sort (a = raw rows in arrival order), 1 merge ascending, 2 merge descending (the driver passes a, b, out ascending) *)
Definition fncase := (Z * list row * list row * list row)%type.
Definition fn_ok (c : fncase) : bool :=
  match c with
  | (fn, a, b, out) => if fn =? 0 then list_eqb row_eqb (sort_dedup a) out else list_eqb row_eqb (over a b) out
  end.
Fixpoint fn_bad_from (k : nat) (cs : list fncase) : list (nat * nat * nat) :=
  match cs with
  | [] => []
  | c :: r => if fn_ok c then fn_bad_from (S k) r else (k, Z.to_nat (fst (fst (fst c))), 0%nat) :: fn_bad_from (S k) r
  end.
Definition fn_bad := fn_bad_from 0.
Definition fn_total (cs : list fncase) : nat := length cs.
