(* C02 - the layout predicate (sequences ascending, ordered files per-series time-increasing by position) is PRESERVED by
   write, flush (plain / paused), compaction, merge-self and reopen; only the out-of-order merge, whose placement bounds
   are free parameters taken from the store, needs its result checked. Hence the theorems of Refine.v hold under the
   planner predicate alone (ops_planned), without assuming the layout predicate after every op. *)
From Coq Require Import ZArith List Bool Lia Sorted.
From OG Require Import C02.Model C02.Proofs C02.Corr C02.Refine C02.FileCursor.
Import ListNotations.
Open Scope Z_scope.

(* ---- ascending sequences ---- *)
Lemma asc_seq_zs : forall l, asc_seq l = asc_zs (map f_seq l).
Proof.
  induction l as [| x l IH]; auto. destruct l as [| y l']; auto.
  change (asc_seq (x :: y :: l')) with ((f_seq x <? f_seq y) && asc_seq (y :: l')). rewrite IH. reflexivity.
Qed.
Lemma asc_zs_ss : forall l, asc_zs l = true <-> StronglySorted Z.lt l.
Proof.
  induction l as [| x l IH].
  - split; intros _; [constructor | reflexivity].
  - destruct l as [| y l'].
    + split; intros _; [constructor; constructor | reflexivity].
    + split; intro H.
      * cbn [asc_zs] in H. apply andb_true_iff in H. destruct H as [H1 H2].
        apply IH in H2. inversion H2 as [| ? ? S F]; subst. constructor; auto. constructor; [lia |].
        eapply Forall_impl; [| exact F]. intros a Ha. cbn in Ha. lia.
      * inversion H as [| ? ? S F]; subst. cbn [asc_zs]. apply andb_true_iff. split.
        -- inversion F; subst. lia.
        -- apply IH. exact S.
Qed.

Lemma ss_app : forall (a b : list Z), StronglySorted Z.lt (a ++ b) <->
  StronglySorted Z.lt a /\ StronglySorted Z.lt b /\ forall x y, In x a -> In y b -> x < y.
Proof.
  induction a as [| z a IH]; intros b; cbn [app].
  - split; [intro H; repeat split; auto; [constructor | intros x y []] | tauto].
  - split.
    + intro H. inversion H as [| ? ? S F]; subst. apply IH in S. destruct S as (Sa & Sb & C).
      apply Forall_app in F. destruct F as [Fa Fb]. repeat split; auto.
      * constructor; auto.
      * intros x y [<- | I] J; [rewrite Forall_forall in Fb; auto | auto].
    + intros (Sa & Sb & C). inversion Sa as [| ? ? S F]; subst. constructor.
      * apply IH. repeat split; auto. intros x y I J. apply C; auto. right; auto.
      * apply Forall_app. split; auto. apply Forall_forall. intros y J. apply C; auto. left; auto.
Qed.

Lemma asc_snoc_fresh : forall l f, asc_seq l = true -> fresh_seq (f_seq f) l = true -> asc_seq (l ++ [f]) = true.
Proof.
  intros l f A F. rewrite asc_seq_zs in *. rewrite map_app. cbn [map]. apply asc_zs_ss. apply asc_zs_ss in A.
  apply ss_app. repeat split; auto.
  - constructor; constructor.
  - intros x y I [<- | []]. apply in_map_iff in I. destruct I as (g & <- & I).
    unfold fresh_seq in F. rewrite forallb_forall in F. specialize (F g I). lia.
Qed.
Lemma asc_add_file : forall s t l, asc_seq l = true -> fresh_seq s l = true -> asc_seq (add_file s t l) = true.
Proof.
  intros s t l A F. unfold add_file. destruct t; auto. rewrite insert_file_fresh by exact F. apply asc_snoc_fresh; auto.
Qed.

Lemma replace_run_seqs : forall g nf nf' l p, f_seq nf = f_seq nf' ->
  map f_seq (replace_run g nf l p) = map f_seq (replace_run g nf' l p).
Proof.
  induction l as [| x l IH]; intros p E; cbn; auto. destruct (in_grp g x).
  - destruct p; cbn; [auto | rewrite E; f_equal; auto].
  - cbn. f_equal; auto.
Qed.

Lemma asc_replace_first : forall g l tab, adjacent g l = true -> asc_seq l = true ->
  match filter (in_grp g) l with
  | [] => True
  | m0 :: _ => asc_seq (replace_run g {| f_seq := f_seq m0; f_tab := tab |} l false) = true
  end.
Proof.
  intros g l tab Adj A. destruct (adj_split g l Adj) as (pre & run & post & E & Np & Ar & Npo). subst l.
  rewrite (filter_split g pre run post Np Ar Npo). destruct run as [| x run]; auto.
  rewrite replace_run_split; auto. rewrite asc_seq_zs in *. rewrite !map_app in *. cbn [map f_seq] in *.
  apply asc_zs_ss. apply asc_zs_ss in A. apply ss_app in A. destruct A as (S1 & S2 & C1).
  change (f_seq x :: map f_seq run ++ map f_seq post) with ((f_seq x :: map f_seq run) ++ map f_seq post) in S2.
  apply ss_app in S2. destruct S2 as (S3 & S4 & C2).
  apply ss_app. repeat split; auto.
  - change (f_seq x :: map f_seq post) with ([f_seq x] ++ map f_seq post). apply ss_app. repeat split; auto.
    + constructor; constructor.
    + intros a b [<- | []] J. apply C2; auto. left; auto.
  - intros a b I [<- | J].
    + apply C1; auto. left; auto.
    + apply C1; auto. right. apply in_or_app. right; auto.
Qed.

(* ---- ordered files: pairwise form of ord_ok_from ---- *)
Lemma ord_ok_cons : forall x r, ord_ok_from (x :: r) = forallb (before_ok x) r && ord_ok_from r.
Proof. reflexivity. Qed.
Lemma ord_ok_app : forall a b, ord_ok_from (a ++ b) = true <->
  ord_ok_from a = true /\ ord_ok_from b = true /\ forall x y, In x a -> In y b -> before_ok x y = true.
Proof.
  induction a as [| z a IH]; intros b; cbn [app].
  - split; [intro H; repeat split; auto; intros x y [] | tauto].
  - rewrite !ord_ok_cons. split.
    + intro H. apply andb_true_iff in H. destruct H as [H1 H2]. apply IH in H2. destruct H2 as (A & B & C).
      rewrite forallb_app in H1. apply andb_true_iff in H1. destruct H1 as [H1 H3]. repeat split; auto.
      * rewrite H1, A. reflexivity.
      * intros x y [<- | I] J; [rewrite forallb_forall in H3; auto | auto].
    + intros (A & B & C). apply andb_true_iff in A. destruct A as [A1 A2]. apply andb_true_iff. split.
      * rewrite forallb_app, A1. cbn. apply forallb_forall. intros y J. apply C; auto. left; auto.
      * apply IH. repeat split; auto. intros x y I J. apply C; auto. right; auto.
Qed.

Lemma max_fold_attained : forall s tab acc m, fold_left (mxstep s) tab acc = Some m ->
  acc = Some m \/ exists fs, In ((s, m), fs) tab.
Proof.
  induction tab as [| [[s' t] fs] tab IH]; intros acc m H; cbn [fold_left] in H; auto.
  destruct (IH _ _ H) as [E | [fs' I]]; [| right; exists fs'; right; auto].
  unfold mxstep in E. cbn [fst snd] in E. destruct (s' =? s) eqn:Q; auto.
  assert (s' = s) by lia. subst s'. destruct acc as [a |].
  - injection E as E'. destruct (Z.max_spec a t) as [[_ X] | [_ X]]; rewrite X in E'; subst m.
    + right. exists fs. left. reflexivity.
    + left. reflexivity.
  - injection E as E'. subst m. right. exists fs. left. reflexivity.
Qed.
Lemma min_fold_attained : forall s tab acc m, fold_left (mnstep s) tab acc = Some m ->
  acc = Some m \/ exists fs, In ((s, m), fs) tab.
Proof.
  induction tab as [| [[s' t] fs] tab IH]; intros acc m H; cbn [fold_left] in H; auto.
  destruct (IH _ _ H) as [E | [fs' I]]; [| right; exists fs'; right; auto].
  unfold mnstep in E. cbn [fst snd] in E. destruct (s' =? s) eqn:Q; auto.
  assert (s' = s) by lia. subst s'. destruct acc as [a |].
  - injection E as E'. destruct (Z.min_spec a t) as [[_ X] | [_ X]]; rewrite X in E'; subst m.
    + left. reflexivity.
    + right. exists fs. left. reflexivity.
  - injection E as E'. subst m. right. exists fs. left. reflexivity.
Qed.
Lemma max_attained : forall s tab m, max_time_in s tab = Some m -> exists fs, In ((s, m), fs) tab.
Proof. intros s tab m H. rewrite max_time_in_fold in H. destruct (max_fold_attained _ _ _ _ H) as [E | X]; [discriminate | auto]. Qed.
Lemma min_attained : forall s tab m, min_time_in s tab = Some m -> exists fs, In ((s, m), fs) tab.
Proof. intros s tab m H. rewrite min_time_in_fold in H. destruct (min_fold_attained _ _ _ _ H) as [E | X]; [discriminate | auto]. Qed.

Lemma before_ok_intro : forall x y, (forall s a b, max_time_in s (f_tab x) = Some a -> min_time_in s (f_tab y) = Some b -> a < b) ->
  before_ok x y = true.
Proof.
  intros x y H. unfold before_ok. apply forallb_forall. intros s _.
  destruct (max_time_in s (f_tab x)) as [a |] eqn:E1; auto. destruct (min_time_in s (f_tab y)) as [b |] eqn:E2; auto.
  specialize (H s a b E1 E2). lia.
Qed.
Lemma before_ok_elim : forall x y s a b, before_ok x y = true -> max_time_in s (f_tab x) = Some a -> min_time_in s (f_tab y) = Some b -> a < b.
Proof.
  intros x y s a b H E1 E2. unfold before_ok in H. rewrite forallb_forall in H.
  specialize (H s (max_time_in_some_series s _ a E1)). rewrite E1, E2 in H. lia.
Qed.

(* ---- flush: the new ordered file lies after every ordered file, per series ---- *)
Lemma end_flush_layout_ok : forall L a so su, layout_ok L = true ->
  fresh_seq so (ord L) = true -> fresh_seq su (ooo L) = true -> layout_ok (end_flush a so su L) = true.
Proof.
  intros L a so su LO Fo Fu. unfold layout_ok in *. apply andb_true_iff in LO. destruct LO as [LO O3].
  apply andb_true_iff in LO. destruct LO as [O1 O2].
  unfold end_flush. cbn [ooo ord]. rewrite (asc_add_file su _ _ O1 Fu), (asc_add_file so _ _ O2 Fo). cbn [andb].
  set (fresh := filter (fun r : row => negb (a || is_late (ord L ++ ooo L) r)) (sort_dedup (snap L))).
  unfold add_file. destruct fresh as [| r0 fr] eqn:EF; auto.
  rewrite insert_file_fresh by exact Fo. apply ord_ok_app. repeat split; auto.
  intros x y Ix [<- | []]. apply before_ok_intro. intros s mx mn E1 E2. cbn [f_tab] in E2.
  destruct (min_attained _ _ _ E2) as [fs I]. rewrite <- EF in I. unfold fresh in I. apply filter_In in I. destruct I as [_ NL].
  apply negb_true_iff in NL. apply orb_false_iff in NL. destruct NL as [_ NL].
  rewrite is_late_is_late_k in NL. unfold is_late_k in NL. cbn [fst snd] in NL.
  destruct (ft_fold_in s (ord L ++ ooo L) x mx None (in_or_app _ _ _ (or_introl Ix)) E1) as (m & Em & Lm).
  rewrite flush_time_fold, Em in NL. lia.
Qed.

(* ---- compaction: an adjacent run replaced by its product ---- *)
Lemma in_prod_key : forall l (acc : table) k v, In (k, v) (fold_left pstep l acc) ->
  (exists v', In (k, v') acc) \/ exists f v', In f l /\ In (k, v') (f_tab f).
Proof.
  induction l as [| x l IH]; intros acc k v I; cbn [fold_left] in I; [left; eauto |].
  destruct (IH _ _ _ I) as [[v' H] | (f & v' & If & H)].
  - unfold pstep in H. destruct (in_over_key _ _ _ _ H) as [[v2 H2] | [v2 H2]]; [right; exists x, v2; split; auto; left; auto | left; eauto].
  - right. exists f, v'. split; auto. right; auto.
Qed.

Lemma replace_adjacent_ord_ok : forall g l seq, adjacent g l = true -> ord_ok_from l = true ->
  let members := filter (in_grp g) l in members <> [] ->
  ord_ok_from (replace_run g {| f_seq := seq; f_tab := prod members |} l false) = true.
Proof.
  intros g l seq Adj O members NE.
  destruct (adj_split g l Adj) as (pre & run & post & E & Np & Ar & Npo). subst l.
  assert (M : members = run) by (apply filter_split; auto). rewrite M in *. clear M members.
  destruct run as [| x run]; [congruence |]. rewrite replace_run_split; auto.
  apply ord_ok_app in O. destruct O as (O1 & O2 & C1). apply ord_ok_app in O2. destruct O2 as (O3 & O4 & C2).
  set (nf := {| f_seq := seq; f_tab := prod (x :: run) |}).
  assert (KM : forall k v, In (k, v) (f_tab nf) -> exists m v', In m (x :: run) /\ In (k, v') (f_tab m)).
  { intros k v I. cbn [nf f_tab] in I. unfold prod in I. destruct (in_prod_key _ _ _ _ I) as [[v' []] | X]; auto. }
  apply ord_ok_app. repeat split; auto.
  - change ([nf] ++ post) with (nf :: post). rewrite ord_ok_cons, O4, andb_true_r. apply forallb_forall. intros q Iq.
    apply before_ok_intro. intros s a b E1 E2. destruct (max_attained _ _ _ E1) as [fs I].
    destruct (KM _ _ I) as (m & v' & Im & I2). destruct (max_time_in_ge s (f_tab m) a v' I2) as (a' & Ea & La).
    pose proof (before_ok_elim m q s a' b (C2 m q Im Iq) Ea E2). lia.
  - intros p y Ip [<- | Iy].
    + apply before_ok_intro. intros s a b E1 E2. destruct (min_attained _ _ _ E2) as [fs I].
      destruct (KM _ _ I) as (m & v' & Im & I2). destruct (min_time_in_le s (f_tab m) b v' I2) as (b' & Eb & Lb).
      assert (Iy : In m ((x :: run) ++ post)) by (apply in_or_app; left; auto).
      pose proof (before_ok_elim p m s a b' (C1 p m Ip Iy) E1 Eb). lia.
    + apply C1; auto. apply in_or_app. right; auto.
Qed.

Lemma compact_group_layout : forall g l, adjacent g l = true -> asc_seq l = true -> ord_ok_from l = true ->
  asc_seq (compact_group g l) = true /\ ord_ok_from (compact_group g l) = true.
Proof.
  intros g l Adj A O. unfold compact_group. pose proof (asc_replace_first g l (ord_prod (filter (in_grp g) l)) Adj A) as X.
  destruct (filter (in_grp g) l) as [| m0 ms] eqn:E; auto. split; auto.
  rewrite <- E. apply replace_adjacent_ord_ok; auto. rewrite E. congruence.
Qed.
Lemma compact_groups_layout : forall grps l, compact_ok grps l = true -> asc_seq l = true -> ord_ok_from l = true ->
  asc_seq (fold_left (fun l g => compact_group g l) grps l) = true /\
  ord_ok_from (fold_left (fun l g => compact_group g l) grps l) = true.
Proof.
  induction grps as [| g grps IH]; intros l H A O; cbn [fold_left]; auto.
  cbn [compact_ok] in H. apply andb_true_iff in H. destruct H as [H1 H2].
  destruct (compact_group_layout g l H1 A O) as [A' O']. apply IH; auto.
Qed.

(* ---- out-of-order merge: rows placed by the bounds, files written under ascending sequences ---- *)
Lemma target_ge : forall s t bounds fb, asc_zs (fb :: map fst bounds) = true -> fb <= target s t bounds fb.
Proof.
  induction bounds as [| [seq b] r IH]; intros fb A; cbn [target]; [lia |].
  cbn [map fst] in A. apply asc_zs_ss in A. inversion A as [| ? ? S F]; subst. inversion F as [| ? ? Lt F']; subst.
  assert (A1 : asc_zs (seq :: map fst r) = true) by (apply asc_zs_ss; exact S).
  assert (A2 : asc_zs (fb :: map fst r) = true).
  { apply asc_zs_ss. inversion S; subst. constructor; auto. }
  destruct (bound_of s b) as [m |].
  - destruct (t <=? m); [lia |]. specialize (IH seq A1). lia.
  - apply IH; auto.
Qed.

Lemma target_mono : forall s t t' bounds fb, asc_zs (map fst bounds) = true -> t <= t' ->
  target s t bounds fb <= target s t' bounds fb.
Proof.
  induction bounds as [| [seq b] r IH]; intros fb A Le; cbn [target]; [lia |].
  cbn [map fst] in A.
  assert (A1 : asc_zs (map fst r) = true).
  { apply asc_zs_ss in A. inversion A; subst. apply asc_zs_ss; auto. }
  destruct (bound_of s b) as [m |].
  - destruct (t <=? m) eqn:Q1; destruct (t' <=? m) eqn:Q2; try lia.
    + apply (target_ge s t' r seq A).
    + apply IH; auto.
  - apply IH; auto.
Qed.

Definition placed (T : table) (tg : key -> Z) (f : file) : Prop := f_tab f = kfilter (fun k => tg k =? f_seq f) T.

Lemma before_ok_placed : forall T tg x y, placed T tg x -> placed T tg y -> f_seq x < f_seq y ->
  (forall s t t', t <= t' -> tg (s, t) <= tg (s, t')) -> before_ok x y = true.
Proof.
  intros T tg x y Px Py Lt Mono. apply before_ok_intro. intros s a b E1 E2.
  destruct (max_attained _ _ _ E1) as [fa Ia]. destruct (min_attained _ _ _ E2) as [fb Ib].
  rewrite Px in Ia. rewrite Py in Ib. unfold kfilter in Ia, Ib. apply filter_In in Ia. apply filter_In in Ib.
  destruct Ia as [_ Ta]. destruct Ib as [_ Tb]. cbn [fst] in Ta, Tb.
  destruct (Z_lt_le_dec a b) as [? | Le]; auto. specialize (Mono s b a Le). lia.
Qed.

Section PlacedFold.
  Variable T : table.
  Variable tg : key -> Z.
  Hypothesis Mono : forall s t t', t <= t' -> tg (s, t) <= tg (s, t').

  Lemma placed_fold_layout : forall bounds acc,
    asc_zs (map fst bounds) = true ->
    asc_seq acc = true -> ord_ok_from acc = true -> Forall (placed T tg) acc ->
    (forall f sq, In f acc -> In sq (map fst bounds) -> f_seq f < sq) ->
    asc_seq (fold_left (placef T tg) bounds acc) = true /\ ord_ok_from (fold_left (placef T tg) bounds acc) = true.
  Proof.
    induction bounds as [| [seq b] r IH]; intros acc A As Ao Pl Lt; cbn [fold_left]; auto.
    cbn [map fst] in A. apply asc_zs_ss in A. inversion A as [| ? ? S F]; subst.
    assert (A1 : asc_zs (map fst r) = true) by (apply asc_zs_ss; auto).
    change (placef T tg acc (seq, b)) with (add_file seq (kfilter (fun k : key => tg k =? seq) T) acc). unfold add_file.
    destruct (kfilter (fun k : key => tg k =? seq) T) as [| r0 rs] eqn:E.
    - apply IH; auto. intros f sq If Is. apply Lt; auto. right; auto.
    - set (nf := {| f_seq := seq; f_tab := r0 :: rs |}).
      assert (Fr : fresh_seq (f_seq nf) acc = true).
      { unfold fresh_seq. apply forallb_forall. intros f If. specialize (Lt f seq If (or_introl eq_refl)). cbn. lia. }
      rewrite insert_file_fresh by exact Fr.
      assert (Pn : placed T tg nf) by (unfold placed; cbn [f_tab f_seq nf]; auto).
      apply IH; auto.
      + apply asc_snoc_fresh; auto.
      + apply ord_ok_app. repeat split; auto. intros x y Ix [<- | []].
        rewrite Forall_forall in Pl. apply (before_ok_placed T tg); auto.
        specialize (Lt x seq Ix (or_introl eq_refl)). cbn. lia.
      + apply Forall_app. split; auto.
      + intros f sq If Is. apply in_app_or in If. destruct If as [If | [<- | []]].
        * apply Lt; auto. right; auto.
        * cbn [f_seq nf]. rewrite Forall_forall in F. apply F; auto.
  Qed.
End PlacedFold.

Lemma merge_ooo_layout_ok : forall L g b, layout_ok L = true -> is_prefix g (ooo L) = true ->
  asc_zs (map fst b) = true -> layout_ok (merge_ooo g b L) = true.
Proof.
  intros L g b LO P A. unfold layout_ok in *. apply andb_true_iff in LO. destruct LO as [LO O3].
  apply andb_true_iff in LO. destruct LO as [O1 O2]. unfold merge_ooo.
  destruct (prefix_split g (ooo L) P) as (run & post & E & Ar & Np).
  assert (N : filter (fun f => negb (in_grp g f)) (ooo L) = post).
  { rewrite E, filter_app, (filter_neg_allmem g run), (filter_neg_nomem g post); auto. }
  destruct (filter (in_grp g) (ooo L)) as [| m0 ms] eqn:M.
  - rewrite O1, O2, O3. reflexivity.
  - cbn [ooo ord]. rewrite N.
    set (all := over (ooo_prod (m0 :: ms)) (ord_prod (ord L))).
    set (tg := fun k : key => target (fst k) (snd k) b (last_seq b)).
    change (fold_left (fun l sb => add_file (fst sb)
              (filter (fun r : row => target (fst (fst r)) (snd (fst r)) b (last_seq b) =? fst sb) all) l) b [])
      with (fold_left (placef all tg) b []).
    destruct (placed_fold_layout all tg) with (bounds := b) (acc := @nil file) as [X1 X2]; auto.
    + intros s t t' Le. unfold tg. cbn [fst snd]. apply target_mono; auto.
    + intros f sq [].
    + rewrite X1, X2, !andb_true_r. rewrite E in O1. rewrite asc_seq_zs in *. rewrite map_app in O1.
      apply asc_zs_ss. apply asc_zs_ss in O1. apply ss_app in O1. tauto.
Qed.

(* ---- every op preserves the layout predicate ---- *)
Lemma step_layout_ok : forall L o, layout_ok L = true -> op_ok L o = true -> layout_ok (step false L o) = true.
Proof.
  intros L o LO OK. destruct o as [b | a so su | | a so su | grps | g b | g n | n a so su]; cbn [step].
  - exact LO.
  - cbn [op_ok] in OK. apply andb_true_iff in OK. destruct OK as [OK _]. apply andb_true_iff in OK. destruct OK as [Fo Fu].
    unfold flush. apply end_flush_layout_ok; auto.
  - exact LO.
  - cbn [op_ok] in OK. apply andb_true_iff in OK. destruct OK as [Fo Fu]. apply end_flush_layout_ok; auto.
  - cbn [op_ok] in OK. unfold layout_ok in *. apply andb_true_iff in LO. destruct LO as [LO O3].
    apply andb_true_iff in LO. destruct LO as [O1 O2]. cbn [compact ooo ord].
    destruct (compact_groups_layout grps (ord L) OK O2 O3) as [A O]. rewrite O1, A, O. reflexivity.
  - cbn [op_ok] in OK. apply andb_true_iff in OK. destruct OK as [OK A]. apply andb_true_iff in OK. destruct OK as [P _].
    apply merge_ooo_layout_ok; auto.
  - cbn [op_ok] in OK. apply andb_true_iff in OK. destruct OK as [Ad BN].
    unfold layout_ok in *. apply andb_true_iff in LO. destruct LO as [LO O3]. apply andb_true_iff in LO. destruct LO as [O1 O2].
    unfold merge_self, merge_self_m. cbn [Z.eqb]. destruct (filter (in_grp g) (ooo L)) as [| m0 ms] eqn:E.
    + cbn [ooo ord]. rewrite O1, O2, O3. reflexivity.
    + cbn [ooo ord]. rewrite O2, O3, !andb_true_r. unfold between_neighbours in BN. rewrite asc_seq_zs in *.
      erewrite replace_run_seqs; [exact BN | reflexivity].
  - cbn [op_ok] in OK. apply andb_true_iff in OK. destruct OK as [OK _]. apply andb_true_iff in OK. destruct OK as [Fo Fu].
    unfold reopen, flush. apply end_flush_layout_ok; auto.
Qed.

(* the planner / store predicate alone: op_ok + write_ok for every op - no assumption about the layout *)
Fixpoint planned_from (L : layout) (h : list op) : bool :=
  match h with
  | [] => true
  | o :: r => op_ok L o && write_ok o && planned_from (step false L o) r
  end.
Definition ops_planned (h : list op) : bool := planned_from init h.

Lemma planned_allowed_from : forall h L, layout_ok L = true -> planned_from L h = true -> allowed_from L h = true.
Proof.
  induction h as [| o h IH]; intros L LO H; auto. cbn [planned_from allowed_from] in *.
  apply andb_true_iff in H. destruct H as [H H3]. apply andb_true_iff in H. destruct H as [H1 H2].
  assert (LO' : layout_ok (step false L o) = true) by (apply step_layout_ok; auto).
  rewrite H1, H2, LO'. cbn [andb]. apply IH; auto.
Qed.
Lemma planned_allowed : forall h, ops_planned h = true -> ops_allowed h = true.
Proof. intros h H. apply planned_allowed_from; auto. Qed.
Lemma allowed_planned_from : forall h L, allowed_from L h = true -> planned_from L h = true.
Proof.
  induction h as [| o h IH]; intros L H; auto. cbn [planned_from allowed_from] in *.
  apply andb_true_iff in H. destruct H as [H H4]. apply andb_true_iff in H. destruct H as [H H3].
  rewrite H. cbn [andb]. apply IH; auto.
Qed.

Lemma read_is_lww_planned : forall h, ops_planned h = true -> forall s tmin tmax fs asc,
  read_layout (run false h) s tmin tmax fs asc = shape tmin tmax fs asc (sel s (lww_table (writes_of h))).
Proof. intros h H. apply read_layout_is_lww. apply planned_allowed; auto. Qed.
