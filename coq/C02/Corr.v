(* C02 correspondence evaluator: replays a harness history (ops with the plans / sequence numbers the real store
   chose) on the model and compares, after every op, the model's reads and file layout with what the real shard
   returned. *)
From Coq Require Import ZArith List Bool.
From OG Require Import C02.Model.
Import ListNotations.
Open Scope Z_scope.

Definition franges := list (Z * Z * Z).                 (* series, min time, max time *)
Definition fobs := (Z * franges)%type.                  (* sequence, ranges *)
(* a shaped read as observed: time range, selected fields, direction, and the rows of all series (series ascending, the
   rows of each series in the order delivered) *)
Definition robs := (Z * Z * list Z * bool * list row)%type.
Record obs := { o_dump : table; o_ord : list fobs; o_ooo : list fobs; o_reads : list robs }.

Fixpoint list_eqb {A} (eqb : A -> A -> bool) (a b : list A) : bool :=
  match a, b with
  | [], [] => true
  | x :: a', y :: b' => eqb x y && list_eqb eqb a' b'
  | _, _ => false
  end.
Definition pair_eqb (a b : Z * Z) := (fst a =? fst b) && (snd a =? snd b).
Definition row_eqb (a b : row) := pair_eqb (fst a) (fst b) && list_eqb pair_eqb (snd a) (snd b).
Definition rng_eqb (a b : Z * Z * Z) := pair_eqb (fst a) (fst b) && (snd a =? snd b).
Definition fobs_eqb (a b : fobs) := (fst a =? fst b) && list_eqb rng_eqb (snd a) (snd b).

Fixpoint zrange (n : nat) : list Z := match n with O => [] | S k => zrange k ++ [Z.of_nat k] end.

Definition read_all (nser : nat) (L : layout) : table := concat (map (read_series L) (zrange nser)).

Definition ranges_of (nser : nat) (t : table) : franges :=
  concat (map (fun s => match min_time_in s t, max_time_in s t with
                        | Some a, Some b => [(s, a, b)] | _, _ => [] end) (zrange nser)).
Definition files_obs (nser : nat) (l : list file) : list fobs := map (fun f => (f_seq f, ranges_of nser (f_tab f))) l.

(* mode 3 of merge-self = today's member order with ANY tie order among chunks of equal minimum time: the evaluator tries
   the permutations of the members as tie-break and keeps the first one that reproduces the reads observed after the op
   (fallback: ties in sequence order). Modes 0 (repaired), 1, 2 do not look at the observation. *)
Fixpoint insert_all {A} (x : A) (l : list A) : list (list A) :=
  match l with
  | [] => [[x]]
  | y :: r => (x :: l) :: map (cons y) (insert_all x r)
  end.
Fixpoint perms {A} (l : list A) : list (list A) :=
  match l with
  | [] => [[]]
  | x :: r => concat (map (insert_all x) (perms r))
  end.
Definition ms_candidates (grp : list Z) (L : layout) : list (list Z) :=
  let seqs := map f_seq (filter (in_grp grp) (ooo L)) in
  if (length seqs <=? 5)%nat then perms seqs else [seqs; rev seqs].
Definition step_obs (wc : bool) (mc : Z) (nser : nat) (L : layout) (o : op) (dump : table) : layout :=
  match o with
  | MergeSelf g n =>
      if mc =? 3 then
        match find (fun L' => list_eqb row_eqb (read_all nser L') dump)
                   (map (fun pi => merge_self_rank pi g n L) (ms_candidates g L)) with
        | Some L' => L'
        | None => merge_self_m 1 g n L
        end
      else step2 wc mc L o
  | _ => step2 wc mc L o
  end.

Definition read_shaped (nser : nat) (L : layout) (tmin tmax : Z) (fs : list Z) (asc : bool) : list row :=
  concat (map (fun s => read_layout L s tmin tmax fs asc) (zrange nser)).
Definition reads_ok (nser : nat) (L : layout) (rs : list robs) : bool :=
  forallb (fun r : robs => match r with (tmin, tmax, fs, asc, rows) => list_eqb row_eqb (read_shaped nser L tmin tmax fs asc) rows end) rs.

(* code: 1 dump differs, 2 ordered files differ, 3 out-of-order files differ, 4 op parameters not allowed, 5 layout invariant
   broken, 6 a shaped read (sub-range / field subset / descending / multi-series tag set) differs *)
Fixpoint check_from (wc : bool) (mc : Z) (nser : nat) (i : nat) (L : layout) (h : list (op * obs)) : option (nat * nat) :=
  match h with
  | [] => None
  | (o, ob) :: r =>
      if negb (op_ok L o && write_ok o) then Some (i, 4%nat) else
      let L' := step_obs wc mc nser L o (o_dump ob) in
      if negb (layout_ok L') then Some (i, 5%nat) else
      if negb (list_eqb row_eqb (read_all nser L') (o_dump ob)) then Some (i, 1%nat) else
      if negb (list_eqb fobs_eqb (files_obs nser (ord L')) (o_ord ob)) then Some (i, 2%nat) else
      if negb (list_eqb fobs_eqb (files_obs nser (ooo L')) (o_ooo ob)) then Some (i, 3%nat) else
      if negb (reads_ok nser L' (o_reads ob)) then Some (i, 6%nat) else
      check_from wc mc nser (S i) L' r
  end.

Definition check_case (wc : bool) (mc : Z) (c : nat * list (op * obs)) : option (nat * nat) :=
  check_from wc mc (fst c) 0 init (snd c).

Fixpoint mismatches_from (wc : bool) (mc : Z) (k : nat) (cs : list (nat * list (op * obs))) : list (nat * nat * nat) :=
  match cs with
  | [] => []
  | c :: r => match check_case wc mc c with
              | None => mismatches_from wc mc (S k) r
              | Some (i, code) => (k, i, code) :: mismatches_from wc mc (S k) r
              end
  end.
Definition mismatches (wc : bool) (mc : Z) := mismatches_from wc mc 0.
