(* C02 - the merged stream of a tag set holding SEVERAL series (engine/tagset_cursor.go: tagSetCursor merges its series
   cursors through heapCursor, whose Less orders the heads by time and, for equal times, by series key; descending: both
   reversed). Model: the rows of all series of the read, sorted by (time, series); descending = the reverse.
   Theorems: the stream is sorted by (time, series); restricted to one series it is exactly that series' read - so, with
   C02_read_is_lww, the last-write-wins rows of the series in time order. *)
From Coq Require Import ZArith List Bool Lia Sorted.
From OG Require Import C02.Model C02.Proofs C02.Corr C02.Refine.
Import ListNotations.
Open Scope Z_scope.

Definition sw (k : key) : key := (snd k, fst k).
Definition tcmp (a b : key) : comparison := kcmp (sw a) (sw b).          (* time first, then series *)
Fixpoint tins (r : row) (l : list row) : list row :=
  match l with
  | [] => [r]
  | x :: l' => match tcmp (fst r) (fst x) with Lt => r :: l | _ => x :: tins r l' end
  end.
Definition tsort (l : list row) : list row := fold_right tins [] l.

Definition flat_stream (nser : nat) (L : layout) (tmin tmax : Z) (fs : list Z) (asc : bool) : list row :=
  let rows := tsort (read_shaped nser L tmin tmax fs true) in if asc then rows else rev rows.

(* ------------------------------------------------------------------------------------------------------------ *)
Definition tle (a b : row) : Prop := tcmp (fst a) (fst b) <> Gt.
Definition tlt (a b : row) : Prop := tcmp (fst a) (fst b) = Lt.

Lemma tins_in : forall r l y, In y (tins r l) -> y = r \/ In y l.
Proof.
  induction l as [| x l IH]; intros y H; cbn in H.
  - destruct H as [H | []]; auto.
  - destruct (tcmp (fst r) (fst x)).
    + destruct H as [H | H]; [right; left; auto |]. destruct (IH _ H) as [? | ?]; [left | right; right]; auto.
    + destruct H as [H | H]; auto.
    + destruct H as [H | H]; [right; left; auto |]. destruct (IH _ H) as [? | ?]; [left | right; right]; auto.
Qed.

Lemma tins_sorted : forall r l, StronglySorted tle l -> StronglySorted tle (tins r l).
Proof.
  induction l as [| x l IH]; intros S; cbn.
  - constructor; constructor.
  - inversion S as [| ? ? S' F]; subst. unfold tcmp in *. destruct (kcmp (sw (fst r)) (sw (fst x))) eqn:E.
    + constructor; auto. apply Forall_forall. intros y I. apply tins_in in I. destruct I as [-> | I].
      * unfold tle, tcmp. rewrite (kc_eq_sym _ _ E). congruence.
      * rewrite Forall_forall in F. auto.
    + constructor; auto. constructor.
      * unfold tle, tcmp. rewrite E. congruence.
      * rewrite Forall_forall in F. apply Forall_forall. intros y I. specialize (F y I). unfold tle, tcmp in *.
        rewrite (kc_lt_le _ _ _ E F). congruence.
    + constructor; auto. apply Forall_forall. intros y I. apply tins_in in I. destruct I as [-> | I].
      * unfold tle, tcmp. rewrite (kc_gt_lt _ _ E). congruence.
      * rewrite Forall_forall in F. auto.
Qed.
Lemma tsort_sorted : forall l, StronglySorted tle (tsort l).
Proof. induction l as [| r l IH]; cbn; [constructor | apply tins_sorted; auto]. Qed.

(* filtering commutes with the insertion into a sorted list *)
Lemma filter_tins : forall p r l, StronglySorted tle l ->
  filter p (tins r l) = if p r then tins r (filter p l) else filter p l.
Proof.
  induction l as [| x l IH]; intros S; cbn [tins filter].
  - destruct (p r); reflexivity.
  - inversion S as [| ? ? S' F]; subst. destruct (tcmp (fst r) (fst x)) eqn:E.
    + cbn [filter]. rewrite IH by auto. destruct (p x), (p r); cbn [tins]; try rewrite E; reflexivity.
    + cbn [filter]. destruct (p r) eqn:Pr; destruct (p x) eqn:Px; cbn [tins]; try rewrite E; try reflexivity.
      (* r kept, x dropped: r goes before the first kept element of l, all of which are after x *)
      destruct (filter p l) as [| y fl] eqn:Q; [reflexivity |]. cbn [tins].
      assert (Iy : In y l) by (assert (I : In y (filter p l)) by (rewrite Q; left; auto); apply filter_In in I; tauto).
      rewrite Forall_forall in F. specialize (F y Iy). unfold tle, tcmp in *. rewrite (kc_lt_le _ _ _ E F). reflexivity.
    + cbn [filter]. rewrite IH by auto. destruct (p x), (p r); cbn [tins]; try rewrite E; reflexivity.
Qed.
Lemma filter_tsort : forall p l, filter p (tsort l) = tsort (filter p l).
Proof.
  induction l as [| r l IH]; cbn [tsort fold_right filter]; auto.
  rewrite filter_tins by apply tsort_sorted. fold (tsort l). rewrite IH. destruct (p r); reflexivity.
Qed.

Lemma tsort_id : forall l, StronglySorted tlt l -> tsort l = l.
Proof.
  induction l as [| x l IH]; intros S; cbn [tsort fold_right]; auto. inversion S as [| ? ? S' F]; subst.
  fold (tsort l). rewrite IH by auto. destruct l as [| y l']; [reflexivity |]. cbn [tins].
  inversion F; subst. unfold tlt in *. rewrite H1. reflexivity.
Qed.

(* ---- series blocks ---- *)
Definition ser (s : Z) (r : row) : bool := fst (fst r) =? s.

Lemma filter_all_false : forall s (l : list row), Forall (fun r : row => fst (fst r) <> s) l -> filter (ser s) l = [].
Proof.
  induction l as [| r l IH]; intros F; cbn; auto. inversion F; subst. unfold ser at 1.
  destruct (fst (fst r) =? s) eqn:E; [lia | auto].
Qed.
Lemma filter_all_true : forall s (l : list row), Forall (fun r : row => fst (fst r) = s) l -> filter (ser s) l = l.
Proof.
  induction l as [| r l IH]; intros F; cbn; auto. inversion F; subst. unfold ser at 1. rewrite Z.eqb_refl. f_equal; auto.
Qed.
Lemma filter_concat_none : forall (f : Z -> list row) s (l : list Z),
  (forall x, Forall (fun r : row => fst (fst r) = x) (f x)) -> ~ In s l -> filter (ser s) (concat (map f l)) = [].
Proof.
  induction l as [| x l IH]; intros Hf N; auto. cbn [map concat]. rewrite filter_app, IH; auto.
  - rewrite filter_all_false; auto. eapply Forall_impl; [| apply Hf]. intros r E. cbn in E. intro Q. apply N. left. lia.
  - intro J. apply N. right; auto.
Qed.

Lemma zrange_in : forall n x, In x (zrange n) <-> 0 <= x < Z.of_nat n.
Proof.
  induction n as [| k IH]; intros x; cbn [zrange].
  - split; [intros [] | lia].
  - rewrite in_app_iff, IH. cbn [In]. lia.
Qed.

Lemma filter_concat_zrange : forall (f : Z -> list row) s n,
  (forall x, Forall (fun r : row => fst (fst r) = x) (f x)) -> In s (zrange n) ->
  filter (ser s) (concat (map f (zrange n))) = f s.
Proof.
  induction n as [| k IH]; intros Hf I; [destruct I |]. cbn [zrange] in *. rewrite map_app, concat_app, filter_app.
  cbn [map concat]. rewrite app_nil_r. apply in_app_or in I. destruct I as [I | [E | []]].
  - rewrite IH by auto. rewrite filter_all_false; [apply app_nil_r |].
    eapply Forall_impl; [| apply Hf]. intros r E. cbn in E. apply zrange_in in I. lia.
  - subst s. rewrite filter_concat_none; auto.
    + cbn. apply filter_all_true; auto.
    + intro J. apply zrange_in in J. lia.
Qed.

Lemma filter_rev' : forall (p : row -> bool) l, filter p (rev l) = rev (filter p l).
Proof.
  induction l as [| x l IH]; auto. cbn [rev filter]. rewrite filter_app, IH. cbn [filter].
  destruct (p x); cbn [rev]; [reflexivity | apply app_nil_r].
Qed.

(* ---- the theorems ---- *)
Lemma read_layout_tlt : forall h, ops_allowed h = true -> forall s tmin tmax fs,
  StronglySorted tlt (read_layout (run false h) s tmin tmax fs true) /\
  Forall (fun r : row => fst (fst r) = s) (read_layout (run false h) s tmin tmax fs true).
Proof.
  intros h A s tmin tmax fs. destruct (read_sorted h A s tmin tmax fs true) as [S F]. cbn in S. split.
  - assert (G : forall l, StronglySorted t_lt l -> Forall (fun r : row => fst (fst r) = s /\ snd r <> []) l -> StronglySorted tlt l).
    { induction l as [| x l IH]; intros S1 F1; [constructor |]. inversion S1 as [| ? ? S2 F2]; subst. inversion F1 as [| ? ? [Ex _] F3]; subst.
      constructor; auto. rewrite Forall_forall in *. intros y I. specialize (F2 y I). destruct (F3 y I) as [Ey _].
      unfold tlt, tcmp, sw, kcmp, t_lt in *. cbn [fst snd].
      destruct (Z.compare_spec (snd (fst x)) (snd (fst y))); try lia. reflexivity. }
    apply G; auto.
  - eapply Forall_impl; [| exact F]. intros r [E _]. exact E.
Qed.

Lemma flat_stream_sorted : forall nser L tmin tmax fs, StronglySorted tle (flat_stream nser L tmin tmax fs true).
Proof. intros. unfold flat_stream. apply tsort_sorted. Qed.

Lemma flat_stream_series : forall h, ops_allowed h = true -> forall nser s tmin tmax fs asc, In s (zrange nser) ->
  filter (ser s) (flat_stream nser (run false h) tmin tmax fs asc) = read_layout (run false h) s tmin tmax fs asc.
Proof.
  intros h A nser s tmin tmax fs asc I.
  assert (X : filter (ser s) (tsort (read_shaped nser (run false h) tmin tmax fs true)) = read_layout (run false h) s tmin tmax fs true).
  { rewrite filter_tsort. unfold read_shaped.
    rewrite (filter_concat_zrange (fun x => read_layout (run false h) x tmin tmax fs true)); auto.
    - apply tsort_id. apply (read_layout_tlt h A).
    - intro x. apply (read_layout_tlt h A). }
  unfold flat_stream. destruct asc; auto.
  rewrite filter_rev', X. symmetry. apply descending_is_reverse.
Qed.

(* ---- evaluator: the arrival order of flat reads served by ONE group cursor (all series in one tag set) ---- *)
Definition aobs := (Z * Z * list Z * bool * list (Z * Z))%type.       (* tmin, tmax, fields, ascending, (series, time) in arrival order *)
Definition arr_ok (nser : nat) (L : layout) (o : aobs) : bool :=
  match o with
  | (tmin, tmax, fs, asc, arr) => list_eqb pair_eqb (map (fun r : row => fst r) (flat_stream nser L tmin tmax fs asc)) arr
  end.
Fixpoint bad_arr (j : nat) (nser : nat) (L : layout) (os : list aobs) : list nat :=
  match os with
  | [] => []
  | o :: r => if arr_ok nser L o then bad_arr (S j) nser L r else j :: bad_arr (S j) nser L r
  end.
Fixpoint tag_check_from (i : nat) (nser : nat) (L : layout) (h : list (op * list aobs)) : list (nat * nat) :=
  match h with
  | [] => []
  | (o, os) :: r => let L' := step false L o in
                    map (fun j => (i, j)) (bad_arr 0 nser L' os) ++ tag_check_from (S i) nser L' r
  end.
Fixpoint tag_mismatches_from (k : nat) (cs : list (nat * list (op * list aobs))) : list (nat * nat * nat) :=
  match cs with
  | [] => []
  | c :: r => map (fun ij : nat * nat => (k, fst ij, snd ij)) (tag_check_from 0 (fst c) init (snd c)) ++ tag_mismatches_from (S k) r
  end.
Definition tag_mismatches := tag_mismatches_from 0.
Definition tag_total (cs : list (nat * list (op * list aobs))) : nat :=
  fold_left (fun n c => fold_left (fun m (x : op * list aobs) => (m + length (snd x))%nat) (snd c) n) cs 0%nat.
