(* C02 refutations (witnesses closed by vm_compute). *)
From Coq Require Import ZArith List Bool.
From OG Require Import C02.Model C02.FileCursor.
Import ListNotations.
Open Scope Z_scope.

Definition r (s t : Z) (fs : list (Z * Z)) : row := ((s, t), fs).

(* Today's close/reopen (`reopen true`: the log has n partitions, record c sits in partition c mod n, the counter is not
   reset at the log switch, replay takes one record per partition in turn from partition 0) does NOT satisfy the
   property: with 2 partitions, one write, a flush, then two writes to the same point, the reopened shard returns the
   older of the two acknowledged values. This is finding C02-reopen-walphase (root cause shared with C01-walphase). *)
Definition h_wal : list op :=
  [ Write [r 0 1 [(0,1)]]; Flush false 1 1002; Write [r 0 2 [(0,5)]]; Write [r 0 2 [(0,6)]]; Reopen 2 false 2 1003 ].

Theorem C02_reopen_current_refuted :
  exists h s, Corr_eq (read_series (run true h) s) (sel s (lww_table (writes_of h))) = false.
Proof. exists h_wal, 0. vm_compute. reflexivity. Qed.
Print Assumptions C02_reopen_current_refuted.

(* the repaired replay order (acknowledgement order) is fine on the same history *)
Example C02_reopen_repaired_witness_ok :
  Corr_eq (read_series (run false h_wal) 0) (sel 0 (lww_table (writes_of h_wal))) = true.
Proof. vm_compute. reflexivity. Qed.

(* adjacency is needed: compacting ordered files 1 and 3 around file 2 puts the rows of file 3 before those of file 2,
   and the series is no longer read in time order - which is why the planner predicate (adjacent run) is part of the
   allowed-ops condition *)
Definition h_nonadj : list op :=
  [ Write [r 0 1 [(0,1)]]; Flush false 1 101; Write [r 0 5 [(0,5)]]; Flush false 2 102; Write [r 0 9 [(0,9)]]; Flush false 3 103;
    Compact [[1;3]] ].
Theorem C02_adjacency_needed_refuted :
  op_ok (run false (firstn 6 h_nonadj)) (Compact [[1;3]]) = false /\
  Corr_eq (read_series (run false h_nonadj) 0) (sel 0 (lww_table (writes_of h_nonadj))) = false.
Proof. vm_compute. split; reflexivity. Qed.

(* Today's merge-self (`merge_self_m 1`: per series the member files are folded in the order of their minimum time,
   as MergeSelf.Merge does through ChunkIterators) does NOT satisfy the property: a newer out-of-order file that starts
   earlier than an older one loses to it. Finding C02-mergeself-mintime-order. *)
Definition h_ms : list op :=
  [ Write [r 0 5 [(0,1)]]; Flush false 1 101; Write [r 0 3 [(0,1);(1,1)]]; Flush false 102 2;
    Write [r 0 2 [(0,9)]; r 0 3 [(0,2)]]; Flush false 103 3; MergeSelf [2;3] 2 ].
Theorem C02_mergeself_current_refuted :
  exists h s, Corr_eq (read_series (run2 false 1 h) s) (sel s (lww_table (writes_of h))) = false.
Proof. exists h_ms, 0. vm_compute. reflexivity. Qed.
Print Assumptions C02_mergeself_current_refuted.
Example C02_mergeself_repaired_witness_ok :
  Corr_eq (read_series (run2 false 0 h_ms) 0) (sel 0 (lww_table (writes_of h_ms))) = true.
Proof. vm_compute. reflexivity. Qed.

(* Today's DESCENDING walk of the file-cursor path (`fc_rows true true`: the first ordered file visited - the newest - is
   flagged as the last one and takes all memtable / out-of-order rows; the older files are handed out as they are) does
   NOT satisfy the property: a point overwritten by a late write while its older version sits in an older ordered file
   is counted twice. Finding C02-desc-filecursor-lastfile. *)
Definition h_fc : list op :=
  [ Write [r 0 2 [(0,1)]; r 0 3 [(0,1)]]; Flush false 1 1001; Write [r 0 6 [(0,1)]]; Flush false 2 1002; Write [r 0 2 [(0,7)]] ].
Theorem C02_desc_filecursor_current_refuted :
  exists h s tmin tmax f, ops_allowed h = true /\
    fc_count true true (run false h) s tmin tmax f
    <> Z.of_nat (length (shape tmin tmax [f] true (sel s (lww_table (writes_of h))))).
Proof. exists h_fc, 0, 0, 9, 0. split; [vm_compute; reflexivity | vm_compute; discriminate]. Qed.
Print Assumptions C02_desc_filecursor_current_refuted.
Example C02_desc_filecursor_repaired_witness_ok :
  fc_count false true (run false h_fc) 0 0 9 0 = Z.of_nat (length (shape 0 9 [0] true (sel 0 (lww_table (writes_of h_fc))))).
Proof. vm_compute. reflexivity. Qed.
