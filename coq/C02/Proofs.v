(* C02 proofs. Part A: sorted association lists (generic). Part B: tables. Part C: the layout invariant and the
   refinement theorem. *)
From Coq Require Import ZArith List Bool Lia.
From OG Require Import C02.Model.
Import ListNotations.
Open Scope Z_scope.

Definition orelse {A} (a b : option A) : option A := match a with Some _ => a | None => b end.

Lemma orelse_assoc : forall A (a b c : option A), orelse (orelse a b) c = orelse a (orelse b c).
Proof. destruct a; reflexivity. Qed.
Lemma orelse_none_r : forall A (a : option A), orelse a None = a.
Proof. destruct a; reflexivity. Qed.

(* ------------------------------------------------------------------------------------------------------------ *)
Section SortedMaps.
  Context {K V : Type}.
  Variable cmp : K -> K -> comparison.
  Hypothesis cmp_eq : forall x y, cmp x y = Eq -> x = y.
  Hypothesis cmp_refl : forall x, cmp x x = Eq.
  Hypothesis cmp_trans : forall x y z, cmp x y = Lt -> cmp y z = Lt -> cmp x z = Lt.
  Hypothesis cmp_opp : forall x y, cmp y x = CompOpp (cmp x y).

  Definition lb (k : K) (m : list (K * V)) : Prop := forall k' v, In (k', v) m -> cmp k k' = Lt.
  Fixpoint sorted (m : list (K * V)) : Prop :=
    match m with [] => True | (k, _) :: r => lb k r /\ sorted r end.

  Lemma cmp_gt_lt : forall x y, cmp x y = Gt -> cmp y x = Lt.
  Proof. intros x y H. rewrite cmp_opp, H. reflexivity. Qed.
  Lemma cmp_lt_gt : forall x y, cmp x y = Lt -> cmp y x = Gt.
  Proof. intros x y H. rewrite cmp_opp, H. reflexivity. Qed.

  Lemma lb_nil : forall k, lb k (@nil (K * V)).
  Proof. intros k k' v []. Qed.
  Lemma lb_cons : forall k k' v m, cmp k k' = Lt -> lb k m -> lb k ((k', v) :: m).
  Proof. intros k k' v m H1 H2 k2 v2 [E | I]. - inversion E; subst; auto. - eauto. Qed.
  Lemma lb_weaken : forall k k' m, cmp k k' = Lt -> lb k' m -> lb k m.
  Proof. intros k k' m H1 H2 k2 v2 I. eapply cmp_trans; eauto. Qed.

  Lemma get_lb : forall m k, lb k m -> get cmp m k = None.
  Proof.
    induction m as [| [k' v] r IH]; intros k H; cbn; auto.
    rewrite (H k' v (or_introl eq_refl)). apply IH. intros k2 v2 I. apply (H k2 v2). right; auto.
  Qed.

  Lemma get_in : forall (m : list (K * V)) k v, get cmp m k = Some v -> In (k, v) m.
  Proof.
    induction m as [| [k' v'] r IH]; intros k v H; cbn in *; try discriminate.
    destruct (cmp k k') eqn:E.
    - apply cmp_eq in E; subst. inversion H; subst. left; auto.
    - right; auto.
    - right; auto.
  Qed.

  Lemma get_lb_lt : forall m k k', lb k' m -> cmp k k' <> Gt -> get cmp m k = None.
  Proof.
    intros m k k' H N. apply get_lb. intros k2 v2 I. specialize (H k2 v2 I).
    destruct (cmp k k') eqn:E; try congruence.
    - apply cmp_eq in E; subst; auto.
    - eapply cmp_trans; eauto.
  Qed.

  Section Merge.
    Variable c : V -> V -> V.

    Lemma merge_nil_r : forall a, merge cmp c a [] = a.
    Proof. destruct a as [| [k v] a]; reflexivity. Qed.
    Lemma merge_nil_l : forall b, merge cmp c [] b = b.
    Proof. destruct b; reflexivity. Qed.

    Lemma merge_cons : forall ka va a' kb vb b',
      merge cmp c ((ka, va) :: a') ((kb, vb) :: b') =
      match cmp ka kb with
      | Lt => (ka, va) :: merge cmp c a' ((kb, vb) :: b')
      | Eq => (ka, c va vb) :: merge cmp c a' b'
      | Gt => (kb, vb) :: merge cmp c ((ka, va) :: a') b'
      end.
    Proof. intros. cbn. destruct (cmp ka kb); reflexivity. Qed.

    Lemma lb_merge : forall a b k, lb k a -> lb k b -> lb k (merge cmp c a b).
    Proof.
      induction a as [| [ka va] a' IHa]; intros b k Ha Hb.
      - rewrite merge_nil_l; auto.
      - induction b as [| [kb vb] b' IHb].
        + rewrite merge_nil_r; auto.
        + rewrite merge_cons. destruct (cmp ka kb) eqn:E.
          * apply lb_cons. apply (Ha ka va); left; auto.
            apply IHa. intros k2 v2 I; apply (Ha k2 v2); right; auto.
            intros k2 v2 I; apply (Hb k2 v2); right; auto.
          * apply lb_cons. apply (Ha ka va); left; auto.
            apply IHa; auto. intros k2 v2 I; apply (Ha k2 v2); right; auto.
          * apply lb_cons. apply (Hb kb vb); left; auto.
            apply IHb. intros k2 v2 I; apply (Hb k2 v2); right; auto.
    Qed.

    Lemma sorted_merge : forall a b, sorted a -> sorted b -> sorted (merge cmp c a b).
    Proof.
      induction a as [| [ka va] a' IHa]; intros b Sa Sb.
      - rewrite merge_nil_l; auto.
      - induction b as [| [kb vb] b' IHb].
        + rewrite merge_nil_r; auto.
        + rewrite merge_cons. destruct Sa as [La Sa]. destruct Sb as [Lb Sb].
          destruct (cmp ka kb) eqn:E.
          * apply cmp_eq in E; subst kb. split. apply lb_merge; auto. apply IHa; auto.
          * split. apply lb_merge; auto. apply lb_cons; auto. eapply lb_weaken; eauto.
            apply IHa; auto. split; auto.
          * split. apply lb_merge; auto. apply lb_cons. apply cmp_gt_lt; auto.
            eapply lb_weaken; [apply cmp_gt_lt; eauto | auto]. apply IHb; auto.
    Qed.

    Definition comb (x y : option V) : option V :=
      match x, y with Some a, Some b => Some (c a b) | Some a, None => Some a | None, r => r end.

    Lemma get_merge : forall a b k, sorted a -> sorted b ->
      get cmp (merge cmp c a b) k = comb (get cmp a k) (get cmp b k).
    Proof.
      induction a as [| [ka va] a' IHa]; intros b k Sa Sb.
      - rewrite merge_nil_l. cbn. destruct (get cmp b k); auto.
      - induction b as [| [kb vb] b' IHb].
        + rewrite merge_nil_r. cbn [get]. destruct (cmp k ka); cbn; auto; destruct (get cmp a' k); auto.
        + rewrite merge_cons. destruct Sa as [La Sa]. destruct Sb as [Lb Sb].
          destruct (cmp ka kb) eqn:E.
          * apply cmp_eq in E; subst kb. cbn [get]. destruct (cmp k ka) eqn:E2.
            -- reflexivity.
            -- rewrite IHa; auto.
            -- rewrite IHa; auto.
          * cbn [get]. destruct (cmp k ka) eqn:E2.
            -- apply cmp_eq in E2; subst k. rewrite E. 
               rewrite (get_lb b' ka); [reflexivity | eapply lb_weaken; eauto].
            -- rewrite IHa; [| auto | split; auto]. cbn [get].
               assert (X : cmp k kb = Lt) by (eapply cmp_trans; eauto). rewrite X.
               rewrite (get_lb_lt a' k ka La) by congruence.
               rewrite (get_lb b' k); [reflexivity | eapply lb_weaken; eauto].
            -- rewrite IHa; [| auto | split; auto]. cbn [get]. reflexivity.
          * cbn [get]. destruct (cmp k kb) eqn:E2.
            -- apply cmp_eq in E2; subst k. rewrite (cmp_gt_lt _ _ E).
               rewrite (get_lb a' kb); [reflexivity | eapply lb_weaken; [apply cmp_gt_lt; eauto | auto]].
            -- rewrite IHb; auto.
            -- rewrite IHb; auto.
    Qed.
  End Merge.

  (* extensionality: a sorted list is determined by its lookups *)
  Lemma sorted_ext : forall a b, sorted a -> sorted b -> (forall k, get cmp a k = get cmp b k) -> a = b.
  Proof.
    induction a as [| [ka va] a' IHa]; intros b Sa Sb H.
    - destruct b as [| [kb vb] b']; auto. specialize (H kb). cbn in H. rewrite cmp_refl in H. discriminate.
    - destruct b as [| [kb vb] b'].
      + specialize (H ka). cbn in H. rewrite cmp_refl in H. discriminate.
      + destruct Sa as [La Sa]. destruct Sb as [Lb Sb].
        destruct (cmp ka kb) eqn:E.
        * apply cmp_eq in E; subst kb. pose proof (H ka) as H0. cbn in H0. rewrite cmp_refl in H0. inversion H0; subst vb.
          f_equal. apply IHa; auto. intro k. specialize (H k). cbn in H.
          destruct (cmp k ka) eqn:E2; auto.
          apply cmp_eq in E2; subst k. rewrite (get_lb a' ka La), (get_lb b' ka Lb). reflexivity.
        * pose proof (H ka) as H0. cbn in H0. rewrite cmp_refl, E in H0.
          rewrite (get_lb b' ka) in H0 by (eapply lb_weaken; eauto). discriminate.
        * pose proof (H kb) as H0. cbn in H0. rewrite cmp_refl, (cmp_gt_lt _ _ E) in H0.
          rewrite (get_lb a' kb) in H0 by (eapply lb_weaken; [apply cmp_gt_lt; eauto | auto]). discriminate.
  Qed.

  (* filtering by a predicate on keys *)
  Lemma lb_filter : forall p k m, lb k m -> lb k (filter p m).
  Proof. intros p k m H k' v I. apply filter_In in I. destruct I; eauto. Qed.
  Lemma sorted_filter : forall p m, sorted m -> sorted (filter p m).
  Proof.
    induction m as [| [k v] r IH]; intros S; cbn; auto. destruct S as [L S].
    destruct (p (k, v)); cbn; auto. split; auto. apply lb_filter; auto.
  Qed.
  Lemma get_filter : forall (pk : K -> bool) m k, sorted m ->
    get cmp (filter (fun kv => pk (fst kv)) m) k = if pk k then get cmp m k else None.
  Proof.
    induction m as [| [k' v] r IH]; intros k S; cbn.
    - destruct (pk k); auto.
    - destruct S as [L S]. destruct (pk k') eqn:P; cbn.
      + destruct (cmp k k') eqn:E.
        * apply cmp_eq in E; subst k. rewrite P; auto.
        * apply IH; auto.
        * apply IH; auto.
      + rewrite IH; auto. destruct (cmp k k') eqn:E; auto.
        apply cmp_eq in E; subst k. rewrite P. reflexivity.
  Qed.

  Lemma sorted_app_single : forall m k v, sorted m -> (forall k' v', In (k', v') m -> cmp k' k = Lt) -> sorted (m ++ [(k, v)]).
  Proof.
    induction m as [| [k0 v0] r IH]; intros k v S H; cbn.
    - split; auto. apply lb_nil.
    - destruct S as [L S]. split.
      + intros k2 v2 I. apply in_app_or in I. destruct I as [I | [I | []]].
        * eauto.
        * inversion I; subst. apply (H k0 v0). left; auto.
      + apply IH; auto. intros k' v' I. apply (H k' v'). right; auto.
  Qed.
End SortedMaps.

(* ------------------------------------------------------------------------------------------------------------ *)
(* Part B: instances and tables *)
Lemma zc_eq : forall x y, Z.compare x y = Eq -> x = y. Proof. apply Z.compare_eq. Qed.
Lemma zc_refl : forall x, Z.compare x x = Eq. Proof. apply Z.compare_refl. Qed.
Lemma zc_trans : forall x y z, Z.compare x y = Lt -> Z.compare y z = Lt -> Z.compare x z = Lt.
Proof. intros x y z. rewrite !Z.compare_lt_iff. lia. Qed.
Lemma zc_opp : forall x y, Z.compare y x = CompOpp (Z.compare x y). Proof. intros. apply Z.compare_antisym. Qed.

Lemma kc_eq : forall x y, kcmp x y = Eq -> x = y.
Proof.
  intros [a b] [c d]; unfold kcmp; cbn. destruct (Z.compare a c) eqn:E; try discriminate.
  intro H. apply Z.compare_eq in E. apply Z.compare_eq in H. subst; auto.
Qed.
Lemma kc_refl : forall x, kcmp x x = Eq.
Proof. intros [a b]; unfold kcmp; cbn. rewrite !Z.compare_refl. auto. Qed.
Lemma kc_trans : forall x y z, kcmp x y = Lt -> kcmp y z = Lt -> kcmp x z = Lt.
Proof.
  intros [a b] [c d] [e f]; unfold kcmp; cbn.
  destruct (Z.compare a c) eqn:E1; destruct (Z.compare c e) eqn:E2; try discriminate; intros H1 H2;
    repeat match goal with
           | H : Z.compare _ _ = Eq |- _ => apply Z.compare_eq in H
           | H : Z.compare _ _ = Lt |- _ => rewrite Z.compare_lt_iff in H
           end; subst.
  - rewrite Z.compare_refl. rewrite Z.compare_lt_iff. lia.
  - assert (X : Z.compare c e = Lt) by (rewrite Z.compare_lt_iff; lia). rewrite X; auto.
  - assert (X : Z.compare a e = Lt) by (rewrite Z.compare_lt_iff; lia). rewrite X; auto.
  - assert (X : Z.compare a e = Lt) by (rewrite Z.compare_lt_iff; lia). rewrite X; auto.
Qed.
Lemma kc_opp : forall x y, kcmp y x = CompOpp (kcmp x y).
Proof.
  intros [a b] [c d]; unfold kcmp; cbn. rewrite (Z.compare_antisym a c), (Z.compare_antisym b d).
  destruct (Z.compare a c); cbn; auto.
Qed.

Definition fsorted := @sorted Z Z Z.compare.
Definition tsorted := @sorted key fields kcmp.
Definition wf_fields (fs : fields) : Prop := fsorted fs /\ fs <> [].
Definition wf_table (t : table) : Prop := tsorted t /\ forall k fs, In (k, fs) t -> wf_fields fs.
Definition wf_row (r : row) : Prop := wf_fields (snd r).

Lemma merge_nonempty : forall (c : Z -> Z -> Z) (a b : fields), a <> [] -> merge Z.compare c a b <> [].
Proof.
  intros c [| [ka va] a'] b H; [congruence |]. destruct b as [| [kb vb] b']; cbn; [congruence |].
  destruct (Z.compare ka kb); congruence.
Qed.

Lemma wf_fover : forall a b, wf_fields a -> wf_fields b -> wf_fields (fover a b).
Proof.
  intros a b [Sa Na] [Sb Nb]. split.
  - apply sorted_merge; eauto using zc_eq, zc_trans, zc_opp.
  - apply merge_nonempty; auto.
Qed.

Lemma get_fover : forall a b f, wf_fields a -> wf_fields b ->
  get Z.compare (fover a b) f = orelse (get Z.compare a f) (get Z.compare b f).
Proof.
  intros a b f [Sa _] [Sb _]. unfold fover. rewrite get_merge; eauto using zc_eq, zc_trans, zc_opp.
  unfold comb, orelse. destruct (get Z.compare a f), (get Z.compare b f); auto.
Qed.

Lemma in_merge : forall (c : fields -> fields -> fields) (P : fields -> Prop),
  (forall x y, P x -> P y -> P (c x y)) ->
  forall (a b : table), (forall k v, In (k, v) a -> P v) -> (forall k v, In (k, v) b -> P v) ->
  forall k v, In (k, v) (merge kcmp c a b) -> P v.
Proof.
  intros c P Hc. induction a as [| [ka va] a' IHa]; intros b Ha Hb k v I.
  - destruct b; cbn in I; [destruct I | apply (Hb k v I)].
  - induction b as [| [kb vb] b' IHb].
    + cbn in I. apply (Ha k v I).
    + pose proof (merge_cons kcmp c ka va a' kb vb b') as M. unfold row, table in *. rewrite M in I. clear M. destruct (kcmp ka kb).
      * destruct I as [I | I].
        -- injection I as E1 E2; subst k v. apply Hc. apply (Ha ka va); left; auto. apply (Hb kb vb); left; auto.
        -- eapply IHa; [| | exact I]; intros; [eapply Ha | eapply Hb]; right; eauto.
      * destruct I as [I | I].
        -- injection I as E1 E2; subst k v. apply (Ha ka va); left; auto.
        -- eapply IHa; [| | exact I]; intros; [eapply Ha; right; eauto | eapply Hb; eauto].
      * destruct I as [I | I].
        -- injection I as E1 E2; subst k v. apply (Hb kb vb); left; auto.
        -- apply IHb; auto. intros; eapply Hb; right; eauto.
Qed.

Lemma wf_over : forall a b, wf_table a -> wf_table b -> wf_table (over a b).
Proof.
  intros a b [Sa Wa] [Sb Wb]. split.
  - apply sorted_merge; eauto using kc_eq, kc_trans, kc_opp.
  - intros k fs I. apply (in_merge fover wf_fields (fun x y Hx Hy => wf_fover x y Hx Hy) a b Wa Wb k fs I).
Qed.

Lemma get2_over : forall a b k f, wf_table a -> wf_table b ->
  get2 (over a b) k f = orelse (get2 a k f) (get2 b k f).
Proof.
  intros a b k f [Sa Wa] [Sb Wb]. unfold get2, over.
  rewrite get_merge; eauto using kc_eq, kc_trans, kc_opp. unfold comb.
  destruct (get kcmp a k) as [fa |] eqn:Ea; destruct (get kcmp b k) as [fb |] eqn:Eb; cbn; auto.
  - apply get_in in Ea; [| apply kc_eq]. apply get_in in Eb; [| apply kc_eq].
    apply get_fover; eauto.
  - destruct (get Z.compare fa f); auto.
Qed.

Lemma wf_nil : wf_table []. Proof. split; cbn; auto. intros k fs []. Qed.

Lemma wf_single : forall r, wf_row r -> wf_table [r].
Proof.
  intros [k fs] H. split; cbn.
  - split; auto. intros k' v [].
  - intros k' fs' [E | []]. inversion E; subst; auto.
Qed.

Lemma fields_witness : forall fs, wf_fields fs -> exists f v, get Z.compare fs f = Some v.
Proof.
  intros [| [f v] r] [_ N]; [congruence |]. exists f, v. cbn. rewrite Z.compare_refl. auto.
Qed.

(* a well-formed table is determined by its (key, field) lookups *)
Lemma table_ext : forall a b, wf_table a -> wf_table b -> (forall k f, get2 a k f = get2 b k f) -> a = b.
Proof.
  intros a b [Sa Wa] [Sb Wb] H. apply (sorted_ext kcmp); eauto using kc_eq, kc_refl, kc_trans, kc_opp.
  intro k. destruct (get kcmp a k) as [fa |] eqn:Ea; destruct (get kcmp b k) as [fb |] eqn:Eb; auto.
  - f_equal. pose proof (get_in kcmp kc_eq _ _ _ Ea) as Ia. pose proof (get_in kcmp kc_eq _ _ _ Eb) as Ib.
    apply (sorted_ext Z.compare); eauto using zc_eq, zc_refl, zc_trans, zc_opp.
    + apply (Wa k fa Ia). + apply (Wb k fb Ib).
    + intro f. specialize (H k f). unfold get2 in H. rewrite Ea, Eb in H. auto.
  - pose proof (get_in kcmp kc_eq _ _ _ Ea) as Ia. destruct (fields_witness fa (Wa k fa Ia)) as (f & v & G).
    specialize (H k f). unfold get2 in H. rewrite Ea, Eb, G in H. discriminate.
  - pose proof (get_in kcmp kc_eq _ _ _ Eb) as Ib. destruct (fields_witness fb (Wb k fb Ib)) as (f & v & G).
    specialize (H k f). unfold get2 in H. rewrite Ea, Eb, G in H. discriminate.
Qed.

(* ------------------------------------------------------------------------------------------------------------ *)
(* Part C: last-write-wins replay, the algebra of precedence, and the layout operations *)

Definition lww_step (k : key) (f : Z) (acc : option Z) (r : row) : option Z :=
  match kcmp (fst r) k with
  | Eq => match get Z.compare (snd r) f with Some v => Some v | None => acc end
  | _ => acc
  end.
Lemma lww_get_unfold : forall raw k f, lww_get raw k f = fold_left (lww_step k f) raw None.
Proof. reflexivity. Qed.

Lemma lww_fold_acc : forall raw k f acc,
  fold_left (lww_step k f) raw acc = orelse (fold_left (lww_step k f) raw None) acc.
Proof.
  induction raw as [| r raw IH]; intros k f acc; cbn; auto.
  rewrite IH. rewrite (IH k f (lww_step k f None r)). unfold lww_step.
  destruct (kcmp (fst r) k); try (rewrite orelse_none_r; reflexivity).
  destruct (get Z.compare (snd r) f); cbn.
  - destruct (fold_left _ raw None); reflexivity.
  - rewrite orelse_none_r; reflexivity.
Qed.

(* replaying a ++ b: what b wrote wins, the rest is what a left *)
Lemma lww_get_app : forall a b k f, lww_get (a ++ b) k f = orelse (lww_get b k f) (lww_get a k f).
Proof. intros. rewrite !lww_get_unfold, fold_left_app. apply lww_fold_acc. Qed.

Lemma get2_single : forall r k f, get2 [r] k f = lww_step k f None r.
Proof.
  intros [k' fs] k f. unfold get2, lww_step; cbn. rewrite (kc_opp k k').
  destruct (kcmp k k'); cbn; auto. destruct (get Z.compare fs f); auto.
Qed.

Definition wf_raw (raw : list row) : Prop := Forall wf_row raw.

(* the table built by inserting the rows in arrival order (newer over older) is the last-write-wins map *)
Lemma lww_table_spec : forall raw, wf_raw raw ->
  wf_table (lww_table raw) /\ forall k f, get2 (lww_table raw) k f = lww_get raw k f.
Proof.
  intros raw H. unfold lww_table, lww_get.
  assert (G : forall acc, wf_table acc ->
              wf_table (fold_left (fun acc r => over [r] acc) raw acc) /\
              forall k f, get2 (fold_left (fun acc r => over [r] acc) raw acc) k f
                          = orelse (fold_left (lww_step k f) raw None) (get2 acc k f)).
  { induction H as [| r raw Hr Hraw IH]; intros acc Wacc; cbn.
    - split; auto.
    - assert (W1 : wf_table (over [r] acc)) by (apply wf_over; auto using wf_single).
      destruct (IH _ W1) as [W2 E]. split; auto. intros k f. rewrite E.
      rewrite get2_over; auto using wf_single. rewrite get2_single.
      rewrite (lww_fold_acc raw k f (lww_step k f None r)). rewrite orelse_assoc. reflexivity. }
  destruct (G [] wf_nil) as [W E]. split; auto. intros k f. rewrite E. cbn. apply orelse_none_r.
Qed.

(* precedence is associative: merging an adjacent run of containers into one (compaction of ordered files,
   merge-self of out-of-order files, folding out-of-order files into ordered ones) leaves every read unchanged *)
Lemma over_assoc : forall a b c, wf_table a -> wf_table b -> wf_table c -> over (over a b) c = over a (over b c).
Proof.
  intros a b c Wa Wb Wc. apply table_ext; auto using wf_over.
  intros k f. rewrite !get2_over; auto using wf_over. apply orelse_assoc.
Qed.

Lemma over_nil_r : forall a, over a [] = a.
Proof. intro a. unfold over. apply merge_nil_r. Qed.
Lemma over_nil_l : forall a, over [] a = a.
Proof. intro a. unfold over. apply merge_nil_l. Qed.

(* containers that share no key commute *)
Definition disjoint (a b : table) : Prop := forall k, get kcmp a k = None \/ get kcmp b k = None.
Lemma get2_none : forall a k f, get kcmp a k = None -> get2 a k f = None.
Proof. intros a k f H. unfold get2. rewrite H. auto. Qed.
Lemma over_comm : forall a b, wf_table a -> wf_table b -> disjoint a b -> over a b = over b a.
Proof.
  intros a b Wa Wb D. apply table_ext; auto using wf_over.
  intros k f. rewrite !get2_over; auto. destruct (D k) as [H | H]; rewrite (get2_none _ k f H).
  - cbn. rewrite orelse_none_r. auto.
  - rewrite orelse_none_r. auto.
Qed.

(* filtering a table by a predicate on keys *)
Definition kfilter (p : key -> bool) (t : table) : table := filter (fun r : row => p (fst r)) t.
Lemma wf_kfilter : forall p t, wf_table t -> wf_table (kfilter p t).
Proof.
  intros p t [S W]. split.
  - apply sorted_filter; auto.
  - intros k fs I. apply filter_In in I. destruct I; eauto.
Qed.
Lemma get2_kfilter : forall p t k f, wf_table t -> get2 (kfilter p t) k f = if p k then get2 t k f else None.
Proof.
  intros p t k f [S W]. unfold get2, kfilter.
  pose proof (get_filter kcmp kc_eq p t k S) as G. unfold row, table in *. rewrite G. destruct (p k); auto.
Qed.

(* THE FLUSH LEMMA (order / out-of-order split). T is the table being flushed, U the precedence product of the
   out-of-order files, O that of the ordered files. Rows selected by `late` go to a new out-of-order file that takes
   precedence over U; the others go to a new ordered file, which takes precedence only over O. If no existing file
   holds a key of a row that is not late (this is what  time > flushTime  guarantees), every read is unchanged. *)
Lemma flush_split_invisible : forall (late : key -> bool) T U O,
  wf_table T -> wf_table U -> wf_table O ->
  (forall k, late k = false -> get kcmp T k <> None -> get kcmp U k = None /\ get kcmp O k = None) ->
  over (over (kfilter late T) U) (over (kfilter (fun k => negb (late k)) T) O) = over T (over U O).
Proof.
  intros late T U O WT WU WO H. apply table_ext; auto 6 using wf_over, wf_kfilter.
  intros k f. rewrite !get2_over; auto 6 using wf_over, wf_kfilter. rewrite !get2_kfilter; auto.
  destruct (late k) eqn:L; cbn.
  - rewrite orelse_assoc. reflexivity.
  - destruct (get kcmp T k) as [fs |] eqn:E.
    + destruct (H k L) as [HU HO]; [congruence |]. rewrite (get2_none U k f HU), (get2_none O k f HO).
      cbn. rewrite !orelse_none_r. reflexivity.
    + rewrite (get2_none T k f E). reflexivity.
Qed.

(* the same with the whole snapshot going out of order (sequencer not available): trivially invisible *)
Lemma flush_all_ooo_invisible : forall T U O, wf_table T -> wf_table U -> wf_table O ->
  over (over T U) O = over T (over U O).
Proof. intros. apply over_assoc; auto. Qed.

(* redistributing a table over several files by a function of the key (out-of-order merge writing the merged rows
   back into the ordered files): the pieces are disjoint and their product is the table *)
Lemma split2_product : forall (p : key -> bool) T, wf_table T ->
  over (kfilter p T) (kfilter (fun k => negb (p k)) T) = T.
Proof.
  intros p T WT. apply table_ext; auto using wf_over, wf_kfilter.
  intros k f. rewrite get2_over; auto using wf_kfilter. rewrite !get2_kfilter; auto.
  destruct (p k); cbn; auto. apply orelse_none_r.
Qed.

(* reading through the memtable: a write batch appended to the memtable takes precedence over everything else *)
Lemma write_visible : forall raw b, wf_raw raw -> wf_raw b -> forall k f,
  get2 (lww_table (raw ++ b)) k f = orelse (get2 (lww_table b) k f) (get2 (lww_table raw) k f).
Proof.
  intros raw b Hr Hb k f.
  assert (Hrb : wf_raw (raw ++ b)) by (apply Forall_app; auto).
  destruct (lww_table_spec _ Hrb) as [_ E1]. destruct (lww_table_spec _ Hr) as [_ E2]. destruct (lww_table_spec _ Hb) as [_ E3].
  rewrite E1, E2, E3. apply lww_get_app.
Qed.
