(* C02 - reads equal a last-write-wins replay of acknowledged writes, in any layout.
   Executable model (definitions only; the proofs are in Proofs.v).

   Mirrors, for the time-series engine of one shard and one measurement:
     lib/record/column_sort.go   ColumnSortHelper.Sort / replace        -> sort_dedup (stable sort by time, then
                                                                           left-to-right field-wise replace)
     lib/record/record.go        MergeRecord / mergeRecRow              -> over (newer over older, field-wise)
     engine/mutable/table.go     MemTables.Values                       -> read: active over snapshot table
     engine/series_cursor.go, tsm_merge_cursor.go FirstTimeInit/Next    -> read: memtables over out-of-order files
                                                                           (ascending sequence, later wins) over
                                                                           ordered files (concatenated in order)
     engine/mutable/ts_table.go  FlushChunks / SplitRecordByTime        -> flush (split at the per-series flush time)
     engine/immutable/sequencer.go MmsIdTime                            -> flush_time
     engine/immutable/compact.go, ts_mms_tables.go                      -> compact (an adjacent run of ordered files)
     engine/immutable/merge_tool.go, merge_performer.go                 -> merge_ooo, merge_self
     engine/shard.go Close/OpenAndEnable, engine/wal.go                 -> reopen (replay the log, flush)

   A key is (series, time); a row is a key with its non-null fields (field id -> value code, ascending ids).
   Values are opaque integers (the harness encodes typed values injectively). *)
From Coq Require Import ZArith List Bool.
Import ListNotations.
Open Scope Z_scope.

(* ---- sorted association lists with a combining merge ---- *)
Section SortedMaps.
  Context {K V : Type}.
  Variable cmp : K -> K -> comparison.

  Fixpoint get (m : list (K * V)) (k : K) : option V :=
    match m with
    | [] => None
    | (k', v) :: r => match cmp k k' with Eq => Some v | _ => get r k end
    end.

  (* merge two ascending lists; on equal keys combine with c (first argument comes from a) *)
  Fixpoint merge (c : V -> V -> V) (a : list (K * V)) : list (K * V) -> list (K * V) :=
    fix inner (b : list (K * V)) : list (K * V) :=
      match a, b with
      | [], _ => b
      | _, [] => a
      | (ka, va) :: a', (kb, vb) :: b' =>
          match cmp ka kb with
          | Lt => (ka, va) :: merge c a' b
          | Eq => (ka, c va vb) :: merge c a' b'
          | Gt => (kb, vb) :: inner b'
          end
      end.
End SortedMaps.

(* ---- rows and tables ---- *)
Definition key := (Z * Z)%type.                 (* series, time *)
Definition kcmp (a b : key) : comparison :=
  match Z.compare (fst a) (fst b) with Eq => Z.compare (snd a) (snd b) | c => c end.
Definition fields := list (Z * Z).              (* field id -> value, ascending field id, non-empty *)
Definition row := (key * fields)%type.
Definition table := list row.                   (* ascending key, one row per key *)

(* newer fields over older ones: a field carried by the newer row replaces, the others stay (mergeRecRow / replace) *)
Definition fover (newer older : fields) : fields := merge Z.compare (fun x _ => x) newer older.
Definition over (newer older : table) : table := merge kcmp fover newer older.

Definition get2 (m : table) (k : key) (f : Z) : option Z :=
  match get kcmp m k with Some fs => get Z.compare fs f | None => None end.

(* ---- ColumnSortHelper.Sort: stable sort by key, then left-to-right merge of equal keys (later row wins per field) ---- *)
Fixpoint ins (r : row) (l : list row) : list row :=
  match l with
  | [] => [r]
  | x :: l' => match kcmp (fst r) (fst x) with Lt => r :: l | _ => x :: ins r l' end
  end.
Definition isort (raw : list row) : list row := fold_left (fun acc r => ins r acc) raw [].
Fixpoint dedup1 (cur : row) (l : list row) : list row :=
  match l with
  | [] => [cur]
  | y :: l' => match kcmp (fst cur) (fst y) with
               | Eq => dedup1 (fst cur, fover (snd y) (snd cur)) l'
               | _ => cur :: dedup1 y l'
               end
  end.
Definition dedup (l : list row) : list row := match l with [] => [] | x :: l' => dedup1 x l' end.
Definition sort_dedup (raw : list row) : table := dedup (isort raw).

(* the specification object: replay of rows in arrival order into a map keyed by (series, time, field) *)
Definition lww_get (raw : list row) (k : key) (f : Z) : option Z :=
  fold_left (fun acc (r : row) =>
               match kcmp (fst r) k with
               | Eq => match get Z.compare (snd r) f with Some v => Some v | None => acc end
               | _ => acc
               end) raw None.
(* rows of the replay, ascending key: insert every row, newer over older *)
Definition lww_table (raw : list row) : table := fold_left (fun acc r => over [r] acc) raw [].

(* ---- containers ---- *)
Record file := { f_seq : Z; f_tab : table }.
Record layout := {
  mem  : list row;            (* active memtable: raw rows in arrival order *)
  snap : list row;            (* table being flushed (raw rows); [] when none *)
  ooo  : list file;           (* out-of-order files, ascending sequence *)
  ord  : list file;           (* ordered files, ascending sequence *)
  wal  : list (Z * list row); (* batches logged since the last log switch with their write-counter value, oldest first *)
  wreq : Z                    (* the log's write counter (never reset while the shard is open) *)
}.
Definition init : layout := {| mem := []; snap := []; ooo := []; ord := []; wal := []; wreq := 0 |}.

Definition key_in (k : key) (t : table) : bool := match get kcmp t k with Some _ => true | None => false end.

(* per-series last flushed time: the greatest time of the series in any ordered file (None: no ordered row) *)
Definition max_time_in (s : Z) (t : table) : option Z :=
  fold_left (fun acc (r : row) => if fst (fst r) =? s then
                                    match acc with Some m => Some (Z.max m (snd (fst r))) | None => Some (snd (fst r)) end
                                  else acc) t None.
Definition omax (a b : option Z) : option Z :=
  match a, b with Some x, Some y => Some (Z.max x y) | Some x, None => Some x | None, y => y end.
Definition flush_time (files : list file) (s : Z) : option Z :=
  fold_left (fun acc f => omax acc (max_time_in s (f_tab f))) files None.

(* SplitRecordByTime: time <= flushTime -> out-of-order, else ordered. The flush time of a series is the greatest time
   ever flushed for it into ANY file (MsBuilder.Flush feeds the sequencer for ordered and out-of-order files alike, and
   a reload reads the id-time block of both kinds). *)
Definition is_late (allf : list file) (r : row) : bool :=
  match flush_time allf (fst (fst r)) with Some ft => snd (fst r) <=? ft | None => false end.

Fixpoint insert_file (f : file) (l : list file) : list file :=
  match l with
  | [] => [f]
  | x :: l' => if f_seq f <? f_seq x then f :: l else x :: insert_file f l'
  end.
Definition add_file (seq : Z) (t : table) (l : list file) : list file :=
  match t with [] => l | _ => insert_file {| f_seq := seq; f_tab := t |} l end.

Definition min_time_in (s : Z) (t : table) : option Z :=
  fold_left (fun acc (r : row) => if fst (fst r) =? s then
                                    match acc with Some m => Some (Z.min m (snd (fst r))) | None => Some (snd (fst r)) end
                                  else acc) t None.

(* ---- reads ---- *)
(* out-of-order files: ascending sequence, each later file over the accumulated older ones (FirstTimeInit) *)
Definition ooo_prod (l : list file) : table := fold_left (fun acc f => over (f_tab f) acc) l [].
(* ordered files: read one after the other (LocationCursor), per series their time ranges increase with the position *)
Definition sel (s : Z) (t : table) : table := filter (fun r : row => fst (fst r) =? s) t.
Definition ord_cat (s : Z) (l : list file) : table := concat (map (fun f => sel s (f_tab f)) l).
Definition ord_prod (l : list file) : table := fold_left (fun acc f => over (f_tab f) acc) l [].

Definition read_series (L : layout) (s : Z) : table :=
  over (sel s (sort_dedup (mem L)))
   (over (sel s (sort_dedup (snap L)))
     (over (sel s (ooo_prod (ooo L))) (ord_cat s (ord L)))).

(* query shaping: time range (inclusive), field subset, direction; rows left without any selected field are dropped *)
Definition project (fs : list Z) (r : row) : row := (fst r, filter (fun fv : Z * Z => existsb (Z.eqb (fst fv)) fs) (snd r)).
Definition nonempty (r : row) : bool := match snd r with [] => false | _ => true end.
Definition shape (tmin tmax : Z) (fs : list Z) (asc : bool) (t : table) : list row :=
  let rows := filter nonempty (map (project fs) (filter (fun r : row => (tmin <=? snd (fst r)) && (snd (fst r) <=? tmax)) t)) in
  if asc then rows else rev rows.
Definition read_layout (L : layout) (s tmin tmax : Z) (fs : list Z) (asc : bool) : list row :=
  shape tmin tmax fs asc (read_series L s).

(* ---- operations ---- *)
Definition write (b : list row) (L : layout) : layout :=
  {| mem := mem L ++ b; snap := snap L; ooo := ooo L; ord := ord L;
     wal := wal L ++ [(wreq L, b)]; wreq := wreq L + 1 |}.

(* writeSnapshot part 1: log switch + table swap *)
Definition begin_flush (L : layout) : layout :=
  {| mem := []; snap := mem L; ooo := ooo L; ord := ord L; wal := []; wreq := wreq L |}.
(* part 2: FlushChunks + AddBothTSSPFiles; so / su are the sequence numbers the store hands out.
   allooo: the sequencer is not available (freed or still loading, Sequencer.GetMmsIdTime = nil while ordered files
   exist): FlushChunks then uses flushTime = MaxInt64 and every row goes to the out-of-order file. *)
Definition end_flush (allooo : bool) (so su : Z) (L : layout) : layout :=
  let t := sort_dedup (snap L) in
  let late := filter (fun r => allooo || is_late (ord L ++ ooo L) r) t in
  let fresh := filter (fun r => negb (allooo || is_late (ord L ++ ooo L) r)) t in
  {| mem := mem L; snap := []; ooo := add_file su late (ooo L); ord := add_file so fresh (ord L);
     wal := wal L; wreq := wreq L |}.
Definition flush (allooo : bool) (so su : Z) (L : layout) : layout := end_flush allooo so su (begin_flush L).

(* compaction: the files whose sequence is in grp (an adjacent run of the list) become one file under the first sequence *)
Definition in_grp (grp : list Z) (f : file) : bool := existsb (Z.eqb (f_seq f)) grp.
Fixpoint replace_run (grp : list Z) (nf : file) (l : list file) (placed : bool) : list file :=
  match l with
  | [] => []
  | x :: l' => if in_grp grp x then (if placed then replace_run grp nf l' true else nf :: replace_run grp nf l' true)
               else x :: replace_run grp nf l' placed
  end.
Definition compact_group (grp : list Z) (l : list file) : list file :=
  let members := filter (in_grp grp) l in
  match members with
  | [] => l
  | m0 :: _ => replace_run grp {| f_seq := f_seq m0; f_tab := ord_prod members |} l false
  end.
Definition compact (grps : list (list Z)) (L : layout) : layout :=
  {| mem := mem L; snap := snap L; ooo := ooo L; ord := fold_left (fun l g => compact_group g l) grps (ord L);
     wal := wal L; wreq := wreq L |}.

(* merge-self: an adjacent run of out-of-order files becomes one out-of-order file with sequence nseq.
   repaired: the members are folded in sequence order (later file over earlier ones).
   current : MergeSelf.Merge (merge_self.go) pulls the chunks of one series from ChunkIterators, whose heap orders the
             chunks of the same series by their MINIMUM TIME (chunk_iterators.go Less), appends them in that order and
             lets ColumnSortHelper.Sort resolve equal timestamps in favour of the later row: per series the members are
             folded in min-time order (equal min times: sequence order), not in sequence order. *)
Definition has_series (s : Z) (f : file) : bool := existsb (fun r : row => fst (fst r) =? s) (f_tab f).
Definition min_key (s : Z) (f : file) : Z := match min_time_in s (f_tab f) with Some m => m | None => 0 end.
(* rev_ties: chunks with EQUAL minimum time have no defined order in the heap (it depends on earlier pops/pushes);
   false = they keep sequence order, true = the later file comes first *)
Fixpoint ins_by_min (rev_ties : bool) (s : Z) (f : file) (l : list file) : list file :=
  match l with
  | [] => [f]
  | x :: l' => if (min_key s f <? min_key s x) || (rev_ties && (min_key s f =? min_key s x)) then f :: l
               else x :: ins_by_min rev_ties s f l'
  end.
Definition sort_by_min (rev_ties : bool) (s : Z) (l : list file) : list file :=
  fold_left (fun acc f => ins_by_min rev_ties s f acc) l [].
Fixpoint zinsert (x : Z) (l : list Z) : list Z :=
  match l with
  | [] => [x]
  | y :: l' => if x <? y then x :: l else if x =? y then l else y :: zinsert x l'
  end.
Definition all_series (l : list file) : list Z :=
  fold_left (fun acc f => fold_left (fun a (r : row) => zinsert (fst (fst r)) a) (f_tab f) acc) l [].
Definition self_prod_current (rev_ties : bool) (members : list file) : table :=
  concat (map (fun s => sel s (ooo_prod (sort_by_min rev_ties s (filter (has_series s) members)))) (all_series members)).
(* mode 0 = repaired; 1 = current, ties in sequence order; 2 = current, ties reversed *)
Definition merge_self_m (mode : Z) (grp : list Z) (nseq : Z) (L : layout) : layout :=
  let members := filter (in_grp grp) (ooo L) in
  let merged := if mode =? 0 then ooo_prod members else self_prod_current (mode =? 2) members in
  {| mem := mem L; snap := snap L;
     ooo := match members with [] => ooo L | _ => replace_run grp {| f_seq := nseq; f_tab := merged |} (ooo L) false end;
     ord := ord L; wal := wal L; wreq := wreq L |}.
Definition merge_self (current : bool) := merge_self_m (if current then 1 else 0).

(* today's order in general: chunks of one series leave the heap by minimum time; the order of chunks with EQUAL minimum
   time is whatever the binary heap's array happens to give. rank = a tie-break (position of the file's sequence in a
   permutation pi of the members); the evaluator searches pi (Corr.v step_obs, mode 3). *)
Fixpoint index_of (x : Z) (l : list Z) (i : Z) : Z :=
  match l with [] => i | y :: r => if x =? y then i else index_of x r (i + 1) end.
Fixpoint ins_by_min_rank (rank : file -> Z) (s : Z) (f : file) (l : list file) : list file :=
  match l with
  | [] => [f]
  | x :: l' => if (min_key s f <? min_key s x) || ((min_key s f =? min_key s x) && (rank f <? rank x)) then f :: l
               else x :: ins_by_min_rank rank s f l'
  end.
Definition sort_by_min_rank (rank : file -> Z) (s : Z) (l : list file) : list file :=
  fold_left (fun acc f => ins_by_min_rank rank s f acc) l [].
Definition self_prod_rank (rank : file -> Z) (members : list file) : table :=
  concat (map (fun s => sel s (ooo_prod (sort_by_min_rank rank s (filter (has_series s) members)))) (all_series members)).
Definition merge_self_rank (pi : list Z) (grp : list Z) (nseq : Z) (L : layout) : layout :=
  let members := filter (in_grp grp) (ooo L) in
  let merged := self_prod_rank (fun f => index_of (f_seq f) pi 0) members in
  {| mem := mem L; snap := snap L;
     ooo := match members with [] => ooo L | _ => replace_run grp {| f_seq := nseq; f_tab := merged |} (ooo L) false end;
     ord := ord L; wal := wal L; wreq := wreq L |}.

(* out-of-order merge into the ordered files: the consumed out-of-order files (grp) are folded over the ordered
   rows; the result is laid out again over the ordered files. bounds gives, per resulting ordered file (sequence) and
   series, the last time the file holds for that series - the choice the merge made; a row goes to the first file
   whose bound for its series is >= its time, rows beyond every bound go to the last file listing the series, rows of
   a series no file lists go to the last file. *)
Definition bound_of (s : Z) (b : list (Z * Z)) : option Z :=
  match find (fun x => fst x =? s) b with Some x => Some (snd x) | None => None end.
Fixpoint target (s t : Z) (bounds : list (Z * list (Z * Z))) (fallback : Z) : Z :=
  match bounds with
  | [] => fallback
  | (seq, b) :: r => match bound_of s b with
                     | Some m => if t <=? m then seq else target s t r seq
                     | None => target s t r fallback
                     end
  end.
Definition last_seq (bounds : list (Z * list (Z * Z))) : Z := fst (last bounds (0, [])).
Definition merge_ooo (grp : list Z) (bounds : list (Z * list (Z * Z))) (L : layout) : layout :=
  let members := filter (in_grp grp) (ooo L) in
  let all := over (ooo_prod members) (ord_prod (ord L)) in
  let place (seq : Z) := filter (fun r : row => target (fst (fst r)) (snd (fst r)) bounds (last_seq bounds) =? seq) all in
  match members with
  | [] => L
  | _ => {| mem := mem L; snap := snap L; ooo := filter (fun f => negb (in_grp grp f)) (ooo L);
            ord := fold_left (fun l sb => add_file (fst sb) (place (fst sb)) l) bounds [];
            wal := wal L; wreq := wreq L |}
  end.

(* close + open: the memtable is dropped, the log is replayed into a fresh memtable and flushed.
   repaired: records are re-applied in the order they were acknowledged.
   current : the log has n partitions, record c lives in partition c mod n, and replay takes one record from each
             non-exhausted partition in turn starting at partition 0 (engine/wal.go consumeRecordSerial). *)
Definition part_of (n c : Z) : Z := c mod n.
Fixpoint take_round (n p : Z) (fuel : nat) (pending : list (Z * list row)) : list (Z * list row) * list (Z * list row) :=
  (* one pass over partitions p, p+1, .., n-1: from each take its first pending record *)
  match fuel with
  | O => ([], pending)
  | S fuel' =>
      if n <=? p then ([], pending) else
      let fix pick (l : list (Z * list row)) : option (Z * list row) * list (Z * list row) :=
          match l with
          | [] => (None, [])
          | x :: l' => if part_of n (fst x) =? p then (Some x, l')
                       else let '(o, rest) := pick l' in (o, x :: rest)
          end in
      let '(o, rest) := pick pending in
      let '(taken, rest') := take_round n (p + 1) fuel' rest in
      (match o with Some x => x :: taken | None => taken end, rest')
  end.
Fixpoint replay_rounds (n : Z) (fuel : nat) (pending : list (Z * list row)) : list (Z * list row) :=
  match fuel with
  | O => pending
  | S fuel' => match pending with
               | [] => []
               | _ => let '(taken, rest) := take_round n 0 (Z.to_nat n) pending in taken ++ replay_rounds n fuel' rest
               end
  end.
Definition replay_current (n : Z) (w : list (Z * list row)) : list row :=
  concat (map snd (replay_rounds (Z.max 1 n) (length w) w)).
Definition replay_repaired (w : list (Z * list row)) : list row := concat (map snd w).

Definition reopen (current : bool) (n : Z) (allooo : bool) (so su : Z) (L : layout) : layout :=
  let m := if current then replay_current n (wal L) else replay_repaired (wal L) in
  flush allooo so su {| mem := m; snap := []; ooo := ooo L; ord := ord L; wal := []; wreq := 0 |}.

Inductive op :=
| Write (b : list row)
| Flush (allooo : bool) (so su : Z)
| BeginFlush
| EndFlush (allooo : bool) (so su : Z)
| Compact (grps : list (list Z))
| MergeOOO (grp : list Z) (bounds : list (Z * list (Z * Z)))
| MergeSelf (grp : list Z) (nseq : Z)
| Reopen (n : Z) (allooo : bool) (so su : Z).

(* variant: wc = today's log replay order at reopen, mc = merge-self mode (0 repaired, 1/2 today's member order) *)
Definition step2 (wc : bool) (mc : Z) (L : layout) (o : op) : layout :=
  match o with
  | Write b => write b L
  | Flush a so su => flush a so su L
  | BeginFlush => begin_flush L
  | EndFlush a so su => end_flush a so su L
  | Compact g => compact g L
  | MergeOOO g b => merge_ooo g b L
  | MergeSelf g n => merge_self_m mc g n L
  | Reopen n a so su => reopen wc n a so su L
  end.
Definition run2 (wc : bool) (mc : Z) (h : list op) : layout := fold_left (step2 wc mc) h init.

Definition step (current : bool) (L : layout) (o : op) : layout :=
  match o with
  | Write b => write b L
  | Flush a so su => flush a so su L
  | BeginFlush => begin_flush L
  | EndFlush a so su => end_flush a so su L
  | Compact g => compact g L
  | MergeOOO g b => merge_ooo g b L
  | MergeSelf g n => merge_self false g n L
  | Reopen n a so su => reopen current n a so su L
  end.
Definition run (current : bool) (h : list op) : layout := fold_left (step current) h init.

Definition write_free (o : op) : bool := match o with Write _ => false | _ => true end.
Definition writes_of (h : list op) : list row :=
  concat (map (fun o => match o with Write b => b | _ => [] end) h).

(* ---- decidable side conditions (what the planner / the store guarantee; checked on every replayed history) ---- *)
Fixpoint asc_seq (l : list file) : bool :=
  match l with
  | x :: ((y :: _) as r) => (f_seq x <? f_seq y) && asc_seq r
  | _ => true
  end.
(* the members of grp are adjacent in l *)
Fixpoint adjacent_from (grp : list Z) (l : list file) (started : bool) (stopped : bool) : bool :=
  match l with
  | [] => true
  | x :: l' => if in_grp grp x then (if stopped then false else adjacent_from grp l' true false)
               else adjacent_from grp l' started started
  end.
Definition adjacent (grp : list Z) (l : list file) : bool := adjacent_from grp l false false.
(* grp names exactly the first files of l (the oldest out-of-order files) *)
Fixpoint is_prefix_from (grp : list Z) (l : list file) (stopped : bool) : bool :=
  match l with
  | [] => true
  | x :: l' => if in_grp grp x then (if stopped then false else is_prefix_from grp l' false)
               else is_prefix_from grp l' true
  end.
Definition is_prefix (grp : list Z) (l : list file) : bool := is_prefix_from grp l false.
Definition fresh_seq (s : Z) (l : list file) : bool := forallb (fun f => f_seq f <? s) l.
Definition between_neighbours (grp : list Z) (nseq : Z) (l : list file) : bool :=
  asc_seq (replace_run grp {| f_seq := nseq; f_tab := [] |} l false).

(* ordered files: per series the time ranges strictly increase with the position *)
Definition series_of (t : table) : list Z := map (fun r : row => fst (fst r)) t.
Fixpoint ord_ok_from (l : list file) : bool :=
  match l with
  | [] => true
  | x :: r => forallb (fun y : file => forallb (fun s => match max_time_in s (f_tab x), min_time_in s (f_tab y) with
                                                       | Some a, Some b => a <? b | _, _ => true end)
                                              (series_of (f_tab x))) r
              && ord_ok_from r
  end.
Definition layout_ok (L : layout) : bool := asc_seq (ooo L) && asc_seq (ord L) && ord_ok_from (ord L).

(* every group is an adjacent run of the list it is applied to (groups are applied one after the other) *)
Fixpoint compact_ok (grps : list (list Z)) (l : list file) : bool :=
  match grps with
  | [] => true
  | g :: r => adjacent g l && compact_ok r (compact_group g l)
  end.

(* strictly ascending integers (the sequence numbers of the ordered files an out-of-order merge wrote, in list order) *)
Fixpoint asc_zs (l : list Z) : bool :=
  match l with
  | x :: ((y :: _) as r) => (x <? y) && asc_zs r
  | _ => true
  end.

Definition op_ok (L : layout) (o : op) : bool :=
  match o with
  | Write _ => true
  | Flush _ so su | Reopen _ _ so su => fresh_seq so (ord L) && fresh_seq su (ooo L) && match snap L with [] => true | _ => false end
  | BeginFlush => match snap L with [] => true | _ => false end
  | EndFlush _ so su => fresh_seq so (ord L) && fresh_seq su (ooo L)
  | Compact grps => compact_ok grps (ord L)
  | MergeSelf g n => adjacent g (ooo L) && between_neighbours g n (ooo L)
  | MergeOOO g b => is_prefix g (ooo L) && match b with [] => false | _ => true end && asc_zs (map fst b)
  end.

(* a written row carries at least one field and its field ids ascend (the harness / the line protocol sort them) *)
Fixpoint fields_asc (fs : fields) : bool :=
  match fs with
  | x :: ((y :: _) as r) => (fst x <? fst y) && fields_asc r
  | _ => true
  end.
Definition row_ok (r : row) : bool := nonempty r && fields_asc (snd r).
Definition write_ok (o : op) : bool := match o with Write b => forallb row_ok b | _ => true end.

(* a history is allowed when every op satisfies the planner / store predicate in the state it is applied to and the
   layout predicate holds afterwards (both are evaluated by the correspondence on every replayed history: codes 4, 5) *)
Fixpoint allowed_from (L : layout) (h : list op) : bool :=
  match h with
  | [] => true
  | o :: r => op_ok L o && write_ok o && layout_ok (step false L o) && allowed_from (step false L o) r
  end.
Definition ops_allowed (h : list op) : bool := allowed_from init h.

(* boolean equality of tables (for Examples and the evaluator) *)
Fixpoint zz_list_eqb (a b : list (Z * Z)) : bool :=
  match a, b with
  | [], [] => true
  | x :: a', y :: b' => (fst x =? fst y) && (snd x =? snd y) && zz_list_eqb a' b'
  | _, _ => false
  end.
Fixpoint Corr_eq (a b : table) : bool :=
  match a, b with
  | [], [] => true
  | x :: a', y :: b' => (fst (fst x) =? fst (fst y)) && (snd (fst x) =? snd (fst y)) && zz_list_eqb (snd x) (snd y) && Corr_eq a' b'
  | _, _ => false
  end.
