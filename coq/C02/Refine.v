(* C02 refinement proof: the executable layout model (Model.v: run over op histories) refines the last-write-wins
   replay of the acknowledged writes.
     Part 1  the code-shaped sort_dedup (stable insertion sort + left-to-right replace) equals lww_table
     Part 2  precedence products of file lists; list surgery of insert_file / replace_run / is_prefix / adjacent
     Part 3  flush time and the order / out-of-order split
     Part 4  placement of merged rows by an out-of-order merge
     Part 5  the invariant, its preservation by every op, and the read theorems *)
From Coq Require Import ZArith List Bool Lia Sorted.
From OG Require Import C02.Model C02.Proofs C02.Corr.
Import ListNotations.
Open Scope Z_scope.

(* ------------------------------------------------------------------------------------------------------------ *)
(* Part 1 *)

Lemma kc_le_lt : forall a b c, kcmp a b <> Gt -> kcmp b c = Lt -> kcmp a c = Lt.
Proof.
  intros a b c H1 H2. destruct (kcmp a b) eqn:E; try congruence.
  - apply kc_eq in E; subst; auto.
  - eapply kc_trans; eauto.
Qed.
Lemma kc_lt_le : forall a b c, kcmp a b = Lt -> kcmp b c <> Gt -> kcmp a c = Lt.
Proof.
  intros a b c H1 H2. destruct (kcmp b c) eqn:E; try congruence.
  - apply kc_eq in E; subst; auto.
  - eapply kc_trans; eauto.
Qed.
Lemma kc_gt_lt : forall a b, kcmp a b = Gt -> kcmp b a = Lt.
Proof. intros a b H. rewrite kc_opp, H. reflexivity. Qed.
Lemma kc_lt_gt : forall a b, kcmp a b = Lt -> kcmp b a = Gt.
Proof. intros a b H. rewrite kc_opp, H. reflexivity. Qed.
Lemma kc_eq_sym : forall a b, kcmp a b = Eq -> kcmp b a = Eq.
Proof. intros a b H. rewrite kc_opp, H. reflexivity. Qed.
Lemma kc_nlt_le : forall a b, kcmp a b <> Lt -> kcmp b a <> Gt.
Proof. intros a b H. rewrite kc_opp. destruct (kcmp a b); cbn; congruence. Qed.

Fixpoint wsorted (l : list row) : Prop :=
  match l with
  | [] => True
  | x :: r => (forall y, In y r -> kcmp (fst x) (fst y) <> Gt) /\ wsorted r
  end.

Lemma ins_in : forall r l y, In y (ins r l) -> y = r \/ In y l.
Proof.
  induction l as [| x l IH]; intros y H; cbn in H.
  - destruct H as [H | []]; auto.
  - destruct (kcmp (fst r) (fst x)).
    + destruct H as [H | H]; [right; left; auto |]. destruct (IH _ H) as [? | ?]; [left | right; right]; auto.
    + destruct H as [H | H]; auto.
    + destruct H as [H | H]; [right; left; auto |]. destruct (IH _ H) as [? | ?]; [left | right; right]; auto.
Qed.

Lemma wsorted_ins : forall r l, wsorted l -> wsorted (ins r l).
Proof.
  induction l as [| x l IH]; intros W; cbn.
  - split; [intros y [] | auto].
  - destruct W as [W1 W2]. destruct (kcmp (fst r) (fst x)) eqn:E.
    + split; auto. intros y I. apply ins_in in I. destruct I as [-> | I]; auto.
      apply kc_eq_sym in E. congruence.
    + split; [| split; auto]. intros y [<- | I]; [congruence |].
      rewrite (kc_lt_le _ _ _ E (W1 y I)). congruence.
    + split; auto. intros y I. apply ins_in in I. destruct I as [-> | I]; auto.
      rewrite (kc_gt_lt _ _ E). congruence.
Qed.

Lemma dedup1_head : forall l cur, exists fs t, dedup1 cur l = (fst cur, fs) :: t.
Proof.
  induction l as [| y l IH]; intros cur; cbn.
  - destruct cur as [k fs]. exists fs, []. reflexivity.
  - destruct (kcmp (fst cur) (fst y)).
    + destruct (IH (fst cur, fover (snd y) (snd cur))) as (fs & t & E). exists fs, t. exact E.
    + destruct cur as [k fs]. eexists; eexists; reflexivity.
    + destruct cur as [k fs]. eexists; eexists; reflexivity.
Qed.

Lemma over1_nil : forall r, over [r] [] = [r].
Proof. intros [k v]. reflexivity. Qed.
Lemma over1_cons : forall (r : row) k fs t,
  over [r] ((k, fs) :: t) =
  match kcmp (fst r) k with
  | Lt => r :: (k, fs) :: t
  | Eq => (fst r, fover (snd r) fs) :: t
  | Gt => (k, fs) :: over [r] t
  end.
Proof.
  intros [kr vr] k fs t. unfold over. cbn [fst snd].
  pose proof (merge_cons kcmp fover kr vr [] k fs t) as M.
  pose proof (merge_nil_l kcmp fover t) as N. pose proof (merge_nil_l kcmp fover ((k, fs) :: t)) as N2.
  unfold row, table, key, fields in *. rewrite M.
  destruct (Model.kcmp kr k); auto; f_equal; auto.
Qed.

Lemma dedup1_ins : forall l cur r, wsorted (cur :: l) -> kcmp (fst r) (fst cur) <> Lt ->
  dedup1 cur (ins r l) = over [r] (dedup1 cur l).
Proof.
  induction l as [| y l IH]; intros cur r W H.
  - cbn [ins dedup1]. destruct cur as [kc vc]. rewrite over1_cons. cbn [fst snd] in *.
    rewrite (kc_opp (fst r) kc). destruct (kcmp (fst r) kc) eqn:E; cbn [CompOpp]; try congruence.
    + apply kc_eq in E. subst kc. reflexivity.
    + rewrite over1_nil. reflexivity.
  - destruct W as [W1 [W2 W3]].
    assert (Ecy : kcmp (fst cur) (fst y) <> Gt) by (apply W1; left; auto).
    cbn [ins]. destruct (kcmp (fst r) (fst y)) eqn:Ery.
    + (* r has the key of y: it goes after y *)
      cbn [dedup1]. destruct (kcmp (fst cur) (fst y)) eqn:Ecy'; try congruence.
      * apply IH.
        -- split; auto. cbn [fst]. intros z I. apply W1. right; auto.
        -- cbn [fst]. auto.
      * f_equal. destruct (dedup1_head l y) as (fs & t & Ed).
        rewrite IH; auto.
        -- destruct cur as [kc vc]. rewrite over1_cons. cbn [fst snd] in *.
           assert (X : kcmp (fst r) kc = Gt).
           { apply kc_eq in Ery. rewrite Ery. apply kc_lt_gt; auto. }
           rewrite X. reflexivity.
        -- split; auto.
        -- rewrite Ery. congruence.
    + (* r before y *)
      cbn [dedup1]. destruct cur as [kc vc]. cbn [fst snd] in *.
      destruct (dedup1_head l y) as (fs & t & Ed).
      rewrite (kc_opp (fst r) kc). destruct (kcmp (fst r) kc) eqn:Erc; cbn [CompOpp]; try congruence.
      * (* same key as cur, cur < y *)
        apply kc_eq in Erc. subst kc. rewrite Ery.
        destruct (kcmp (fst r) (fst y)) eqn:E2; try congruence.
        rewrite over1_cons. cbn [fst snd]. rewrite kc_refl. reflexivity.
      * (* cur < r < y *)
        assert (X : kcmp kc (fst y) = Lt) by (eapply kc_trans; [apply kc_gt_lt; eauto | auto]).
        rewrite X. rewrite Ery. rewrite over1_cons. cbn [fst snd]. rewrite Erc.
        f_equal. rewrite Ed. rewrite over1_cons. cbn [fst snd]. rewrite Ery. reflexivity.
    + (* r after y *)
      cbn [dedup1]. destruct (kcmp (fst cur) (fst y)) eqn:Ecy'; try congruence.
      * apply IH.
        -- split; auto. cbn [fst]. intros z I. apply W1. right; auto.
        -- cbn [fst]. auto.
      * destruct cur as [kc vc]. cbn [fst snd] in *. rewrite over1_cons. cbn [fst snd].
        assert (X : kcmp (fst r) kc = Gt).
        { apply kc_lt_gt. eapply kc_trans; eauto. apply kc_gt_lt; auto. }
        rewrite X. f_equal. apply IH.
        -- split; auto.
        -- rewrite Ery. congruence.
Qed.

Lemma dedup_ins : forall l r, wsorted l -> dedup (ins r l) = over [r] (dedup l).
Proof.
  intros [| x l] r W.
  - cbn [ins dedup dedup1]. rewrite over1_nil. reflexivity.
  - cbn [ins dedup]. destruct (kcmp (fst r) (fst x)) eqn:E.
    + apply dedup1_ins; auto. rewrite E; congruence.
    + cbn [dedup dedup1]. rewrite E. destruct (dedup1_head l x) as (fs & t & Ed). rewrite Ed.
      rewrite over1_cons. rewrite E. reflexivity.
    + apply dedup1_ins; auto. rewrite E; congruence.
Qed.

Lemma isort_snoc : forall raw r, isort (raw ++ [r]) = ins r (isort raw).
Proof. intros. unfold isort. rewrite fold_left_app. reflexivity. Qed.
Lemma wsorted_isort : forall raw, wsorted (isort raw).
Proof.
  induction raw as [| r raw IH] using rev_ind.
  - cbn. auto.
  - rewrite isort_snoc. apply wsorted_ins; auto.
Qed.
Lemma lww_table_snoc : forall raw r, lww_table (raw ++ [r]) = over [r] (lww_table raw).
Proof. intros. unfold lww_table. rewrite fold_left_app. reflexivity. Qed.

(* the function the evaluator runs (and ColumnSortHelper.Sort implements) is the last-write-wins table *)
Lemma sort_dedup_lww : forall raw, sort_dedup raw = lww_table raw.
Proof.
  induction raw as [| r raw IH] using rev_ind.
  - reflexivity.
  - unfold sort_dedup in *. rewrite isort_snoc, dedup_ins by apply wsorted_isort.
    rewrite IH, lww_table_snoc. reflexivity.
Qed.

(* ------------------------------------------------------------------------------------------------------------ *)
(* Part 2: precedence products of file lists and list surgery *)

Definition pstep (acc : table) (f : file) : table := over (f_tab f) acc.
Definition prod (l : list file) : table := fold_left pstep l [].
Lemma ooo_prod_prod : forall l, ooo_prod l = prod l. Proof. reflexivity. Qed.
Lemma ord_prod_prod : forall l, ord_prod l = prod l. Proof. reflexivity. Qed.

Definition wf_files (l : list file) : Prop := Forall (fun f => wf_table (f_tab f)) l.

Lemma prod_acc : forall l acc, wf_files l -> wf_table acc ->
  wf_table (fold_left pstep l acc) /\ fold_left pstep l acc = over (fold_left pstep l []) acc.
Proof.
  induction l as [| x l IH]; intros acc Wl Wa; cbn [fold_left].
  - split; auto. rewrite over_nil_l. reflexivity.
  - inversion Wl as [| ? ? Wx Wl']; subst.
    assert (W1 : wf_table (pstep acc x)) by (apply wf_over; auto).
    assert (W2 : wf_table (pstep [] x)) by (apply wf_over; auto using wf_nil).
    destruct (IH _ Wl' W1) as [A1 A2]. destruct (IH _ Wl' W2) as [B1 B2].
    destruct (IH _ Wl' wf_nil) as [C1 _].
    split; auto. rewrite A2, B2. unfold pstep. rewrite over_nil_r.
    rewrite over_assoc; auto.
Qed.

Lemma wf_prod : forall l, wf_files l -> wf_table (prod l).
Proof. intros l W. apply (prod_acc l [] W wf_nil). Qed.

Lemma prod_app : forall a b, wf_files a -> wf_files b -> prod (a ++ b) = over (prod b) (prod a).
Proof.
  intros a b Wa Wb. unfold prod. rewrite fold_left_app.
  apply (prod_acc b (fold_left pstep a []) Wb (wf_prod a Wa)).
Qed.

Lemma prod_single : forall f, prod [f] = f_tab f.
Proof. intro f. unfold prod, pstep. cbn. apply over_nil_r. Qed.
Lemma prod_cons : forall x l, wf_files (x :: l) -> prod (x :: l) = over (prod l) (f_tab x).
Proof.
  intros x l W. inversion W; subst. change (x :: l) with ([x] ++ l). rewrite prod_app; auto.
  - rewrite prod_single. reflexivity.
  - constructor; auto.
Qed.

Lemma wf_files_app : forall a b, wf_files (a ++ b) <-> wf_files a /\ wf_files b.
Proof. intros. unfold wf_files. apply Forall_app. Qed.

(* insert_file with a fresh (largest) sequence appends *)
Lemma insert_file_fresh : forall f l, fresh_seq (f_seq f) l = true -> insert_file f l = l ++ [f].
Proof.
  induction l as [| x l IH]; intros H; cbn in *; auto.
  apply andb_true_iff in H. destruct H as [H1 H2].
  assert (X : (f_seq f <? f_seq x) = false) by lia. rewrite X. f_equal. auto.
Qed.

Lemma add_file_fresh : forall s t l, fresh_seq s l = true -> wf_table t -> wf_files l ->
  wf_files (add_file s t l) /\ prod (add_file s t l) = over t (prod l).
Proof.
  intros s t l F Wt Wl. unfold add_file. destruct t as [| r t'].
  - split; auto. rewrite over_nil_l. reflexivity.
  - rewrite insert_file_fresh by exact F.
    assert (W1 : wf_files [{| f_seq := s; f_tab := r :: t' |}]) by (constructor; [exact Wt | constructor]).
    split.
    + apply wf_files_app; auto.
    + rewrite prod_app; auto. rewrite prod_single. reflexivity.
Qed.

(* members of a group *)
Definition allb (p : file -> bool) (l : list file) : Prop := forallb p l = true.
Definition nomem (g : list Z) (l : list file) : Prop := forallb (fun f => negb (in_grp g f)) l = true.
Definition allmem (g : list Z) (l : list file) : Prop := forallb (in_grp g) l = true.

Lemma adj_stopped : forall g l, adjacent_from g l true true = true -> nomem g l.
Proof.
  induction l as [| x l IH]; intros H; cbn in *; auto. unfold nomem in *. cbn.
  destruct (in_grp g x); [discriminate |]. cbn. auto.
Qed.
Lemma adj_started : forall g l, adjacent_from g l true false = true ->
  exists run post, l = run ++ post /\ allmem g run /\ nomem g post.
Proof.
  induction l as [| x l IH]; intros H; cbn in *.
  - exists [], []. repeat split.
  - destruct (in_grp g x) eqn:E.
    + destruct (IH H) as (run & post & -> & A & B). exists (x :: run), post. repeat split; auto.
      unfold allmem in *. cbn. rewrite E. auto.
    + exists [], (x :: l). repeat split. unfold nomem. cbn. rewrite E. cbn. apply adj_stopped; auto.
Qed.
Lemma adj_split : forall g l, adjacent g l = true ->
  exists pre run post, l = pre ++ run ++ post /\ nomem g pre /\ allmem g run /\ nomem g post.
Proof.
  unfold adjacent. induction l as [| x l IH]; intros H; cbn in *.
  - exists [], [], []. repeat split.
  - destruct (in_grp g x) eqn:E.
    + destruct (adj_started g l H) as (run & post & -> & A & B). exists [], (x :: run), post. repeat split; auto.
      unfold allmem in *. cbn. rewrite E. auto.
    + destruct (IH H) as (pre & run & post & -> & A & B & C). exists (x :: pre), run, post. repeat split; auto.
      unfold nomem in *. cbn. rewrite E. auto.
Qed.

Lemma prefix_stopped : forall g l, is_prefix_from g l true = true -> nomem g l.
Proof.
  induction l as [| x l IH]; intros H; cbn in *; auto. unfold nomem in *. cbn.
  destruct (in_grp g x); [discriminate |]. cbn. auto.
Qed.
Lemma prefix_split : forall g l, is_prefix g l = true -> exists run post, l = run ++ post /\ allmem g run /\ nomem g post.
Proof.
  unfold is_prefix. induction l as [| x l IH]; intros H; cbn in *.
  - exists [], []. repeat split.
  - destruct (in_grp g x) eqn:E.
    + destruct (IH H) as (run & post & -> & A & B). exists (x :: run), post. repeat split; auto.
      unfold allmem in *. cbn. rewrite E. auto.
    + exists [], (x :: l). repeat split. unfold nomem. cbn. rewrite E. cbn. apply prefix_stopped; auto.
Qed.

Lemma filter_allmem : forall g l, allmem g l -> filter (in_grp g) l = l.
Proof.
  induction l as [| x l IH]; intros H; cbn in *; auto. unfold allmem in *. cbn in H.
  apply andb_true_iff in H. destruct H as [H1 H2]. rewrite H1. f_equal; auto.
Qed.
Lemma filter_nomem : forall g l, nomem g l -> filter (in_grp g) l = [].
Proof.
  induction l as [| x l IH]; intros H; cbn in *; auto. unfold nomem in *. cbn in H.
  apply andb_true_iff in H. destruct H as [H1 H2]. destruct (in_grp g x); [discriminate | auto].
Qed.
Lemma filter_neg_allmem : forall g l, allmem g l -> filter (fun f => negb (in_grp g f)) l = [].
Proof.
  induction l as [| x l IH]; intros H; cbn in *; auto. unfold allmem in *. cbn in H.
  apply andb_true_iff in H. destruct H as [H1 H2]. rewrite H1. cbn. auto.
Qed.
Lemma filter_neg_nomem : forall g l, nomem g l -> filter (fun f => negb (in_grp g f)) l = l.
Proof.
  induction l as [| x l IH]; intros H; cbn in *; auto. unfold nomem in *. cbn in H.
  apply andb_true_iff in H. destruct H as [H1 H2]. rewrite H1. f_equal; auto.
Qed.

Lemma replace_run_nomem : forall g nf l placed, nomem g l -> replace_run g nf l placed = l.
Proof.
  induction l as [| x l IH]; intros placed H; cbn in *; auto. unfold nomem in *. cbn in H.
  apply andb_true_iff in H. destruct H as [H1 H2]. destruct (in_grp g x); [discriminate |]. f_equal; auto.
Qed.
Lemma replace_run_placed : forall g nf run post, allmem g run -> nomem g post ->
  replace_run g nf (run ++ post) true = post.
Proof.
  induction run as [| x run IH]; intros post A B; cbn.
  - apply replace_run_nomem; auto.
  - unfold allmem in *. cbn in A. apply andb_true_iff in A. destruct A as [A1 A2]. rewrite A1. auto.
Qed.
Lemma replace_run_split : forall g nf pre x run post, nomem g pre -> allmem g (x :: run) -> nomem g post ->
  replace_run g nf (pre ++ (x :: run) ++ post) false = pre ++ [nf] ++ post.
Proof.
  induction pre as [| y pre IH]; intros x run post A B C.
  - cbn. unfold allmem in B. cbn in B. apply andb_true_iff in B. destruct B as [B1 B2]. rewrite B1.
    f_equal. apply replace_run_placed; auto.
  - cbn. unfold nomem in A. cbn in A. apply andb_true_iff in A. destruct A as [A1 A2].
    destruct (in_grp g y); [discriminate |]. f_equal. apply IH; auto.
Qed.

Lemma filter_split : forall g pre run post, nomem g pre -> allmem g run -> nomem g post ->
  filter (in_grp g) (pre ++ run ++ post) = run.
Proof.
  intros. rewrite !filter_app. rewrite (filter_nomem g pre), (filter_nomem g post), (filter_allmem g run); auto.
  rewrite app_nil_r. reflexivity.
Qed.

(* replacing an adjacent run of files by one file holding their product leaves the product unchanged *)
Lemma replace_adjacent_prod : forall g l seq, adjacent g l = true -> wf_files l ->
  let members := filter (in_grp g) l in
  members <> [] ->
  let l' := replace_run g {| f_seq := seq; f_tab := prod members |} l false in
  wf_files l' /\ prod l' = prod l.
Proof.
  intros g l seq Adj W members NE l'.
  destruct (adj_split g l Adj) as (pre & run & post & E & A & B & C). subst l.
  assert (M : members = run) by (apply filter_split; auto). subst l'. rewrite M in *. clear M members.
  destruct run as [| x run]; [congruence |].
  rewrite replace_run_split; auto.
  apply wf_files_app in W. destruct W as [Wpre W]. apply wf_files_app in W. destruct W as [Wrun Wpost].
  assert (Wn : wf_files [{| f_seq := seq; f_tab := prod (x :: run) |}]).
  { constructor; [| constructor]. cbn [f_tab]. apply wf_prod; auto. }
  split.
  - apply wf_files_app; split; auto. apply wf_files_app; split; auto.
  - rewrite !prod_app; auto; try (apply wf_files_app; split; auto).
    rewrite prod_single. reflexivity.
Qed.

(* ------------------------------------------------------------------------------------------------------------ *)
(* Part 3: flush time; a row that is not late is in no file *)

Definition mxstep (s : Z) (acc : option Z) (r : row) : option Z :=
  if fst (fst r) =? s then match acc with Some m => Some (Z.max m (snd (fst r))) | None => Some (snd (fst r)) end else acc.
Definition mnstep (s : Z) (acc : option Z) (r : row) : option Z :=
  if fst (fst r) =? s then match acc with Some m => Some (Z.min m (snd (fst r))) | None => Some (snd (fst r)) end else acc.
Lemma max_time_in_fold : forall s t, max_time_in s t = fold_left (mxstep s) t None. Proof. reflexivity. Qed.
Lemma min_time_in_fold : forall s t, min_time_in s t = fold_left (mnstep s) t None. Proof. reflexivity. Qed.

Lemma max_fold_some : forall s t m0, exists m, fold_left (mxstep s) t (Some m0) = Some m /\ m0 <= m.
Proof.
  induction t as [| x t IH]; intros m0; cbn [fold_left].
  - exists m0. split; auto. lia.
  - unfold mxstep at 2. destruct (fst (fst x) =? s).
    + destruct (IH (Z.max m0 (snd (fst x)))) as (m & E & L). exists m. split; auto. lia.
    + apply IH.
Qed.
Lemma max_fold_in : forall s t tm fs acc, In ((s, tm), fs) t -> exists m, fold_left (mxstep s) t acc = Some m /\ tm <= m.
Proof.
  induction t as [| x t IH]; intros tm fs acc I; [destruct I |]. cbn [fold_left]. destruct I as [-> | I].
  - unfold mxstep at 2. cbn [fst snd]. rewrite Z.eqb_refl. destruct acc as [a |].
    + destruct (max_fold_some s t (Z.max a tm)) as (m & E & L). exists m. split; auto. lia.
    + destruct (max_fold_some s t tm) as (m & E & L). exists m. split; auto.
  - eapply IH; eauto.
Qed.
Lemma min_fold_some : forall s t m0, exists m, fold_left (mnstep s) t (Some m0) = Some m /\ m <= m0.
Proof.
  induction t as [| x t IH]; intros m0; cbn [fold_left].
  - exists m0. split; auto. lia.
  - unfold mnstep at 2. destruct (fst (fst x) =? s).
    + destruct (IH (Z.min m0 (snd (fst x)))) as (m & E & L). exists m. split; auto. lia.
    + apply IH.
Qed.
Lemma min_fold_in : forall s t tm fs acc, In ((s, tm), fs) t -> exists m, fold_left (mnstep s) t acc = Some m /\ m <= tm.
Proof.
  induction t as [| x t IH]; intros tm fs acc I; [destruct I |]. cbn [fold_left]. destruct I as [-> | I].
  - unfold mnstep at 2. cbn [fst snd]. rewrite Z.eqb_refl. destruct acc as [a |].
    + destruct (min_fold_some s t (Z.min a tm)) as (m & E & L). exists m. split; auto. lia.
    + destruct (min_fold_some s t tm) as (m & E & L). exists m. split; auto.
  - eapply IH; eauto.
Qed.
Lemma max_time_in_ge : forall s t tm fs, In ((s, tm), fs) t -> exists m, max_time_in s t = Some m /\ tm <= m.
Proof. intros. rewrite max_time_in_fold. eapply max_fold_in; eauto. Qed.
Lemma min_time_in_le : forall s t tm fs, In ((s, tm), fs) t -> exists m, min_time_in s t = Some m /\ m <= tm.
Proof. intros. rewrite min_time_in_fold. eapply min_fold_in; eauto. Qed.

Definition ftstep (s : Z) (acc : option Z) (f : file) : option Z := omax acc (max_time_in s (f_tab f)).
Lemma flush_time_fold : forall files s, flush_time files s = fold_left (ftstep s) files None. Proof. reflexivity. Qed.
Lemma ft_fold_some : forall s files m0, exists m, fold_left (ftstep s) files (Some m0) = Some m /\ m0 <= m.
Proof.
  induction files as [| x l IH]; intros m0; cbn [fold_left].
  - exists m0. split; auto. lia.
  - unfold ftstep at 2. destruct (max_time_in s (f_tab x)) as [a |]; cbn [omax].
    + destruct (IH (Z.max m0 a)) as (m & E & L). exists m. split; auto. lia.
    + apply IH.
Qed.
Lemma ft_fold_in : forall s files f a acc, In f files -> max_time_in s (f_tab f) = Some a ->
  exists m, fold_left (ftstep s) files acc = Some m /\ a <= m.
Proof.
  induction files as [| x l IH]; intros f a acc I E; [destruct I |]. cbn [fold_left]. destruct I as [-> | I].
  - unfold ftstep at 2. rewrite E. destruct acc as [c |]; cbn [omax].
    + destruct (ft_fold_some s l (Z.max c a)) as (m & E2 & L). exists m. split; auto. lia.
    + destruct (ft_fold_some s l a) as (m & E2 & L). exists m. split; auto.
  - eapply IH; eauto.
Qed.

Definition is_late_k (allf : list file) (k : key) : bool :=
  match flush_time allf (fst k) with Some ft => snd k <=? ft | None => false end.
Lemma is_late_is_late_k : forall allf r, is_late allf r = is_late_k allf (fst r). Proof. reflexivity. Qed.

Lemma not_late_absent : forall files k f, is_late_k files k = false -> In f files -> get kcmp (f_tab f) k = None.
Proof.
  intros files [s t] f L I. destruct (get kcmp (f_tab f) (s, t)) as [fs |] eqn:G; auto.
  apply (get_in kcmp kc_eq) in G.
  destruct (max_time_in_ge s (f_tab f) t fs G) as (a & Ea & La).
  destruct (ft_fold_in s files f a None I Ea) as (m & Em & Lm).
  unfold is_late_k in L. cbn [fst snd] in L. rewrite flush_time_fold, Em in L. lia.
Qed.

Lemma get_over_none : forall a b k, wf_table a -> wf_table b ->
  get kcmp a k = None -> get kcmp b k = None -> get kcmp (over a b) k = None.
Proof.
  intros a b k [Sa _] [Sb _] Ha Hb. unfold over.
  rewrite (get_merge kcmp kc_eq kc_trans kc_opp fover a b k Sa Sb). rewrite Ha, Hb. reflexivity.
Qed.

Lemma get_prod_none : forall l k, wf_files l -> (forall f, In f l -> get kcmp (f_tab f) k = None) ->
  get kcmp (prod l) k = None.
Proof.
  induction l as [| x l IH]; intros k W H.
  - reflexivity.
  - rewrite prod_cons by exact W. inversion W; subst.
    apply get_over_none; auto using wf_prod.
    + apply IH; auto. intros f I. apply H. right; auto.
    + apply H. left; auto.
Qed.

(* ------------------------------------------------------------------------------------------------------------ *)
(* Part 4: files that are key-filters of one table; placement of the merged rows of an out-of-order merge *)

Definition has_key (k : key) (f : file) : bool := key_in k (f_tab f).
Definition subs (T : table) (l : list file) : Prop := Forall (fun f => exists q, f_tab f = kfilter q T) l.

Lemma key_in_kfilter : forall q T k, wf_table T -> key_in k (kfilter q T) = q k && key_in k T.
Proof.
  intros q T k [S _]. unfold key_in, kfilter.
  pose proof (get_filter kcmp kc_eq q T k S) as G. unfold row, table in *. rewrite G.
  destruct (q k); auto.
Qed.
Lemma key_in_false_get2 : forall T k f, key_in k T = false -> get2 T k f = None.
Proof. intros T k f H. unfold key_in in H. unfold get2. destruct (get kcmp T k); [discriminate | auto]. Qed.

Lemma subs_wf : forall T l, wf_table T -> subs T l -> wf_files l.
Proof.
  intros T l W S. induction S as [| x l (q & E) S IH]; constructor; auto. rewrite E. apply wf_kfilter; auto.
Qed.

Lemma get2_prod_subs : forall T l, wf_table T -> subs T l -> forall k f,
  get2 (prod l) k f = if existsb (has_key k) l then get2 T k f else None.
Proof.
  intros T l W S. induction S as [| x l (q & E) S IH]; intros k f.
  - reflexivity.
  - assert (Wl : wf_files (x :: l)) by (apply (subs_wf T); auto; constructor; eauto).
    rewrite prod_cons by exact Wl. inversion Wl; subst.
    rewrite get2_over; auto using wf_prod. rewrite IH. cbn [existsb]. unfold has_key at 2.
    rewrite E. rewrite key_in_kfilter, get2_kfilter by exact W.
    destruct (existsb (has_key k) l); cbn [orelse].
    + rewrite orb_true_r. destruct (get2 T k f) eqn:G; cbn; auto. destruct (q k); auto.
    + rewrite orb_false_r. destruct (q k); cbn; auto.
      destruct (key_in k T) eqn:KI; auto. apply key_in_false_get2; auto.
Qed.

Lemma existsb_insert_file : forall p f l, existsb p (insert_file f l) = p f || existsb p l.
Proof.
  induction l as [| x l IH]; cbn; auto. destruct (f_seq f <? f_seq x); cbn; auto.
  rewrite IH. destruct (p f), (p x); auto.
Qed.
Lemma existsb_add_file : forall k s t l, existsb (has_key k) (add_file s t l) = key_in k t || existsb (has_key k) l.
Proof.
  intros. unfold add_file. destruct t as [| r t']; [reflexivity |]. rewrite existsb_insert_file. reflexivity.
Qed.
Lemma subs_insert_file : forall T f l, (exists q, f_tab f = kfilter q T) -> subs T l -> subs T (insert_file f l).
Proof.
  intros T f l Hf S. induction S as [| x l Hx S IH]; cbn.
  - constructor; [auto | constructor].
  - destruct (f_seq f <? f_seq x).
    + constructor; [auto | constructor; auto].
    + constructor; auto.
Qed.
Lemma subs_add_file : forall T s q l, subs T l -> subs T (add_file s (kfilter q T) l).
Proof.
  intros. unfold add_file. destruct (kfilter q T) eqn:E; auto. apply subs_insert_file; auto.
  exists q. cbn. auto.
Qed.

Section Placement.
  Variable T : table.
  Variable tg : key -> Z.
  Hypothesis WT : wf_table T.
  Definition placef (l : list file) (sb : Z * list (Z * Z)) : list file :=
    add_file (fst sb) (kfilter (fun k => tg k =? fst sb) T) l.

  Lemma placed_fold : forall bounds l, subs T l ->
    subs T (fold_left placef bounds l) /\
    forall k, existsb (has_key k) (fold_left placef bounds l)
              = existsb (has_key k) l || existsb (fun sb : Z * list (Z * Z) => (tg k =? fst sb) && key_in k T) bounds.
  Proof.
    induction bounds as [| sb bounds IH]; intros l S; cbn [fold_left].
    - split; auto. intro k. cbn. rewrite orb_false_r. reflexivity.
    - assert (S1 : subs T (placef l sb)) by (apply subs_add_file; auto).
      destruct (IH _ S1) as [A B]. split; auto. intro k. rewrite B. unfold placef at 1.
      rewrite existsb_add_file, key_in_kfilter by exact WT. cbn [existsb].
      destruct (tg k =? fst sb), (key_in k T), (existsb (has_key k) l); cbn; auto.
  Qed.

  Lemma place_prod : forall bounds, (forall k, In (tg k) (map fst bounds)) ->
    wf_files (fold_left placef bounds []) /\ prod (fold_left placef bounds []) = T.
  Proof.
    intros bounds Hin. destruct (placed_fold bounds [] (Forall_nil _)) as [S E].
    pose proof (subs_wf T _ WT S) as W. split; auto.
    apply table_ext; auto using wf_prod. intros k f. rewrite (get2_prod_subs T _ WT S). rewrite E. cbn [existsb orb].
    destruct (key_in k T) eqn:KI.
    - assert (X : existsb (fun sb : Z * list (Z * Z) => (tg k =? fst sb) && true) bounds = true).
      { apply existsb_exists. specialize (Hin k). apply in_map_iff in Hin. destruct Hin as (sb & E1 & I).
        exists sb. split; auto. rewrite E1, Z.eqb_refl. reflexivity. }
      rewrite X. reflexivity.
    - rewrite (key_in_false_get2 T k f KI).
      destruct (existsb _ bounds); reflexivity.
  Qed.
End Placement.

Lemma target_in : forall s t bounds fb, In (target s t bounds fb) (fb :: map fst bounds).
Proof.
  induction bounds as [| [seq b] r IH]; intros fb; cbn [target map fst].
  - left; auto.
  - destruct (bound_of s b) as [m |].
    + destruct (t <=? m); [right; left; auto |]. right. apply IH.
    + destruct (IH fb) as [E | I]; [left; auto | right; right; auto].
Qed.
Lemma last_in : forall (bounds : list (Z * list (Z * Z))) d, bounds <> [] -> In (last bounds d) bounds.
Proof.
  induction bounds as [| x l IH]; intros d H; [congruence |]. destruct l as [| y l'].
  - left; auto.
  - right. apply IH. congruence.
Qed.
Lemma target_in_bounds : forall s t bounds, bounds <> [] -> In (target s t bounds (last_seq bounds)) (map fst bounds).
Proof.
  intros s t bounds H. destruct (target_in s t bounds (last_seq bounds)) as [E | I]; auto.
  rewrite <- E. unfold last_seq. apply in_map. apply last_in; auto.
Qed.

(* ------------------------------------------------------------------------------------------------------------ *)
(* Part 5: the invariant *)

Lemma fields_asc_lb : forall r k v, fields_asc ((k, v) :: r) = true -> lb Z.compare k r.
Proof.
  induction r as [| [k2 v2] r IH]; intros k v H.
  - intros k' v' [].
  - cbn [fields_asc fst] in H. apply andb_true_iff in H. destruct H as [H1 H2].
    intros k' v' [E | I].
    + inversion E; subst. apply Z.compare_lt_iff. lia.
    + specialize (IH k2 v2 H2 k' v' I). rewrite Z.compare_lt_iff in IH. apply Z.compare_lt_iff. lia.
Qed.
Lemma fields_asc_sorted : forall fs, fields_asc fs = true -> fsorted fs.
Proof.
  induction fs as [| [k v] r IH]; intros H; cbn; auto. split.
  - eapply fields_asc_lb; eauto.
  - apply IH. destruct r as [| [k2 v2] r']; auto. cbn [fields_asc] in H. apply andb_true_iff in H. tauto.
Qed.
Lemma row_ok_wf : forall r, row_ok r = true -> wf_row r.
Proof.
  intros [k fs] H. unfold row_ok, nonempty in H. cbn [snd] in H. apply andb_true_iff in H. destruct H as [H1 H2].
  split; cbn [snd].
  - apply fields_asc_sorted; auto.
  - destruct fs; congruence.
Qed.
Lemma rows_ok_wf : forall b, forallb row_ok b = true -> wf_raw b.
Proof.
  induction b as [| r b IH]; intros H; [constructor |].
  cbn [forallb] in H. apply andb_true_iff in H. destruct H as [H1 H2]. constructor; [apply row_ok_wf; auto | apply IH; auto].
Qed.

Lemma wf_lww : forall raw, wf_raw raw -> wf_table (lww_table raw).
Proof. intros raw H. apply (lww_table_spec raw H). Qed.

Lemma lww_table_app : forall a b, wf_raw a -> wf_raw b -> lww_table (a ++ b) = over (lww_table b) (lww_table a).
Proof.
  intros a b Wa Wb. assert (Wab : wf_raw (a ++ b)) by (apply Forall_app; auto).
  apply table_ext; auto using wf_lww, wf_over.
  intros k f. rewrite get2_over by auto using wf_lww. apply write_visible; auto.
Qed.

Definition absL (L : layout) : table :=
  over (lww_table (mem L)) (over (lww_table (snap L)) (over (prod (ooo L)) (prod (ord L)))).

Record Core (L : layout) (raw : list row) : Prop := {
  c_mem : wf_raw (mem L);
  c_snap : wf_raw (snap L);
  c_ooo : wf_files (ooo L);
  c_ord : wf_files (ord L);
  c_raw : wf_raw raw;
  c_abs : absL L = lww_table raw
}.
Definition Inv (L : layout) (raw : list row) : Prop := Core L raw /\ mem L = concat (map snd (wal L)).

Lemma core_init : Core init []. Proof. split; cbn; auto; constructor. Qed.
Lemma inv_init : Inv init []. Proof. split; [apply core_init | reflexivity]. Qed.

Lemma write_core : forall L raw b, Core L raw -> wf_raw b -> Core (write b L) (raw ++ b).
Proof.
  intros L raw b [Wm Ws Wu Wo Wr A] Wb. split; cbn [write mem snap ooo ord]; auto.
  - apply Forall_app; auto.
  - apply Forall_app; auto.
  - unfold absL in *. cbn [write mem snap ooo ord]. rewrite !lww_table_app by auto. rewrite <- A.
    rewrite over_assoc; auto 8 using wf_lww, wf_over, wf_prod.
Qed.

Lemma begin_flush_core : forall L raw, Core L raw -> snap L = [] -> Core (begin_flush L) raw.
Proof.
  intros L raw [Wm Ws Wu Wo Wr A] E. split; cbn [begin_flush mem snap ooo ord]; auto.
  - constructor.
  - unfold absL in *. cbn [begin_flush mem snap ooo ord]. rewrite E in A. rewrite <- A.
    change (lww_table []) with (@nil row). rewrite !over_nil_l. reflexivity.
Qed.

Lemma end_flush_core : forall L raw a so su, Core L raw ->
  fresh_seq so (ord L) = true -> fresh_seq su (ooo L) = true -> Core (end_flush a so su L) raw.
Proof.
  intros L raw a so su [Wm Ws Wu Wo Wr A] Fo Fu.
  set (T := lww_table (snap L)).
  set (latek := fun k : key => a || is_late_k (ord L ++ ooo L) k).
  assert (WT : wf_table T) by (apply wf_lww; auto).
  assert (E1 : ooo (end_flush a so su L) = add_file su (kfilter latek T) (ooo L)).
  { unfold end_flush. cbn [ooo]. rewrite sort_dedup_lww. reflexivity. }
  assert (E2 : ord (end_flush a so su L) = add_file so (kfilter (fun k => negb (latek k)) T) (ord L)).
  { unfold end_flush. cbn [ord]. rewrite sort_dedup_lww. reflexivity. }
  destruct (add_file_fresh su (kfilter latek T) (ooo L) Fu (wf_kfilter _ _ WT) Wu) as [Wu' Pu].
  destruct (add_file_fresh so (kfilter (fun k => negb (latek k)) T) (ord L) Fo (wf_kfilter _ _ WT) Wo) as [Wo' Po].
  split; auto.
  - constructor.
  - rewrite E1; auto.
  - rewrite E2; auto.
  - unfold absL in *. rewrite E1, E2, Pu, Po. cbn [end_flush mem snap]. rewrite <- A.
    change (lww_table []) with (@nil row). rewrite over_nil_l. f_equal.
    apply flush_split_invisible; auto using wf_prod.
    intros k Lk _. unfold latek in Lk. apply orb_false_iff in Lk. destruct Lk as [_ Lk]. split.
    + apply get_prod_none; auto. intros f I. eapply not_late_absent; eauto. apply in_or_app; auto.
    + apply get_prod_none; auto. intros f I. eapply not_late_absent; eauto. apply in_or_app; auto.
Qed.

Lemma flush_core : forall L raw a so su, Core L raw -> snap L = [] ->
  fresh_seq so (ord L) = true -> fresh_seq su (ooo L) = true -> Core (flush a so su L) raw.
Proof.
  intros. unfold flush. apply end_flush_core; auto. apply begin_flush_core; auto.
Qed.

Lemma compact_groups_prod : forall grps l, compact_ok grps l = true -> wf_files l ->
  wf_files (fold_left (fun l g => compact_group g l) grps l) /\
  prod (fold_left (fun l g => compact_group g l) grps l) = prod l.
Proof.
  induction grps as [| g grps IH]; intros l H W; cbn [fold_left]; auto.
  cbn [compact_ok] in H. apply andb_true_iff in H. destruct H as [H1 H2].
  assert (X : wf_files (compact_group g l) /\ prod (compact_group g l) = prod l).
  { unfold compact_group. destruct (filter (in_grp g) l) as [| m0 ms] eqn:E; auto.
    rewrite <- E. rewrite ord_prod_prod. apply replace_adjacent_prod; auto. rewrite E. congruence. }
  destruct X as [X1 X2]. destruct (IH _ H2 X1) as [Y1 Y2]. split; auto. congruence.
Qed.

Lemma compact_core : forall L raw grps, Core L raw -> compact_ok grps (ord L) = true -> Core (compact grps L) raw.
Proof.
  intros L raw grps [Wm Ws Wu Wo Wr A] H. destruct (compact_groups_prod grps (ord L) H Wo) as [X1 X2].
  split; cbn [compact mem snap ooo ord]; auto.
  unfold absL in *. cbn [compact mem snap ooo ord]. rewrite X2. exact A.
Qed.

Lemma merge_self_core : forall L raw g n, Core L raw -> adjacent g (ooo L) = true -> Core (merge_self false g n L) raw.
Proof.
  intros L raw g n [Wm Ws Wu Wo Wr A] H. unfold merge_self, merge_self_m. cbn [Z.eqb].
  destruct (filter (in_grp g) (ooo L)) as [| m0 ms] eqn:E.
  - split; auto.
  - rewrite <- E. rewrite ooo_prod_prod.
    destruct (replace_adjacent_prod g (ooo L) n H Wu) as [X1 X2]; [rewrite E; congruence |].
    split; cbn [mem snap ooo ord]; auto.
    unfold absL in *. cbn [mem snap ooo ord]. rewrite X2. exact A.
Qed.

Lemma merge_ooo_core : forall L raw g b, Core L raw -> is_prefix g (ooo L) = true -> b <> [] -> Core (merge_ooo g b L) raw.
Proof.
  intros L raw g b [Wm Ws Wu Wo Wr A] H NB. unfold merge_ooo.
  destruct (prefix_split g (ooo L) H) as (run & post & E & Ar & Np).
  assert (M : filter (in_grp g) (ooo L) = run).
  { rewrite E, filter_app, (filter_allmem g run), (filter_nomem g post), app_nil_r; auto. }
  assert (N : filter (fun f => negb (in_grp g f)) (ooo L) = post).
  { rewrite E, filter_app, (filter_neg_allmem g run), (filter_neg_nomem g post); auto. }
  rewrite M. destruct run as [| x run]; [split; auto |]. rewrite N.
  rewrite E in Wu. apply wf_files_app in Wu. destruct Wu as [Wrun Wpost].
  change (ooo_prod (x :: run)) with (prod (x :: run)). change (ord_prod (ord L)) with (prod (ord L)).
  set (all := over (prod (x :: run)) (prod (ord L))).
  set (tg := fun k : key => target (fst k) (snd k) b (last_seq b)).
  assert (Wall : wf_table all) by (apply wf_over; auto using wf_prod).
  destruct (place_prod all tg Wall b) as [X1 X2].
  { intro k. apply target_in_bounds; auto. }
  split; cbn [mem snap ooo ord]; auto; try exact X1.
  { unfold absL in *. cbn [mem snap ooo ord].
    change (fold_left (fun l sb => add_file (fst sb)
              (filter (fun r : row => target (fst (fst r)) (snd (fst r)) b (last_seq b) =? fst sb) all) l) b [])
      with (fold_left (placef all tg) b []).
    rewrite X2. rewrite <- A. rewrite E. rewrite prod_app by auto. unfold all.
    rewrite <- (over_assoc (prod post)); auto using wf_prod. }
Qed.

Lemma step_inv : forall L raw o, Inv L raw -> op_ok L o = true -> write_ok o = true ->
  Inv (step false L o) (raw ++ match o with Write b => b | _ => [] end).
Proof.
  intros L raw o [C W] OK WO. destruct o as [b | a so su | | a so su | grps | g b | g n | n a so su]; cbn [step];
    try rewrite app_nil_r.
  - split. + apply write_core; auto. apply rows_ok_wf; auto.
    + cbn [write mem wal]. rewrite map_app, concat_app, W. cbn. rewrite app_nil_r. reflexivity.
  - cbn [op_ok] in OK. apply andb_true_iff in OK. destruct OK as [OK S]. apply andb_true_iff in OK. destruct OK as [Fo Fu].
    split. + apply flush_core; auto. destruct (snap L); [auto | discriminate]. + reflexivity.
  - cbn [op_ok] in OK. split.
    + apply begin_flush_core; auto. destruct (snap L); [auto | discriminate]. + reflexivity.
  - cbn [op_ok] in OK. apply andb_true_iff in OK. destruct OK as [Fo Fu].
    split. + apply end_flush_core; auto. + exact W.
  - cbn [op_ok] in OK. split. + apply compact_core; auto. + exact W.
  - cbn [op_ok] in OK. apply andb_true_iff in OK. destruct OK as [OK _]. apply andb_true_iff in OK. destruct OK as [P NB].
    split. + apply merge_ooo_core; auto. destruct b; [discriminate | congruence].
    + unfold merge_ooo. destruct (filter (in_grp g) (ooo L)); exact W.
  - cbn [op_ok] in OK. apply andb_true_iff in OK. destruct OK as [Ad _].
    split. + apply merge_self_core; auto. + exact W.
  - cbn [op_ok] in OK. apply andb_true_iff in OK. destruct OK as [OK S]. apply andb_true_iff in OK. destruct OK as [Fo Fu].
    assert (S0 : snap L = []) by (destruct (snap L); [auto | discriminate]).
    split; [| reflexivity]. unfold reopen. apply flush_core; auto.
    destruct C as [Wm Ws Wu Wo Wr A]. split; cbn [mem snap ooo ord]; auto.
    + unfold replay_repaired. rewrite <- W. auto.
    + constructor.
    + unfold absL in *. cbn [mem snap ooo ord]. unfold replay_repaired. rewrite <- W. rewrite S0 in A. exact A.
Qed.

Lemma run_inv : forall h L raw, Inv L raw -> layout_ok L = true -> allowed_from L h = true ->
  Inv (fold_left (step false) h L) (raw ++ writes_of h) /\ layout_ok (fold_left (step false) h L) = true.
Proof.
  induction h as [| o h IH]; intros L raw I LO A.
  - cbn. rewrite app_nil_r. auto.
  - cbn [allowed_from] in A. repeat (apply andb_true_iff in A; destruct A as [A ?]).
    cbn [fold_left]. unfold writes_of. cbn [map concat]. rewrite app_assoc. apply IH; auto.
    apply step_inv; auto.
Qed.

(* ---- reads ---- *)
Lemma kfilter_over : forall p a b, wf_table a -> wf_table b -> kfilter p (over a b) = over (kfilter p a) (kfilter p b).
Proof.
  intros p a b Wa Wb. apply table_ext; auto using wf_over, wf_kfilter.
  intros k f. rewrite get2_kfilter, !get2_over, !get2_kfilter; auto using wf_over, wf_kfilter.
  destruct (p k); auto.
Qed.

Lemma over_app_lt : forall a b : table,
  (forall ka va kb vb, In (ka, va) a -> In (kb, vb) b -> kcmp ka kb = Lt) -> over b a = a ++ b.
Proof.
  induction a as [| [ka va] a IH]; intros b H.
  - apply over_nil_r.
  - destruct b as [| [kb vb] b'].
    + rewrite over_nil_l, app_nil_r. reflexivity.
    + unfold over. pose proof (merge_cons kcmp fover kb vb b' ka va a) as M. unfold row, table, key, fields in *.
      rewrite M. assert (X : Model.kcmp kb ka = Gt).
      { apply kc_lt_gt. apply (H ka va kb vb); left; auto. }
      rewrite X. cbn [app]. f_equal. apply (IH ((kb, vb) :: b')).
      intros k1 v1 k2 v2 I1 I2. apply (H k1 v1 k2 v2); auto. right; auto.
Qed.

Lemma sel_kfilter : forall s t, sel s t = kfilter (fun k => fst k =? s) t. Proof. reflexivity. Qed.
Lemma in_sel : forall s t k fs, In (k, fs) (sel s t) -> In (k, fs) t /\ fst k = s.
Proof. intros s t k fs I. unfold sel in I. apply filter_In in I. destruct I as [I E]. cbn in E. split; auto. lia. Qed.

Lemma ord_cat_sel : forall l s, wf_files l -> ord_ok_from l = true -> sel s (prod l) = ord_cat s l.
Proof.
  induction l as [| x r IH]; intros s W H.
  - reflexivity.
  - rewrite prod_cons by exact W. inversion W as [| ? ? Wx Wr]; subst.
    cbn [ord_ok_from] in H. apply andb_true_iff in H. destruct H as [H1 H2].
    rewrite sel_kfilter, kfilter_over by auto using wf_prod. rewrite <- !sel_kfilter. rewrite IH by auto.
    change (ord_cat s (x :: r)) with (sel s (f_tab x) ++ ord_cat s r).
    apply over_app_lt. intros ka va kb vb Ia Ib.
    apply in_sel in Ia. destruct Ia as [Ia Ea]. destruct ka as [sa ta]. cbn [fst] in Ea. subst sa.
    unfold ord_cat in Ib. apply in_concat in Ib. destruct Ib as (t & It & Ib).
    apply in_map_iff in It. destruct It as (y & Ey & Iy). subst t.
    apply in_sel in Ib. destruct Ib as [Ib Eb]. destruct kb as [sb tb]. cbn [fst] in Eb. subst sb.
    destruct (max_time_in_ge s (f_tab x) ta va Ia) as (a & Ea & La).
    destruct (min_time_in_le s (f_tab y) tb vb Ib) as (b & Eb & Lb).
    rewrite forallb_forall in H1. specialize (H1 y Iy). rewrite forallb_forall in H1.
    assert (Is : In s (series_of (f_tab x))).
    { unfold series_of. apply in_map_iff. exists ((s, ta), va). split; auto. }
    specialize (H1 s Is). rewrite Ea, Eb in H1.
    unfold kcmp. cbn [fst snd]. rewrite Z.compare_refl. apply Z.compare_lt_iff. lia.
Qed.

Lemma read_series_core : forall L raw s, Core L raw -> ord_ok_from (ord L) = true ->
  read_series L s = sel s (lww_table raw).
Proof.
  intros L raw s [Wm Ws Wu Wo Wr A] H. unfold read_series. rewrite !sort_dedup_lww, ooo_prod_prod.
  rewrite <- (ord_cat_sel (ord L) s Wo H). rewrite <- A. unfold absL.
  rewrite !sel_kfilter. rewrite !kfilter_over; auto 8 using wf_lww, wf_prod, wf_over.
Qed.

(* THE REFINEMENT THEOREM *)
Lemma read_is_lww : forall h, ops_allowed h = true ->
  forall s, read_series (run false h) s = sel s (lww_table (writes_of h)).
Proof.
  intros h A s. destruct (run_inv h init [] inv_init eq_refl A) as [[C _] LO].
  apply read_series_core; auto.
  unfold layout_ok in LO. apply andb_true_iff in LO. tauto.
Qed.

Lemma writes_wf : forall h L, allowed_from L h = true -> wf_raw (writes_of h).
Proof.
  induction h as [| o h IH]; intros L A.
  - constructor.
  - cbn [allowed_from] in A. repeat (apply andb_true_iff in A; destruct A as [A ?]).
    unfold writes_of. cbn [map concat]. apply Forall_app. split; [| eapply IH; eauto].
    destruct o; try constructor. apply rows_ok_wf; auto.
Qed.

(* ---- rows come back sorted by time with no duplicate timestamps ---- *)
Definition t_lt (x y : row) : Prop := snd (fst x) < snd (fst y).
Definition t_gt (x y : row) : Prop := snd (fst y) < snd (fst x).
Definition time_ordered (asc : bool) (s : Z) (l : list row) : Prop :=
  StronglySorted (if asc then t_lt else t_gt) l /\ Forall (fun r : row => fst (fst r) = s /\ snd r <> []) l.

Lemma ssorted_filter : forall (R : row -> row -> Prop) p l, StronglySorted R l -> StronglySorted R (filter p l).
Proof.
  induction l as [| x l IH]; intros S; cbn; auto. inversion S as [| ? ? S' F]; subst.
  destruct (p x); auto. constructor; auto.
  apply Forall_forall. intros y I. apply filter_In in I. destruct I as [I _].
  rewrite Forall_forall in F. auto.
Qed.
Lemma ssorted_map : forall (R : row -> row -> Prop) (f : row -> row), (forall x y, R x y -> R (f x) (f y)) ->
  forall l, StronglySorted R l -> StronglySorted R (map f l).
Proof.
  intros R f H. induction l as [| x l IH]; intros S; cbn; [constructor |]. inversion S as [| ? ? S' F]; subst.
  constructor; auto. apply Forall_forall. intros y I. apply in_map_iff in I. destruct I as (z & <- & I).
  rewrite Forall_forall in F. auto.
Qed.
Lemma ssorted_snoc : forall (R : row -> row -> Prop) l x, StronglySorted R l -> (forall y, In y l -> R y x) ->
  StronglySorted R (l ++ [x]).
Proof.
  induction l as [| z l IH]; intros x S H; cbn.
  - constructor; [constructor | constructor].
  - inversion S as [| ? ? S' F]; subst. constructor.
    + apply IH; auto. intros y I. apply H. right; auto.
    + apply Forall_app. split; auto. constructor; [| constructor]. apply H. left; auto.
Qed.
Lemma ssorted_rev : forall l, StronglySorted t_lt l -> StronglySorted t_gt (rev l).
Proof.
  induction l as [| x l IH]; intros S; cbn; [constructor |]. inversion S as [| ? ? S' F]; subst.
  apply ssorted_snoc; auto. intros y I. apply in_rev in I. rewrite Forall_forall in F. apply (F y I).
Qed.

Lemma tsorted_ssorted : forall s (l : table), tsorted l -> (forall k fs, In (k, fs) l -> fst k = s) -> StronglySorted t_lt l.
Proof.
  induction l as [| [k v] r IH]; intros S H; [constructor |]. destruct S as [L S]. constructor.
  - apply IH; auto. intros k' fs' I. apply (H k' fs'). right; auto.
  - apply Forall_forall. intros [k' v'] I. specialize (L k' v' I).
    assert (E1 : fst k = s) by (apply (H k v); left; auto).
    assert (E2 : fst k' = s) by (apply (H k' v'); right; auto).
    destruct k as [a b], k' as [a' b']. cbn [fst] in *. subst a a'. unfold t_lt. cbn [fst snd].
    unfold kcmp in L. cbn [fst snd] in L. rewrite Z.compare_refl in L. apply Z.compare_lt_iff. exact L.
Qed.

Lemma shape_time_ordered : forall T s tmin tmax fs asc, wf_table T ->
  time_ordered asc s (shape tmin tmax fs asc (sel s T)).
Proof.
  intros T s tmin tmax fs asc W.
  assert (WS : wf_table (sel s T)) by (rewrite sel_kfilter; apply wf_kfilter; auto).
  set (rows := filter nonempty (map (project fs)
                (filter (fun r : row => (tmin <=? snd (fst r)) && (snd (fst r) <=? tmax)) (sel s T)))).
  assert (S : StronglySorted t_lt rows).
  { apply ssorted_filter. apply ssorted_map; [intros x y H; exact H |]. apply ssorted_filter.
    apply (tsorted_ssorted s); [apply WS |]. intros k v I. apply in_sel in I. tauto. }
  assert (F : Forall (fun r : row => fst (fst r) = s /\ snd r <> []) rows).
  { apply Forall_forall. intros x I. unfold rows in I. apply filter_In in I. destruct I as [I NE].
    apply in_map_iff in I. destruct I as (z & <- & I). apply filter_In in I. destruct I as [I _].
    destruct z as [k v]. apply in_sel in I. split; [cbn; tauto |].
    unfold nonempty in NE. destruct (snd (project fs (k, v))); congruence. }
  unfold shape. fold rows. destruct asc; split; auto.
  - apply ssorted_rev; auto.
  - apply Forall_forall. intros x I. apply in_rev in I. rewrite Forall_forall in F. auto.
Qed.

Lemma read_sorted : forall h, ops_allowed h = true -> forall s tmin tmax fs asc,
  time_ordered asc s (read_layout (run false h) s tmin tmax fs asc).
Proof.
  intros h A s tmin tmax fs asc. unfold read_layout. rewrite (read_is_lww h A).
  apply shape_time_ordered. apply wf_lww. eapply writes_wf; eauto.
Qed.

Lemma read_layout_is_lww : forall h, ops_allowed h = true -> forall s tmin tmax fs asc,
  read_layout (run false h) s tmin tmax fs asc = shape tmin tmax fs asc (sel s (lww_table (writes_of h))).
Proof. intros h A s tmin tmax fs asc. unfold read_layout. rewrite (read_is_lww h A). reflexivity. Qed.

(* field level: what a read holds at (series, time, field) is the value the replay of the writes left there *)
Lemma read_lookup_is_replay : forall h, ops_allowed h = true -> forall s t f,
  get2 (read_series (run false h) s) (s, t) f = lww_get (writes_of h) (s, t) f.
Proof.
  intros h A s t f. rewrite (read_is_lww h A). pose proof (writes_wf h init A) as W.
  destruct (lww_table_spec _ W) as [WT E]. rewrite sel_kfilter, get2_kfilter by exact WT.
  cbn [fst]. rewrite Z.eqb_refl. apply E.
Qed.

Lemma descending_is_reverse : forall L s tmin tmax fs,
  read_layout L s tmin tmax fs false = rev (read_layout L s tmin tmax fs true).
Proof. reflexivity. Qed.

(* the variant selector of the evaluator: run2 false 0 is the repaired model *)
Lemma run2_repaired : forall h, run2 false 0 h = run false h.
Proof.
  intro h. unfold run2, run. generalize init. induction h as [| o h IH]; intro L; cbn [fold_left]; auto.
Qed.

(* allowed histories are prefix-closed; an op that is not a write changes no read *)
Lemma allowed_app : forall h1 h2 L, allowed_from L (h1 ++ h2) = true ->
  allowed_from L h1 = true /\ allowed_from (fold_left (step false) h1 L) h2 = true.
Proof.
  induction h1 as [| o h1 IH]; intros h2 L A; cbn [app allowed_from fold_left] in *; auto.
  apply andb_true_iff in A. destruct A as [A1 A2]. destruct (IH _ _ A2) as [B1 B2]. rewrite A1, B1. auto.
Qed.
Lemma writes_of_app : forall h1 h2, writes_of (h1 ++ h2) = writes_of h1 ++ writes_of h2.
Proof. intros. unfold writes_of. rewrite map_app, concat_app. reflexivity. Qed.

Lemma reorganisation_invisible : forall h o, ops_allowed (h ++ [o]) = true -> write_free o = true ->
  forall s, read_series (run false (h ++ [o])) s = read_series (run false h) s.
Proof.
  intros h o A NW s. destruct (allowed_app h [o] init A) as [A1 _].
  rewrite (read_is_lww _ A), (read_is_lww _ A1). rewrite writes_of_app.
  destruct o; try discriminate; unfold writes_of; cbn [map concat]; rewrite !app_nil_r; reflexivity.
Qed.

(* the evaluator's verdict "no mismatch" on the repaired variant implies the hypothesis of the theorems: every history
   the correspondence accepts is an allowed history *)
Lemma step2_repaired : forall L o, step2 false 0 L o = step false L o.
Proof. intros L o. destruct o; reflexivity. Qed.
Lemma check_from_allowed : forall h nser i L, check_from false 0 nser i L h = None -> allowed_from L (map fst h) = true.
Proof.
  induction h as [| [o ob] h IH]; intros nser i L H; cbn [map fst allowed_from]; auto.
  cbn [check_from] in H.
  assert (SO : step_obs false 0 nser L o (o_dump ob) = step false L o) by (destruct o; reflexivity).
  rewrite SO in H. clear SO.
  destruct (op_ok L o && write_ok o) eqn:E1; cbn [negb] in H; [| discriminate].
  destruct (layout_ok (step false L o)) eqn:E2; cbn [negb] in H; [| discriminate].
  cbn [andb].
  destruct (negb (list_eqb row_eqb (read_all nser (step false L o)) (o_dump ob))); [discriminate |].
  destruct (negb (list_eqb fobs_eqb (files_obs nser (ord (step false L o))) (o_ord ob))); [discriminate |].
  destruct (negb (list_eqb fobs_eqb (files_obs nser (ooo (step false L o))) (o_ooo ob))); [discriminate |].
  destruct (negb (reads_ok nser (step false L o) (o_reads ob))); [discriminate |].
  eapply IH; eauto.
Qed.
Lemma check_case_allowed : forall c, check_case false 0 c = None -> ops_allowed (map fst (snd c)) = true.
Proof. intros c H. unfold check_case in H. eapply check_from_allowed; eauto. Qed.
